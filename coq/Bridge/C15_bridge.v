(* Bridge between the crossing predicate translated from geometry.pyx on this
   run (Gen/PnpolyGen.v : gen_cross, with the division as written in the source)
   and the hand-written division-free predicate the proofs are about
   (Model/C15.v : model_cross).  Every theorem of Proofs/C15.v is restated here
   for the generated predicate.  If the .pyx changes its meaning, either
   [gen_cross_is_model] stops compiling or the correspondence run disagrees. *)
From Coq Require Import ZArith QArith List Bool Lqa.
From Verif Require Import Model.C15 Proofs.C15 Proofs.C15_sweep Proofs.C15_copy Gen.PnpolyGen.
Import ListNotations.
Open Scope Q_scope.

Definition gen_cross_pt (vi vj p : pt) : bool :=
  gen_cross (fst vi) (snd vi) (fst vj) (snd vj) (fst p) (snd p).

Lemma gen_cross_is_model vi vj p : gen_cross_pt vi vj p = model_cross vi vj p.
Proof.
  destruct vi as [xi yi], vj as [xj yj], p as [x y].
  unfold gen_cross_pt, gen_cross, model_cross, g_le, g_lt, g_eq, Qleb, Qltb.
  cbn [fst snd].
  destruct (Qeq_dec yj yi) as [E|N].
  - set (t := (xj - xi) * (y - yi) / (yj - yi)). clearbody t.
    qdestr; simpl; try reflexivity; exfalso; lra.
  - set (t := (xj - xi) * (y - yi) / (yj - yi)).
    assert (Et : t * (yj - yi) == (xj - xi) * (y - yi))
      by (unfold t; field; intros Z; apply N; lra).
    clearbody t.
    qdestr; simpl; try reflexivity; exfalso; nra.
Qed.

Definition gen_pip := pip gen_cross_pt.
Definition gen_filter := pf_filter gen_cross_pt.

Lemma gen_pip_model poly p : gen_pip poly p = pip model_cross poly p.
Proof. apply pip_ext. exact gen_cross_is_model. Qed.

Lemma gen_cross_sym a b p : gen_cross_pt a b p = gen_cross_pt b a p.
Proof. rewrite !gen_cross_is_model. apply model_cross_sym. Qed.

Lemma gen_cross_flat a p : gen_cross_pt a a p = false.
Proof. rewrite gen_cross_is_model. apply model_cross_flat. Qed.

Lemma gen_generic_agrees poly p :
  (forall v, In v poly -> ~ snd v == snd p) ->
  gen_pip poly p = spec_inside poly p.
Proof. rewrite gen_pip_model. apply generic_agrees. Qed.

Lemma gen_halfopen_is_perturbation poly p :
  on_boundary poly p = false ->
  exists d, 0 < d /\ forall e, 0 < e -> e < d ->
    (forall v, In v poly -> ~ snd v == snd p + e)
    /\ gen_pip poly p = spec_inside poly (fst p, snd p + e).
Proof. rewrite gen_pip_model. apply halfopen_is_perturbation. Qed.

Lemma gen_rotate_invariant l1 l2 p : gen_pip (l1 ++ l2) p = gen_pip (l2 ++ l1) p.
Proof. apply rotate_invariant. Qed.

Lemma gen_reverse_invariant poly p : gen_pip (rev poly) p = gen_pip poly p.
Proof. apply reverse_invariant. exact gen_cross_sym. Qed.

Lemma gen_repeated_vertex_invariant l1 v l2 p :
  gen_pip (l1 ++ v :: v :: l2) p = gen_pip (l1 ++ v :: l2) p.
Proof. apply repeated_vertex_invariant. exact gen_cross_flat. Qed.

Lemma gen_closing_vertex_invariant v0 t p :
  gen_pip ((v0 :: t) ++ [v0]) p = gen_pip (v0 :: t) p.
Proof. apply closing_vertex_invariant. exact gen_cross_flat. Qed.

Lemma gen_invert_complement poly pts :
  gen_filter true poly pts = map negb (gen_filter false poly pts)
  /\ length (gen_filter true poly pts) = length pts
  /\ forall k p, nth_error pts k = Some p ->
       nth_error (gen_filter false poly pts) k = Some (gen_pip poly p)
       /\ nth_error (gen_filter true poly pts) k = Some (negb (gen_pip poly p)).
Proof. apply invert_complement. Qed.

Lemma gen_sweep zpoly zp :
  (length zpoly = 3%nat /\ Forall (fun v => In v (zgrid 4)) zpoly /\ In zp (zquery 4))
  \/ (length zpoly = 4%nat /\ Forall (fun v => In v (zgrid 3)) zpoly /\ In zp (zquery 3)) ->
  on_boundary (map inj zpoly) (inj zp) = false ->
  gen_pip (map inj zpoly) (inj zp) = winding_odd (map inj zpoly) (inj zp)
  /\ gen_pip (map inj zpoly) (inj zp) = pip cross_left (map inj zpoly) (inj zp)
  /\ (winding4 (map inj zpoly) (inj zp) mod 4 = 0)%Z.
Proof. rewrite gen_pip_model. apply sweep_theorem_z. Qed.

Definition gen_apply := pf_apply gen_cross_pt.

Lemma gen_copy_invert_complement (f : pfilter Q) r pts :
  gen_apply (fst (pf_copy f true r)) pts = map negb (gen_apply f pts)
  /\ gen_apply (fst (pf_copy f false r)) pts = gen_apply f pts.
Proof. split; [apply copy_invert_complement|apply copy_plain_same]. Qed.

Lemma gen_copy_invert_involution (f : pfilter Q) r r' pts :
  let g := fst (pf_copy (fst (pf_copy f true r)) true r') in
  gen_apply g pts = gen_apply f pts
  /\ f_inv Q g = f_inv Q f /\ f_ax Q g = f_ax Q f /\ f_ay Q g = f_ay Q f
  /\ f_name Q g = f_name Q f /\ f_pts Q g = f_pts Q f.
Proof. split; [apply copy_invert_involution_filter|apply copy_invert_involution]. Qed.
