(* Bridge between the crossing predicate translated from geometry.pyx on this
   run (Gen/PnpolyGen.v : gen_cross, with the division as written in the source)
   and the hand-written division-free predicate the proofs are about
   (Model/C15.v : model_cross).  Every theorem of Proofs/C15.v is restated here
   for the generated predicate.  If the .pyx changes its meaning, either
   [gen_cross_is_model] stops compiling or the correspondence run disagrees. *)
From Coq Require Import ZArith QArith List Bool Lqa.
From Verif Require Import Model.C15 Proofs.C15 Proofs.C15_rays Proofs.C15_winding Proofs.C15_copy Proofs.C15_persist Gen.PnpolyGen.
Import ListNotations.
Open Scope Q_scope.

Definition gen_cross_pt (vi vj p : pt) : bool :=
  gen_cross (fst vi) (snd vi) (fst vj) (snd vj) (fst p) (snd p).

Lemma gen_cross_is_model vi vj p : gen_cross_pt vi vj p = model_cross vi vj p.
Proof.
  destruct vi as [xi yi], vj as [xj yj], p as [x y].
  unfold gen_cross_pt, gen_cross, model_cross, g_le, g_lt, g_eq, Qleb, Qltb.
  cbn [fst snd].
  destruct (Qeq_dec yj yi) as [E|N].
  - set (t := (xj - xi) * (y - yi) / (yj - yi)). clearbody t.
    qdestr; simpl; try reflexivity; exfalso; lra.
  - set (t := (xj - xi) * (y - yi) / (yj - yi)).
    assert (Et : t * (yj - yi) == (xj - xi) * (y - yi))
      by (unfold t; field; intros Z; apply N; lra).
    clearbody t.
    qdestr; simpl; try reflexivity; exfalso; nra.
Qed.

Definition gen_pip := pip gen_cross_pt.
Definition gen_filter := pf_filter gen_cross_pt.

Lemma gen_pip_model poly p : gen_pip poly p = pip model_cross poly p.
Proof. apply pip_ext. exact gen_cross_is_model. Qed.

Lemma gen_cross_sym a b p : gen_cross_pt a b p = gen_cross_pt b a p.
Proof. rewrite !gen_cross_is_model. apply model_cross_sym. Qed.

Lemma gen_cross_flat a p : gen_cross_pt a a p = false.
Proof. rewrite gen_cross_is_model. apply model_cross_flat. Qed.

Lemma gen_generic_agrees poly p :
  (forall v, In v poly -> ~ snd v == snd p) ->
  gen_pip poly p = spec_inside poly p.
Proof. rewrite gen_pip_model. apply generic_agrees. Qed.

Lemma gen_halfopen_is_perturbation poly p :
  on_boundary poly p = false ->
  exists d, 0 < d /\ forall e, 0 < e -> e < d ->
    (forall v, In v poly -> ~ snd v == snd p + e)
    /\ gen_pip poly p = spec_inside poly (fst p, snd p + e).
Proof. rewrite gen_pip_model. apply halfopen_is_perturbation. Qed.

Lemma gen_rotate_invariant l1 l2 p : gen_pip (l1 ++ l2) p = gen_pip (l2 ++ l1) p.
Proof. apply rotate_invariant. Qed.

Lemma gen_reverse_invariant poly p : gen_pip (rev poly) p = gen_pip poly p.
Proof. apply reverse_invariant. exact gen_cross_sym. Qed.

Lemma gen_repeated_vertex_invariant l1 v l2 p :
  gen_pip (l1 ++ v :: v :: l2) p = gen_pip (l1 ++ v :: l2) p.
Proof. apply repeated_vertex_invariant. exact gen_cross_flat. Qed.

Lemma gen_closing_vertex_invariant v0 t p :
  gen_pip ((v0 :: t) ++ [v0]) p = gen_pip (v0 :: t) p.
Proof. apply closing_vertex_invariant. exact gen_cross_flat. Qed.

Lemma gen_invert_complement poly pts :
  gen_filter true poly pts = map negb (gen_filter false poly pts)
  /\ length (gen_filter true poly pts) = length pts
  /\ forall k p, nth_error pts k = Some p ->
       nth_error (gen_filter false poly pts) k = Some (gen_pip poly p)
       /\ nth_error (gen_filter true poly pts) k = Some (negb (gen_pip poly p)).
Proof. apply invert_complement. Qed.

(* the result is the parity of the winding number, for every polygon *)
Lemma gen_winding_parity poly p :
  on_boundary poly p = false ->
  gen_pip poly p = winding_odd poly p /\ (winding4 poly p mod 4 = 0)%Z.
Proof. rewrite gen_pip_model. apply winding_agrees. Qed.

Lemma gen_left_ray poly p :
  on_boundary poly p = false ->
  gen_pip poly p = pip cross_left poly p
  /\ ((forall v, In v poly -> ~ snd v == snd p) ->
      gen_pip poly p = spec_inside poly p /\ spec_inside poly p = spec_inside_left poly p).
Proof.
  intros Hb. rewrite gen_pip_model. split; [now apply left_ray_agrees|].
  intros Hg. split; [now apply generic_agrees|now apply left_right_generic].
Qed.

(* PolygonFilter.filter, with inversion, point by point *)
Lemma gen_filter_winding inv poly pts k p :
  nth_error pts k = Some p -> on_boundary poly p = false ->
  nth_error (gen_filter inv poly pts) k = Some (xorb inv (winding_odd poly p)).
Proof.
  intros Hk Hb. destruct (gen_winding_parity poly p Hb) as [E _].
  destruct (gen_invert_complement poly pts) as (_ & _ & H).
  destruct (H k p Hk) as [H0 H1]. rewrite <- E.
  destruct inv; cbn [xorb]; [exact H1|].
  rewrite H0. now destruct (gen_pip poly p).
Qed.

Definition gen_apply := pf_apply gen_cross_pt.

Lemma gen_copy_invert_complement (f : pfilter Q) r pts :
  gen_apply (fst (pf_copy f true r)) pts = map negb (gen_apply f pts)
  /\ gen_apply (fst (pf_copy f false r)) pts = gen_apply f pts.
Proof. split; [apply copy_invert_complement|apply copy_plain_same]. Qed.

Lemma gen_copy_invert_involution (f : pfilter Q) r r' pts :
  let g := fst (pf_copy (fst (pf_copy f true r)) true r') in
  gen_apply g pts = gen_apply f pts
  /\ f_inv Q g = f_inv Q f /\ f_ax Q g = f_ax Q f /\ f_ay Q g = f_ay Q f
  /\ f_name Q g = f_name Q f /\ f_pts Q g = f_pts Q f.
Proof. split; [apply copy_invert_involution_filter|apply copy_invert_involution]. Qed.

(* "every classification": the reloaded filters classify every point as the saved ones *)
Lemma gen_roundtrip_classification
      (fmtf : Q -> str) (parsef : str -> option Q) (fmt8 : Z -> str) (parse_int : str -> option Z) :
  (forall v, parsef (fmtf v) = Some v) ->
  (forall v, token_ok (fmtf v) = true) ->
  (forall n, (0 <= n)%Z -> parse_int (fmt8 n) = Some n) ->
  (forall n, (0 <= n)%Z -> digits_ok (fmt8 n) = true) ->
  forall (fs : list (pfilter Q)) (ids0 : list Z) (c0 : Z),
    Forall (fun f => wf_filter f = true) fs ->
    NoDup (map (f_id Q) fs) ->
    (forall f, In f fs -> ~ In (f_id Q f) ids0) ->
    exists fs' r',
      import_all Q parsef parse_int (save_all Q fmtf fmt8 fs) (ids0, c0) = (LOk fs', r')
      /\ length fs' = length fs
      /\ forall k f f' pts, nth_error fs k = Some f -> nth_error fs' k = Some f' ->
           gen_apply f' pts = gen_apply f pts /\ f_inv Q f' = f_inv Q f
           /\ f_id Q f' = f_id Q f /\ f_name Q f' = f_name Q f
           /\ f_ax Q f' = f_ax Q f /\ f_ay Q f' = f_ay Q f.
Proof.
  intros H1 H2 H3 H4 fs ids0 c0 Hwf Hnd Hnew.
  destruct (roundtrip_partial Q fmtf parsef fmt8 parse_int H1 H2 H3 H4 fs ids0 c0 Hwf Hnd Hnew)
    as (c' & E & _).
  exists fs, (ids0 ++ map (f_id Q) fs, c'). split; [exact E|]. split; [reflexivity|].
  intros k f f' pts Hf Hf'. rewrite Hf in Hf'. injection Hf' as <-. repeat split.
Qed.
