(* Bridge between the arithmetic translated from dclab/downsampling.pyx on this
   run (Gen/DownsampleGen.v: norm / grid cell, the conditions and amounts of
   the remove / add / pad branches, the guards of the grid step and of
   downsample_rand) and the hand-written model the proofs are about
   (Model/C16.v).  The functions [gen_*] below are the model's functions with
   every arithmetic piece replaced by its translation; they are proved equal
   to the model and the property theorems are restated for them.  If the .pyx
   changes its meaning, a lemma here stops compiling (or the translator fails
   closed and Gen/DownsampleGen.v is missing), even though the stale binary
   still behaves well. *)
From Coq Require Import ZArith QArith Qround List Bool Lia Field MSets.MSetPositive.
From Verif Require Import Model.C16 Proofs.C16 Gen.DownsampleGen.
Import ListNotations.
Open Scope Z_scope.

(* ---- the pieces --------------------------------------------------------- *)
Lemma gen_cell_is_model z mn mx :
  0 < mx - mn -> gen_cell z mn mx = ((z - mn) * 299) / (mx - mn).
Proof.
  intros Hp. unfold gen_cell, gen_norm.
  assert (E : ((inject_Z z - inject_Z mn) / (inject_Z mx - inject_Z mn)
               * (inject_Z 300 - inject_Z 1) ==
               inject_Z ((z - mn) * 299) / inject_Z (mx - mn))%Q).
  { unfold Z.sub. rewrite inject_Z_mult, !inject_Z_plus, !inject_Z_opp.
    change (inject_Z 299) with (inject_Z 300 - inject_Z 1)%Q.
    field. intros H. unfold Qminus in H.
    rewrite <- inject_Z_opp, <- inject_Z_plus in H.
    unfold Qeq, inject_Z in H. cbn [Qnum Qden] in H. lia. }
  rewrite E. destruct (mx - mn) as [|pp|pp] eqn:Ep; try lia.
  rewrite <- Qmake_Qdiv. reflexivity.
Qed.

Lemma gen_grid_cond_is_model s n :
  gen_grid_cond s n = negb (s =? 0) && (s <? n).
Proof. reflexivity. Qed.

Lemma gen_diff_is_model k s : gen_diff k s = k - s.
Proof. reflexivity. Qed.

Lemma gen_rem_is_model d : gen_rem_cond d = (d >? 0) /\ gen_rem_size d = d.
Proof. split; reflexivity. Qed.

Lemma gen_add_is_model d :
  gen_add_cond d = (d <? 0) /\ (d <? 0 = true -> gen_add_size d = - d).
Proof. split; [reflexivity|]. unfold gen_add_size. lia. Qed.

Lemma gen_pad_is_model ri s ksz ks :
  gen_pad_guard ri = negb ri /\
  gen_diff_bad s ksz ks = (if s =? 0 then ksz else s) - ks /\
  (forall d, gen_pad_cond d = (d >? 0) /\ gen_pad_size d = d).
Proof. repeat split. Qed.

Lemma gen_rand_is_model s n :
  gen_rand_cond s n = negb (s =? 0) && (s <? n) /\ gen_rand_size s n = s.
Proof. split; reflexivity. Qed.

(* keyword defaults of the two signatures: remove_invalid=False, ret_idx=False
   (the dataset level relies on the first one in filter.py) *)
Lemma gen_defaults_are_false :
  gen_grid_defaults = (false, false) /\ gen_rand_defaults = (false, false).
Proof. split; reflexivity. Qed.

(* ---- the model's functions assembled from the translated pieces --------- *)
Definition gen_discretize (ad : list Z) : list Z :=
  match ad with
  | [] => []
  | z0 :: r =>
      let mn := zmin_list z0 r in
      let mx := zmax_list z0 r in
      if mx - mn =? 0 then nan_cast (length ad)
      else map (fun z => gen_cell z mn mx) ad
  end.

Lemma gen_discretize_is_model ad : gen_discretize ad = discretize ad.
Proof.
  destruct ad as [|z0 r]; [reflexivity|]. unfold gen_discretize, discretize.
  destruct (fold_min_le r z0) as [Hmn _]. destruct (fold_max_ge r z0) as [Hmx _].
  unfold zmin_list, zmax_list in *.
  destruct (fold_left Z.max r z0 - fold_left Z.min r z0 =? 0) eqn:E; [reflexivity|].
  apply map_ext. intros z. apply gen_cell_is_model. lia.
Qed.

Section Assembled.
  Variable rng : Type.
  Variable seed47 : rng.
  Variable choice_st : rng -> Z -> Z -> list Z * rng.

  Definition gen_adjust (g : rng) (keepd : list bool) (samples : Z)
    : option (list bool) * rng :=
    let diff := gen_diff (count_true keepd) samples in
    if gen_rem_cond diff then
      match np_choice rng choice_st seed47 (where_ keepd) (gen_rem_size diff) with
      | (Some rem, g') => (Some (assign keepd rem false), g')
      | (None, g') => (None, g')
      end
    else if gen_add_cond diff then
      match np_choice rng choice_st seed47 (where_ (map negb keepd)) (gen_add_size diff) with
      | (Some add, g') => (Some (assign keepd add true), g')
      | (None, g') => (None, g')
      end
    else (Some keepd, g).

  Lemma gen_adjust_is_model g keepd samples :
    gen_adjust g keepd samples = adjust rng seed47 choice_st g keepd samples.
  Proof.
    unfold gen_adjust, adjust, gen_diff, gen_rem_cond, gen_rem_size, gen_add_cond.
    destruct (count_true keepd - samples >? 0); [reflexivity|].
    destruct (count_true keepd - samples <? 0) eqn:E; [|reflexivity].
    destruct (gen_add_is_model (count_true keepd - samples)) as [_ H].
    rewrite (H E). reflexivity.
  Qed.

  Definition gen_grid_phase (g : rng) (ad bd : list Z) (samples : Z)
             (good keep0 : list bool) : (list bool + error) * rng :=
    if gen_grid_cond samples (zlen ad) then
      match populate (gen_discretize ad) (gen_discretize bd) PositiveSet.empty with
      | None => (inr ErrIndex, g)
      | Some keepd =>
          match gen_adjust g keepd samples with
          | (Some keepdb, g') => (inl (scatter good keepdb keep0), g')
          | (None, g') => (inr ErrValue, g')
          end
      end
    else (inl keep0, g).

  Lemma gen_grid_phase_is_model g ad bd samples good keep0 :
    gen_grid_phase g ad bd samples good keep0
    = grid_phase rng seed47 choice_st g ad bd samples good keep0.
  Proof.
    unfold gen_grid_phase, grid_phase. rewrite !gen_discretize_is_model.
    unfold gen_grid_cond. destruct (negb (samples =? 0) && (samples <? zlen ad)); [|reflexivity].
    destruct (populate (discretize ad) (discretize bd) PositiveSet.empty); [|reflexivity].
    now rewrite gen_adjust_is_model.
  Qed.

  Definition gen_pad_phase (g : rng) (keep1 bad : list bool) (samples : Z)
             (remove_invalid : bool) : (list bool + error) * rng :=
    if gen_pad_guard remove_invalid then
      let diff_bad := gen_diff_bad samples (zlen keep1) (count_true keep1) in
      if gen_pad_cond diff_bad then
        match np_choice rng choice_st seed47 (where_ bad) (gen_pad_size diff_bad) with
        | (Some add_bad, g') => (inl (assign keep1 add_bad true), g')
        | (None, g') => (inr ErrValue, g')
        end
      else (inl keep1, g)
    else (inl keep1, g).

  Lemma gen_pad_phase_is_model g keep1 bad samples ri :
    gen_pad_phase g keep1 bad samples ri
    = pad_phase rng seed47 choice_st g keep1 bad samples ri.
  Proof.
    unfold gen_pad_phase, pad_phase, gen_pad_guard, gen_diff_bad, gen_pad_cond, gen_pad_size.
    destruct ri; reflexivity.
  Qed.

  Definition gen_downsample_grid (g : rng) (a b : list fval) (samples : Z)
             (remove_invalid : bool) : result * rng :=
    let bad := map2 orb (map is_bad a) (map is_bad b) in
    let good := map negb bad in
    let ad := map fin_val (select good a) in
    let bd := map fin_val (select good b) in
    match gen_grid_phase g ad bd samples good good with
    | (inr e, g1) => (Err e, g1)
    | (inl keep1, g1) =>
        match gen_pad_phase g1 keep1 bad samples remove_invalid with
        | (inr e, g2) => (Err e, g2)
        | (inl keep, g2) => (Ok (select keep a) (select keep b) keep, g2)
        end
    end.

  Lemma gen_downsample_grid_is_model g a b samples ri :
    gen_downsample_grid g a b samples ri
    = downsample_grid rng seed47 choice_st g a b samples ri.
  Proof.
    unfold gen_downsample_grid, downsample_grid. rewrite gen_grid_phase_is_model.
    destruct (grid_phase rng seed47 choice_st g _ _ samples _ _) as [[k|e] g1]; [|reflexivity].
    now rewrite gen_pad_phase_is_model.
  Qed.

  (* downsample_rand: the guard and the amount drawn *)
  Definition gen_rand_keep (pool : list fval) (samples : Z)
    : option (list bool) * rng :=
    if gen_rand_cond samples (zlen pool) then
      match np_choice rng choice_st seed47 (arange (length pool))
                      (gen_rand_size samples (zlen pool)) with
      | (Some keep_ids, g') => (Some (assign (zeros pool) keep_ids true), g')
      | (None, g') => (None, g')
      end
    else (Some (ones pool), seed47).

  Definition gen_downsample_rand (g : rng) (a : list fval) (samples : Z)
             (remove_invalid : bool) : result * rng :=
    let bad := map is_bad a in
    let pool := if remove_invalid then select (map negb bad) a else a in
    match gen_rand_keep pool samples with
    | (None, g1) => (Err ErrValue, g1)
    | (Some keep, g1) =>
        (Ok (select keep pool) []
            (if remove_invalid then scatter (map negb bad) keep (zeros a) else keep), g1)
    end.

  Lemma gen_downsample_rand_is_model g a samples ri :
    gen_downsample_rand g a samples ri
    = downsample_rand rng seed47 choice_st g a samples ri.
  Proof.
    unfold gen_downsample_rand, downsample_rand, gen_rand_keep, gen_rand_cond, gen_rand_size.
    set (pool := if ri then select (map negb (map is_bad a)) a else a).
    destruct (negb (samples =? 0) && (samples <? zlen pool)); [|reflexivity].
    destruct (np_choice rng choice_st seed47 (arange (length pool)) samples) as [[k|] g1]; reflexivity.
  Qed.

  (* ---- the property theorems for the functions assembled from the source -- *)
  Hypothesis Hch : choice_ok seed47 choice_st.

  Lemma gen_grid_count g a b samples ri :
    length a = length b -> 0 <= samples ->
    no_constant_axis a b samples = true ->
    (ri = false -> samples <= zlen a) ->
    exists keep g',
      gen_downsample_grid g a b samples ri
      = (Ok (select keep a) (select keep b) keep, g') /\
      length keep = length a /\
      count_true keep = spec_count samples
                          (if ri then count_true (good_mask a b) else zlen a) /\
      count_true (map2 andb keep (good_mask a b))
      = spec_count samples (count_true (good_mask a b)) /\
      (ri = true -> subset_mask keep (good_mask a b) = true).
  Proof. rewrite gen_downsample_grid_is_model. now apply grid_count. Qed.

  Lemma gen_rand_count g a samples ri :
    0 <= samples ->
    exists idx g',
      gen_downsample_rand g a samples ri = (Ok (select idx a) [] idx, g') /\
      length idx = length a /\
      count_true idx = spec_count samples
                         (if ri then count_true (map negb (map is_bad a)) else zlen a) /\
      (ri = true -> subset_mask idx (map negb (map is_bad a)) = true).
  Proof. rewrite gen_downsample_rand_is_model. now apply rand_count. Qed.
End Assembled.
