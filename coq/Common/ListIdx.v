(* List indexing helpers shared by the models: Python-style slices,
   where/select, chunking. *)
From Coq Require Import ZArith List Bool Arith Lia.
Import ListNotations.

(* Python l[a:b] for 0 <= a, 0 <= b *)
Definition slice {A} (l : list A) (a b : Z) : list A :=
  firstn (Z.to_nat (b - a)) (skipn (Z.to_nat a) l).

Lemma skipn_skipn {A} (x y : nat) (l : list A) :
  skipn x (skipn y l) = skipn (y + x) l.
Proof.
  revert l; induction y as [|y IH]; intros l; simpl.
  - reflexivity.
  - destruct l as [|a l]; [now rewrite skipn_nil|]. apply IH.
Qed.

Lemma firstn_skipn_app {A} (n m : nat) (l : list A) :
  firstn n l ++ firstn m (skipn n l) = firstn (n + m) l.
Proof.
  revert l; induction n as [|n IH]; intros l; simpl.
  - reflexivity.
  - destruct l as [|a l]; simpl; [now rewrite firstn_nil|]. now rewrite IH.
Qed.

Open Scope Z_scope.

Lemma slice_nat {A} (l : list A) (a b : Z) (n m : nat) :
  n = Z.to_nat (b - a) -> m = Z.to_nat a ->
  slice l a b = firstn n (skipn m l).
Proof. intros -> ->; reflexivity. Qed.

Lemma slice_empty {A} (l : list A) a b : b <= a -> slice l a b = [].
Proof. intros H; unfold slice. replace (Z.to_nat (b - a)) with 0%nat by lia. reflexivity. Qed.

Lemma slice_app {A} (l : list A) a b c :
  0 <= a -> a <= b -> b <= c -> slice l a b ++ slice l b c = slice l a c.
Proof.
  intros Ha Hab Hbc; unfold slice.
  replace (Z.to_nat b) with (Z.to_nat a + Z.to_nat (b - a))%nat by lia.
  rewrite <- skipn_skipn, firstn_skipn_app. f_equal; lia.
Qed.

Lemma slice_slice {A} (l : list A) a b c d :
  0 <= a -> 0 <= c ->
  slice (slice l a b) c d = slice l (a + c) (Z.min (a + d) b).
Proof.
  intros Ha Hc; unfold slice.
  rewrite skipn_firstn_comm, firstn_firstn, skipn_skipn.
  f_equal; [|f_equal]; lia.
Qed.

Lemma skipn_slice {A} (l : list A) a b c :
  0 <= a -> 0 <= c -> skipn (Z.to_nat c) (slice l a b) = slice l (a + c) b.
Proof.
  intros Ha Hc; unfold slice.
  rewrite skipn_firstn_comm, skipn_skipn. f_equal; [|f_equal]; lia.
Qed.

Lemma slice_length_le {A} (l : list A) a b :
  0 <= a -> a <= b -> b <= Z.of_nat (length l) ->
  Z.of_nat (length (slice l a b)) = b - a.
Proof.
  intros Ha Hab Hb; unfold slice. rewrite firstn_length, skipn_length. lia.
Qed.

Lemma slice_clip {A} (l : list A) a b :
  slice l a b = slice l a (Z.min b (Z.of_nat (length l))).
Proof.
  unfold slice.
  destruct (Z.le_gt_cases b (Z.of_nat (length l))) as [H|H].
  - now rewrite Z.min_l.
  - rewrite Z.min_r by lia.
    rewrite !firstn_all2; try reflexivity; rewrite skipn_length; lia.
Qed.
