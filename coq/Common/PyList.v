(* Python list/str semantics that matter for the models, stated once:

   - [py_remove]       list.remove(x): delete the first occurrence
   - [py_prune]        for x in l: if not keep(x): l.remove(x)
                       (CPython's list iterator holds an index; the list is
                       mutated under it, so the element following a removed
                       one is never visited)
   - [py_prune_copy]   for x in list(l): if not keep(x): l.remove(x)
   - [py_sorted]       sorted(l, key=...): a stable sort
   - [str_leb]         str <= str: lexicographic by code point

   A development file with definitions and their general lemmas (no
   property-specific content). *)
From Coq Require Import ZArith List Bool Arith Lia ZifyBool Permutation Sorted.
Import ListNotations.

Section PyList.
  Variable A : Type.
  Variable eqb : A -> A -> bool.
  Hypothesis eqb_spec : forall x y, eqb x y = true <-> x = y.

  Fixpoint py_remove (x : A) (l : list A) : list A :=
    match l with
    | [] => []
    | y :: r => if eqb x y then r else y :: py_remove x r
    end.

  Fixpoint mem (x : A) (l : list A) : bool :=
    match l with
    | [] => false
    | y :: r => eqb x y || mem x r
    end.

  Variable keep : A -> bool.

  (* one pass of the list iterator: index i, current list l *)
  Fixpoint py_prune_loop (fuel i : nat) (l : list A) : list A :=
    match fuel with
    | O => l
    | S f =>
        match nth_error l i with
        | None => l                                     (* StopIteration *)
        | Some x => if keep x then py_prune_loop f (S i) l
                    else py_prune_loop f (S i) (py_remove x l)
        end
    end.

  (* the loop body runs at most len(l) times *)
  Definition py_prune (l : list A) : list A := py_prune_loop (length l) 0 l.

  (* what that loop computes on a duplicate-free list: the element after a
     removed one is kept without being tested *)
  Fixpoint skip_filter (l : list A) : list A :=
    match l with
    | [] => []
    | x :: r =>
        if keep x then x :: skip_filter r
        else match r with
             | [] => []
             | y :: r' => y :: skip_filter r'
             end
    end.

  (* no two neighbours are both to be removed *)
  Fixpoint no_adjacent_removed (l : list A) : bool :=
    match l with
    | [] => true
    | x :: r =>
        match r with
        | [] => true
        | y :: _ => negb (negb (keep x) && negb (keep y)) && no_adjacent_removed r
        end
    end.

  Definition py_prune_copy (l : list A) : list A :=
    fold_left (fun acc x => if keep x then acc else py_remove x acc) l l.

  (* ---- lemmas ------------------------------------------------------- *)
  Lemma eqb_refl x : eqb x x = true.
  Proof. now apply eqb_spec. Qed.

  Lemma eqb_false x y : eqb x y = false <-> x <> y.
  Proof.
    split.
    - intros H E. apply eqb_spec in E. congruence.
    - intros H. destruct (eqb x y) eqn:E; [|reflexivity].
      apply eqb_spec in E. contradiction.
  Qed.

  Lemma mem_In x l : mem x l = true <-> In x l.
  Proof.
    clear keep.
    induction l as [|y r IH]; simpl; [split; [discriminate|tauto]|].
    rewrite orb_true_iff, IH, eqb_spec. split; intros [H|H]; auto.
  Qed.

  Lemma py_remove_app_notin x done r :
    ~ In x done -> py_remove x (done ++ x :: r) = done ++ r.
  Proof.
    induction done as [|y d IH]; simpl; intros H.
    - now rewrite eqb_refl.
    - destruct (eqb x y) eqn:E.
      + apply eqb_spec in E. subst. tauto.
      + f_equal. apply IH. tauto.
  Qed.

  Lemma nth_error_app_len (done : list A) x r :
    nth_error (done ++ x :: r) (length done) = Some x.
  Proof. induction done; simpl; auto. Qed.

  Lemma nth_error_app_end (done : list A) :
    nth_error (done ++ []) (length done) = None.
  Proof. induction done; simpl; auto. Qed.

  Lemma py_prune_loop_char :
    forall fuel done rest,
      NoDup (done ++ rest) -> length rest <= fuel ->
      py_prune_loop fuel (length done) (done ++ rest) = done ++ skip_filter rest.
  Proof.
    induction fuel as [|f IH]; intros done rest Hnd Hlen.
    - destruct rest; [reflexivity|simpl in Hlen; lia].
    - destruct rest as [|x rest'].
      + simpl. now rewrite nth_error_app_end.
      + cbn [py_prune_loop]. rewrite nth_error_app_len.
        assert (Hx : ~ In x done).
        { intros Hin. apply NoDup_remove_2 in Hnd. apply Hnd.
          apply in_or_app. now left. }
        cbn [skip_filter]. destruct (keep x) eqn:Ek.
        * replace (done ++ x :: rest') with ((done ++ [x]) ++ rest')
            by now rewrite <- app_assoc.
          replace (S (length done)) with (length (done ++ [x]))
            by (rewrite app_length; simpl; lia).
          rewrite IH.
          -- now rewrite <- app_assoc.
          -- now rewrite <- app_assoc.
          -- simpl in Hlen; lia.
        * rewrite py_remove_app_notin by assumption.
          apply NoDup_remove_1 in Hnd.
          destruct rest' as [|y r'].
          -- destruct f; cbn [py_prune_loop]; [reflexivity|].
             assert (Hn : nth_error (done ++ []) (S (length done)) = None)
               by (apply nth_error_None; rewrite app_length; simpl; lia).
             now rewrite Hn.
          -- replace (done ++ y :: r') with ((done ++ [y]) ++ r')
               by now rewrite <- app_assoc.
             replace (S (length done)) with (length (done ++ [y]))
               by (rewrite app_length; simpl; lia).
             rewrite IH.
             ++ now rewrite <- app_assoc.
             ++ now rewrite <- app_assoc.
             ++ simpl in Hlen; lia.
  Qed.

  (* exact characterisation of the mutate-while-iterating loop *)
  Theorem py_prune_char l : NoDup l -> py_prune l = skip_filter l.
  Proof.
    intros H. unfold py_prune.
    apply (py_prune_loop_char (length l) [] l); auto.
  Qed.

  Lemma skip_filter_is_filter_aux :
    forall n l, length l <= n -> no_adjacent_removed l = true ->
                skip_filter l = filter keep l.
  Proof.
    induction n as [|n IH]; intros l Hlen Hadj.
    - destruct l; [reflexivity|simpl in Hlen; lia].
    - destruct l as [|x r]; [reflexivity|].
      cbn [skip_filter filter]. destruct (keep x) eqn:Ek.
      + f_equal. apply IH; [simpl in Hlen; lia|].
        destruct r; [reflexivity|].
        cbn [no_adjacent_removed] in Hadj.
        apply andb_true_iff in Hadj. tauto.
      + destruct r as [|y r']; [reflexivity|].
        cbn [no_adjacent_removed] in Hadj. rewrite Ek in Hadj.
        apply andb_true_iff in Hadj. destruct Hadj as [Hy Hadj].
        assert (Hr : skip_filter (y :: r') = filter keep (y :: r')).
        { apply IH; [simpl in Hlen |- *; lia|exact Hadj]. }
        cbn [filter]. cbn [skip_filter filter] in Hr.
        destruct (keep y) eqn:Eky; [|discriminate].
        f_equal. now injection Hr.
  Qed.

  Theorem py_prune_partial l :
    NoDup l -> no_adjacent_removed l = true -> py_prune l = filter keep l.
  Proof.
    intros Hnd Hadj. rewrite py_prune_char by assumption.
    now apply (skip_filter_is_filter_aux (length l)).
  Qed.

  (* ---- iterating over a copy ---------------------------------------- *)
  Lemma filter_id (p : A -> bool) l :
    (forall y, In y l -> p y = true) -> filter p l = l.
  Proof.
    induction l as [|y r IH]; simpl; intros H; [reflexivity|].
    rewrite (H y) by auto. f_equal. apply IH. auto.
  Qed.

  Lemma py_remove_filter x l :
    NoDup l -> py_remove x l = filter (fun y => negb (eqb x y)) l.
  Proof.
    induction l as [|y r IH]; simpl; intros Hnd; [reflexivity|].
    inversion Hnd as [|? ? Hy Hr]; subst.
    destruct (eqb x y) eqn:E; simpl.
    - apply eqb_spec in E. subst. symmetry. apply filter_id.
      intros z Hz. apply negb_true_iff, eqb_false. intros ->. contradiction.
    - f_equal. auto.
  Qed.

  Lemma NoDup_filter (p : A -> bool) l : NoDup l -> NoDup (filter p l).
  Proof.
    clear keep eqb_spec eqb.
    induction l as [|y r IH]; simpl; intros H; [constructor|].
    inversion H as [|? ? Hy Hr]; subst. destruct (p y); [|now apply IH].
    constructor; [|now apply IH]. rewrite filter_In. tauto.
  Qed.

  Lemma filter_filter (p q : A -> bool) l :
    filter p (filter q l) = filter (fun y => q y && p y) l.
  Proof.
    induction l as [|y r IH]; simpl; [reflexivity|].
    destruct (q y); simpl; [destruct (p y)|]; now rewrite IH.
  Qed.

  Lemma prune_copy_fold todo :
    forall acc, NoDup acc ->
      fold_left (fun acc x => if keep x then acc else py_remove x acc) todo acc
      = filter (fun y => negb (existsb (fun x => eqb x y && negb (keep x)) todo))
               acc.
  Proof.
    induction todo as [|x todo IH]; intros acc Hnd; simpl.
    - symmetry. now apply filter_id.
    - destruct (keep x) eqn:Ek.
      + rewrite IH by assumption. apply filter_ext. intros y.
        now rewrite andb_false_r.
      + rewrite IH by (rewrite py_remove_filter by assumption;
                       now apply NoDup_filter).
        rewrite py_remove_filter by assumption. rewrite filter_filter.
        apply filter_ext. intros y. rewrite andb_true_r.
        now rewrite negb_orb.
  Qed.

  Theorem py_prune_copy_is_filter l :
    NoDup l -> py_prune_copy l = filter keep l.
  Proof.
    intros Hnd. unfold py_prune_copy. rewrite prune_copy_fold by assumption.
    apply filter_ext_in. intros y Hy.
    destruct (keep y) eqn:Ek.
    - apply negb_true_iff. apply not_true_iff_false. intros H.
      apply existsb_exists in H. destruct H as [x [_ Hx]].
      apply andb_true_iff in Hx. destruct Hx as [E Hk].
      apply eqb_spec in E. subst. rewrite Ek in Hk. discriminate.
    - apply negb_false_iff. apply existsb_exists. exists y. split; auto.
      now rewrite eqb_refl, Ek.
  Qed.
End PyList.

Arguments py_remove {A}.
Arguments mem {A}.
Arguments py_prune_loop {A}.
Arguments py_prune {A}.
Arguments skip_filter {A}.
Arguments no_adjacent_removed {A}.
Arguments py_prune_copy {A}.

(* ---- sorted(): stable insertion sort ---------------------------------- *)
Section PySorted.
  Variable A : Type.
  Variable leb : A -> A -> bool.

  (* x is put in front of the first element that is not smaller: elements
     that compare equal and came later stay behind x *)
  Fixpoint py_insert (x : A) (l : list A) : list A :=
    match l with
    | [] => [x]
    | y :: r => if leb x y then x :: y :: r else y :: py_insert x r
    end.

  Fixpoint py_sorted (l : list A) : list A :=
    match l with
    | [] => []
    | x :: r => py_insert x (py_sorted r)
    end.

  Lemma py_insert_perm x l : Permutation (py_insert x l) (x :: l).
  Proof.
    induction l as [|y r IH]; simpl; [reflexivity|].
    destruct (leb x y); [reflexivity|].
    rewrite IH. apply perm_swap.
  Qed.

  Theorem py_sorted_perm l : Permutation (py_sorted l) l.
  Proof.
    induction l as [|x r IH]; simpl; [reflexivity|].
    rewrite py_insert_perm. now constructor.
  Qed.

  Lemma py_sorted_length l : length (py_sorted l) = length l.
  Proof. apply Permutation_length, py_sorted_perm. Qed.

  Hypothesis leb_total : forall x y, leb x y = true \/ leb y x = true.
  Hypothesis leb_trans :
    forall x y z, leb x y = true -> leb y z = true -> leb x z = true.

  Lemma py_insert_sorted x l :
    StronglySorted (fun a b => leb a b = true) l ->
    StronglySorted (fun a b => leb a b = true) (py_insert x l).
  Proof.
    induction l as [|y r IH]; simpl; intros Hs.
    - constructor; constructor.
    - inversion Hs as [|? ? Hr Hy]; subst.
      destruct (leb x y) eqn:E.
      + constructor; [assumption|]. constructor; [assumption|].
        eapply Forall_impl; [|exact Hy]. intros a Ha. eapply leb_trans; eauto.
      + constructor; [auto|].
        assert (Hyx : leb y x = true) by (destruct (leb_total x y); congruence).
        eapply Permutation_Forall; [symmetry; apply py_insert_perm|].
        constructor; assumption.
  Qed.

  Theorem py_sorted_sorted l :
    StronglySorted (fun a b => leb a b = true) (py_sorted l).
  Proof.
    induction l as [|x r IH]; simpl; [constructor|].
    now apply py_insert_sorted.
  Qed.

  (* stability: elements of one class [p] of mutually equivalent elements
     (x jumps over y only when y is strictly smaller, so never within a
     class) keep their relative order *)
  Lemma py_insert_stable (p : A -> bool) x l :
    (forall a b, p a = true -> p b = true -> leb a b = true) ->
    filter p (py_insert x l) = filter p (x :: l).
  Proof.
    intros Hp. induction l as [|y r IH]; simpl; [reflexivity|].
    destruct (leb x y) eqn:E; [reflexivity|].
    simpl. simpl in IH. rewrite IH.
    destruct (p x) eqn:Epx, (p y) eqn:Epy; try reflexivity.
    rewrite (Hp x y Epx Epy) in E. discriminate.
  Qed.

  Theorem py_sorted_stable (p : A -> bool) l :
    (forall a b, p a = true -> p b = true -> leb a b = true) ->
    filter p (py_sorted l) = filter p l.
  Proof.
    intros Hp. induction l as [|x r IH]; simpl; [reflexivity|].
    rewrite py_insert_stable by assumption. simpl. now rewrite IH.
  Qed.

  (* a list that is already in order is returned unchanged *)
  Lemma py_insert_head x l :
    Forall (fun y => leb x y = true) l -> py_insert x l = x :: l.
  Proof.
    destruct l as [|y r]; simpl; [reflexivity|].
    intros H. inversion H; subst. now rewrite H2.
  Qed.

  Theorem py_sorted_id l :
    StronglySorted (fun a b => leb a b = true) l -> py_sorted l = l.
  Proof.
    induction l as [|x r IH]; simpl; intros Hs; [reflexivity|].
    inversion Hs; subst. rewrite IH by assumption.
    now apply py_insert_head.
  Qed.
End PySorted.

Arguments py_insert {A}.
Arguments py_sorted {A}.

(* ---- str comparison: lexicographic by code point ---------------------- *)
Open Scope Z_scope.

Fixpoint str_leb (a b : list Z) : bool :=
  match a, b with
  | [], _ => true
  | _ :: _, [] => false
  | x :: a', y :: b' => (x <? y) || ((x =? y) && str_leb a' b')
  end.

Lemma str_leb_total a b : str_leb a b = true \/ str_leb b a = true.
Proof.
  revert b; induction a as [|x a IH]; intros [|y b]; simpl; auto.
  destruct (IH b) as [H|H]; rewrite H; lia.
Qed.

Lemma str_leb_trans a b c :
  str_leb a b = true -> str_leb b c = true -> str_leb a c = true.
Proof.
  revert b c; induction a as [|x a IH]; intros [|y b] [|z c]; simpl; auto;
    try discriminate.
  intros H1 H2.
  apply orb_true_iff in H1. apply orb_true_iff in H2. apply orb_true_iff.
  destruct H1 as [H1|H1], H2 as [H2|H2]; try (left; lia).
  apply andb_true_iff in H1. apply andb_true_iff in H2.
  right. apply andb_true_iff. split; [lia|]. eapply IH; [apply H1|apply H2].
Qed.

(* str(n) for a non-negative integer below 10^20 *)
Fixpoint digits_aux (fuel : nat) (n : Z) (acc : list Z) : list Z :=
  match fuel with
  | O => acc
  | S f => let acc' := (48 + n mod 10) :: acc in
           if n <? 10 then acc' else digits_aux f (n / 10) acc'
  end.
Definition str_of_Z (n : Z) : list Z := digits_aux 20 n [].

(* round(): round-half-to-even of num/den, den > 0 *)
Definition round_half_even (num den : Z) : Z :=
  let q := num / den in
  let r := num mod den in
  if 2 * r <? den then q
  else if den <? 2 * r then q + 1
  else if Z.even q then q else q + 1.

(* ---- sorted(set(l)) for integers ---------------------------------------- *)
(* a set has no order and no duplicates; sorted() of it is the strictly
   ascending list of the distinct elements *)
Definition sort_dedup (l : list Z) : list Z :=
  py_sorted Z.leb (nodup Z.eq_dec l).

Lemma Zleb_total x y : (x <=? y) = true \/ (y <=? x) = true.
Proof. lia. Qed.
Lemma Zleb_trans x y z :
  (x <=? y) = true -> (y <=? z) = true -> (x <=? z) = true.
Proof. lia. Qed.

Lemma sort_dedup_In x l : In x (sort_dedup l) <-> In x l.
Proof.
  unfold sort_dedup. split; intros H.
  - apply (nodup_In Z.eq_dec). eapply Permutation_in; [apply py_sorted_perm|exact H].
  - eapply Permutation_in; [symmetry; apply py_sorted_perm|].
    now apply nodup_In.
Qed.

Lemma le_sorted_NoDup_strict l :
  StronglySorted (fun a b => (a <=? b) = true) l -> NoDup l ->
  StronglySorted Z.lt l.
Proof.
  induction 1 as [|x l Hs IH Hf]; intros Hnd; constructor;
    inversion Hnd as [|? ? Hx Hl]; subst; auto.
  apply Forall_forall. intros y Hy. rewrite Forall_forall in Hf.
  specialize (Hf y Hy). assert (x <> y) by (intros ->; contradiction). lia.
Qed.

Lemma py_sorted_strict l : NoDup l -> StronglySorted Z.lt (py_sorted Z.leb l).
Proof.
  intros Hnd. apply le_sorted_NoDup_strict.
  - apply py_sorted_sorted; [exact Zleb_total|exact Zleb_trans].
  - eapply Permutation_NoDup; [symmetry; apply py_sorted_perm|exact Hnd].
Qed.

Lemma sort_dedup_sorted l : StronglySorted Z.lt (sort_dedup l).
Proof. apply py_sorted_strict, NoDup_nodup. Qed.

Lemma strict_sorted_unique a :
  forall b, StronglySorted Z.lt a -> StronglySorted Z.lt b ->
            (forall x, In x a <-> In x b) -> a = b.
Proof.
  induction a as [|x a IH]; intros b Ha Hb Hab.
  - destruct b as [|y b]; [reflexivity|].
    exfalso. apply (proj2 (Hab y)). now left.
  - destruct b as [|y b]; [exfalso; apply (proj1 (Hab x)); now left|].
    inversion Ha as [|? ? Ha' Hxa]; subst.
    inversion Hb as [|? ? Hb' Hyb]; subst.
    rewrite Forall_forall in Hxa, Hyb.
    assert (x = y).
    { destruct (proj1 (Hab x) (or_introl eq_refl)) as [E|Hin]; [auto|].
      destruct (proj2 (Hab y) (or_introl eq_refl)) as [E|Hin']; [auto|].
      specialize (Hyb x Hin). specialize (Hxa y Hin'). lia. }
    subst y. f_equal. apply IH; auto.
    intros z. split; intros Hz.
    + destruct (proj1 (Hab z) (or_intror Hz)) as [E|Hin]; [|exact Hin].
      specialize (Hxa z Hz). lia.
    + destruct (proj2 (Hab z) (or_intror Hz)) as [E|Hin]; [|exact Hin].
      specialize (Hyb z Hz). lia.
Qed.

(* the specification of sorted(set(l)): the unique strictly ascending list
   with the elements of l *)
Theorem sort_dedup_spec l r :
  (StronglySorted Z.lt r /\ forall x, In x r <-> In x l) <-> r = sort_dedup l.
Proof.
  split.
  - intros [Hs Hin]. apply strict_sorted_unique; auto using sort_dedup_sorted.
    intros x. rewrite sort_dedup_In. apply Hin.
  - intros ->. split; [apply sort_dedup_sorted|intros x; apply sort_dedup_In].
Qed.

Theorem sort_dedup_id l : StronglySorted Z.lt l -> sort_dedup l = l.
Proof.
  intros H. symmetry. apply sort_dedup_spec. split; [exact H|tauto].
Qed.

Lemma StronglySorted_filter {B} (R : B -> B -> Prop) (p : B -> bool) l :
  StronglySorted R l -> StronglySorted R (filter p l).
Proof.
  induction 1 as [|x l Hs IH Hf]; cbn [filter]; [constructor|].
  destruct (p x); [|exact IH]. constructor; [exact IH|].
  rewrite Forall_forall in *. intros y Hy. apply filter_In in Hy. now apply Hf.
Qed.
