(* Model of dclab/rtdc_dataset/writer.py:RTDCWriter and of the readers in
   dclab/rtdc_dataset/fmt_hdf5/{events,logs,tables}.py.
   Executable definitions only; proofs are in Proofs/C01.v.

   Follows the code:
     RTDCWriter.__init__ / __exit__   -> step (OOpen / OClose), rectify_metadata
     store_feature (dispatch by name) -> store_scalar / store_image / store_contour / store_trace
     write_ndarray                    -> write_scalar (1-d: one slice assignment)
                                         write_nd (n-d: loop over full chunks + remainder)
     write_ragged                     -> write_ragged (group size cache of the writer instance)
     write_text                       -> write_text (width frozen at creation)
     store_table / store_metadata     -> store_table / store_meta
   An HDF5 file is modelled by its content: name-indexed association lists.
   Feature, trace, log, table and metadata names are numbered; feature numbers
   follow the alphabetical order of the names (rectify_metadata uses the
   alphabetically first feature), see harness/c01.py:FEATS.

   Values: a scalar event is an [fval] (tag, k): (0,k) the number k/8, (1,0)
   NaN, (2,0) +inf, (3,0) -inf.  An event of an n-d feature, a contour and a
   log line are flattened lists of integers. *)
From Coq Require Import ZArith List Bool.
From Verif Require Import Common.ListIdx.
Import ListNotations.
Open Scope Z_scope.

Definition fval := (Z * Z)%type.
Definition row := list Z.
Definition zlen {A} (l : list A) : Z := Z.of_nat (length l).

(* ---- name-indexed containers (HDF5 groups, attribute sets) -------------- *)
Fixpoint alookup {A} (k : Z) (l : list (Z * A)) : option A :=
  match l with
  | [] => None
  | (k', v) :: r => if k =? k' then Some v else alookup k r
  end.

Fixpoint adel {A} (k : Z) (l : list (Z * A)) : list (Z * A) :=
  match l with
  | [] => []
  | (k', v) :: r => if k =? k' then adel k r else (k', v) :: adel k r
  end.

Definition aset {A} (k : Z) (v : A) (l : list (Z * A)) : list (Z * A) :=
  adel k l ++ [(k, v)].

Definition amem {A} (k : Z) (l : list (Z * A)) : bool :=
  match alookup k l with Some _ => true | None => false end.

(* ---- feature numbers (alphabetical rank in harness/c01.py:FEATS) -------- *)
Definition NFEAT : nat := 23.
Definition F_CONTOUR := 3.
Definition F_FL1MAX := 5.
Definition F_FL1NPEAKS := 6.
Definition F_FL2MAX := 7.
Definition F_FL3MAX := 8.
Definition F_FRAME := 9.
Definition F_IMAGE := 10.
Definition F_INDEX := 12.
Definition F_MASK := 13.
Definition F_QPI_AMP := 15.
Definition F_QPI_OAH := 16.
Definition F_QPI_PHA := 17.
Definition F_IMAGE_BG := 11.
Definition F_TRACE := 19.
Definition NTRACE : nat := 6.
Definition NLOG : nat := 4.
Definition NTABLE : nat := 3.
(* metadata keys *)
Definition NMETA : nat := 12.
Definition M_EVENT_COUNT := 0.
Definition M_ROI_X := 1.
Definition M_ROI_Y := 2.
Definition M_SAMPLES := 3.
Definition M_CHANNELS := 4.

(* ---- stored dtypes of 1-d datasets and HDF5's value conversion ----------- *)
Inductive sdtype := F64 | I64 | U32 | U64.

Definition clampZ (lo hi v : Z) : Z := Z.max lo (Z.min hi v).

(* conversion of a float64/int64 value to the dtype of the dataset (HDF5
   truncates towards zero and saturates; NaN becomes the lowest value) *)
Definition cast_int (lo hi : Z) (v : fval) : fval :=
  let '(tag, k) := v in
  if tag =? 0 then (0, 8 * clampZ lo hi (Z.quot k 8))
  else if tag =? 2 then (0, 8 * hi)
  else (0, 8 * lo).

Definition cast (dt : sdtype) (v : fval) : fval :=
  match dt with
  | F64 => v
  | I64 => cast_int (- 2 ^ 63) (2 ^ 63 - 1) v
  | U32 => cast_int 0 (2 ^ 32 - 1) v
  | U64 => cast_int 0 (2 ^ 64 - 1) v
  end.

(* FEATURES_UINT32 / FEATURES_UINT64 *)
Definition forced_dtype (f : Z) : option sdtype :=
  if (f =? F_FL1MAX) || (f =? F_FL1NPEAKS) || (f =? F_FL2MAX) || (f =? F_FL3MAX)
     || (f =? F_INDEX) then Some U32
  else if f =? F_FRAME then Some U64
  else None.

(* ---- datasets ------------------------------------------------------------- *)
Definition sds := (sdtype * list fval)%type.                 (* 1-d dataset *)
(* dtype of an n-d dataset or of an array given to the writer: float64 (stores
   what it is given), float32 (rounds to 24 significant bits) or an integer
   type; [sc] is the unit of the row entries (8 for features
   whose values are multiples of 1/8, 1 for integer data) *)
Inductive ndt := NDRaw | NDF32 (sc : Z) | NDInt (bytes lo hi sc : Z).
Definition ndt_size (t : ndt) : Z :=
  match t with NDRaw => 8 | NDF32 _ => 4 | NDInt b _ _ _ => b end.
(* HDF5's conversion on assignment (integers: truncation, saturation) *)
(* float32 keeps 24 significant bits (round to nearest, ties to even); the
   entries are integers in units of 1/sc with sc a power of two, so the
   rounding of the entry is the rounding of the value (normal range) *)
Definition round_f32 (v : Z) : Z :=
  let a := Z.abs v in
  if a <? 2 ^ 24 then v
  else
    let e := Z.log2 a - 23 in
    let q := a / 2 ^ e in
    let r := a mod 2 ^ e in
    let half := 2 ^ (e - 1) in
    let q' := if r <? half then q else if half <? r then q + 1
              else if Z.even q then q else q + 1 in
    Z.sgn v * (q' * 2 ^ e).
Definition cast_nd (t : ndt) (v : Z) : Z :=
  match t with
  | NDInt _ lo hi sc => sc * clampZ lo hi (Z.quot v sc)
  | NDF32 _ => round_f32 v
  | NDRaw => v
  end.
Definition fits_nd (t : ndt) (v : Z) : bool :=
  match t with
  | NDRaw => true
  | _ => cast_nd t v =? v
  end.
Record nd := { nd_chunk : Z; nd_shape : list Z; nd_dt : ndt; nd_rows : list row }.
Record logd := { lg_width : Z; lg_lines : list row }.
Definition table := (list Z * list (list Z))%type.            (* column names, rows *)

Record file := {
  f_scal : list (Z * sds);
  f_nd : list (Z * nd);
  f_contour : option (list (Z * row));       (* group events/contour: "k" -> data *)
  f_trace : option (list (Z * nd));          (* group events/trace *)
  f_logs : list (Z * logd);
  f_tables : list (Z * table);
  f_attrs : list (Z * Z)
}.

Definition empty_file : file :=
  {| f_scal := []; f_nd := []; f_contour := None; f_trace := None;
     f_logs := []; f_tables := []; f_attrs := [] |}.

(* the writer instance (mode, the private _group_sizes entry of the contour
   group) and the module constant CHUNK_SIZE_BYTES *)
Record wr := { w_mode : Z; w_gs : option Z; w_csb : Z }.
Record state := { st_w : wr; st_f : file }.

Definition init : state :=
  {| st_w := {| w_mode := 0; w_gs := None; w_csb := 1048576 |}; st_f := empty_file |}.

Definition with_scal (s : file) x := {| f_scal := x; f_nd := f_nd s; f_contour := f_contour s;
  f_trace := f_trace s; f_logs := f_logs s; f_tables := f_tables s; f_attrs := f_attrs s |}.
Definition with_nd (s : file) x := {| f_scal := f_scal s; f_nd := x; f_contour := f_contour s;
  f_trace := f_trace s; f_logs := f_logs s; f_tables := f_tables s; f_attrs := f_attrs s |}.
Definition with_contour (s : file) x := {| f_scal := f_scal s; f_nd := f_nd s; f_contour := x;
  f_trace := f_trace s; f_logs := f_logs s; f_tables := f_tables s; f_attrs := f_attrs s |}.
Definition with_trace (s : file) x := {| f_scal := f_scal s; f_nd := f_nd s; f_contour := f_contour s;
  f_trace := x; f_logs := f_logs s; f_tables := f_tables s; f_attrs := f_attrs s |}.
Definition with_logs (s : file) x := {| f_scal := f_scal s; f_nd := f_nd s; f_contour := f_contour s;
  f_trace := f_trace s; f_logs := x; f_tables := f_tables s; f_attrs := f_attrs s |}.
Definition with_tables (s : file) x := {| f_scal := f_scal s; f_nd := f_nd s; f_contour := f_contour s;
  f_trace := f_trace s; f_logs := f_logs s; f_tables := x; f_attrs := f_attrs s |}.
Definition with_attrs (s : file) x := {| f_scal := f_scal s; f_nd := f_nd s; f_contour := f_contour s;
  f_trace := f_trace s; f_logs := f_logs s; f_tables := f_tables s; f_attrs := x |}.

(* ---- write_ndarray ---------------------------------------------------------- *)

(* dset.resize(n, axis=0): new entries hold the fill value *)
Definition resize {A} (fill : A) (l : list A) (n : Z) : list A :=
  firstn (Z.to_nat n) l ++ repeat fill (Z.to_nat n - length l).

(* dset[a:b] = new   (len new = b - a) *)
Definition set_slice {A} (l : list A) (a b : Z) (new : list A) : list A :=
  firstn (Z.to_nat a) l ++ new ++ skipn (Z.to_nat b) l.

(* get_best_nd_chunks: max(10, floor(CHUNK_SIZE_BYTES / event_size)) *)
Definition prodZ (l : list Z) : Z := fold_right Z.mul 1 l.
Definition best_chunk (csb : Z) (shape : list Z) (itemsize : Z) : Z :=
  Z.max 10 (csb / (prodZ shape * itemsize)).

(* 1-d branch: dataset created with shape data.shape (or resized), then
   dset[offset:] = data; values are converted to the dtype of the dataset,
   which is fixed when the dataset is created: dtype or data.dtype *)
Definition write_scalar (old : option sds) (forced : option sdtype) (isint : bool)
           (data : list fval) : sds :=
  match old with
  | None =>
      let dt := match forced with Some t => t | None => if isint then I64 else F64 end in
      let rows0 := repeat (0, 0) (length data) in
      (dt, set_slice rows0 0 (zlen rows0) (map (cast dt) data))
  | Some (dt, vals) =>
      let offset := zlen vals in
      let rows0 := resize (0, 0) vals (offset + zlen data) in
      (dt, set_slice rows0 offset (zlen rows0) (map (cast dt) data))
  end.

(* for ii in range(num_chunks): dset[offset+start:offset+stop] = data[start:stop] *)
Fixpoint chunk_loop (n : nat) (ii cs offset : Z) (data rows : list row) : list row :=
  match n with
  | O => rows
  | S n' =>
      let start := ii * cs in
      let stop := start + cs in
      chunk_loop n' (ii + 1) cs offset data
                 (set_slice rows (offset + start) (offset + stop) (slice data start stop))
  end.

(* n-d branch *)
Definition write_nd (csb : Z) (old : option nd) (shape : list Z) (itemsize : Z)
           (dt0 : ndt) (data : list row) : nd :=
  let '(cs, shp, rows0, offset) :=
    match old with
    | None => (best_chunk csb shape itemsize, shape, repeat [] (length data), 0)
    | Some d => (nd_chunk d, nd_shape d,
                 resize [] (nd_rows d) (zlen (nd_rows d) + zlen data), zlen (nd_rows d))
    end in
  let num_chunks := zlen data / cs in
  let rows1 := chunk_loop (Z.to_nat num_chunks) 0 cs offset data rows0 in
  let num_remain := zlen data mod cs in
  let rows2 :=
    if num_remain =? 0 then rows1
    else let start_e := num_chunks * cs in
         let stop_e := start_e + num_remain in
         set_slice rows1 (offset + start_e) (offset + stop_e) (slice data start_e stop_e) in
  {| nd_chunk := cs; nd_shape := shp;
     nd_dt := match old with Some d => nd_dt d | None => dt0 end; nd_rows := rows2 |}.

(* ---- write_ragged ----------------------------------------------------------- *)
Fixpoint ragged_loop (curid : Z) (data : list row) (grp : list (Z * row)) : list (Z * row) :=
  match data with
  | [] => grp
  | cc :: r => ragged_loop (curid + 1) r (grp ++ [(curid, cc)])
  end.

(* returns the new cache entry and the new group *)
Definition write_ragged (gs : option Z) (grp : list (Z * row)) (data : list row)
  : option Z * list (Z * row) :=
  let curid := match gs with Some n => n | None => zlen grp end in
  (Some (curid + zlen data), ragged_loop curid data grp).

(* ---- write_text ------------------------------------------------------------- *)
Definition max_length (lines : list row) : Z :=
  fold_left (fun m l => Z.max m (zlen l)) lines 100.

(* a fixed-length string dataset keeps the first [w] bytes *)
Definition store_line (w : Z) (l : row) : row := firstn (Z.to_nat w) l.

Definition write_text (mode : Z) (old : option logd) (lines : list row) : logd :=
  let old' := if mode =? 1 then None else old in
  match old' with
  | None =>
      let w := max_length lines in
      {| lg_width := w; lg_lines := map (store_line w) lines |}
  | Some d =>
      {| lg_width := lg_width d; lg_lines := lg_lines d ++ map (store_line (lg_width d)) lines |}
  end.

(* ---- operations ------------------------------------------------------------- *)
Inductive op :=
| OOpen (mode : Z)            (* RTDCWriter(path, mode): 0 append, 1 replace, 2 reset *)
| OClose                      (* __exit__ *)
| OConfig (csb : Z)           (* writer.CHUNK_SIZE_BYTES = csb *)
| OScalar (f : Z) (isint : bool) (data : list fval)
                              (* store_feature(scalar feature incl. index, 1-d array) *)
| OImage (f : Z) (isbool : bool) (shape : list Z) (ddt : ndt) (data : list row)
                              (* store_feature(image, image_bg, mask, user-shaped feature) *)
| OContour (data : list row)  (* store_feature("contour", list of arrays) *)
| OTrace (shape : list Z) (ddt : ndt) (data : list (Z * list row))
                              (* store_feature("trace", {name: 2-d array}) *)
| OLog (name : Z) (lines : list row)
| OTable (name : Z) (cols : list Z) (rows : list (list Z))
| OMeta (kvs : list (Z * Z))
| OArr (f : Z) (isbool : bool) (shape dshape : list Z) (ddt : ndt) (flat : list Z).
                              (* store_feature(image-like or user-shaped feature, array of
                                 shape dshape given by its C-order values, shape=shape) *)

Definition nonempty {A} (l : list A) : bool := match l with [] => false | _ => true end.

Definition store_scalar (w : wr) (s : file) (f : Z) (isint : bool) (data : list fval)
  : file * bool :=
  (* if feat in events and self.mode == "replace": del events[feat] *)
  let sc := if w_mode w =? 1 then adel f (f_scal s) else f_scal s in
  if f =? F_INDEX then
    let nev := zlen data in
    let nev0 := match alookup f sc with Some (_, v) => zlen v | None => 0 end in
    if nev =? 0 then (with_scal s sc, true)
    else
      let arange := map (fun i => (0, 8 * (nev0 + 1 + Z.of_nat i))) (seq 0 (length data)) in
      (with_scal s (aset f (write_scalar (alookup f sc) (forced_dtype f) true arange) sc), false)
  else if nonempty data then
    (with_scal s (aset f (write_scalar (alookup f sc) (forced_dtype f) isint data) sc), false)
  else (with_scal s sc, true).        (* ValueError("Empty data object") *)

(* the dtype store_feature imposes on image-like features: uint8
   (write_image_grayscale), float32 (write_image_float32) *)
Definition forced_nd (f : Z) : option ndt :=
  if (f =? F_IMAGE) || (f =? F_IMAGE_BG) || (f =? F_MASK) || (f =? F_QPI_OAH)
  then Some (NDInt 1 0 255 1)
  else if (f =? F_QPI_AMP) || (f =? F_QPI_PHA) then Some (NDF32 8)
  else None.

(* the array as handed to write_ndarray (boolean masks become 0/255) and the
   dtype of the dataset that receives it *)
Definition image_data (f : Z) (isbool : bool) (data : list row) : list row :=
  if (f =? F_MASK) && isbool then map (map (fun b => b * 255)) data else data.
Definition image_dt (old : option nd) (f : Z) (ddt : ndt) : ndt :=
  match old with
  | Some d => nd_dt d
  | None => match forced_nd f with Some t => t | None => ddt end
  end.

Definition store_image (w : wr) (s : file) (f : Z) (isbool : bool) (shape : list Z)
           (ddt : ndt) (data : list row) : file * bool :=
  let ndl := if w_mode w =? 1 then adel f (f_nd s) else f_nd s in
  (* write_image_grayscale: boolean masks become 0/255 *)
  let data' := image_data f isbool data in
  let dt := image_dt (alookup f ndl) f ddt in
  if nonempty data then
    (with_nd s (aset f (write_nd (w_csb w) (alookup f ndl) shape (ndt_size ddt) dt
                                 (map (map (cast_nd dt)) data')) ndl), false)
  else (with_nd s ndl, true).

(* the events of an array as store_feature sees them.
   image-like features (write_image_grayscale / write_image_float32): a 2-d
   array is one event; user-shaped features: `shape == data.shape` is one
   event, `shape == data.shape[1:]` many, anything else raises (no events) *)
Definition image_like (f : Z) : bool :=
  (f =? F_IMAGE) || (f =? F_IMAGE_BG) || (f =? F_MASK) || (f =? F_QPI_AMP)
  || (f =? F_QPI_OAH) || (f =? F_QPI_PHA).

Fixpoint list_eqb (a b : list Z) : bool :=
  match a, b with
  | [], [] => true
  | x :: a', y :: b' => (x =? y) && list_eqb a' b'
  | _, _ => false
  end.

Fixpoint split_rows (n len : nat) (flat : list Z) : list row :=
  match n with
  | O => []
  | S n' => firstn len flat :: split_rows n' len (skipn len flat)
  end.

Definition arr_shape (f : Z) (shape dshape : list Z) : list Z :=
  if image_like f then (if Z.of_nat (length dshape) =? 2 then dshape else tl dshape)
  else shape.

Definition arr_events (f : Z) (shape dshape : list Z) (flat : list Z) : list row :=
  let shp := arr_shape f shape dshape in
  if list_eqb shp dshape then [flat]               (* data.reshape(1, *shape) *)
  else if list_eqb shp (tl dshape)
       then split_rows (Z.to_nat (hd 0 dshape)) (Z.to_nat (prodZ shp)) flat
       else [].                                     (* ValueError("Bad shape") *)

Definition store_contour (w : wr) (s : file) (data : list row) : wr * file :=
  (* replace: the group is deleted; require_group then creates a new group
     object that the writer's _group_sizes does not know *)
  let '(gs, grp0) :=
    match f_contour s with
    | Some g => if w_mode w =? 1 then (None, []) else (w_gs w, g)
    | None => (None, [])
    end in
  let '(gs', grp) := write_ragged gs grp0 data in
  ({| w_mode := w_mode w; w_gs := gs'; w_csb := w_csb w |}, with_contour s (Some grp)).

(* for tr_name in data.keys(): write_ndarray(...); the first empty array raises *)
Definition trace_dt (old : option nd) (ddt : ndt) : ndt :=
  match old with Some d => nd_dt d | None => ddt end.

Fixpoint trace_loop (csb : Z) (shape : list Z) (ddt : ndt) (data : list (Z * list row))
         (grp : option (list (Z * nd))) : option (list (Z * nd)) * bool :=
  match data with
  | [] => (grp, false)
  | (tr, rows) :: r =>
      let g := match grp with Some g => g | None => [] end in     (* require_group *)
      if nonempty rows then
        let dt := trace_dt (alookup tr g) ddt in
        trace_loop csb shape ddt r
                   (Some (aset tr (write_nd csb (alookup tr g) shape (ndt_size ddt) dt
                                            (map (map (cast_nd dt)) rows)) g))
      else (Some g, true)
  end.

Definition store_trace (w : wr) (s : file) (shape : list Z) (ddt : ndt)
           (data : list (Z * list row)) : file * bool :=
  let grp0 :=
    match f_trace s with
    | Some g => if w_mode w =? 1
                then Some (fold_left (fun g' tr => adel tr g') (map fst data) g)
                else Some g
    | None => None
    end in
  let '(grp, err) := trace_loop (w_csb w) shape ddt data grp0 in
  (with_trace s grp, err).

Definition store_table (s : file) (name : Z) (cols : list Z) (rows : list (list Z))
  : file * bool :=
  if amem name (f_tables s) then (s, true)     (* h5py: name already exists *)
  else (with_tables s (aset name (cols, rows) (f_tables s)), false).

Definition store_meta (s : file) (kvs : list (Z * Z)) : file :=
  with_attrs s (fold_left (fun a kv => aset (fst kv) (snd kv) a) kvs (f_attrs s)).

(* len(h5file["events"][feat]) *)
Definition feat_len (s : file) (f : Z) : option Z :=
  if f =? F_CONTOUR then option_map zlen (f_contour s)
  else if f =? F_TRACE then option_map zlen (f_trace s)
  else match alookup f (f_scal s) with
       | Some (_, v) => Some (zlen v)
       | None => match alookup f (f_nd s) with
                 | Some d => Some (zlen (nd_rows d))
                 | None => None
                 end
       end.

Definition zrange (n : nat) : list Z := map Z.of_nat (seq 0 n).

(* sorted(h5file["events"].keys()) with the lengths *)
Definition feats_sorted (s : file) : list (Z * Z) :=
  flat_map (fun f => match feat_len s f with Some n => [(f, n)] | None => [] end)
           (zrange NFEAT).

Definition first_trace (g : list (Z * nd)) : option nd :=
  match flat_map (fun t => match alookup t g with Some d => [d] | None => [] end)
                 (zrange NTRACE) with
  | d :: _ => Some d
  | [] => None
  end.

(* the event count: the length of the alphabetically first feature; for a
   non-empty trace group that of its alphabetically first trace *)
Definition event_count_of (s : file) (f0 n0 : Z) : Z :=
  if (f0 =? F_TRACE) && negb (n0 =? 0)
  then match f_trace s with
       | Some g => match first_trace g with Some d => zlen (nd_rows d) | None => n0 end
       | None => n0
       end
  else n0.

Definition rectify_metadata (s : file) : file :=
  match feats_sorted s with
  | [] => s
  | (f0, n0) :: _ =>
      let a1 := aset M_EVENT_COUNT (event_count_of s f0 n0) (f_attrs s) in
      (* empty features (groups) are ignored below *)
      let feats := map fst (filter (fun fn => negb (snd fn =? 0)) (feats_sorted s)) in
      let has f := existsb (Z.eqb f) feats in
      let a2 := if has F_TRACE
                then match f_trace s with
                     | Some g => match first_trace g with
                                 | Some d => aset M_SAMPLES (nth 0 (nd_shape d) 0) a1
                                 | None => a1
                                 end
                     | None => a1
                     end
                else a1 in
      let chcount := (if has F_FL1MAX then 1 else 0) + (if has F_FL2MAX then 1 else 0)
                     + (if has F_FL3MAX then 1 else 0) in
      let a3 := if (0 <? chcount) && negb (amem M_CHANNELS a2)
                then aset M_CHANNELS chcount a2 else a2 in
      let shape := if has F_IMAGE then option_map nd_shape (alookup F_IMAGE (f_nd s))
                   else if has F_MASK then option_map nd_shape (alookup F_MASK (f_nd s))
                   else None in
      let a4 := match shape with
                | Some shp => aset M_ROI_Y (nth 0 shp 0) (aset M_ROI_X (nth 1 shp 0) a3)
                | None => a3
                end in
      with_attrs s a4
  end.

Definition set_file (s : state) (fe : file * bool) : state * bool :=
  ({| st_w := st_w s; st_f := fst fe |}, snd fe).

(* one call; the boolean tells whether the call raised *)
Definition step (s : state) (o : op) : state * bool :=
  let w := st_w s in
  let f := st_f s in
  match o with
  | OOpen m =>
      ({| st_w := {| w_mode := m; w_gs := None; w_csb := w_csb w |};
          st_f := if m =? 2 then empty_file else f |}, false)
  | OClose =>
      ({| st_w := w;
          st_f := match feats_sorted f with [] => f | _ => rectify_metadata f end |}, false)
  | OConfig c =>
      ({| st_w := {| w_mode := w_mode w; w_gs := w_gs w; w_csb := c |}; st_f := f |}, false)
  | OScalar ft isint data => set_file s (store_scalar w f ft isint data)
  | OImage ft isbool shape ddt data => set_file s (store_image w f ft isbool shape ddt data)
  | OContour data =>
      let '(w', f') := store_contour w f data in ({| st_w := w'; st_f := f' |}, false)
  | OTrace shape ddt data => set_file s (store_trace w f shape ddt data)
  | OLog name lines =>
      ({| st_w := w;
          st_f := with_logs f (aset name (write_text (w_mode w) (alookup name (f_logs f)) lines)
                                    (f_logs f)) |}, false)
  | OTable name cols rows => set_file s (store_table f name cols rows)
  | OMeta kvs => ({| st_w := w; st_f := store_meta f kvs |}, false)
  | OArr ft isbool shape dshape ddt flat =>
      set_file s (store_image w f ft isbool (arr_shape ft shape dshape) ddt
                              (arr_events ft shape dshape flat))
  end.

Fixpoint run (s : state) (ops : list op) : state :=
  match ops with
  | [] => s
  | o :: r => run (fst (step s o)) r
  end.

Fixpoint run_errs (s : state) (ops : list op) : list bool :=
  match ops with
  | [] => []
  | o :: r => snd (step s o) :: run_errs (fst (step s o)) r
  end.

(* ---- the readers (fmt_hdf5) --------------------------------------------------- *)
(* H5ScalarEvent: the array as stored *)
Definition rd_scalar (s : file) (f : Z) : list fval :=
  match alookup f (f_scal s) with Some (_, v) => v | None => [] end.

Definition rd_dtype (s : file) (f : Z) : option sdtype :=
  option_map fst (alookup f (f_scal s)).

(* image-like features: the h5py dataset; H5MaskEvent: asarray(dtype=bool) *)
Definition rd_nd (s : file) (f : Z) : list row :=
  match alookup f (f_nd s) with
  | Some d => if f =? F_MASK then map (map (fun v => if v =? 0 then 0 else 1)) (nd_rows d)
              else nd_rows d
  | None => []
  end.

(* H5ContourEvent: event k is h5group[str(k)] *)
Definition rd_contour (s : file) : list (option row) :=
  match f_contour s with
  | Some g => map (fun k => alookup k g) (zrange (length g))
  | None => []
  end.

Definition rd_trace (s : file) (tr : Z) : list row :=
  match f_trace s with
  | Some g => match alookup tr g with Some d => nd_rows d | None => [] end
  | None => []
  end.

(* H5Logs: logs without lines are hidden *)
Definition rd_log (s : file) (name : Z) : list row :=
  match alookup name (f_logs s) with Some d => lg_lines d | None => [] end.

Definition rd_table (s : file) (name : Z) : option table := alookup name (f_tables s).

Definition rd_attr (s : file) (k : Z) : option Z := alookup k (f_attrs s).

(* ---- specification: what was passed to the writer ------------------------------ *)
(* the data of one feature written since the last replace/reset *)
Definition upd {A} (mode : Z) (acc data : list A) : list A :=
  if mode =? 1 then data else acc ++ data.

Fixpoint spec_scalar (f : Z) (mode : Z) (acc : list fval) (ops : list op) : list fval :=
  match ops with
  | [] => acc
  | OOpen m :: r => spec_scalar f m (if m =? 2 then [] else acc) r
  | OScalar g _ data :: r =>
      if (g =? f) && negb (f =? F_INDEX) then spec_scalar f mode (upd mode acc data) r
      else spec_scalar f mode acc r
  | _ :: r => spec_scalar f mode acc r
  end.

(* the index feature only counts the events it was given *)
Fixpoint spec_index_len (mode : Z) (acc : Z) (ops : list op) : Z :=
  match ops with
  | [] => acc
  | OOpen m :: r => spec_index_len m (if m =? 2 then 0 else acc) r
  | OScalar g _ data :: r =>
      if g =? F_INDEX then spec_index_len mode (if mode =? 1 then zlen data else acc + zlen data) r
      else spec_index_len mode acc r
  | _ :: r => spec_index_len mode acc r
  end.

Definition enumerate_from_1 (n : Z) : list fval :=
  map (fun i => (0, 8 * (1 + Z.of_nat i))) (seq 0 (Z.to_nat n)).

(* image-like features; a mask reads back as 0/1 whatever non-zero value was given *)
Definition as_bool (data : list row) : list row :=
  map (map (fun v => if v =? 0 then 0 else 1)) data.

Fixpoint spec_nd (f : Z) (mode : Z) (acc : list row) (ops : list op) : list row :=
  match ops with
  | [] => acc
  | OOpen m :: r => spec_nd f m (if m =? 2 then [] else acc) r
  | OImage g _ _ _ data :: r =>
      if g =? f then spec_nd f mode (upd mode acc (if f =? F_MASK then as_bool data else data)) r
      else spec_nd f mode acc r
  | OArr g _ shape dshape _ flat :: r =>
      let data := arr_events g shape dshape flat in
      if g =? f then spec_nd f mode (upd mode acc (if f =? F_MASK then as_bool data else data)) r
      else spec_nd f mode acc r
  | _ :: r => spec_nd f mode acc r
  end.

Fixpoint spec_contour (mode : Z) (acc : list row) (ops : list op) : list row :=
  match ops with
  | [] => acc
  | OOpen m :: r => spec_contour m (if m =? 2 then [] else acc) r
  | OContour data :: r => spec_contour mode (upd mode acc data) r
  | _ :: r => spec_contour mode acc r
  end.

(* the traces of a call that precede its first empty array are written *)
Fixpoint effective (data : list (Z * list row)) : list (Z * list row) :=
  match data with
  | [] => []
  | (tr, rows) :: r => if nonempty rows then (tr, rows) :: effective r else []
  end.

(* the last array given for [tr] in one call (dict keys are unique in Python;
   the model accepts any list) applied in call order *)
Fixpoint spec_trace_call (tr : Z) (acc : list row) (data : list (Z * list row)) : list row :=
  match data with
  | [] => acc
  | (t, rows) :: r => spec_trace_call tr (if t =? tr then acc ++ rows else acc) r
  end.

Fixpoint spec_trace (tr : Z) (mode : Z) (acc : list row) (ops : list op) : list row :=
  match ops with
  | [] => acc
  | OOpen m :: r => spec_trace tr m (if m =? 2 then [] else acc) r
  | OTrace _ _ data :: r =>
      let acc0 := if (mode =? 1) && existsb (Z.eqb tr) (map fst data) then [] else acc in
      spec_trace tr mode (spec_trace_call tr acc0 (effective data)) r
  | _ :: r => spec_trace tr mode acc r
  end.

Fixpoint spec_log (name : Z) (mode : Z) (acc : list row) (ops : list op) : list row :=
  match ops with
  | [] => acc
  | OOpen m :: r => spec_log name m (if m =? 2 then [] else acc) r
  | OLog g lines :: r =>
      if g =? name then spec_log name mode (upd mode acc lines) r
      else spec_log name mode acc r
  | _ :: r => spec_log name mode acc r
  end.

(* a table is written once; a second store_table under the same name raises *)
Fixpoint spec_table (name : Z) (acc : option table) (ops : list op) : option table :=
  match ops with
  | [] => acc
  | OOpen m :: r => spec_table name (if m =? 2 then None else acc) r
  | OTable g cols rows :: r =>
      if g =? name
      then spec_table name (match acc with Some t => Some t | None => Some (cols, rows) end) r
      else spec_table name acc r
  | _ :: r => spec_table name acc r
  end.

(* ---- guards: the inputs on which the code does not keep what it was given ------- *)
(* (known findings C01-log-truncated, C01-dtype-frozen, C01-nd-dtype-frozen;
   mirrored by the matchers in harness/c01.py) *)
Definition fits (dt : sdtype) (v : fval) : bool :=
  let c := cast dt v in (fst c =? fst v) && (snd c =? snd v).

(* every value of a 1-d write is representable in the dtype of the dataset
   that receives it *)
Definition scalar_ok (s : state) (f : Z) (isint : bool) (data : list fval) : bool :=
  if f =? F_INDEX then true
  else
    let sc := if w_mode (st_w s) =? 1 then adel f (f_scal (st_f s)) else f_scal (st_f s) in
    let dt := match alookup f sc with
              | Some (dt, _) => dt
              | None => match forced_dtype f with
                        | Some t => t
                        | None => if isint then I64 else F64
                        end
              end in
    forallb (fits dt) data.

(* every line appended to an existing log fits the width chosen at creation *)
Definition log_ok (s : state) (name : Z) (lines : list row) : bool :=
  if w_mode (st_w s) =? 1 then true
  else match alookup name (f_logs (st_f s)) with
       | Some d => forallb (fun l => zlen l <=? lg_width d) lines
       | None => true
       end.

(* every value of an n-d write is representable in the dtype of the dataset
   that receives it (known finding C01-nd-dtype-frozen when the dtype was
   frozen by an earlier array; for the forced uint8 / float32 features: the
   values lie in the documented type) *)
Definition rows_fit (t : ndt) (rows : list row) : bool := forallb (forallb (fits_nd t)) rows.

Definition image_ok (s : state) (f : Z) (isbool : bool) (ddt : ndt) (data : list row) : bool :=
  let ndl := if w_mode (st_w s) =? 1 then adel f (f_nd (st_f s)) else f_nd (st_f s) in
  rows_fit (image_dt (alookup f ndl) f ddt) (image_data f isbool data).

(* the guard for one trace name: only the arrays stored under [tr] matter *)
Fixpoint trace_ok (tr : Z) (csb : Z) (shape : list Z) (ddt : ndt)
         (data : list (Z * list row)) (grp : option (list (Z * nd))) : bool :=
  match data with
  | [] => true
  | (t, rows) :: r =>
      let g := match grp with Some g => g | None => [] end in
      if nonempty rows then
        let dt := trace_dt (alookup t g) ddt in
        (if t =? tr then rows_fit dt rows else true)
        && trace_ok tr csb shape ddt r
                    (Some (aset t (write_nd csb (alookup t g) shape (ndt_size ddt) dt
                                            (map (map (cast_nd dt)) rows)) g))
      else true
  end.

Definition trace_grp0 (s : state) (data : list (Z * list row)) : option (list (Z * nd)) :=
  match f_trace (st_f s) with
  | Some g => if w_mode (st_w s) =? 1
              then Some (fold_left (fun g' tr => adel tr g') (map fst data) g)
              else Some g
  | None => None
  end.

(* guards per object: only the writes to the dataset in question count *)
Fixpoint hist_ok_by (okf : state -> op -> bool) (s : state) (ops : list op) : bool :=
  match ops with
  | [] => true
  | o :: r => okf s o && hist_ok_by okf (fst (step s o)) r
  end.

Definition op_ok_scalar (f : Z) (s : state) (o : op) : bool :=
  match o with
  | OScalar g isint data => if g =? f then scalar_ok s g isint data else true
  | _ => true
  end.
Definition op_ok_log (name : Z) (s : state) (o : op) : bool :=
  match o with
  | OLog g lines => if g =? name then log_ok s g lines else true
  | _ => true
  end.
Definition op_ok_nd (f : Z) (s : state) (o : op) : bool :=
  match o with
  | OImage g isbool _ ddt data => if g =? f then image_ok s g isbool ddt data else true
  | OArr g isbool shape dshape ddt flat =>
      if g =? f then image_ok s g isbool ddt (arr_events g shape dshape flat) else true
  | _ => true
  end.
Definition op_ok_trace (tr : Z) (s : state) (o : op) : bool :=
  match o with
  | OTrace shape ddt data => trace_ok tr (w_csb (st_w s)) shape ddt data (trace_grp0 s data)
  | _ => true
  end.

Definition hist_ok_scalar (f : Z) := hist_ok_by (op_ok_scalar f).
Definition hist_ok_log (name : Z) := hist_ok_by (op_ok_log name).
Definition hist_ok_nd (f : Z) := hist_ok_by (op_ok_nd f).
Definition hist_ok_trace (tr : Z) := hist_ok_by (op_ok_trace tr).

(* ---- interface used by the correspondence check (harness/c01.py) ---------------- *)
(* dtype codes of arrays and n-d datasets *)
Definition ndt_of (c : Z) : ndt :=
  if c =? 1 then NDInt 1 0 255 1
  else if c =? 2 then NDInt 2 (- 2 ^ 15) (2 ^ 15 - 1) 1
  else if c =? 3 then NDInt 4 (- 2 ^ 31) (2 ^ 31 - 1) 1
  else if c =? 4 then NDInt 8 (- 2 ^ 63) (2 ^ 63 - 1) 1
  else if c =? 5 then NDF32 8
  else if c =? 6 then NDInt 8 (- 2 ^ 63) (2 ^ 63 - 1) 8
  else NDRaw.
Definition ndt_code (t : ndt) : Z :=
  match t with
  | NDRaw => 0
  | NDF32 _ => 5
  | NDInt b _ _ sc => if b =? 1 then 1 else if b =? 2 then 2 else if b =? 4 then 3
                      else if sc =? 8 then 6 else 4
  end.

Definition enc_opt {A} (enc : A -> list Z) (o : option A) : list Z :=
  match o with Some a => 1 :: enc a | None => [0] end.

Definition enc_rows (rows : list row) : list Z :=
  zlen rows :: flat_map (fun r => zlen r :: r) rows.

(* n-d data are compared through their length and a position-sensitive digest *)
Definition digest_row (h : Z) (r : row) : Z :=
  fold_left (fun h v => (h * 131 + v + 1000) mod 2147483647) r
            ((h * 131 + zlen r) mod 2147483647).
Definition enc_digest (rows : list row) : list Z :=
  [zlen rows; fold_left digest_row rows 7].

Definition dt_code (dt : sdtype) : Z :=
  match dt with F64 => 0 | I64 => 1 | U32 => 2 | U64 => 3 end.

Definition enc_feature (s : file) (f : Z) : list Z :=
  if f =? F_CONTOUR then
    enc_opt (fun g : list (Z * row) =>
               zlen g :: flat_map (fun o => match o with Some r => zlen r :: r | None => [-1] end)
                                  (rd_contour s)) (f_contour s)
  else if f =? F_TRACE then
    enc_opt (fun g : list (Z * nd) =>
               flat_map (fun t => enc_opt (fun d : nd => ndt_code (nd_dt d) :: enc_digest (rd_trace s t)) (alookup t g))
                        (zrange NTRACE)) (f_trace s)
  else match alookup f (f_scal s) with
       | Some (dt, v) => 1 :: dt_code dt :: zlen v :: flat_map (fun x => [fst x; snd x]) v
       | None => match alookup f (f_nd s) with
                 | Some d => 2 :: ndt_code (nd_dt d) :: enc_digest (rd_nd s f)
                 | None => [0]
                 end
       end.

Definition obs_flat (s : file) : list Z :=
  flat_map (enc_feature s) (zrange NFEAT)
  ++ [-7] ++ flat_map (fun n => if nonempty (rd_log s n) then 1 :: enc_rows (rd_log s n) else [0])
                      (zrange NLOG)
  ++ [-8] ++ flat_map (fun n => enc_opt (fun t : table => zlen (fst t) :: fst t ++ enc_rows (snd t))
                                        (rd_table s n)) (zrange NTABLE)
  ++ [-9] ++ flat_map (fun k => enc_opt (fun v => [v]) (rd_attr s k)) (zrange NMETA).

(* generated n-d test data (the harness describes image-like data by a seed
   instead of listing every pixel): events a..b-1 with [len] values each *)
Definition gen_px (kind seed i j : Z) : Z :=
  let base := i * 31 + j * 17 + seed * 7 + (i * j) mod 5 in
  if kind =? 0 then base mod 256
  else if kind =? 1 then (if base mod 3 =? 0 then 1 else 0)
  else if kind =? 2 then (base * 13) mod 2201 - 200
  else if kind =? 3 then base mod 81 - 16
  else if kind =? 5 then (base * 131) mod 200001 - 100000
  else if kind =? 6 then 8 * (base mod 50)
  else if kind =? 7 then (2 ^ 24 + base mod 97) * (1 + base mod 5) - (base mod 3) * 2 ^ 26
  else (if base mod 3 =? 0 then 1 + seed mod 255 else 0).
Definition gen_rows (kind seed a b len : Z) : list row :=
  map (fun i => map (fun j => gen_px kind seed (a + Z.of_nat i) (Z.of_nat j))
                    (seq 0 (Z.to_nat len)))
      (seq 0 (Z.to_nat (b - a))).

Definition run_flat (ops : list op) : list Z :=
  obs_flat (st_f (run init ops))
  ++ [-10] ++ map (fun b : bool => if b then 1 else 0) (run_errs init ops).
