(* Model of dclab/rtdc_dataset/export.py: Export.hdf5 (selection logic),
   store_filtered_feature, yield_filtered_array_stacks (both routes) and
   Export.tsv.  Executable definitions only; proofs are in Proofs/C02.v.

   Follows the code:
     RTDCWriter.get_best_nd_chunks      -> best_chunk
     yield_filtered_array_stacks        -> stacks_fast (hasattr(data, "__array__"))
                                           stacks_slow (event-wise, in-place buffer)
     np.where(filtarr)[0]               -> where_
     data[filtarr]                      -> mask_select
     store_filtered_feature             -> store_filtered
     Export.hdf5 (sorted(set(features)), length check and truncation of the
       filter array, fast path condition, feature loop)  -> export
     RTDCWriter.rectify_metadata (event count)           -> event_count
     Export.tsv                         -> tsv_rows

   The writer is trusted here (property C01): the model produces the sequence
   of store_feature calls (feature, sub-key, events); a file holds, for each
   feature, the concatenation of what was stored ([content]).

   An event is an abstract value of type A (the harness instantiates A := Z
   with a checksum of the event's bytes), so every statement proved for all A
   says that events are carried over unchanged. *)
From Coq Require Import ZArith List Bool.
From Verif Require Import Common.ListIdx.
Import ListNotations.
Open Scope Z_scope.

Definition len {A} (l : list A) : Z := Z.of_nat (length l).

(* max(10, int(floor(CHUNK_SIZE_BYTES / event_size))) *)
Definition best_chunk (cfg esize : Z) : Z := Z.max 10 (cfg / esize).

(* np.where(f)[0] *)
Fixpoint where_from (i : Z) (f : list bool) : list Z :=
  match f with
  | [] => []
  | b :: t => if b then i :: where_from (i + 1) t else where_from (i + 1) t
  end.
Definition where_ (f : list bool) : list Z := where_from 0 f.

Fixpoint count_true (f : list bool) : Z :=
  match f with
  | [] => 0
  | b :: t => (if b then 1 else 0) + count_true t
  end.

(* filter_arr[l_min:] = False *)
Definition trunc (lmin : Z) (f : list bool) : list bool :=
  firstn (Z.to_nat lmin) f ++ repeat false (length f - Z.to_nat lmin).

(* sorted(set(features)) on feature names (the harness numbers the names so
   that the order of the numbers is the order of the strings) *)
Fixpoint ins (x : Z) (l : list Z) : list Z :=
  match l with
  | [] => [x]
  | y :: t => if x <? y then x :: l else if x =? y then l else y :: ins x t
  end.
Definition sortset (l : list Z) : list Z := fold_right ins [] l.

(* [1; 2; ...; n] shifted: range a (a+n) *)
Fixpoint zrange (a : Z) (n : nat) : list Z :=
  match n with O => [] | S n' => a :: zrange (a + 1) n' end.

Section Stacks.
  Context {A : Type}.
  Variable d : A.      (* value of an out-of-range access (never reached for
                          the indices export produces: see the range lemmas) *)
  Variable z : A.      (* the all-zero event np.zeros fills the buffer with *)
  Variable c : Z.      (* chunk_size *)
  Variable data : list A.

  Definition getev (i : Z) : A := nth (Z.to_nat i) data d.
  (* data[idx] with an integer index array *)
  Definition take (idx : list Z) : list A := map getev idx.

  (* for kk in range(len(indices) // chunk_size):
         start = chunk_size * kk; stop = chunk_size * (kk + 1)
         yield data[indices[start:stop]]                                  *)
  Fixpoint fast_loop (n : nat) (kk stop : Z) (idx : list Z)
    : list (list A) * Z :=
    match n with
    | O => ([], stop)
    | S n' =>
        let start := c * kk in
        let stop' := c * (kk + 1) in
        let '(r, s) := fast_loop n' (kk + 1) stop' idx in
        (take (slice idx start stop') :: r, s)
    end.

  Definition stacks_fast (idx : list Z) : list (list A) :=
    let L := len idx in
    let '(r, stop) := fast_loop (Z.to_nat (L / c)) 0 0 idx in
    r ++ (if stop <? L then [take (skipn (Z.to_nat stop) idx)] else []).

  (* chunk[jj] = x *)
  Fixpoint upd (l : list A) (n : nat) (x : A) : list A :=
    match l, n with
    | [], _ => []
    | _ :: t, O => x :: t
    | h :: t, S n' => h :: upd t n' x
    end.

  (* chunk = np.zeros(chunk_shape); jj = 0
     for ii in indices:
         chunk[jj] = data[ii]
         if (jj + 1) % chunk_size == 0: jj = 0; yield chunk
         else: jj += 1
     The buffer is reused (stale events stay behind position jj). *)
  Fixpoint slow_loop (idx : list Z) (buf : list A) (jj : Z)
    : list (list A) * (list A * Z) :=
    match idx with
    | [] => ([], (buf, jj))
    | ii :: rest =>
        let buf' := upd buf (Z.to_nat jj) (getev ii) in
        if (jj + 1) mod c =? 0 then
          let '(r, fin) := slow_loop rest buf' 0 in (buf' :: r, fin)
        else slow_loop rest buf' (jj + 1)
    end.

  (* ... if jj: yield chunk[:jj] *)
  Definition slow_all (idx : list Z) (buf : list A) (jj : Z) : list (list A) :=
    let '(r, (b, j)) := slow_loop idx buf jj in
    r ++ (if j =? 0 then [] else [firstn (Z.to_nat j) b]).

  Definition stacks_slow (idx : list Z) : list (list A) :=
    slow_all idx (repeat z (Z.to_nat c)) 0.

  (* data[filtarr] with a boolean array of the same length *)
  Fixpoint mask_select (dat : list A) (f : list bool) : list A :=
    match dat, f with
    | x :: xs, b :: bs => if b then x :: mask_select xs bs else mask_select xs bs
    | _, _ => []
    end.
End Stacks.

(* ---------------------------------------------------------------------- *)
Inductive kind :=
| KScalar            (* dfn.scalar_feature_exists *)
| KIndex             (* "index": re-enumerated by the writer *)
| KContour
| KImage             (* image, image_bg, mask *)
| KTrace             (* dict of arrays *)
| KOther.            (* non-scalar temporary / plugin feature *)

Inductive res (T : Type) :=
| Ok (v : T)
| Err (code : Z).    (* 1 NotImplementedError (array index on a source that
                          only supports integers), 2 IndexError, 4 KeyError *)
Arguments Ok {T} v.
Arguments Err {T} code.

Definition bind {T U} (r : res T) (f : T -> res U) : res U :=
  match r with Ok v => f v | Err c => Err c end.

Section Export.
  Variable A : Type.
  Variable d z : A.
  Variable enum : Z -> A.     (* the event holding index number k *)

  (* one array of a feature: a non-trace feature has exactly one, "trace"
     has one per trace name, in the order of data.keys() *)
  Record part := mkPart {
    p_key : Z;
    p_slice : bool;      (* hasattr(data, "__array__") *)
    p_fancy : bool;      (* data[int array] and data[a:b] work *)
    p_esize : Z;         (* bytes per event *)
    p_data : list A }.
  Record feat := mkFeat { f_name : Z; f_kind : kind; f_parts : list part }.
  Record dset := mkDs {
    ds_hdf5 : bool;      (* ds.format == "hdf5" *)
    ds_len : Z;          (* len(ds) *)
    ds_count : Z;        (* config["experiment"]["event count"] *)
    ds_feats : list feat }.

  Definition call := (Z * Z * list A)%type.     (* feature, sub-key, events *)

  Fixpoint lookup (n : Z) (fs : list feat) : option feat :=
    match fs with
    | [] => None
    | f :: t => if f_name f =? n then Some f else lookup n t
    end.

  Definition in_range (n : Z) (idx : list Z) : bool :=
    forallb (fun i => (0 <=? i) && (i <? n)) idx.

  (* for stack in yield_filtered_array_stacks(data, indices):
         hw.store_feature(feat, stack) *)
  Definition part_stacks (cfg : Z) (p : part) (idx : list Z)
    : res (list (list A)) :=
    let c := best_chunk cfg (p_esize p) in
    if p_slice p then
      if negb (p_fancy p) then Err 1
      else if in_range (len (p_data p)) idx
           then Ok (stacks_fast d c (p_data p) idx) else Err 2
    else if in_range (len (p_data p)) idx
         then Ok (stacks_slow d z c (p_data p) idx) else Err 2.

  Definition part_filtered (cfg : Z) (n : Z) (k : kind) (filt : list bool)
             (p : part) : res (list call) :=
    let idx := where_ filt in
    match k with
    | KContour =>
        if in_range (len (p_data p)) idx
        then Ok (map (fun i => (n, p_key p, [getev d (p_data p) i])) idx)
        else Err 2
    | KScalar =>
        if len filt =? len (p_data p)
        then Ok [(n, p_key p, mask_select (p_data p) filt)] else Err 2
    | KIndex =>
        if len filt =? len (p_data p)
        then Ok [(n, p_key p,
                  map enum (zrange 1 (length (mask_select (p_data p) filt))))]
        else Err 2
    | KImage | KTrace | KOther =>
        bind (part_stacks cfg p idx)
             (fun chunks => Ok (map (fun ch => (n, p_key p, ch)) chunks))
    end.

  Fixpoint bind_all {T} (f : T -> res (list call)) (l : list T)
    : res (list call) :=
    match l with
    | [] => Ok []
    | x :: t => bind (f x) (fun a => bind (bind_all f t) (fun b => Ok (a ++ b)))
    end.

  (* store_filtered_feature(rtdc_writer, feat, data, filtarr) *)
  Definition store_filtered (cfg : Z) (f : feat) (filt : list bool)
    : res (list call) :=
    match where_ filt with
    | [] => Ok []                     (* "No data to export": nothing stored *)
    | _ => bind_all (part_filtered cfg (f_name f) (f_kind f) filt) (f_parts f)
    end.

  (* hw.store_feature(feat=feat, data=ds[feat], shape=shape) *)
  Definition part_whole (n : Z) (k : kind) (p : part) : res (list call) :=
    match k with
    | KIndex => Ok [(n, p_key p, map enum (zrange 1 (length (p_data p))))]
    | KScalar | KContour => Ok [(n, p_key p, p_data p)]
    | KImage | KTrace | KOther =>
        (* write_ndarray slices the source: data[start:stop] *)
        if p_fancy p then Ok [(n, p_key p, p_data p)] else Err 1
    end.

  Definition lengths (fs : list feat) : list Z :=
    flat_map (fun f => map (fun p => len (p_data p)) (f_parts f)) fs.

  Definition zmin_list (h : Z) (t : list Z) := fold_right Z.min h t.
  Definition zmax_list (h : Z) (t : list Z) := fold_right Z.max h t.

  Fixpoint lookup_all (ds : dset) (names : list Z) : res (list feat) :=
    match names with
    | [] => Ok []
    | n :: t =>
        match lookup n (ds_feats ds) with
        | None => Err 4
        | Some f => bind (lookup_all ds t) (fun r => Ok (f :: r))
        end
    end.

  (* the filter array after the length check *)
  Definition filter_arr (ds : dset) (filt : list bool) (filtered skip : bool)
             (fs : list feat) : option (list bool) :=
    let fa0 := if filtered then Some filt else None in
    if skip then fa0 else
    match lengths fs with
    | [] => fa0
    | h :: t =>
        let lmin := zmin_list h t in
        let lmax := zmax_list h t in
        if lmin =? lmax then fa0
        else Some (trunc lmin (match fa0 with
                               | None => repeat true (Z.to_nat (ds_len ds))
                               | Some f => f
                               end))
    end.

  Definition feat_calls (cfg : Z) (ds : dset) (fa : option (list bool))
             (f : feat) : res (list call) :=
    match fa with
    | None => bind_all (part_whole (f_name f) (f_kind f)) (f_parts f)
    | Some fl =>
        if forallb (fun b => b) fl && ds_hdf5 ds
        then bind_all (part_whole (f_name f) (f_kind f)) (f_parts f)
        else store_filtered cfg f fl
    end.

  (* what the file holds for (feature, key): everything stored, in order *)
  Definition content (calls : list call) (n k : Z) : list A :=
    flat_map (fun cl => let '(n', k', ev) := cl in
                        if (n' =? n) && (k' =? k) then ev else []) calls.

  (* rectify_metadata: the length of the alphabetically first feature in the
     file (for "trace": of its first trace); when no feature was stored the
     value written with the metadata stays.  [fix C02-empty-export-count]: that
     value is the number of selected events when a filter array is in use. *)
  Fixpoint first_call (best : Z * Z) (calls : list call) : Z * Z :=
    match calls with
    | [] => best
    | (n, k, _) :: t =>
        let '(bn, bk) := best in
        first_call (if (n <? bn) || ((n =? bn) && (k <? bk)) then (n, k)
                    else best) t
    end.

  Definition event_count (ds : dset) (fa : option (list bool))
             (calls : list call) : Z :=
    match calls with
    | [] => match fa with Some fl => count_true fl | None => ds_count ds end
    | (n, k, _) :: t =>
        let '(bn, bk) := first_call (n, k) t in len (content calls bn bk)
    end.

  Definition export (cfg : Z) (ds : dset) (filt : list bool)
             (filtered skip : bool) (req : list Z) : res (list call * Z) :=
    let names := sortset req in
    bind (lookup_all ds names) (fun fs =>
    let fa := filter_arr ds filt filtered skip fs in
    bind (bind_all (feat_calls cfg ds fa) fs) (fun calls =>
    Ok (calls, event_count ds fa calls))).

  (* ---- specification --------------------------------------------------- *)
  (* the events that must be in the file: those selected by the filter (all
     when filtering is off), limited to the common length [lim] of the
     requested features *)
  Definition spec_lim (skip : bool) (fs : list feat) : option Z :=
    if skip then None
    else match lengths fs with [] => None | h :: t => Some (zmin_list h t) end.

  Definition spec_idx (filtered : bool) (filt : list bool) (lim : option Z)
             (data : list A) : list Z :=
    filter (fun i => (i <? len data)
                     && match lim with None => true | Some l => i <? l end)
           (if filtered then where_ filt else zrange 0 (length data)).

  Definition spec_content (filtered : bool) (filt : list bool)
             (lim : option Z) (k : kind) (data : list A) : list A :=
    match k with
    | KIndex => map enum (zrange 1 (length (spec_idx filtered filt lim data)))
    | _ => take d data (spec_idx filtered filt lim data)
    end.

  (* well-formed dataset: trace names are unique within "trace" and no array
     has more events than the dataset *)
  Definition wf_ds (ds : dset) : Prop :=
    Forall (fun f => NoDup (map p_key (f_parts f))
                     /\ Forall (fun p => len (p_data p) <= ds_len ds)
                               (f_parts f)) (ds_feats ds).

  (* inputs outside the two known failure classes *)
  (* scalars have len(ds) events; n-d features may be shorter (aborted
     acquisition); image-like sources accept array indexing unless they are
     integer-only sources of a non-hdf5 dataset exported with filtering *)
  Definition part_guard (ds : dset) (filtered : bool) (k : kind) (p : part)
    : bool :=
    match k with
    | KScalar | KIndex => len (p_data p) =? ds_len ds
    | KContour => len (p_data p) <=? ds_len ds
    | KImage | KTrace | KOther =>
        (len (p_data p) <=? ds_len ds)
        && (p_fancy p || (negb (p_slice p) && filtered && negb (ds_hdf5 ds)))
    end.

  (* with the length check some requested array spans the whole dataset
     (otherwise the filter is not clipped: finding
     C02-short-features-indexerror); without the check all do *)
  Definition lens_guard (ds : dset) (skip : bool) (fs : list feat) : bool :=
    if skip then forallb (fun l => l =? ds_len ds) (lengths fs)
    else match lengths fs with
         | [] => true
         | ls => existsb (fun l => l =? ds_len ds) ls
         end.

  Definition export_guard (ds : dset) (filtered skip : bool) (req : list Z)
    : bool :=
    forallb (fun n => match lookup n (ds_feats ds) with
                      | None => false
                      | Some f => forallb (part_guard ds filtered (f_kind f))
                                          (f_parts f)
                      end) (sortset req)
    && match lookup_all ds (sortset req) with
       | Ok fs => lens_guard ds skip fs
       | Err _ => false
       end.

  (* ---- Export.tsv -------------------------------------------------------- *)
  (* data = [ds[c][ds.filter.all] for c in features] (or ds[c]);
     np.array(data).transpose() *)
  Definition tsv_cols (ds : dset) (filt : list bool) (filtered : bool)
             (req : list Z) : res (list (list A)) :=
    (fix go (names : list Z) : res (list (list A)) :=
       match names with
       | [] => Ok []
       | n :: t =>
           match lookup n (ds_feats ds) with
           | Some (mkFeat _ KScalar [p]) | Some (mkFeat _ KIndex [p]) =>
               if filtered && negb (len filt =? len (p_data p)) then Err 2 else
               bind (go t) (fun r =>
                 Ok ((if filtered then mask_select (p_data p) filt
                      else p_data p) :: r))
           | _ => Err 5              (* ValueError: invalid feature name *)
           end
       end) (sortset req).

  Definition transpose (cols : list (list A)) : list (list A) :=
    match cols with
    | [] => []
    | c0 :: _ =>
        map (fun r => map (fun col => nth r col d) cols) (seq 0 (length c0))
    end.

  Definition tsv_rows (ds : dset) (filt : list bool) (filtered : bool)
             (req : list Z) : res (list (list A)) :=
    bind (tsv_cols ds filt filtered req) (fun cols => Ok (transpose cols)).
End Export.

Arguments p_key {A}. Arguments p_slice {A}. Arguments p_fancy {A}.
Arguments p_esize {A}. Arguments p_data {A}.
Arguments f_name {A}. Arguments f_kind {A}. Arguments f_parts {A}.
Arguments ds_hdf5 {A}. Arguments ds_len {A}. Arguments ds_count {A}.
Arguments ds_feats {A}.

(* ---- interface used by the correspondence check (harness/c02.py) --------- *)
Definition dkind (k : Z) : kind :=
  if k =? 0 then KScalar else if k =? 1 then KIndex else if k =? 2 then KContour
  else if k =? 3 then KImage else if k =? 4 then KTrace else KOther.

Definition zb (x : Z) : bool := negb (x =? 0).

(* part = (key, sliceable, fancy, event size, tokens) *)
Definition dpart (t : Z * Z * Z * Z * list Z) : part Z :=
  let '(k, s, f, e, dat) := t in mkPart Z k (zb s) (zb f) e dat.
Definition dfeat (t : Z * Z * list (Z * Z * Z * Z * list Z)) : feat Z :=
  let '(n, k, ps) := t in mkFeat Z n (dkind k) (map dpart ps).

(* stacks case = (route 0 fast / 1 slow, chunk bytes, event size, data, idx);
   result: the events of all stacks in order *)
Definition stacks_flat (case : Z * Z * Z * list Z * list Z) : list Z :=
  let '(route, cfg, esize, dat, idx) := case in
  let c := best_chunk cfg esize in
  let chunks := if route =? 0 then stacks_fast (-7) c dat idx
                else stacks_slow (-7) 0 c dat idx in
  concat chunks.

Definition enc_feat_content (calls : list (call Z)) (f : feat Z) : list Z :=
  flat_map (fun p => let cnt := content Z calls (f_name f) (p_key p) in
                     [f_name f; p_key p; len cnt] ++ cnt) (f_parts f).

(* export case = ((cfg, hdf5, ds_len, ds_count), feats, filt, (filtered, skip), req) *)
Definition export_flat
  (case : (Z * Z * Z * Z) * list (Z * Z * list (Z * Z * Z * Z * list Z))
          * list bool * (Z * Z) * list Z) : list Z :=
  let '(hd, fts, filt, fl, req) := case in
  let '(cfg, h5, n, cnt) := hd in
  let '(filtered, skip) := fl in
  let ds := mkDs Z (zb h5) n cnt (map dfeat fts) in
  match export Z (-7) 0 (fun k => k) cfg ds filt (zb filtered) (zb skip) req with
  | Err c => [1; c]
  | Ok (calls, count) =>
      [0; count] ++
      match lookup_all Z ds (sortset req) with
      | Ok fs => flat_map (enc_feat_content calls) fs
      | Err _ => []
      end
  end.

(* tsv case = (feats, filt, filtered, req); result: rows (row length, values) *)
Definition tsv_flat
  (case : list (Z * Z * list (Z * Z * Z * Z * list Z)) * list bool * Z * list Z)
  : list Z :=
  let '(fts, filt, filtered, req) := case in
  let ds := mkDs Z false (len filt) (len filt) (map dfeat fts) in
  match tsv_rows Z (-7) ds filt (zb filtered) req with
  | Err c => [1; c]
  | Ok rows => 0 :: flat_map (fun r => len r :: r) rows
  end.

(* ---- Export.hdf5: default feature list, metadata, logs/tables flags ---------
   `features=None` means ds.features_innate (features provided by basins are
   then not written but left to the basins); `features=[]` writes no feature.
   The `basins` flag adds basin definitions (property C07) and never changes
   which feature events are written.  Metadata: the event count (see
   event_count), the run identifier ("<measurement identifier>-<4 hex>" when
   filtered, else unchanged; uuid4 is an oracle value [rnd]), every other key
   (here: the sample name) unchanged; the source's logs / tables are stored
   (with the prefix) exactly when the flag is set. *)
(* logs: hw.store_log(f"{meta_prefix}{log}", ds.logs[log]) for every log of the
   source when the flag is set.  RTDCWriter.write_text (mode "append"): a line
   is its UTF-8 bytes; a new dataset gets the fixed width
   max(100, longest line of this call) and holds the lines cut to that width;
   an existing dataset is extended by the lines cut to ITS width (so later,
   longer lines are truncated: C01's finding).  The prefixing of names is the
   function [pre]; [f0] is what the file holds before (the export's own log).
   Tables: hw.store_table creates one dataset per table (no width): a table
   is its list of rows, kept in [text_calls]/[text_content]. *)
Definition line := list Z.
Definition width_of (lines : list line) : Z :=
  fold_right (fun l w => Z.max (len l) w) 100 lines.
Definition fit (w : Z) (l : line) : line := firstn (Z.to_nat w) l.
Definition tfile := list (Z * (Z * list line)).     (* name, (width, lines) *)

Fixpoint write_text (f : tfile) (name : Z) (lines : list line) : tfile :=
  match f with
  | [] => [(name, (width_of lines, map (fit (width_of lines)) lines))]
  | (n, (w, old)) :: t =>
      if n =? name then (n, (w, old ++ map (fit w) lines)) :: t
      else (n, (w, old)) :: write_text t name lines
  end.

Fixpoint text_lookup (f : tfile) (name : Z) : list line :=
  match f with
  | [] => []
  | (n, (_, ls)) :: t => if n =? name then ls else text_lookup t name
  end.

Definition store_logs (flag : bool) (pre : Z -> Z) (src : list (Z * list line))
           (f0 : tfile) : tfile :=
  if flag then fold_left (fun f nl => write_text f (pre (fst nl)) (snd nl)) src f0
  else f0.

Definition text := (Z * list Z)%type.
Definition text_calls (flag : bool) (pre : Z -> Z) (src : list text) : list text :=
  if flag then map (fun nl => (pre (fst nl), snd nl)) src else [].
Definition text_content (calls : list text) (name : Z) : list Z :=
  flat_map (fun c => if fst c =? name then snd c else []) calls.

Record smeta := mkSmeta {
  sm_runid : option Z;        (* config["experiment"]["run identifier"] *)
  sm_hashid : option Z;       (* md5(time_date_setup identifier), if defined *)
  sm_sample : Z;
  sm_logs : list (Z * list line);   (* the (non-empty) logs: name, lines *)
  sm_tables : list text }.    (* the tables: name, rows *)

Record ometa := mkOmeta {
  om_runid : option (option Z * option Z);   (* (identifier, random suffix) *)
  om_sample : Z;
  om_count : Z;
  om_logs : tfile;            (* the logs group after the export *)
  om_tables : list text }.

(* RTDCBase.get_measurement_identifier *)
Definition meas_id (sm : smeta) : option Z :=
  match sm_runid sm with Some r => Some r | None => sm_hashid sm end.

Definition export_meta (rnd : Z) (pre : Z -> Z) (f0 : tfile) (sm : smeta)
           (filtered logs tables : bool) (cnt : Z) : ometa :=
  {| om_runid := if filtered then Some (meas_id sm, Some rnd)
                 else match sm_runid sm with
                      | Some r => Some (Some r, None)
                      | None => None
                      end;
     om_sample := sm_sample sm;
     om_count := cnt;
     om_logs := store_logs logs pre (sm_logs sm) f0;
     om_tables := text_calls tables pre (sm_tables sm) |}.

Definition req_features (features : option (list Z)) (innate : list Z) : list Z :=
  match features with None => innate | Some l => l end.

Definition export_full (A : Type) (d z : A) (enum : Z -> A) (rnd cfg : Z)
           (pre : Z -> Z) (f0 : tfile)
           (ds : dset A) (innate : list Z) (sm : smeta) (filt : list bool)
           (filtered skip logs tables basins : bool)
           (features : option (list Z)) : res (list (call A) * ometa) :=
  bind (export A d z enum cfg ds filt filtered skip (req_features features innate))
       (fun r => Ok (fst r, export_meta rnd pre f0 sm filtered logs tables (snd r))).

(* number of events every stored array holds when the length check is on *)
Definition spec_count (filtered : bool) (filt : list bool) (lim : option Z) : Z :=
  match lim with
  | Some l => if filtered then len (filter (fun i => i <? l) (where_ filt)) else l
  | None => 0
  end.

(* direct call of store_filtered_feature: case = (cfg, feature, filter) *)
Definition sff_flat
  (case : Z * (Z * Z * list (Z * Z * Z * Z * list Z)) * list bool) : list Z :=
  let '(cfg, ft, filt) := case in
  let f := dfeat ft in
  match store_filtered Z (-7) 0 (fun k => k) cfg f filt with
  | Err c => [1; c]
  | Ok calls => 0 :: enc_feat_content calls f
  end.

Definition oz (o : option Z) : list Z :=
  match o with None => [0] | Some v => [1; v] end.

(* rectify_metadata, channel count: "added if not present" = number of
   fl1_max/fl2_max/fl3_max features stored in the file; a value carried over
   from the source is never touched *)
Definition stored_name {A} (calls : list (Z * Z * list A)) (n : Z) : bool :=
  existsb (fun cl => fst (fst cl) =? n) calls.
Definition count_fl {A} (flnames : list Z) (calls : list (Z * Z * list A)) : Z :=
  len (filter (stored_name calls) flnames).
Definition rectify_chcount (src : option Z) (nfl : Z) : option Z :=
  match src with
  | Some c => Some c
  | None => if 0 <? nfl then Some nfl else None
  end.

(* full case = (export case, (features given?, innate names),
               (logs, tables, basins), (runid, hashid, sample),
               (source logs, source tables), (source channel count, names of
               fl1_max..fl3_max));
   rnd is fixed to 7 (the harness only observes whether a suffix is there);
   names are prefixed by adding 1000.  The last two numbers are not
   observations of the file: spec_count (theorem side, compared with the
   oracle's expectation) and export_guard (must imply "no exception"). *)
Definition enc_texts (calls : list text) (pre : Z -> Z) (src : list text) : list Z :=
  flat_map (fun nl => let c := text_content calls (pre (fst nl)) in len c :: c) src.

Definition enc_logs (f : tfile) (pre : Z -> Z) (src : list (Z * list line)) : list Z :=
  flat_map (fun nl => let ls := text_lookup f (pre (fst nl)) in
                      len ls :: flat_map (fun l => len l :: l) ls) src.

Definition export_full_flat
  (case : ((Z * Z * Z * Z) * list (Z * Z * list (Z * Z * Z * Z * list Z))
           * list bool * (Z * Z) * list Z)
          * (Z * list Z) * (Z * Z * Z)
          * (list Z * list Z * Z)
          * (list (Z * list (list Z)) * list (Z * list Z))
          * (list Z * list Z)) : list Z :=
  let '(ec, (given, innate), (logs, tables, basins), (rid, hid, smp),
        (lgs, tbs), (chsrc, flnames)) := case in
  let '(hd, fts, filt, fl, req) := ec in
  let '(cfg, h5, n, cnt) := hd in
  let '(filtered, skip) := fl in
  let ds := mkDs Z (zb h5) n cnt (map dfeat fts) in
  let o2 := fun l : list Z => match l with [] => None | x :: _ => Some x end in
  let sm := mkSmeta (o2 rid) (o2 hid) smp lgs tbs in
  let feats := if zb given then Some req else None in
  let pre := fun k => k + 1000 in
  let reqf := req_features feats innate in
  let tail :=
      [match lookup_all Z ds (sortset reqf) with
       | Ok fs => if zb skip then -1
                  else spec_count (zb filtered) filt (spec_lim Z false fs)
       | Err _ => -1
       end;
       if export_guard Z ds (zb filtered) (zb skip) reqf then 1 else 0] in
  let f0 : tfile := write_text [] (-1) [[100; 99]] in   (* the export's own log *)
  match export_full Z (-7) 0 (fun k => k) 7 cfg pre f0 ds innate sm filt (zb filtered)
                    (zb skip) (zb logs) (zb tables) (zb basins) feats with
  | Err c => [1; c] ++ tail
  | Ok (calls, om) =>
      [0; om_count om] ++
      match lookup_all Z ds (sortset reqf) with
      | Ok fs => flat_map (enc_feat_content calls) fs
      | Err _ => []
      end
      ++ [-2] ++
      match om_runid om with
      | None => [0]
      | Some (i, s) => [1] ++ oz i ++ [match s with None => 0 | Some _ => 1 end]
      end
      ++ [om_sample om; len (om_logs om) - 1; len (om_tables om)]
      ++ enc_logs (om_logs om) pre lgs ++ enc_texts (om_tables om) pre tbs
      ++ oz (rectify_chcount (o2 chsrc) (count_fl flnames calls))
      ++ tail
  end.

(* write_image_grayscale stores image and image_bg as uint8 whatever the
   source holds: HDF5 converts by truncating towards zero and saturating.
   A pixel is given in eighths (value = k / 8).  [finding
   C02-image-cast-uint8] *)
Definition sat8 (k : Z) : Z := Z.max 0 (Z.min 255 (Z.quot k 8)).
Definition cast_flat (pixels : list Z) : list Z := map sat8 pixels.
