(* Model of dclab/rtdc_dataset/filter.py:Filter (incremental event filter),
   the part of core.py:RTDCBase that edits its settings (polygon_filter_add,
   polygon_filter_rm, reset_filter, apply_filter) and of
   config.py:_init_default_filter_values.
   Executable definitions only; proofs are in Proofs/C03.v.

   Follows the code:
     Filter.__init__/reset         -> reset_fstate
     Filter._init_rtdc_ds          -> prune_polys (features are fixed, so the
                                      box-cache pruning is the identity)
     Filter.update                 -> update: diff of the settings -> feat2filter
                                      -> per-feature box cache -> box array;
                                      polygon cache keyed by id, invalidated by
                                      hash; invalid array; combination; limit
     downsampling.downsample_rand  -> limit_events (np.random.choice = oracle)
     RTDCBase.reset_filter         -> step Reset

   [vr : variant] says which repairs of Filter.update are present ([HEAD]:
   all of them); the earlier code is kept for the refutations in Props.
   [err] records that the last operation raised ValueError (a range with only
   one of its two keys).

   Arrays are [list bool] of one entry per event. Feature data are stored per
   event ([row]): the column of feature f is [col f]. A polygon's geometric
   classification (points_in_poly, property C15) is data of the case:
   [pin r v] says whether event r lies inside the polygon with vertex set
   number v. *)
From Coq Require Import ZArith List Bool.
Import ListNotations.
Open Scope Z_scope.

(* ---- float values: exact dyadics (k/8) and the IEEE specials ----------- *)
Inductive fval := Fin (k : Z) | FNaN | PInf | NInf.

Definition fisnan (x : fval) : bool := match x with FNaN => true | _ => false end.
Definition fisinf (x : fval) : bool :=
  match x with PInf | NInf => true | _ => false end.

(* IEEE <= : false as soon as one side is NaN *)
Definition fle (a b : fval) : bool :=
  match a, b with
  | FNaN, _ => false
  | _, FNaN => false
  | NInf, _ => true
  | _, PInf => true
  | Fin x, Fin y => x <=? y
  | _, _ => false
  end.

Definition feq (a b : fval) : bool :=
  match a, b with
  | Fin x, Fin y => x =? y
  | PInf, PInf => true
  | NInf, NInf => true
  | _, _ => false
  end.

Definition fne (a b : fval) : bool := negb (feq a b).       (* Python != *)
Definition fgt (a b : fval) : bool := fle b a && negb (feq a b).  (* a > b *)

(* ---- Python dict as association list (keys unique, insertion order) ---- *)
Fixpoint lookup {A} (k : Z) (d : list (Z * A)) : option A :=
  match d with
  | [] => None
  | (k', v) :: d' => if k =? k' then Some v else lookup k d'
  end.

Definition memZ (k : Z) (l : list Z) : bool := existsb (Z.eqb k) l.
Definition has_key {A} (k : Z) (d : list (Z * A)) : bool :=
  existsb (fun e => k =? fst e) d.

(* d[k] = v : replaces in place, appends a new key at the end *)
Definition dict_set {A} (k : Z) (v : A) (d : list (Z * A)) : list (Z * A) :=
  if has_key k d
  then map (fun e => if k =? fst e then (k, v) else e) d
  else d ++ [(k, v)].

(* list.remove(x): first occurrence; (Python raises ValueError when absent,
   the list is unchanged) *)
Fixpoint remove_first (x : Z) (l : list Z) : list Z :=
  match l with
  | [] => []
  | y :: l' => if x =? y then l' else y :: remove_first x l'
  end.

(* a[i] = b *)
Fixpoint set_nth {A} (i : nat) (b : A) (l : list A) : list A :=
  match l, i with
  | [], _ => []
  | _ :: l', O => b :: l'
  | a :: l', S i' => a :: set_nth i' b l'
  end.

(* elementwise & of two boolean arrays *)
Definition band (a b : list bool) : list bool :=
  map (fun p => fst p && snd p) (combine a b).

Fixpoint count_true (a : list bool) : Z :=
  match a with
  | [] => 0
  | true :: a' => 1 + count_true a'
  | false :: a' => count_true a'
  end.

(* arr[mask] = sub : the k-th True position of mask receives sub[k] *)
Fixpoint scatter (mask sub : list bool) : list bool :=
  match mask with
  | [] => []
  | false :: mask' => false :: scatter mask' sub
  | true :: mask' =>
      match sub with
      | s :: sub' => s :: scatter mask' sub'
      | [] => true :: scatter mask' []
      end
  end.

Fixpoint zrange (from : Z) (n : nat) : list Z :=
  match n with
  | O => []
  | S n' => from :: zrange (from + 1) n'
  end.

(* ---- the data of a dataset ---------------------------------------------- *)
Record row := { vals : list fval; pins : list bool }.

Definition val (r : row) (f : Z) : fval := nth (Z.to_nat f) (vals r) FNaN.
Definition pin (r : row) (v : Z) : bool := nth (Z.to_nat v) (pins r) false.

(* ---- settings ------------------------------------------------------------ *)
(* the keys "<f> min" and "<f> max" of the filtering section: per feature the
   value of either key, [None] when the key is absent *)
Definition ranges := list (Z * (option fval * option fval)).

Definition rget (rg : ranges) (f : Z) : option fval * option fval :=
  match lookup f rg with Some p => p | None => (None, None) end.

(* exactly one of the two keys is present *)
Definition half_set (rg : ranges) (f : Z) : bool :=
  match rget rg f with
  | (Some _, None) | (None, Some _) => true
  | _ => false
  end.

Record config := {
  rng : ranges;
  rm_invalid : bool;           (* "remove invalid events" *)
  enable : bool;               (* "enable filters" *)
  limit : Z;                   (* "limit events" *)
  polys : list Z               (* "polygon filters" *)
}.

(* Configuration._init_default_filter_values on a fresh configuration *)
Definition default_config : config :=
  {| rng := []; rm_invalid := false; enable := true; limit := 0; polys := [] |}.

(* PolygonFilter.instances: unique id -> (vertex set number, inverted) *)
Definition registry := list (Z * (Z * bool)).
Definition reg_get (reg : registry) (id : Z) : Z * bool :=
  match lookup id reg with Some p => p | None => (0, false) end.

Record fstate := {
  box_filters : list (Z * list bool);          (* _box_filters *)
  poly_filters : list (Z * (Z * list bool));   (* _poly_filters: id -> (hash, mask) *)
  a_all : list bool;                           (* _array_props[...] *)
  a_box : list bool;
  a_polygon : list bool;
  a_invalid : list bool;
  manual : list bool;
  old_rng : ranges                             (* _old_config (range keys) *)
}.

(* [feats]: rtdc_ds.features_scalar (temporary features come and go);
   [fcol]: which data column a feature currently has (set_temporary_feature
   on an existing temporary feature replaces its data; default: the column
   with the feature's own number);
   [err]: the last operation raised (ValueError, KeyError);
   [stale] is GHOST state (nothing in the code corresponds to it): the
   features whose data were replaced and whose box filter has not been
   recomputed since. The box cache carries no data hash; the documented remedy
   is apply_filter(force=[feature]). The theorems are stated for histories
   that end with [stale = []]. *)
Record world := { cfg : config; reg : registry; flt : fstate;
                  feats : list Z; fcol : list (Z * Z); stale : list Z;
                  kn : list Z;      (* dfn.scalar_feature_exists: deregistering a
                                       temporary feature makes its name unknown *)
                  have : list Z;    (* features whose data rtdc_ds[f] returns: the
                                       data of a deregistered temporary feature stay *)
                  err : bool }.

Definition colof (fc : list (Z * Z)) (f : Z) : Z :=
  match lookup f fc with Some c => c | None => f end.

(* which of the repairs of Filter.update are present *)
Record variant := {
  see_removed : bool;   (* 1ad19c0: keys removed from the settings count as changed *)
  precheck : bool;      (* 2db14c2: min/max pairing is checked before any box filter is modified *)
  late_feats : bool;    (* 1895a86: features with a range key but without box filter
                           are refiltered *)
  reset_on_raise : bool (* fixes_proposed/C03-failed-update-resets-caches.diff: a
                           failed update clears both caches and _old_config *)
}.
Definition HEAD : variant :=
  {| see_removed := true; precheck := true; late_feats := true;
     reset_on_raise := true |}.

Inductive op :=
| SetMin (f : Z) (v : fval)          (* cfg["f min"] = v *)
| SetMax (f : Z) (v : fval)          (* cfg["f max"] = v *)
| DelMin (f : Z)                     (* cfg.pop("f min", None) *)
| DelMax (f : Z)                     (* cfg.pop("f max", None) *)
| AddPoly (id : Z)                   (* ds.polygon_filter_add(id) *)
| RmPoly (id : Z)                    (* ds.polygon_filter_rm(id) *)
| ModPoly (id v : Z)                 (* pf.points/axes = vertex set number v *)
| InvertPoly (id : Z)                (* pf.inverted = not pf.inverted *)
| SetInvalid (b : bool)
| SetEnable (b : bool)
| SetLimit (k : Z)
| EditManual (i : Z) (b : bool)      (* ds.filter.manual[i] = b *)
| AddFeat (f : Z)                    (* set_temporary_feature(ds, f, data) *)
| DelFeat (f : Z)                    (* the temporary feature is deregistered *)
| ReplaceTemp (f c : Z)              (* set_temporary_feature(ds, f, other data = column c) *)
| Reset                              (* ds.reset_filter() *)
| Apply (force : list Z).            (* ds.apply_filter(force) *)

(* the property's own operations: no replacement of feature data *)
Fixpoint no_replace (ops : list op) : bool :=
  match ops with
  | [] => true
  | ReplaceTemp _ _ :: _ => false
  | _ :: ops' => no_replace ops'
  end.

Section Filter.
  (* oracles *)
  (* PolygonFilter.hash of filter [id] with (axes+points = version v, inverted) *)
  Variable hashf : Z -> Z -> bool -> Z.
  Variable choice : Z -> Z -> list Z.  (* seeded np.random.choice(arange(m), k, replace=False) *)
  (* the dataset *)
  Variable rows : list row.
  Variable vax : list (Z * list Z).    (* the axes (features) of vertex set number v *)
  (* the code variant *)
  Variable vr : variant.

  Definition ones : list bool := map (fun _ => true) rows.   (* np.ones(size, bool) *)
  Definition col (f : Z) : list fval := map (fun r => val r f) rows.

  Definition reset_fstate : fstate :=
    {| box_filters := []; poly_filters := [];
       a_all := ones; a_box := ones; a_polygon := ones; a_invalid := ones;
       manual := ones; old_rng := [] |}.

  Definition init_world (reg0 : registry) (feats0 known0 : list Z) : world :=
    {| cfg := default_config; reg := reg0; flt := reset_fstate;
       feats := feats0; fcol := []; stale := []; kn := known0; have := feats0;
       err := false |}.

  (* --- Filter.update, part 0: which features must be refiltered ---------- *)
  (* for skey in cfg_cur.keys(): if cfg_cur[skey] != cfg_old.get(skey, None) *)
  Definition key_changed (c o : option fval) : bool :=
    match c, o with
    | None, _ => false
    | Some _, None => true
    | Some a, Some b => fne a b
    end.

  Definition changed_keys (cur old : ranges) : list Z :=
    flat_map (fun e : Z * (option fval * option fval) =>
                let '(f, (mn, mx)) := e in
                if key_changed mn (fst (rget old f)) || key_changed mx (snd (rget old f))
                then [f] else []) cur.

  (* (since 1ad19c0) for skey in cfg_old.keys(): if skey not in cfg_cur *)
  Definition key_removed (o c : option fval) : bool :=
    match o, c with
    | Some _, None => true
    | _, _ => false
    end.

  Definition removed_keys (cur old : ranges) : list Z :=
    flat_map (fun e : Z * (option fval * option fval) =>
                let '(f, (mn, mx)) := e in
                if key_removed mn (fst (rget cur f)) || key_removed mx (snd (rget cur f))
                then [f] else []) old.

  (* (late_feats) for feat in self.features: if feat not in self._box_filters
     and (feat + " min" in cfg_cur or feat + " max" in cfg_cur) *)
  Definition has_any_key (rg : ranges) (f : Z) : bool :=
    match rget rg f with (None, None) => false | _ => true end.

  Definition late_keys (fs : list Z) (cur : ranges) (bf : list (Z * list bool)) : list Z :=
    filter (fun f => negb (has_key f bf) && has_any_key cur f) fs.

  (* np.unique(feat2filter) without its sorting, see [sortZ] below *)
  Definition feat2filter (sr lt : bool) (kwn fs : list Z) (bf : list (Z * list bool))
             (cur old : ranges) (force : list Z) : list Z :=
    nodup Z.eq_dec
          (filter (fun f => memZ f kwn)      (* if dfn.scalar_feature_exists(k[:-4]) *)
                  (changed_keys cur old
                   ++ (if sr then removed_keys cur old else []))
           ++ force
           ++ (if lt then late_keys fs cur bf else [])).

  (* np.unique returns the names sorted; feature numbers are ordered like the
     names. The order is observable only when the loop itself can raise
     (code before 2db14c2). *)
  Fixpoint insert_sorted (x : Z) (l : list Z) : list Z :=
    match l with
    | [] => [x]
    | y :: l' => if x <=? y then x :: l else y :: insert_sorted x l'
    end.
  Definition sortZ (l : list Z) : list Z := fold_right insert_sorted [] l.

  (* --- part 2: one feature's min/max filter ------------------------------- *)
  Definition box_mask (lo hi : fval) (data : list fval) : list bool :=
    let '(a, b) := if fgt lo hi then (hi, lo) else (lo, hi) in
    if existsb fisnan data
    then map (fun x => if fisnan x then false else fle a x && fle x b) data
    else map (fun x => fle a x && fle x b) data.

  Definition box_one (fs : list Z) (fc : list (Z * Z)) (cur : ranges)
             (bf : list (Z * list bool)) (f : Z)
    : list (Z * list bool) :=
    if memZ f fs then
      match rget cur f with
      | (Some lo, Some hi) =>
          if fne lo hi then dict_set f (box_mask lo hi (col (colof fc f))) bf
          else dict_set f ones bf
      | _ => dict_set f ones bf
      end
    else bf.                 (* warning only *)

  (* --- part 1: invalid events --------------------------------------------- *)
  Definition invalid_arr (fs : list Z) (fc : list (Z * Z)) (rm : bool) : list bool :=
    if rm then
      fold_left (fun acc f =>
                   band acc (map (fun x => negb (fisinf x || fisnan x))
                                 (col (colof fc f))))
                fs ones
    else ones.

  (* --- part 3: polygon filters -------------------------------------------- *)
  (* PolygonFilter.filter *)
  Definition pfilter (v : Z) (inv : bool) : list bool :=
    let f := map (fun r => pin r v) rows in
    if inv then map negb f else f.

  (* _init_rtdc_ds: drop cached polygons that left the settings *)
  Definition axes_of (v : Z) : list Z :=
    match lookup v vax with Some l => l | None => [] end.

  (* _init_rtdc_ds: drop cached polygons that left the settings or whose
     axes are not features of the dataset (any more) *)
  Definition prune_polys (ids : list Z) (rg : registry) (fs : list Z)
             (pf : list (Z * (Z * list bool))) :=
    filter (fun e => memZ (fst e) ids
                     && forallb (fun a => memZ a fs) (axes_of (fst (reg_get rg (fst e)))))
           pf.

  (* PolygonFilter.get_instance_from_id / rtdc_ds[pf.axes[i]] raise KeyError *)
  Definition poly_bad (rg : registry) (hv : list Z) (ids : list Z) : bool :=
    existsb (fun id => match lookup id rg with
                       | None => true
                       | Some (v, _) => negb (forallb (fun a => memZ a hv) (axes_of v))
                       end) ids.

  Definition poly_one (rg : registry) (pf : list (Z * (Z * list bool))) (id : Z) :=
    let '(v, inv) := reg_get rg id in
    let h := hashf id v inv in
    match lookup id pf with
    | Some (h', _) =>
        if h =? h' then pf else dict_set id (h, pfilter v inv) pf
    | None => dict_set id (h, pfilter v inv) pf
    end.

  (* --- part 4: limit events (downsampling.downsample_rand) ---------------- *)
  Definition limit_events (a : list bool) (lim0 : Z) : list bool :=
    let m := count_true a in
    let sub := repeat true (Z.to_nat m) in                  (* arr_all[arr_all] *)
    let lim := Z.min lim0 m in              (* min(cfg["limit events"], sub.size) *)
    let idx :=                                              (* downsample_rand *)
      if negb (lim =? 0) && (lim <? m)
      then map (fun i => memZ i (choice m lim)) (zrange 0 (Z.to_nat m))
      else repeat true (Z.to_nat m) in
    let sub' := band sub idx in                             (* sub[~idx] = False *)
    scatter a sub'.                                         (* arr_all[arr_all] = sub *)

  (* code before 2db14c2: the pairing check sits inside the loop, box filters
     of earlier features have been recomputed when it raises *)
  Fixpoint box_seq (fs : list Z) (fc : list (Z * Z)) (cur : ranges) (F : list Z)
           (bf : list (Z * list bool))
    : list (Z * list bool) * bool :=
    match F with
    | [] => (bf, false)
    | f :: F' => if half_set cur f then (bf, true)
                 else box_seq fs fc cur F' (box_one fs fc cur bf f)
    end.

  (* _init_rtdc_ds: box filters of features that left the dataset are dropped *)
  Definition prune_box (fs : list Z) (bf : list (Z * list bool)) :=
    filter (fun e => memZ (fst e) fs) bf.

  Definition update (w : world) (force : list Z) : world :=
    let c := cfg w in
    let s := flt w in
    let fs := feats w in
    let fc := fcol w in
    let bf0 := prune_box fs (box_filters s) in
    let pf0 := prune_polys (polys c) (reg w) fs (poly_filters s) in
    let inval := invalid_arr fs fc (rm_invalid c) in
    let f2f := feat2filter (see_removed vr) (late_feats vr) (kn w) fs bf0
                           (rng c) (old_rng s) force in
    (* an exception: ValueError("Box filter: Please make sure that both ... are
       set!"), ValueError("Unknown scalar feature name"), KeyError of a polygon
       filter. The caches have been pruned and the invalid array recomputed by
       then; with [reset_on_raise] the wrapper clears the caches and
       _old_config *)
    let raised (bf : list (Z * list bool)) : world :=
      {| cfg := c; reg := reg w;
         flt := {| box_filters := if reset_on_raise vr then [] else bf;
                   poly_filters := if reset_on_raise vr then [] else pf0;
                   a_all := a_all s; a_box := a_box s; a_polygon := a_polygon s;
                   a_invalid := inval; manual := manual s;
                   old_rng := if reset_on_raise vr then [] else old_rng s |};
         feats := fs; fcol := fc;
         stale := if reset_on_raise vr then [] else stale w;
         kn := kn w; have := have w; err := true |} in
    let finish (bf : list (Z * list bool)) : world :=
      if poly_bad (reg w) (have w) (polys c) then raised bf else
      let box := fold_left band (map snd bf) ones in
      let pf := fold_left (poly_one (reg w)) (polys c) pf0 in
      let polygon := fold_left band (map (fun e => snd (snd e)) pf) ones in
      let all :=
        if enable c then
          let a := band (band (band box inval) polygon) (manual s) in
          if 0 <? limit c then limit_events a (limit c) else a
        else ones in
      {| cfg := c; reg := reg w;
         flt := {| box_filters := bf; poly_filters := pf;
                   a_all := all; a_box := box; a_polygon := polygon;
                   a_invalid := inval; manual := manual s;
                   old_rng := rng c |};
         feats := fs; fcol := fc;
         (* ghost: refiltered or pruned features are fresh again *)
         stale := filter (fun f => negb (memZ f f2f) && has_key f bf0) (stale w);
         kn := kn w; have := have w; err := false |} in
    if existsb (fun f => negb (memZ f (kn w))) force then raised bf0
    else if precheck vr then
      if existsb (half_set (rng c)) f2f then raised bf0
      else finish (fold_left (box_one fs fc (rng c)) f2f bf0)
    else
      match box_seq fs fc (rng c) (sortZ f2f) bf0 with
      | (bf, true) => raised bf
      | (bf, false) => finish bf
      end.

  Definition set_cfg (w : world) (c : config) : world :=
    {| cfg := c; reg := reg w; flt := flt w; feats := feats w;
       fcol := fcol w; stale := stale w; kn := kn w; have := have w; err := false |}.

  Definition set_rng (w : world) (rg : ranges) : world :=
    let c := cfg w in
    set_cfg w {| rng := rg; rm_invalid := rm_invalid c; enable := enable c;
                 limit := limit c; polys := polys c |}.

  Definition step (w : world) (o : op) : world :=
    let c := cfg w in
    match o with
    | SetMin f v => set_rng w (dict_set f (Some v, snd (rget (rng c) f)) (rng c))
    | SetMax f v => set_rng w (dict_set f (fst (rget (rng c) f), Some v) (rng c))
    | DelMin f => set_rng w (dict_set f (None, snd (rget (rng c) f)) (rng c))
    | DelMax f => set_rng w (dict_set f (fst (rget (rng c) f), None) (rng c))
    | AddPoly id =>
        set_cfg w {| rng := rng c; rm_invalid := rm_invalid c; enable := enable c;
                     limit := limit c; polys := polys c ++ [id] |}
    | RmPoly id =>
        set_cfg w {| rng := rng c; rm_invalid := rm_invalid c; enable := enable c;
                     limit := limit c; polys := remove_first id (polys c) |}
    | ModPoly id v =>
        {| cfg := c; reg := dict_set id (v, snd (reg_get (reg w) id)) (reg w);
           flt := flt w; feats := feats w; fcol := fcol w; stale := stale w;
           kn := kn w; have := have w; err := false |}
    | InvertPoly id =>
        {| cfg := c;
           reg := dict_set id (fst (reg_get (reg w) id),
                               negb (snd (reg_get (reg w) id))) (reg w);
           flt := flt w; feats := feats w; fcol := fcol w; stale := stale w;
           kn := kn w; have := have w; err := false |}
    | SetInvalid b =>
        set_cfg w {| rng := rng c; rm_invalid := b; enable := enable c;
                     limit := limit c; polys := polys c |}
    | SetEnable b =>
        set_cfg w {| rng := rng c; rm_invalid := rm_invalid c; enable := b;
                     limit := limit c; polys := polys c |}
    | SetLimit k =>
        set_cfg w {| rng := rng c; rm_invalid := rm_invalid c; enable := enable c;
                     limit := k; polys := polys c |}
    | EditManual i b =>
        let s := flt w in
        {| cfg := c; reg := reg w;
           flt := {| box_filters := box_filters s; poly_filters := poly_filters s;
                     a_all := a_all s; a_box := a_box s; a_polygon := a_polygon s;
                     a_invalid := a_invalid s;
                     manual := if (0 <=? i) then set_nth (Z.to_nat i) b (manual s)
                               else manual s;
                     old_rng := old_rng s |};
           feats := feats w; fcol := fcol w; stale := stale w; kn := kn w; have := have w; err := false |}
    | Reset =>
        (* Filter.reset(); config._init_default_filter_values(): the five
           default keys are overwritten, the range keys stay *)
        {| cfg := {| rng := rng c; rm_invalid := false; enable := true;
                     limit := 0; polys := [] |};
           reg := reg w; flt := reset_fstate; feats := feats w;
           fcol := fcol w; stale := []; kn := kn w; have := have w; err := false |}
    | AddFeat f =>
        {| cfg := c; reg := reg w; flt := flt w;
           feats := if memZ f (feats w) then feats w else feats w ++ [f];
           fcol := fcol w; stale := stale w;
           kn := if memZ f (kn w) then kn w else kn w ++ [f];
           have := if memZ f (have w) then have w else have w ++ [f];
           err := false |}
    | DelFeat f =>
        {| cfg := c; reg := reg w; flt := flt w;
           feats := filter (fun g => negb (g =? f)) (feats w);
           fcol := fcol w; stale := stale w;
           kn := filter (fun g => negb (g =? f)) (kn w); have := have w;
           err := false |}
    | ReplaceTemp f c' =>
        {| cfg := c; reg := reg w; flt := flt w;
           feats := if memZ f (feats w) then feats w else feats w ++ [f];
           fcol := dict_set f c' (fcol w); stale := f :: stale w;
           kn := if memZ f (kn w) then kn w else kn w ++ [f];
           have := if memZ f (have w) then have w else have w ++ [f];
           err := false |}
    | Apply force => update w force
    end.

  Definition run (w : world) (ops : list op) : world := fold_left step ops w.

  (* ---- specification: stateless evaluation of the current settings ------ *)
  Definition in_range (lo hi x : fval) : bool :=
    let '(a, b) := if fgt lo hi then (hi, lo) else (lo, hi) in
    fle a x && fle x b.

  Definition spec_feat (fc : list (Z * Z)) (rg : ranges) (f : Z) (r : row) : bool :=
    match rget rg f with
    | (Some lo, Some hi) =>
        if fne lo hi then in_range lo hi (val r (colof fc f)) else true
    | _ => true
    end.

  Definition spec_box_row (fs : list Z) (fc : list (Z * Z)) (rg : ranges) (r : row) : bool :=
    forallb (fun f => spec_feat fc rg f r) fs.

  Definition spec_invalid_row (fs : list Z) (fc : list (Z * Z)) (rm : bool) (r : row) : bool :=
    if rm then forallb (fun f => negb (fisnan (val r (colof fc f))
                                       || fisinf (val r (colof fc f)))) fs
    else true.

  Definition spec_poly_row (rg : registry) (ids : list Z) (r : row) : bool :=
    forallb (fun id => xorb (snd (reg_get rg id)) (pin r (fst (reg_get rg id)))) ids.

  Definition spec_box (w : world) :=
    map (spec_box_row (feats w) (fcol w) (rng (cfg w))) rows.
  Definition spec_invalid (w : world) :=
    map (spec_invalid_row (feats w) (fcol w) (rm_invalid (cfg w))) rows.
  Definition spec_polygon (w : world) := map (spec_poly_row (reg w) (polys (cfg w))) rows.

  (* events that qualify: all range, polygon, invalid-value and manual criteria *)
  Definition spec_qual (w : world) : list bool :=
    band (map (fun r => spec_box_row (feats w) (fcol w) (rng (cfg w)) r
                        && spec_invalid_row (feats w) (fcol w) (rm_invalid (cfg w)) r
                        && spec_poly_row (reg w) (polys (cfg w)) r) rows)
         (manual (flt w)).

  (* the k-th qualifying event stays iff k is among the chosen ranks *)
  Fixpoint thin (chosen : list Z) (q : list bool) (k : Z) : list bool :=
    match q with
    | [] => []
    | false :: q' => false :: thin chosen q' k
    | true :: q' => memZ k chosen :: thin chosen q' (k + 1)
    end.

  Definition spec_all (w : world) : list bool :=
    if enable (cfg w) then
      let q := spec_qual w in
      let m := count_true q in
      if (0 <? limit (cfg w)) && (limit (cfg w) <? m)
      then thin (choice m (limit (cfg w))) q 0
      else q
    else ones.
End Filter.

(* ---- interface used by the correspondence check (harness/c03.py) --------- *)
Definition dec_fval (p : Z * Z) : fval :=
  let '(t, k) := p in
  if t =? 0 then Fin k else if t =? 1 then FNaN else if t =? 2 then PInf else NInf.

Definition dec_row (p : list (Z * Z) * list bool) : row :=
  {| vals := map dec_fval (fst p); pins := snd p |}.

(* op encoding: (tag, [ints], [fvals]); tags 0/1 set/delete both keys *)
Definition dec_op (t : Z * list Z * list (Z * Z)) : list op :=
  let '(tag, a, fv) := t in
  let a0 := nth 0 a 0 in
  let a1 := nth 1 a 0 in
  let v0 := dec_fval (nth 0 fv (1, 0)) in
  if tag =? 0 then [SetMin a0 v0; SetMax a0 (dec_fval (nth 1 fv (1, 0)))]
  else if tag =? 1 then [DelMin a0; DelMax a0]
  else if tag =? 2 then [AddPoly a0]
  else if tag =? 3 then [RmPoly a0]
  else if tag =? 4 then [ModPoly a0 a1]
  else if tag =? 5 then [InvertPoly a0]
  else if tag =? 6 then [SetInvalid (negb (a0 =? 0))]
  else if tag =? 7 then [SetEnable (negb (a0 =? 0))]
  else if tag =? 8 then [SetLimit a0]
  else if tag =? 9 then [EditManual a0 (negb (a1 =? 0))]
  else if tag =? 10 then [Reset]
  else if tag =? 11 then [Apply a]
  else if tag =? 12 then [SetMin a0 v0]
  else if tag =? 13 then [SetMax a0 v0]
  else if tag =? 14 then [DelMin a0]
  else if tag =? 15 then [DelMax a0]
  else if tag =? 16 then [AddFeat a0]
  else if tag =? 17 then [DelFeat a0]
  else [ReplaceTemp a0 a1].

Definition mk_hash (id v : Z) (b : bool) : Z := 2 * v + (if b then 1 else 0).

Definition mk_choice (tab : list (Z * Z * list Z)) (m k : Z) : list Z :=
  match find (fun e => (fst (fst e) =? m) && (snd (fst e) =? k)) tab with
  | Some e => snd e
  | None => []
  end.

Definition enc_bools (l : list bool) : list Z := map (fun b : bool => if b then 1 else 0) l.

(* observation after every Apply: [9] when it raised, else
   mode 0: all ++ box ++ polygon ++ invalid of the filter object ++ [number of
           stale features (ghost)];
   mode 1: the SPECIFICATION of the settings before the application
           (spec_all ++ spec_box ++ spec_polygon ++ spec_invalid), compared by
           the harness with its stateless Python reference *)
Fixpoint run_obs (mode : Z) (hashf : Z -> Z -> bool -> Z) (choice : Z -> Z -> list Z)
         (rows : list row) (vax : list (Z * list Z)) (vr : variant)
         (w : world) (ops : list op) : list Z :=
  match ops with
  | [] => []
  | o :: ops' =>
      let w' := step hashf choice rows vax vr w o in
      (match o with
       | Apply _ =>
           if err w' then [9]
           else if mode =? 0 then
             enc_bools (a_all (flt w')) ++ enc_bools (a_box (flt w'))
             ++ enc_bools (a_polygon (flt w')) ++ enc_bools (a_invalid (flt w'))
             ++ [Z.of_nat (length (stale w'))]
           else
             enc_bools (spec_all choice rows w) ++ enc_bools (spec_box rows w)
             ++ enc_bools (spec_polygon rows w) ++ enc_bools (spec_invalid rows w)
       | _ => []
       end) ++ run_obs mode hashf choice rows vax vr w' ops'
  end.

(* case = (code variant: number of repairs present, rows, feats, known feature
   numbers, axes of the vertex sets, registry, choice table, ops) *)
Definition case_t : Type :=
  Z * list (list (Z * Z) * list bool) * list Z * list Z * list (Z * list Z)
  * list (Z * (Z * Z)) * list (Z * Z * list Z) * list (Z * list Z * list (Z * Z)).

Definition run_mode (mode : Z) (case : case_t) : list Z :=
  let '(nv, rws, fts, kn0, vx, rg, tab, tops) := case in
  let rows := map dec_row rws in
  let reg0 := map (fun e : Z * (Z * Z) => (fst e, (fst (snd e), negb (snd (snd e) =? 0)))) rg in
  run_obs mode mk_hash (mk_choice tab) rows vx
          {| see_removed := 1 <=? nv; precheck := 2 <=? nv; late_feats := 3 <=? nv;
             reset_on_raise := 4 <=? nv |}
          (init_world rows reg0 fts kn0) (flat_map dec_op tops).

Definition run_flat (case : case_t) : list Z := run_mode 0 case.
Definition spec_flat (case : case_t) : list Z := run_mode 1 case.
(* both observations of one case in one evaluation *)
Definition both_flat (case : case_t) : list (list Z) := [run_mode 0 case; run_mode 1 case].
