(* Model of dclab's hierarchy children (fmt_hierarchy/base.py, hfilter.py,
   mapper.py, events.py) together with the part of rtdc_dataset/filter.py and
   feat_temp.py they rely on.  Executable definitions only; proofs are in
   Proofs/C04.v.

   The model follows the code AFTER the repair proposed in
   fixes_proposed/C04-hfilter-root-ids.diff: a HierarchyFilter remembers the
   root indices of the events of its dataset ([f_rids], `_root_ids`).

   A chain of datasets is a list of levels, YOUNGEST FIRST (the last element
   is the root dataset), because RTDC_Hierarchy.apply_filter recurses from
   the youngest member towards the root and finishes on the way back.

     refresh_up      RTDC_Hierarchy.apply_filter / rejuvenate
     retrieve        HierarchyFilter.retrieve_manual_indices
     mk_filter       HierarchyFilter.__init__ + update_parent
                     + apply_manual_indices
     child_finish    apply_filter after `hparent.apply_filter()`:
                     _length, _events.clear(), _check_parent_filter,
                     Filter.update
     filter_update   Filter.update (box ranges with their cache, invalid
                     events, manual, "enable filters")
     c2p, c2r, p2c, r2c   mapper.py
     set_temp        feat_temp.set_temporary_feature
     grow            dclab.new_dataset(youngest)  (RTDC_Hierarchy.__init__)

   Values are (tag, k): (0,k) the float k/8, (1,_) NaN, (2,_) +inf,
   (3,_) -inf.  md5 (hashobj) is modelled by equality of what is hashed. *)
From Coq Require Import ZArith List Bool.
Import ListNotations.
Open Scope Z_scope.

Definition fval := (Z * Z)%type.
Definition col := list fval.

(* ---- list helpers ------------------------------------------------------- *)
(* numpy boolean-mask indexing xs[m] *)
Fixpoint select {A} (m : list bool) (xs : list A) : list A :=
  match m, xs with
  | b :: m', x :: xs' => if b then x :: select m' xs' else select m' xs'
  | _, _ => []
  end.

Fixpoint iota (start : Z) (n : nat) : list Z :=
  match n with
  | O => []
  | S n' => start :: iota (start + 1) n'
  end.

(* np.where(m)[0] *)
Definition where_ (m : list bool) : list Z := select m (iota 0 (length m)).

Definition count_true (m : list bool) : nat := length (select m m).

Definition memz (x : Z) (l : list Z) : bool := existsb (Z.eqb x) l.

Fixpoint zip_and (a b : list bool) : list bool :=
  match a, b with
  | x :: a', y :: b' => (x && y) :: zip_and a' b'
  | _, _ => []
  end.

Fixpoint set_nth {A} (n : nat) (v : A) (l : list A) : list A :=
  match n, l with
  | O, _ :: l' => v :: l'
  | S n', x :: l' => x :: set_nth n' v l'
  | _, [] => []
  end.

Definition all_true (m : list bool) : bool := forallb (fun b => b) m.

(* sorted(set(l)) *)
Fixpoint insert_uniq (x : Z) (l : list Z) : list Z :=
  match l with
  | [] => [x]
  | y :: l' => if x <? y then x :: l
               else if x =? y then l
               else y :: insert_uniq x l'
  end.

Definition sort_uniq (l : list Z) : list Z := fold_right insert_uniq [] l.

Fixpoint list_eqb {A} (eqb : A -> A -> bool) (a b : list A) : bool :=
  match a, b with
  | [], [] => true
  | x :: a', y :: b' => eqb x y && list_eqb eqb a' b'
  | _, _ => false
  end.

(* ---- configuration and filter of one dataset ---------------------------- *)
Definition NSLOT : nat := 5.      (* scalar feature slots: 3 given, 2 temporary *)

Record cfg := mkcfg {
  c_rng : list (option (Z * Z));   (* "<feat> min"/"<feat> max", per slot *)
  c_enable : bool;                 (* "enable filters" *)
  c_rminv : bool                   (* "remove invalid events" *)
}.

Record filt := mkfilt {
  f_box : list (option (list bool));  (* Filter._box_filters, per slot *)
  f_old : option cfg;                 (* Filter._old_config ({} = None) *)
  f_manual : list bool;               (* Filter.manual *)
  f_all : list bool;                  (* Filter.all *)
  f_mri : list Z;                     (* HierarchyFilter._man_root_ids *)
  f_rids : list Z;                    (* HierarchyFilter._root_ids *)
  f_phash : list bool * list Z        (* what _parent_hash is the md5 of *)
}.

Record level := mklevel {
  l_cfg : cfg;
  l_filt : filt;
  l_len : Z;                          (* len(ds) as cached in _length *)
  l_data : list (option col);         (* scalar columns: the root's data; for
                                         a child the values its features had
                                         at its last refresh (what the reads
                                         inside that refresh returned) *)
  l_cache : list (option col)         (* a child's `_events` cache: the
                                         ChildScalar arrays computed so far,
                                         per slot; None = not cached.  Filled
                                         lazily by reads, emptied by
                                         apply_filter.  Unused for the root *)
}.

Definition set_filt (l : level) (f : filt) : level :=
  mklevel (l_cfg l) f (l_len l) (l_data l) (l_cache l).
Definition set_cfg (l : level) (c : cfg) : level :=
  mklevel c (l_filt l) (l_len l) (l_data l) (l_cache l).
Definition set_data (l : level) (d : list (option col)) : level :=
  mklevel (l_cfg l) (l_filt l) (l_len l) d (l_cache l).
Definition set_cache (l : level) (c : list (option col)) : level :=
  mklevel (l_cfg l) (l_filt l) (l_len l) (l_data l) c.

(* ---- Filter.update ------------------------------------------------------- *)
Definition valid (v : fval) : bool := fst v =? 0.

Definition inrange (lo hi : Z) (v : fval) : bool :=
  (fst v =? 0) && (lo <=? snd v) && (snd v <=? hi).

Definition rng_eqb (a b : option (Z * Z)) : bool :=
  match a, b with
  | Some (x, y), Some (x', y') => (x =? x') && (y =? y')
  | None, None => true
  | _, _ => false
  end.

(* is "<slot> min" or "<slot> max" among the keys whose value differs from
   the old configuration? *)
Definition key_changed (c : cfg) (old : option cfg) (s : nat) : bool :=
  match nth s (c_rng c) None with
  | None =>
      (* keys removed since the last update count as changed (1ad19c0) *)
      match old with
      | None => false
      | Some o => match nth s (c_rng o) None with
                  | Some _ => true
                  | None => false
                  end
      end
  | Some r =>
      match old with
      | None => true
      | Some o => negb (rng_eqb (Some r) (nth s (c_rng o) None))
      end
  end.

Definition box_of (size : nat) (r : Z * Z) (d : col) : list bool :=
  let '(lo, hi) := r in
  if lo =? hi then repeat true size
  else map (inrange (Z.min lo hi) (Z.max lo hi)) d.

(* loop "for feat in feat2filter" over the slots s, s+1, ... *)
Fixpoint update_box (c : cfg) (old : option cfg) (size : nat)
         (data : list (option col)) (box : list (option (list bool)))
         (s : nat) : list (option (list bool)) :=
  match box, data with
  | b :: box', d :: data' =>
      (* feat2filter: the range keys changed, or (repo commit 1895a86) the
         feature has a configured range but no box filter yet, e.g. a
         temporary feature that appeared after the range was set *)
      (if key_changed c old s || match b with None => true | Some _ => false end
       then
         match d, nth s (c_rng c) None with
         | Some dcol, Some r => Some (box_of size r dcol)
         | Some _, None =>
             (* the range was deleted: feat_filt[:] = True *)
             if key_changed c old s then Some (repeat true size) else b
         | None, _ => b         (* feature not in the dataset: ignored *)
         end
       else b) :: update_box c old size data' box' (S s)
  | _, _ => box
  end.

Fixpoint and_boxes (size : nat) (box : list (option (list bool))) : list bool :=
  match box with
  | [] => repeat true size
  | Some m :: box' => zip_and m (and_boxes size box')
  | None :: box' => and_boxes size box'
  end.

Fixpoint and_valid (size : nat) (data : list (option col)) : list bool :=
  match data with
  | [] => repeat true size
  | Some d :: data' => zip_and (map valid d) (and_valid size data')
  | None :: data' => and_valid size data'
  end.

(* which features does Filter.update read (`rtdc_ds[feat]`)?  The box loop
   reads a feature whose range must be (re)computed and is not degenerate;
   "remove invalid events" reads every scalar feature *)
Fixpoint reads_box (c : cfg) (old : option cfg) (data : list (option col))
         (box : list (option (list bool))) (s : nat) : list bool :=
  match box, data with
  | b :: box', d :: data' =>
      (match d, nth s (c_rng c) None with
       | Some _, Some (lo, hi) =>
           (key_changed c old s || match b with None => true | Some _ => false end)
           && negb (lo =? hi)
       | _, _ => false
       end) :: reads_box c old data' box' (S s)
  | _, _ => []
  end.

Fixpoint fill_reads (reads : list bool) (rminv : bool)
         (data cache : list (option col)) : list (option col) :=
  match data, cache with
  | d :: data', x :: cache' =>
      (match d with
       | Some _ => if rminv || hd false reads then d else x
       | None => x
       end) :: fill_reads (tl reads) rminv data' cache'
  | _, _ => cache
  end.

Definition filter_update (l : level) : level :=
  let f := l_filt l in
  let c := l_cfg l in
  let size := length (f_manual f) in
  let l := set_cache l (fill_reads (reads_box c (f_old f) (l_data l) (f_box f) 0)
                                   (c_rminv c) (l_data l) (l_cache l)) in
  let box := update_box c (f_old f) size (l_data l) (f_box f) 0 in
  let arr_box := and_boxes size box in
  let arr_inv := if c_rminv c then and_valid size (l_data l)
                 else repeat true size in
  let all := if c_enable c
             then zip_and (zip_and arr_box arr_inv) (f_manual f)
             else repeat true size in
  set_filt l (mkfilt box (Some c) (f_manual f) all (f_mri f) (f_rids f)
                     (f_phash f)).

(* ---- HierarchyFilter ----------------------------------------------------- *)
Definition retrieve (f : filt) : filt :=
  if all_true (f_manual f) then f
  else
    let pbool := select (map negb (f_manual f)) (f_rids f) in
    let phid := filter (fun r => negb (memz r (f_rids f))) (f_mri f) in
    mkfilt (f_box f) (f_old f) (f_manual f) (f_all f)
           (sort_uniq (pbool ++ phid)) (f_rids f) (f_phash f).

Definition parent_hash (p : level) : list bool * list Z :=
  (f_all (l_filt p), f_rids (l_filt p)).

Definition hash_eqb (a b : list bool * list Z) : bool :=
  list_eqb Bool.eqb (fst a) (fst b) && list_eqb Z.eqb (snd a) (snd b).

(* a new HierarchyFilter for a child of [p] + apply_manual_indices ids *)
Definition mk_filter (p : level) (ids : list Z) : filt :=
  let rids := select (f_all (l_filt p)) (f_rids (l_filt p)) in
  let manual := map (fun r => negb (memz r ids)) rids in
  mkfilt (repeat None NSLOT) None manual (repeat true (length rids))
         ids rids (parent_hash p).

(* RTDC_Hierarchy.apply_filter of child [c] once its parent is refreshed *)
Definition child_finish (c p : level) : level :=
  let pall := f_all (l_filt p) in
  let data := map (option_map (select pall)) (l_data p) in
  let f := l_filt c in
  let f' := if hash_eqb (parent_hash p) (f_phash f) then f
            else mk_filter p (f_mri (retrieve f)) in
  filter_update
    (mklevel (l_cfg c) f' (Z.of_nat (count_true pall)) data
             (repeat None NSLOT)).            (* self._events.clear() *)

(* [ls] is youngest first; the root is the last element *)
Fixpoint refresh_up (ls : list level) : list level :=
  match ls with
  | [] => []
  | [root] => [filter_update root]
  | c :: ps =>
      let c1 := set_filt c (retrieve (l_filt c)) in
      match refresh_up ps with
      | p :: ps' => child_finish c1 p :: p :: ps'
      | [] => [c1]
      end
  end.

(* dclab.new_dataset(youngest) *)
Definition new_child (p : level) : level :=
  let pall := f_all (l_filt p) in
  let c := mkcfg (repeat None NSLOT) (c_enable (l_cfg p)) (c_rminv (l_cfg p)) in
  filter_update
    (mklevel c (mk_filter p []) (Z.of_nat (count_true pall))
             (map (option_map (select pall)) (l_data p))
             (repeat None NSLOT)).

(* A read of a child's feature goes through the parent's feature object and
   leaves its array cached there as well: after the refresh every ancestor
   holds the arrays its descendants read during the refresh.  [acc] = slots
   read below; the values are those of the refresh ([l_data]). *)
Definition is_some {A} (o : option A) : bool :=
  match o with Some _ => true | None => false end.

Fixpoint fill_acc (acc : list bool) (data cache : list (option col))
  : list (option col) :=
  match data, cache with
  | d :: data', x :: cache' =>
      (match x with
       | Some _ => x
       | None => if hd false acc then d else None
       end) :: fill_acc (tl acc) data' cache'
  | _, _ => cache
  end.

Fixpoint propagate (acc : list bool) (ls : list level) : list level :=
  match ls with
  | [] => []
  | l :: ps =>
      let l' := set_cache l (fill_acc acc (l_data l) (l_cache l)) in
      l' :: propagate (map is_some (l_cache l')) ps
  end.

(* RTDC_Hierarchy.apply_filter / rejuvenate with its effect on the caches *)
Definition refresh (ls : list level) : list level := propagate [] (refresh_up ls).

(* ds[feat][:] on the youngest member of [ls]: ChildScalar.__array__ *)
Fixpoint read (ls : list level) (s : nat) : option col * list level :=
  match ls with
  | [] => (None, [])
  | [root] => (nth s (l_data root) None, [root])
  | c :: ps =>
      match nth s (l_cache c) None with
      | Some d => (Some d, ls)
      | None =>
          let '(v, ps') := read ps s in
          match v, ps with
          | Some pd, p :: _ =>
              let d := select (f_all (l_filt p)) pd in
              (Some d, set_cache c (set_nth s (Some d) (l_cache c)) :: ps')
          | _, _ => (None, c :: ps')
          end
      end
  end.

Definition read_at (ls : list level) (pos s : nat) : option col * list level :=
  let '(v, suf) := read (skipn pos ls) s in (v, firstn pos ls ++ suf).

Definition grow (ls : list level) : list level :=
  match refresh_up ls with
  | p :: ps => propagate [] (new_child p :: p :: ps)
  | [] => []
  end.

(* ---- mapper.py ------------------------------------------------------------ *)
(* idx[child_indices]; None = IndexError *)
Fixpoint take_idx (idx : list Z) (is : list Z) : option (list Z) :=
  match is with
  | [] => Some []
  | i :: is' =>
      match nth_error idx (Z.to_nat i), take_idx idx is' with
      | Some v, Some r => if 0 <=? i then Some (v :: r) else None
      | _, _ => None
      end
  end.

(* map_indices_child2parent: [p] is the parent of the child *)
Definition c2p (p : level) (is : list Z) : option (list Z) :=
  take_idx (where_ (f_all (l_filt p))) is.

(* map_indices_child2root: [ps] = ancestors of the child, nearest first *)
Fixpoint c2r (ps : list level) (is : list Z) : option (list Z) :=
  match ps with
  | [] => Some is
  | p :: ps' => match c2p p is with
                | Some js => c2r ps' js
                | None => None
                end
  end.

(* map_indices_parent2child *)
Definition p2c (p : level) (pis : list Z) : list Z :=
  let pf_loc := where_ (f_all (l_filt p)) in
  where_ (map (fun i => memz i pis) pf_loc).

(* map_indices_root2child: from the root downwards *)
Fixpoint r2c (ps : list level) (ris : list Z) : list Z :=
  match ps with
  | [] => ris
  | p :: ps' => p2c p (r2c ps' ris)
  end.

(* ---- set_temporary_feature -------------------------------------------- *)
Definition tval (seed j : Z) : fval :=
  let v := (seed * 7 + j * 13 + (seed * j) mod 5) mod 97 in
  if v mod 11 =? 0 then (1, 0) else (0, v - 20).

(* root_feat_data[:] = nan; root_feat_data[root_ids] = data *)
Fixpoint scatter (base : col) (ids : list Z) (data : col) : col :=
  match ids, data with
  | i :: ids', v :: data' => scatter (set_nth (Z.to_nat i) v base) ids' data'
  | _, _ => base
  end.

Fixpoint set_root_data (ls : list level) (slot : nat) (d : col) : list level :=
  match ls with
  | [] => []
  | [root] => [set_data root (set_nth slot (Some d) (l_data root))]
  | l :: ls' => l :: set_root_data ls' slot d
  end.

(* [pos] = position of the dataset in the youngest-first list;
   result: (new chain, 0) or (unchanged chain, 1) for IndexError *)
Definition set_temp (ls : list level) (pos : nat) (slot : nat) (seed : Z)
  : list level * Z :=
  match skipn pos ls with
  | [] => (ls, 0)
  | l :: anc =>
      let m := Z.to_nat (l_len l) in
      let data := map (tval seed) (iota 0 m) in
      match c2r anc (iota 0 m) with
      | None => (ls, 1)
      | Some rids =>
          let n := Z.to_nat (l_len (last ls l)) in
          let full := scatter (repeat (1, 0) n) rids data in
          let ls1 := set_root_data ls slot full in
          match anc with
          | [] => (ls1, 0)                 (* not a hierarchy child *)
          | _ => (firstn pos ls1 ++ refresh (skipn pos ls1), 0)
          end
      end
  end.

(* ---- the operations of a history --------------------------------------- *)
Definition upd_level (ls : list level) (pos : nat) (g : level -> level)
  : list level :=
  match nth_error ls pos with
  | Some l => set_nth pos (g l) ls
  | None => ls
  end.

Definition set_range (slot : nat) (lo hi : Z) (l : level) : level :=
  let c := l_cfg l in
  set_cfg l (mkcfg (set_nth slot (Some (lo, hi)) (c_rng c))
                   (c_enable c) (c_rminv c)).

Definition set_manual (i : Z) (v : bool) (l : level) : level :=
  let f := l_filt l in
  let n := Z.of_nat (length (f_manual f)) in
  if n =? 0 then l
  else set_filt l (mkfilt (f_box f) (f_old f)
                          (set_nth (Z.to_nat (i mod n)) v (f_manual f))
                          (f_all f) (f_mri f) (f_rids f) (f_phash f)).

Definition set_enable (v : bool) (l : level) : level :=
  let c := l_cfg l in set_cfg l (mkcfg (c_rng c) v (c_rminv c)).

Definition set_rminv (v : bool) (l : level) : level :=
  let c := l_cfg l in set_cfg l (mkcfg (c_rng c) (c_enable c) v).

(* config["filtering"].pop("<feat> min"); .pop("<feat> max") *)
Definition del_range (slot : nat) (l : level) : level :=
  let c := l_cfg l in
  set_cfg l (mkcfg (set_nth slot None (c_rng c)) (c_enable c) (c_rminv c)).

(* ds.reset_filter(): Filter.reset (box filters, old configuration and the
   filter arrays dropped -- filter.all is all-True at once --, manual all
   True), HierarchyFilter.reset (stored root ids dropped), and the default
   switches in the configuration; configured ranges stay in the
   configuration and are applied again at the next refresh *)
Definition reset_level (l : level) : level :=
  let f := l_filt l in
  let size := length (f_manual f) in
  mklevel (mkcfg (c_rng (l_cfg l)) true false)
          (mkfilt (repeat None NSLOT) None (repeat true size)
                  (repeat true size) [] (f_rids f) (f_phash f))
          (l_len l) (l_data l) (l_cache l).

Definition MAXDEPTH : nat := 4.

Record state := mkstate { s_levels : list level; s_img : list Z }.

(* position (youngest first) of level number [lvl mod (depth+1)], 0 = root *)
Definition pos_of (ls : list level) (lvl : Z) : nat :=
  let n := Z.of_nat (length ls) in
  Z.to_nat (n - 1 - lvl mod n).

(* ---- observation after a rejuvenate ----------------------------------- *)
Definition enc_bools (m : list bool) : list Z :=
  map (fun b : bool => if b then 1 else 0) m.

Definition enc_col (d : col) : list Z :=
  flat_map (fun v : fval => [fst v; snd v]) d.

Fixpoint enc_data (data : list (option col)) (s : Z) : list Z :=
  match data with
  | [] => []
  | Some d :: data' => [-8; s] ++ enc_col d ++ enc_data data' (s + 1)
  | None :: data' => enc_data data' (s + 1)
  end.

(* the image column of a dataset, read event by event through
   map_indices_child2parent (ChildNDArray.__getitem__) *)
Definition image_ids (img : list Z) (anc : list level) (len : Z) : list Z :=
  match c2r anc (iota 0 (Z.to_nat len)) with
  | Some rids => map (fun r => nth (Z.to_nat r) img (-1)) rids
  | None => [-99]
  end.

Definition even_ids (n : nat) : list Z :=
  filter (fun r => r mod 2 =? 0) (iota 0 n).

(* the scalar features of the dataset at position [pos], read one after the
   other (slots s, s+1, ...) *)
Fixpoint read_slots (ls : list level) (pos : nat) (s k : nat)
  : list Z * list level :=
  match k with
  | O => ([], ls)
  | S k' =>
      let '(v, ls1) := read_at ls pos s in
      let '(out, ls2) := read_slots ls1 pos (S s) k' in
      (match v with
       | Some d => [-8; Z.of_nat s] ++ enc_col d
       | None => []
       end ++ out, ls2)
  end.

Definition observe_level (img : list Z) (lvl : Z) (l : level)
           (anc : list level) (cols : list Z) : list Z :=
  let f := l_filt l in
  [100 + lvl; l_len l] ++ enc_bools (f_all f) ++ [-7]
  ++ enc_bools (f_manual f) ++ [-7]
  ++ (match anc with [] => [] | _ => sort_uniq (f_mri f) end) ++ [-7]
  ++ cols
  ++ [-8; 5] ++ flat_map (fun i => [0; i]) (image_ids img anc (l_len l))
  ++ (match anc with
      | [] => []
      | _ => [-9] ++ match c2r anc (iota 0 (Z.to_nat (l_len l))) with
                     | Some r => r | None => [-99] end
             ++ [-9] ++ r2c anc (even_ids (length img))
             (* map_indices_child2parent / parent2child called directly with
                unsorted indices containing a duplicate *)
             ++ match anc with
                | p :: _ =>
                    let n := l_len l in
                    let pn := l_len p in
                    [-9] ++ match c2p p (if 0 <? n then [n - 1; 0; n - 1] else []) with
                            | Some r => r | None => [-99] end
                    ++ [-9] ++ p2c p (if 0 <? pn then [pn - 1; 0; pn - 1] else [])
                | [] => []
                end
      end).

(* root first: positions k-1, ..., 0; every feature is read (and cached) *)
Fixpoint observe (img : list Z) (ls : list level) (k : nat)
  : list Z * list level :=
  match k with
  | O => ([], ls)
  | S pos =>
      let '(cols, ls1) := read_slots ls pos 0 NSLOT in
      let out1 := match skipn pos ls1 with
                  | l :: anc => observe_level img (Z.of_nat (length anc)) l anc cols
                  | [] => []
                  end in
      let '(out2, ls2) := observe img ls1 pos in
      (out1 ++ out2, ls2)
  end.

(* op = (tag, a, b, c, d) *)
Definition step (st : state) (op : Z * Z * Z * Z * Z) : state * list Z :=
  let '(tag, a, b, c, d) := op in
  let ls := s_levels st in
  let img := s_img st in
  if tag =? 0 then
    (mkstate (upd_level ls (pos_of ls a)
                        (set_range (Z.to_nat (b mod 5)) c d)) img, [])
  else if tag =? 1 then
    (mkstate (upd_level ls (pos_of ls a) (set_manual b (negb (c =? 0)))) img, [])
  else if tag =? 2 then
    let '(ls', e) := set_temp ls (pos_of ls a) (3 + Z.to_nat (b mod 2)) c in
    (mkstate ls' img, [2; e])
  else if tag =? 3 then
    (* a = 0: rejuvenate the youngest and read everything; a = 1: rejuvenate
       only; a = 2: read feature c of level b without any refresh *)
    if a =? 0 then
      let '(out, ls') := observe img (refresh ls) (length ls) in
      (mkstate ls' img, out)
    else if a =? 1 then (mkstate (refresh ls) img, [])
    else if a =? 2 then
      let '(v, ls') := read_at ls (pos_of ls b) (Z.to_nat (c mod 5)) in
      (* d = 0: plain read; d > 0: np.asarray(ds[feat], dtype=...) with an
         explicit dtype (float32, float16, int64, bool): the caller gets a
         cast copy, the cache keeps the uncast array -- the state is that of
         a plain read; only the fact that a value was returned is observed *)
      (mkstate ls' img,
       31 :: match v with
             | Some col => if d =? 0 then 1 :: enc_col col else [5; d]
             | None => [0]
             end)
    else if a =? 4 then
      (mkstate (upd_level ls (pos_of ls b) reset_level) img, [])
    else if a =? 5 then
      (mkstate (upd_level ls (pos_of ls b) (del_range (Z.to_nat (c mod 5))))
               img, [])
    else (st, [])
  else if tag =? 4 then
    (mkstate (upd_level ls (pos_of ls a) (set_enable (negb (b =? 0)))) img, [])
  else if tag =? 5 then
    (mkstate (upd_level ls (pos_of ls a) (set_rminv (negb (b =? 0)))) img, [])
  else if tag =? 6 then
    (if Nat.leb (length ls) MAXDEPTH then mkstate (grow ls) img else st, [])
  else (st, []).

Fixpoint run (st : state) (ops : list (Z * Z * Z * Z * Z)) : state * list Z :=
  match ops with
  | [] => (st, [])
  | o :: ops' =>
      let '(st1, out1) := step st o in
      let '(st2, out2) := run st1 ops' in
      (st2, out1 ++ out2)
  end.

(* the root dataset: three given columns, no temporary features yet;
   RTDC_Dict with a fresh Filter *)
Definition init_root (n : nat) (cols : list col) : level :=
  let c := mkcfg (repeat None NSLOT) true false in
  (* _man_root_ids/_root_ids/_parent_hash do not exist in a plain Filter;
     they are given the values they would have if the root were the
     all-selected child of itself, which keeps the invariants uniform *)
  let f := mkfilt (repeat None NSLOT) None (repeat true n) (repeat true n)
                  [] (iota 0 n) (repeat true n, iota 0 n) in
  mklevel c f (Z.of_nat n)
          (map (fun d => Some d) (firstn 3 cols) ++ [None; None])
          (repeat None NSLOT).

Definition init (n : nat) (cols : list col) : state :=
  mkstate [init_root n cols] (map (fun i => i + 3) (iota 0 n)).

(* interface of the correspondence check: (n, columns, ops) *)
Definition run_flat (case : Z * list col * list (Z * Z * Z * Z * Z)) : list Z :=
  let '(n, cols, ops) := case in
  snd (run (init (Z.to_nat n) cols) ops).

(* ---- specification of the manual exclusions: the user's intent ---------- *)
(* per dataset of the chain (youngest first, parallel to the levels): the root
   ids of the events the user has excluded there and not re-included since,
   and of all events the user has ever excluded there *)
Record ghost := mkghost { g_excl : list Z; g_ever : list Z }.

(* the user writes ds.filter.manual[i mod size] = v: position i of the
   dataset as the user sees it is the root event (f_rids f)[i] *)
Definition spec_manual (l : level) (i : Z) (v : bool) (g : ghost) : ghost :=
  let f := l_filt l in
  let n := Z.of_nat (length (f_manual f)) in
  if n =? 0 then g
  else
    let r := nth (Z.to_nat (i mod n)) (f_rids f) (-1) in
    if v then mkghost (filter (fun x => negb (x =? r)) (g_excl g)) (g_ever g)
    else mkghost (r :: g_excl g) (r :: g_ever g).

Definition spec_step (st : state) (gs : list ghost) (op : Z * Z * Z * Z * Z)
  : list ghost :=
  let '(tag, a, b, c, d) := op in
  let ls := s_levels st in
  if tag =? 1 then
    let pos := pos_of ls a in
    match nth_error ls pos, nth_error gs pos with
    | Some l, Some g => set_nth pos (spec_manual l b (negb (c =? 0)) g) gs
    | _, _ => gs
    end
  else if tag =? 6 then
    match ls with
    | [] => gs
    | _ => if Nat.leb (length ls) MAXDEPTH then mkghost [] [] :: gs else gs
    end
  else if (tag =? 3) && (a =? 4) then
    (* reset_filter(): the user's exclusions on that level start over *)
    let pos := pos_of ls b in
    match nth_error ls pos with
    | Some _ => set_nth pos (mkghost [] []) gs
    | None => gs
    end
  else gs.

Fixpoint spec_run (st : state) (gs : list ghost)
         (ops : list (Z * Z * Z * Z * Z)) : state * list ghost :=
  match ops with
  | [] => (st, gs)
  | o :: ops' => spec_run (fst (step st o)) (spec_step st gs o) ops'
  end.

(* interface of the correspondence check, with the user's intent as tracked
   by the specification appended (root first) *)
Definition enc_ghost (g : ghost) : list Z :=
  sort_uniq (g_excl g) ++ [-7] ++ sort_uniq (g_ever g) ++ [-7].

Definition run_both (case : Z * list col * list (Z * Z * Z * Z * Z)) : list Z :=
  let '(n, cols, ops) := case in
  let st0 := init (Z.to_nat n) cols in
  snd (run st0 ops) ++ [-5]
  ++ flat_map enc_ghost (rev (snd (spec_run st0 [mkghost [] []] ops))).

(* ---- sibling children: two branches below shared ancestors ---------------- *)
(* Two children (with their own descendants) of one parent share the parent
   object and its filter.  The two chains are [sb_a ++ sb_anc] and
   [sb_b ++ sb_anc]; every operation is the chain operation [step] applied to
   one of them (tag + 10 addresses branch b); tag 7 moves branch a into the
   shared part (only while branch b is empty), which places the fork. *)
Record sib := mksib {
  sb_a : list level; sb_b : list level; sb_anc : list level;
  sb_ga : list ghost; sb_gb : list ghost; sb_ganc : list ghost;
  sb_img : list Z
}.

Definition sib_step (s : sib) (op : Z * Z * Z * Z * Z) : sib * list Z :=
  let '(tag, a, b, c, d) := op in
  let br := tag / 10 in
  let t := tag mod 10 in
  if t =? 7 then
    match sb_b s with
    | [] => (mksib [] [] (sb_a s ++ sb_anc s) [] [] (sb_ga s ++ sb_ganc s)
                   (sb_img s), [])
    | _ => (s, [])
    end
  else
    let X := if br =? 0 then sb_a s else sb_b s in
    let gX := if br =? 0 then sb_ga s else sb_gb s in
    let st := mkstate (X ++ sb_anc s) (sb_img s) in
    let gs' := spec_step st (gX ++ sb_ganc s) (t, a, b, c, d) in
    let '(st', out) := step st (t, a, b, c, d) in
    let k := (length (s_levels st') - length (sb_anc s))%nat in
    let X' := firstn k (s_levels st') in
    let anc' := skipn k (s_levels st') in
    let gX' := firstn k gs' in
    let ganc' := skipn k gs' in
    (if br =? 0
     then mksib X' (sb_b s) anc' gX' (sb_gb s) ganc' (sb_img s)
     else mksib (sb_a s) X' anc' (sb_ga s) gX' ganc' (sb_img s), out).

Fixpoint sib_run (s : sib) (ops : list (Z * Z * Z * Z * Z)) : sib * list Z :=
  match ops with
  | [] => (s, [])
  | o :: ops' =>
      let '(s1, out1) := sib_step s o in
      let '(s2, out2) := sib_run s1 ops' in
      (s2, out1 ++ out2)
  end.

Definition sib_init (n : nat) (cols : list col) : sib :=
  mksib [] [] [init_root n cols] [] [] [mkghost [] []]
        (map (fun i => i + 3) (iota 0 n)).

Definition run_sib (case : Z * list col * list (Z * Z * Z * Z * Z)) : list Z :=
  let '(n, cols, ops) := case in
  let '(s, out) := sib_run (sib_init (Z.to_nat n) cols) ops in
  out ++ [-5]
  ++ flat_map enc_ghost (rev (sb_ga s ++ sb_ganc s))
  ++ [-6] ++ flat_map enc_ghost (rev (sb_gb s ++ sb_ganc s)).
