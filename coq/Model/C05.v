(* Model of dclab/features/emodulus (get_emodulus and what it calls).
   Executable definitions only; proofs are in Proofs/C05.v.

   Numbers are exact rationals (a binary64 value is a rational); rounding is
   not modelled.  Follows the code:

     scale_linear.py: scale_area_um / scale_volume / scale_emodulus
                      (with their "!=" / has_changes guards)
                                    -> scale_area, scale_volume, scale_emod
     __init__.py: normalize         -> division by the LUT maximum (lmax)
     __init__.py: get_emodulus      -> get_emodulus, with its two routes
          (after fix C05-single-interpolation-grid there is ONE route: the
           event data are scaled to the LUT, looked up in the unscaled LUT,
           the result is scaled back)
          viscosity ndarray            -> route_array (per-event viscosity)
          viscosity scalar             -> route_scalar (global viscosity)
          the removed else-branch (scale the LUT instead of the data) is
          kept as route_scale_lut: an equivalent formulation, tied to
          nothing
     scipy.interpolate.griddata(method="linear")
                                    -> find_tri: barycentric interpolation
                                       in the first triangle of the given
                                       triangulation that contains the point,
                                       None (NaN) when there is none

   Oracles (Section variables):
     tri    qhull's Delaunay triangulation of the normalised LUT nodes
     delta  pxcorr.get_pixelation_delta (contains exp)
     eta    viscosity.get_viscosity as a function of the temperature for the
            medium / model / channel width / flow rate of the call (contains
            exp and pow) *)
From Coq Require Import ZArith NArith QArith List Bool.
Import ListNotations.
Open Scope Q_scope.

Inductive feat := Area | Volume.

Definition sq (q : Q) : Q := q * q.
Definition cube (q : Q) : Q := q * q * q.

(* ---- scale_linear.py -------------------------------------------------- *)
Definition scale_area (a cwi cwo : Q) : Q :=
  if Qeq_bool cwi cwo then a else a * sq (cwo / cwi).

Definition scale_volume (v cwi cwo : Q) : Q :=
  if Qeq_bool cwi cwo then v else v * cube (cwo / cwi).

Definition scale_featx (f : feat) (x cwi cwo : Q) : Q :=
  match f with
  | Area => scale_area x cwi cwo
  | Volume => scale_volume x cwi cwo
  end.

(* [arr]: viscosity_out is an ndarray *)
Definition has_changes (arr : bool) (cwi cwo fri fro vi vo : Q) : bool :=
  negb (Qeq_bool fri fro) || negb (Qeq_bool cwi cwo)
  || (arr || negb (Qeq_bool vi vo)).

Definition emod_factor (cwi cwo fri fro vi vo : Q) : Q :=
  (fro / fri) * (vo / vi) * cube (cwi / cwo).

Definition scale_emod (arr : bool) (e cwi cwo fri fro vi vo : Q) : Q :=
  if has_changes arr cwi cwo fri fro vi vo
  then e * emod_factor cwi cwo fri fro vi vo
  else e.

(* ---- look-up table ---------------------------------------------------- *)
(* a node: abscissa (area_um or volume), deformation, emodulus *)
Definition node := (Q * Q * Q)%type.
Definition nx (n : node) : Q := fst (fst n).
Definition nd (n : node) : Q := snd (fst n).
Definition ne (n : node) : Q := snd n.

Record lut := mkLut {
  l_feat : feat;          (* meta["column features"][0] *)
  l_cw : Q;               (* meta["channel_width"] *)
  l_fr : Q;               (* meta["flow_rate"] *)
  l_visc : Q;             (* meta["fluid_viscosity"] *)
  l_nodes : list node
}.

Definition qmax (a b : Q) : Q := if Qle_bool a b then b else a.
Definition qmin (a b : Q) : Q := if Qle_bool a b then a else b.

(* ndarray.max() *)
Definition lmax (l : list Q) : Q :=
  match l with
  | [] => 0
  | x :: r => fold_left qmax r x
  end.

(* ---- linear interpolation in a triangulation -------------------------- *)
Definition pt := (Q * Q)%type.

(* twice the signed area of the triangle o a b *)
Definition cross (o a b : pt) : Q :=
  (fst a - fst o) * (snd b - snd o) - (fst b - fst o) * (snd a - snd o).

(* barycentric coordinates of p in a b c are
   cross p b c / d, cross a p c / d, cross a b p / d with d = cross a b c;
   p is in the closed triangle iff d <> 0 and all three are >= 0, i.e. iff
   each numerator is zero or has the sign of d *)
Definition same_sign (d l : Q) : bool :=
  if Qle_bool 0 d then Qle_bool 0 l else Qle_bool l 0.

Definition inside (p a b c : pt) : bool :=
  let d := cross a b c in
  negb (Qeq_bool d 0)
  && same_sign d (cross p b c)
  && same_sign d (cross a p c)
  && same_sign d (cross a b p).

Definition interp3 (p a b c : pt) (va vb vc : Q) : Q :=
  (cross p b c * va + cross a p c * vb + cross a b p * vc) / cross a b c.

(* normalised node: point and value *)
Definition nnode := (pt * Q)%type.

Definition get (nn : list nnode) (i : N) : option nnode :=
  nth_error nn (N.to_nat i).

Definition triangle := (N * N * N)%type.

Fixpoint find_tri (p : pt) (nn : list nnode) (ts : list triangle)
  : option Q :=
  match ts with
  | [] => None
  | (i, j, k) :: r =>
      match get nn i, get nn j, get nn k with
      | Some (a, va), Some (b, vb), Some (c, vc) =>
          if inside p a b c then Some (interp3 p a b c va vb vc)
          else find_tri p nn r
      | _, _, _ => find_tri p nn r
      end
  end.

(* normalize(): both axes divided by the LUT maximum.  The coordinates are
   brought to canonical form (Qred) where they are handed to the
   triangulation oracle and compared, so that the oracle sees numbers, not
   representations of numbers. *)
Definition normq (x m : Q) : Q := Qred (x / m).

Definition normalize_nodes (nodes : list node) : list nnode :=
  let xm := lmax (map nx nodes) in
  let dm := lmax (map nd nodes) in
  map (fun n => ((normq (nx n) xm, normq (nd n) dm), ne n)) nodes.

(* ---- get_emodulus ------------------------------------------------------ *)
Record setup := mkSetup {
  s_cw : Q;     (* channel_width *)
  s_fr : Q;     (* flow_rate *)
  s_px : Q      (* px_um *)
}.

(* what the caller passes as medium / temperature *)
Inductive medium :=
| MNum (v : Q)                   (* medium is a number (mPa s) *)
| MTempScalar (t : Q)            (* known medium, scalar temperature *)
| MTempArray (ts : list Q).      (* known medium, temperature ndarray *)

Definition event := (Q * Q)%type.   (* abscissa (area_um | volume), deform *)

Section Emod.
  Variable tri : list pt -> list triangle.
  Variable delta : feat -> Q -> Q -> Q.     (* feature, px_um, abscissa *)
  Variable eta : Q -> Q.                    (* temperature -> viscosity *)

  (* "if px_um: deform -= get_pixelation_delta(...)" *)
  Definition pxcorr (f : feat) (px x d : Q) : Q :=
    if Qeq_bool px 0 then d else d - delta f px x.

  (* REMOVED CODE (else-branch before fix C05-single-interpolation-grid): the
     LUT is scaled to the measurement.  Kept as an equivalent formulation. *)
  Definition scaled_nodes (L : lut) (S : setup) (v : Q) : list node :=
    map (fun n =>
           (scale_featx (l_feat L) (nx n) (l_cw L) (s_cw S), nd n,
            scale_emod false (ne n) (l_cw L) (s_cw S) (l_fr L) (s_fr S)
                       (l_visc L) v))
        (l_nodes L).

  Definition route_scale_lut (L : lut) (S : setup) (v : Q)
             (evs : list event) : list (option Q) :=
    let nodes1 := scaled_nodes L S v in
    let xm := lmax (map nx nodes1) in
    let dm := lmax (map nd nodes1) in
    let nn := normalize_nodes nodes1 in
    let ts := tri (map fst nn) in
    map (fun ev =>
           let d' := pxcorr (l_feat L) (s_px S) (fst ev) (snd ev) in
           find_tri (normq (fst ev) xm, normq d' dm) nn ts)
        evs.

  (* the data are scaled to the LUT, the result is scaled back with the
     viscosity of the event; [arr]: the viscosity is an ndarray *)
  (* look-up of a normalised point and back-scaling of the value *)
  Definition point_event (arr : bool) (L : lut) (S : setup)
             (nn : list nnode) (ts : list triangle) (p : pt) (v : Q)
    : option Q :=
    match find_tri p nn ts with
    | Some e => Some (scale_emod arr e (l_cw L) (s_cw S) (l_fr L) (s_fr S)
                                 (l_visc L) v)
    | None => None
    end.

  Definition data_event (arr : bool) (L : lut) (S : setup) (xm dm : Q)
             (nn : list nnode) (ts : list triangle) (ev : event) (v : Q)
    : option Q :=
    let x4 := scale_featx (l_feat L) (fst ev) (s_cw S) (l_cw L) in
    let d' := pxcorr (l_feat L) (s_px S) (fst ev) (snd ev) in
    point_event arr L S nn ts (normq x4 xm, normq d' dm) v.

  Definition array_event := data_event true.

  (* global (scalar) viscosity *)
  Definition route_scalar (L : lut) (S : setup) (v : Q) (evs : list event)
    : list (option Q) :=
    let xm := lmax (map nx (l_nodes L)) in
    let dm := lmax (map nd (l_nodes L)) in
    let nn := normalize_nodes (l_nodes L) in
    let ts := tri (map fst nn) in
    map (fun ev => data_event false L S xm dm nn ts ev v) evs.

  (* numpy broadcasting of the viscosity array against the event array
     (in-place multiplication of emod): same length, or length one *)
  Definition broadcast (vs : list Q) (n : nat) : option (list Q) :=
    if Nat.eqb (length vs) n then Some vs
    else match vs with
         | [v] => Some (repeat v n)
         | _ => None
         end.

  Fixpoint map2 {A B C} (f : A -> B -> C) (l : list A) (m : list B)
    : list C :=
    match l, m with
    | a :: l', b :: m' => f a b :: map2 f l' m'
    | _, _ => []
    end.

  Definition route_array (L : lut) (S : setup) (vs : list Q)
             (evs : list event) : option (list (option Q)) :=
    let xm := lmax (map nx (l_nodes L)) in
    let dm := lmax (map nd (l_nodes L)) in
    let nn := normalize_nodes (l_nodes L) in
    let ts := tri (map fst nn) in
    match broadcast vs (length evs) with
    | Some vs' => Some (map2 (array_event L S xm dm nn ts) evs vs')
    | None => None      (* ValueError: operands could not be broadcast *)
    end.

  Definition get_emodulus (L : lut) (S : setup) (m : medium)
             (evs : list event) : option (list (option Q)) :=
    match m with
    | MNum v => Some (route_scalar L S v evs)
    | MTempScalar t => Some (route_scalar L S (eta t) evs)
    | MTempArray [] => None   (* check_temperature: np.min of an empty
                                 array raises ValueError *)
    | MTempArray ts => route_array L S (map eta ts) evs
    end.

  (* ---- specification: the scaled linear interpolation of the LUT ------ *)
  Definition spec_emod (L : lut) (S : setup) (v : Q) (ev : event)
    : option Q :=
    let r := l_cw L / s_cw S in
    let xl := match l_feat L with
              | Area => fst ev * sq r
              | Volume => fst ev * cube r
              end in
    let xm := lmax (map nx (l_nodes L)) in
    let dm := lmax (map nd (l_nodes L)) in
    let nn := normalize_nodes (l_nodes L) in
    match find_tri (normq xl xm,
                    normq (pxcorr (l_feat L) (s_px S) (fst ev) (snd ev)) dm)
                   nn (tri (map fst nn)) with
    | Some e => Some (e * emod_factor (l_cw L) (s_cw S) (l_fr L) (s_fr S)
                                      (l_visc L) v)
    | None => None
    end.
End Emod.

(* ---- pxcorr.py: get_pixelation_delta for feat_corr = "deform" ---------- *)
(* corr_deform_with_area_um / corr_deform_with_volume: an offset plus three
   exponential decays in the abscissa measured in pixels; [expo] is the
   oracle for np.exp *)
Definition pxdelta (expo : Q -> Q) (f : feat) (px x : Q) : Q :=
  match f with
  | Area =>
      let s := sq ((34 # 100) / px) in
      (12 # 10000)
      + (20 # 1000) * expo (- x * s / (71 # 10))
      + (10 # 1000) * expo (- x * s / (386 # 10))
      + (5 # 1000) * expo (- x * s / 296)
  | Volume =>
      let s := cube ((34 # 100) / px) in
      (13 # 10000)
      + (172 # 10000) * expo (- x * s / 40)
      + (70 # 10000) * expo (- x * s / 450)
      + (32 # 10000) * expo (- x * s / 6040)
  end.

(* ---- evaluation interface for the correspondence check ---------------- *)
(* oracle values are handed over as finite tables *)
Fixpoint lookupq (x : Q) (tab : list (Q * Q)) : Q :=
  match tab with
  | [] => 0
  | (k, v) :: r => if Qeq_bool x k then v else lookupq x r
  end.

Definition q_of (z : Z * positive) : Q := fst z # snd z.

Definition enc_res (r : option Q) : list Z :=
  match r with
  | None => [0%Z]
  | Some q => let q' := Qred q in [1%Z; Qnum q'; Zpos (Qden q')]
  end.

Definition enc_all (r : option (list (option Q))) : list Z :=
  match r with
  | None => [9%Z]
  | Some l => flat_map enc_res l
  end.

(* a case: setup, medium (kind, values), events, exp table (argument ->
   np.exp(argument)), eta table (temperature -> viscosity), triangles *)
Record case := mkCase {
  c_setup : setup;
  c_medium : medium;
  c_events : list event;
  c_exp : list (Q * Q);
  c_eta : list (Q * Q);
  c_tris : list triangle
}.

Definition run_case (L : lut) (c : case) : list Z :=
  enc_all (get_emodulus (fun _ => c_tris c)
                        (pxdelta (fun a => lookupq a (c_exp c)))
                        (fun t => lookupq t (c_eta c))
                        L (c_setup c) (c_medium c) (c_events c)).

(* ======================================================================
   load.py: files, identifier registry, LUT arrays in memory
   ====================================================================== *)
(* names (paths and identifiers share one namespace: get_lut_path tests
   "is it an existing path" first) are coded as integers *)
Definition name := Z.

Inductive err := EValueError | EAssertionError | EKeyError | EFileNotFound.
Inductive res (A : Type) := Ok (a : A) | Err (e : err).
Arguments Ok {A} a.
Arguments Err {A} e.

(* feature codes: 0 deform, 1 area_um, 2 emodulus, 3 volume, 4 any other
   existing scalar feature, anything else: not a scalar feature.
   unit codes: 0 "", 1 "um^2", 2 "kPa", 3 "um^3", anything else: other *)
Record lutfile := mkFile {
  f_cw_unit_ok : bool;          (* meta["channel_width_unit"] == "um" *)
  f_fr_unit_ok : bool;          (* meta["flow_rate_unit"] == "uL/s" *)
  f_visc_unit_ok : bool;        (* meta["fluid_viscosity_unit"] == "mPa s" *)
  f_ident : option name;        (* meta.get("identifier") *)
  f_cols : list (Z * Z);        (* header: (feature, unit) per column *)
  f_cw : Q; f_fr : Q; f_visc : Q;
  f_rows : list node            (* np.loadtxt *)
}.

Record meta := mkMeta {
  m_cols : list Z;              (* meta["column features"] *)
  m_cw : Q; m_fr : Q; m_visc : Q;
  m_ident : option name
}.

Definition scalar_feature_exists (c : Z) : bool := (0 <=? c)%Z && (c <=? 4)%Z.

Definition unit_ok (col : Z * Z) : bool :=
  let (ft, un) := col in
  if (ft =? 0)%Z then (un =? 0)%Z
  else if (ft =? 1)%Z then (un =? 1)%Z
  else if (ft =? 2)%Z then (un =? 2)%Z
  else if (ft =? 3)%Z then (un =? 3)%Z
  else false.                   (* "Please add sanity check for ..." *)

(* the header line is split at tabs after stripping "# " only: a last column
   WITHOUT a unit keeps its newline and is never recognised as a feature *)
Fixpoint header_ok (cols : list (Z * Z)) : bool :=
  match cols with
  | [] => true
  | [(ft, un)] => scalar_feature_exists ft && negb (un =? 0)%Z
  | (ft, _) :: r => scalar_feature_exists ft && header_ok r
  end.

(* load_mtext: header features must be scalar features (ValueError), then
   the unit assertions *)
Definition load_mtext (f : lutfile) : res (list node * meta) :=
  if negb (header_ok (f_cols f))
  then Err EValueError
  else if negb (f_cw_unit_ok f && f_fr_unit_ok f && f_visc_unit_ok f
                && forallb unit_ok (f_cols f))
       then Err EAssertionError
       else Ok (f_rows f,
                mkMeta (map fst (f_cols f)) (f_cw f) (f_fr f) (f_visc f)
                       (f_ident f)).

Fixpoint zlookup {A} (k : Z) (l : list (Z * A)) : option A :=
  match l with
  | [] => None
  | (k', v) :: r => if (k =? k')%Z then Some v else zlookup k r
  end.

Fixpoint nlookup {A} (k : N) (l : list (N * A)) : option A :=
  match l with
  | [] => None
  | (k', v) :: r => if (k =? k')%N then Some v else nlookup k r
  end.

(* the world: files on disk, built-in tables, EXTERNAL_LUTS, and the arrays
   that exist in memory (the caller's (array, meta) tables and whatever
   get_emodulus allocates) *)
Record world := mkWorld {
  w_files : list (name * lutfile);
  w_internal : list (name * name);     (* identifier -> file *)
  w_ext : list (name * name);          (* EXTERNAL_LUTS: identifier -> path *)
  w_heap : list (N * list node);
  w_next : N
}.

Definition hread (w : world) (a : N) : list node :=
  match nlookup a (w_heap w) with Some r => r | None => [] end.

(* in-place write / allocation: the newest binding of an address counts *)
Definition hwrite (w : world) (a : N) (rows : list node) : world :=
  mkWorld (w_files w) (w_internal w) (w_ext w) ((a, rows) :: w_heap w)
          (w_next w).

Definition alloc (w : world) (rows : list node) : world * N :=
  (mkWorld (w_files w) (w_internal w) (w_ext w)
           ((w_next w, rows) :: w_heap w) (N.succ (w_next w)),
   w_next w).

(* (re)writing a file: the newest content of a path counts *)
Definition write_file (w : world) (p : name) (f : lutfile) : world :=
  mkWorld ((p, f) :: w_files w) (w_internal w) (w_ext w) (w_heap w)
          (w_next w).

(* del EXTERNAL_LUTS[i] (EXTERNAL_LUTS.pop(i, None)): the only way to bind an
   identifier to another file is to remove it and register it again *)
Definition unregister (w : world) (i : name) : world :=
  mkWorld (w_files w) (w_internal w)
          (filter (fun kv => negb (fst kv =? i)%Z) (w_ext w))
          (w_heap w) (w_next w).

(* get_lut_path: an existing path wins, then built-in identifiers, then
   registered ones *)
Definition get_lut_path (w : world) (x : name) : res name :=
  match zlookup x (w_files w) with
  | Some _ => Ok x
  | None =>
      match zlookup x (w_internal w) with
      | Some p => Ok p
      | None =>
          match zlookup x (w_ext w) with
          | Some p => Ok p
          | None => Err EValueError
          end
      end
  end.

Inductive lutdata :=
| DTuple (a : N) (m : meta)      (* (ndarray at address a, meta dict) *)
| DName (x : name).              (* path or identifier *)

(* load_lut: always a fresh array (np.array(copy=True) | np.loadtxt) *)
Definition load_lut (w : world) (d : lutdata) : world * res (N * meta) :=
  match d with
  | DTuple a m => let (w', a') := alloc w (hread w a) in (w', Ok (a', m))
  | DName x =>
      match get_lut_path w x with
      | Err e => (w, Err e)
      | Ok p =>
          match zlookup p (w_files w) with
          | None => (w, Err EFileNotFound)
          | Some f =>
              match load_mtext f with
              | Err e => (w, Err e)
              | Ok (rows, m) => let (w', a') := alloc w rows in (w', Ok (a', m))
              end
          end
      end
  end.

(* register_lut(path, identifier=None) *)
Definition register_lut (w : world) (path : name) (ident : option name)
  : world * res unit :=
  let id :=
      match ident with
      | Some i => Ok i
      | None =>
          match zlookup path (w_files w) with
          | None => Err EFileNotFound
          | Some f =>
              match load_mtext f with
              | Err e => Err e
              | Ok (_, m) => match m_ident m with
                             | Some i => Ok i
                             | None => Err EValueError
                             end
              end
          end
      end in
  match id with
  | Err e => (w, Err e)
  | Ok i =>
      match zlookup i (w_ext w), zlookup i (w_internal w) with
      | Some _, _ => (w, Err EValueError)
      | None, Some _ => (w, Err EValueError)
      | None, None =>
          (mkWorld (w_files w) (w_internal w) ((i, path) :: w_ext w)
                   (w_heap w) (w_next w), Ok tt)
      end
  end.

(* featx, featy, _ = lut_meta["column features"] *)
Definition select_feat (m : meta) : res feat :=
  match m_cols m with
  | [fx; fy; _] =>
      if ((fx =? 1) && (fy =? 0))%Z then Ok Area
      else if ((fx =? 3) && (fy =? 0))%Z then Ok Volume
      else Err EKeyError
  | _ => Err EValueError          (* cannot unpack *)
  end.

Definition unnorm (nn : list nnode) : list node :=
  map (fun n => (fst (fst n), snd (fst n), snd n)) nn.

Section EmodWorld.
  Variable tri : list pt -> list triangle.
  Variable delta : feat -> Q -> Q -> Q.
  Variable eta : Q -> Q.

  (* get_emodulus with its memory effects: the table is loaded into a fresh
     array, which is then scaled and normalised IN PLACE; nothing else is
     written (copy=True) *)
  Definition get_emodulus_w (w : world) (d : lutdata) (S : setup)
             (m : medium) (evs : list event)
    : world * res (list (option Q)) :=
    match load_lut w d with
    | (w1, Err e) => (w1, Err e)
    | (w1, Ok (a, mt)) =>
        match select_feat mt with
        | Err e => (w1, Err e)
        | Ok f =>
            let L := mkLut f (m_cw mt) (m_fr mt) (m_visc mt) (hread w1 a) in
            match get_emodulus tri delta eta L S m evs with
            | None => (w1, Err EValueError)
            | Some r =>
                (* the only array written: the fresh copy of the table,
                   normalised in place *)
                let w2 := hwrite w1 a (unnorm (normalize_nodes (l_nodes L))) in
                (w2, Ok r)
            end
        end
    end.

  (* what happens between calls: besides get_emodulus and register_lut, the
     user may (re)write a LUT file at a path and may modify an (array, meta)
     table of his own in place *)
  Inductive op :=
  | OCall (d : lutdata) (S : setup) (m : medium) (evs : list event)
  | ORegister (path : name) (ident : option name)
  | OWriteFile (path : name) (f : lutfile)
  | OMutate (a : N) (rows : list node)
  | OUnregister (i : name).       (* the user deletes EXTERNAL_LUTS[i] *)

  Inductive outcome :=
  | OutCall (r : res (list (option Q)))
  | OutReg (r : res unit)
  | OutUnit.

  Definition step (w : world) (o : op) : world * outcome :=
    match o with
    | OCall d St m evs =>
        let (w', r) := get_emodulus_w w d St m evs in (w', OutCall r)
    | ORegister p i =>
        let (w', r) := register_lut w p i in (w', OutReg r)
    | OWriteFile p f => (write_file w p f, OutUnit)
    | OMutate a rows => (hwrite w a rows, OutUnit)
    | OUnregister i => (unregister w i, OutUnit)
    end.

  Fixpoint run_ops (w : world) (ops : list op) : world * list outcome :=
    match ops with
    | [] => (w, [])
    | o :: r => let (w1, x) := step w o in
                let (w2, xs) := run_ops w1 r in (w2, x :: xs)
    end.
End EmodWorld.

(* ---- evaluation interface: registry / loading bookkeeping ------------- *)
(* ops: (0, path, ident | -1) register; (1, x, _) get_lut_path + load;
   observable: 0 ok | 1 ValueError | 2 AssertionError | 3 KeyError |
   4 FileNotFound, and for a load the resolved file and selected feature *)
Definition err_code (e : err) : Z :=
  match e with EValueError => 1 | EAssertionError => 2 | EKeyError => 3
          | EFileNotFound => 4 end%Z.

(* content tag of a loaded table: numerator of the first node's modulus *)
Definition content_tag (w : world) (a : N) : Z :=
  match hread w a with
  | n :: _ => Qnum (Qred (ne n))
  | [] => (-1)%Z
  end.

Fixpoint run_load_ops (w : world) (alts : list lutfile)
         (ops : list (Z * Z * Z)) : list Z :=
  match ops with
  | [] => []
  | (tag, x, y) :: r =>
      if (tag =? 0)%Z then
        let (w', o) := register_lut w x (if (y <? 0)%Z then None else Some y) in
        (match o with Ok _ => 0 | Err e => err_code e end)%Z
          :: run_load_ops w' alts r
      else if (tag =? 2)%Z then
        (* rewrite the file at path x with the y-th alternative content *)
        match nth_error alts (Z.to_nat y) with
        | Some f => run_load_ops (write_file w x f) alts r
        | None => run_load_ops w alts r
        end
      else
        let out :=
            match get_lut_path w x with
            | Err e => [err_code e]
            | Ok p =>
                match load_lut w (DName x) with
                | (_, Err e) => [err_code e; p]
                | (w1, Ok (a, mt)) =>
                    match select_feat mt with
                    | Ok Area => [0; p; 1; content_tag w1 a]
                    | Ok Volume => [0; p; 3; content_tag w1 a]
                    | Err e => [err_code e; p]
                    end
                end
            end%Z in
        out ++ run_load_ops w alts r
  end.

(* ======================================================================
   the caller's event arrays in memory: copy=True / copy=False
   ====================================================================== *)
(* float arrays live at addresses; get_emodulus(…, copy=…) follows the code
   (after fix C05-single-interpolation-grid):
     datax       = np.array(area_um|volume, dtype=float, copy=copy)
     deform      = np.array(deform, dtype=float, copy=copy)
     deform     -= get_pixelation_delta(datax)           (in place, if px_um)
     datax_4lut  = scale_feature(datax, inplace=False)   (always a new array)
     deform_4lut = np.array(deform, dtype=float, copy=copy)
     normalize(datax_4lut); normalize(deform_4lut)       (in place)
     emod        = griddata(...)                         (a new array)
     scale_feature(datax_4lut, inplace=True)             (in place)
   For float64 input, np.array(copy=False) is the SAME array. *)
Record mem := mkMem { h_cells : list (N * list Q); h_next : N }.

Definition mread (m : mem) (a : N) : list Q :=
  match nlookup a (h_cells m) with Some r => r | None => [] end.

Definition mwrite (m : mem) (a : N) (v : list Q) : mem :=
  mkMem ((a, v) :: h_cells m) (h_next m).

Definition malloc (m : mem) (v : list Q) : mem * N :=
  (mkMem ((h_next m, v) :: h_cells m) (N.succ (h_next m)), h_next m).

Definition np_array (copy : bool) (m : mem) (a : N) : mem * N :=
  if copy then malloc m (mread m a) else (m, a).

(* medium / temperature as the memory model sees it: the temperature array
   is one of the caller's arrays *)
Inductive mmedium :=
| MMNum (v : Q)
| MMScalar (t : Q)
| MMArray (at_ : N).

Section EmodMem.
  Variable tri : list pt -> list triangle.
  Variable delta : feat -> Q -> Q -> Q.
  Variable eta : Q -> Q.

  (* interpolation and back-scaling of the NORMALISED arrays (what
     griddata and scale_emodulus see) *)
  Definition emod_points (L : lut) (S : setup) (md : medium) (pts : list pt)
    : option (list (option Q)) :=
    let nn := normalize_nodes (l_nodes L) in
    let ts := tri (map fst nn) in
    match md with
    | MNum v => Some (map (fun p => point_event false L S nn ts p v) pts)
    | MTempScalar t =>
        Some (map (fun p => point_event false L S nn ts p (eta t)) pts)
    | MTempArray [] => None
    | MTempArray tl =>
        match broadcast (map eta tl) (length pts) with
        | Some vs' => Some (map2 (point_event true L S nn ts) pts vs')
        | None => None
        end
    end.

  Definition get_emodulus_mem (copy : bool) (m0 : mem) (L : lut) (S : setup)
             (md : mmedium) (ax ad : N)
    : mem * option (list (option Q)) :=
    let f := l_feat L in
    let (m1, datax) := np_array copy m0 ax in
    let (m2, deform) := np_array copy m1 ad in
    let m3 := if Qeq_bool (s_px S) 0 then m2
              else mwrite m2 deform
                          (map2 (fun x d => d - delta f (s_px S) x)
                                (mread m2 datax) (mread m2 deform)) in
    (* get_viscosity reads the temperature array NOW (after the in-place
       pixelation correction) *)
    let med := match md with
               | MMNum v => MNum v
               | MMScalar t => MTempScalar t
               | MMArray a => MTempArray (mread m3 a)
               end in
    let (m4, x4) := malloc m3 (map (fun x => scale_featx f x (s_cw S) (l_cw L))
                                   (mread m3 datax)) in
    let (m5, d4) := np_array copy m4 deform in
    let xm := lmax (map nx (l_nodes L)) in
    let dm := lmax (map nd (l_nodes L)) in
    let m6 := mwrite m5 x4 (map (fun x => normq x xm) (mread m5 x4)) in
    let m7 := mwrite m6 d4 (map (fun d => normq d dm) (mread m6 d4)) in
    (* the result is computed from the arrays as they are NOW *)
    let r := emod_points L S med (combine (mread m7 x4) (mread m7 d4)) in
    (* back-scaling of datax_4lut in place (its value is never used) *)
    let m8 := mwrite m7 x4 (map (fun x => scale_featx f x (l_cw L) (s_cw S))
                                (mread m7 x4)) in
    (m8, r).
End EmodMem.

(* evaluation interface: arrays at addresses 0 (x), 1 (deform), 2
   (temperatures, if per event); [alias]: the SAME array is passed as
   abscissa and deform (address 0 twice); observable: the result and the final
   contents of the arrays *)
Definition enc_q (q : Q) : list Z := let q' := Qred q in [Qnum q'; Zpos (Qden q')].

Definition run_case_mem (copy alias : bool) (L : lut) (c : case) : list Z :=
  let temps := match c_medium c with MTempArray tl => tl | _ => [] end in
  let m0 := mkMem [(0%N, map fst (c_events c)); (1%N, map snd (c_events c));
                   (2%N, temps)] 3 in
  let md := match c_medium c with
            | MNum v => MMNum v
            | MTempScalar t => MMScalar t
            | MTempArray _ => MMArray 2
            end in
  let (m', r) := get_emodulus_mem (fun _ => c_tris c)
                                  (pxdelta (fun a => lookupq a (c_exp c)))
                                  (fun t => lookupq t (c_eta c))
                                  copy m0 L (c_setup c) md 0
                                  (if alias then 0%N else 1%N) in
  enc_all r ++ [77%Z] ++ flat_map enc_q (mread m' 0) ++ [77%Z]
          ++ flat_map enc_q (mread m' 1) ++ [77%Z]
          ++ flat_map enc_q (mread m' 2).

Definition run_case_nocopy (L : lut) (c : case) : list Z :=
  run_case_mem false false L c.

(* evaluation interface for histories: run_ops itself, on tables of three
   nodes (their only triangle is the triangulation), no pixelation *)
Definition enc_outcome (o : outcome) : list Z :=
  match o with
  | OutCall (Ok r) => 0%Z :: flat_map enc_res r
  | OutCall (Err e) => [err_code e]
  | OutReg (Ok _) => [0%Z]
  | OutReg (Err e) => [err_code e]
  | OutUnit => []
  end.

Definition run_ops_flat (w : world) (ops : list op) : list Z :=
  flat_map enc_outcome
           (snd (run_ops (fun _ => [(0, 1, 2)%N]) (fun _ _ _ => 0) (fun t => t)
                         w ops)).

(* the same with pixelation (exp table) and a viscosity model (eta table):
   calls with px_um <> 0, several events, per-event temperatures *)
Definition run_ops_flat2 (exptab etatab : list (Q * Q)) (w : world)
           (ops : list op) : list Z :=
  flat_map enc_outcome
           (snd (run_ops (fun _ => [(0, 1, 2)%N])
                         (pxdelta (fun a => lookupq a exptab))
                         (fun t => lookupq t etatab) w ops)).
