(* C06 -- ancillary (computed) features and their cache.
   Executable definitions only.  The model follows
     dclab/rtdc_dataset/core.py        (__contains__, __getitem__,
                                        _get_ancillary_feature_data, features)
     feat_anc_core/ancillary_feature.py (is_available, available_features, hash,
                                        compute)
     feat_anc_core/af_emodulus.py      (compute_emodulus branching, is_channel)
     feat_anc_core/af_fl_max_ctc.py    (MissingCrosstalkMatrixElementsError)
     feat_anc_core/af_ml_class.py      (has_ml_scores as cache-key ingredient)
   The registry itself (one [recipe] per AncillaryFeature instance) is
   GENERATED from the source tree by harness/translators/anc_trace.py into
   Gen/AncRegistry.v; every function below takes it as the argument [reg].

   Values are symbolic: [Raw i] is the i-th version of stored data, [Comp m o
   args] the output [o] of method [m] applied to the inputs it reads.  md5 is
   modelled by the identity on the list of hashed items (injective). *)
From Coq Require Import ZArith List Bool.
Import ListNotations.
Open Scope Z_scope.

(* ---- well-known ids (mirrored in harness/translators/anc_trace.py) ---- *)
Definition f_temp := 1.
Definition f_fl1 := 2.
Definition f_fl2 := 3.
Definition f_fl3 := 4.
Definition f_emodulus := 5.
Definition f_bg_off := 6.
Definition f_ml_class := 7.
Definition f_time := 8.
Definition f_frame := 9.
Definition f_area_um := 10.
Definition f_deform := 11.
Definition f_fl1_ctc := 12.
Definition f_fl2_ctc := 13.
Definition f_fl3_ctc := 14.
Definition f_ml_a := 15.
Definition f_ml_b := 16.
Definition f_image := 17.
Definition f_image_bg := 18.
Definition f_mask := 19.
Definition f_bright_bc_avg := 20.
Definition f_contour := 21.
Definition f_volume := 22.
Definition f_pos_x := 23.
Definition f_pos_y := 24.
Definition k_lut := 1.
Definition k_medium := 2.
Definition k_temperature := 3.
Definition k_viscosity := 4.
Definition k_vmodel := 5.
Definition k_chip_region := 6.
Definition k_frame_rate := 7.
Definition k_pixel_size := 8.
Definition k_flow_rate := 9.
Definition k_channel_width := 10.
Definition k_ct : list Z := [11; 12; 13; 14; 15; 16].
(* value ids with a meaning *)
Definition v_channel := 1.          (* [setup] chip region = "channel" *)
(* medium value ids: 1-3 and 10-19 spellings of known media, 4 and 20
   spellings of "other", anything else is not a medium *)
Definition medium_known (v : Z) : bool :=
  (1 <=? v) && (v <=? 3) || (10 <=? v) && (v <=? 19).
Definition medium_other (v : Z) : bool := (v =? 4) || (v =? 20).

(* error kinds *)
Definition e_key := 2.      (* KeyError: feature does not exist *)
Definition e_value := 3.    (* ValueError raised by compute_emodulus *)
Definition e_ctmiss := 4.   (* MissingCrosstalkMatrixElementsError *)
Definition e_other := 5.
Definition e_fuel := 9.

Inductive input := IData (f : Z) | IPres (f : Z) | ICfg (k : Z).

Record recipe := mkRecipe {
  r_idx : Z;               (* position in AncillaryFeature.features *)
  r_name : Z;              (* feature_name *)
  r_prio : Z;              (* priority *)
  r_feats : list Z;        (* req_features *)
  r_keys : list Z;         (* req_config, flattened *)
  r_rf : Z;                (* req_func: 0 constant True, 1 is_channel,
                              2 has_ml_scores (result is hashed),
                              3 never vetoes, result is hashed *)
  r_extra : list input;    (* what a hashed req_func result depends on *)
  r_uses : list input;     (* what the method was observed to read *)
  r_meth : Z;              (* identity of the method *)
  r_mkind : Z;             (* 0 generic, 1 compute_emodulus, 2 compute_ctc *)
  r_mparam : Z;
  r_scen : Z;              (* emodulus: 1 case A, 2 case B, 3 case C *)
  r_outs : list Z          (* keys of the dict the method returns *)
}.

(* the req_func result goes into the hash *)
Definition rf_hashed (r : recipe) : bool := (r_rf r =? 2) || (r_rf r =? 3).

Inductive val := Raw (id : Z) | Comp (meth out : Z) (args : list (option val)).

Inductive item :=
| ItFeat (v : val)                   (* obj2bytes(ds[col]) *)
| ItCfg (k : Z) (v : Z)              (* "sec:key=val" *)
| ItReq (l : list (option val)).     (* non-boolean req_func result *)

Record base := mkBase {
  b_events : list (Z * Z);           (* innate features: name, data version *)
  b_temps : list (Z * Z);            (* _usertemp *)
  b_cfg : list (Z * Z)               (* configuration: key, value id *)
}.
Record state := mkState {
  s_base : base;
  s_cache : list (Z * (list item * val))    (* _ancillaries *)
}.

Inductive res := Ok (v : val) | Err (e : Z).

Inductive op :=
| SetCfg (k v : Z) | DelCfg (k : Z) | SetTemp (f v : Z)
| Read (f : Z) | Contains (f : Z) | Features.

(* ---- equality tests ---- *)
Fixpoint val_eqb (a b : val) {struct a} : bool :=
  match a, b with
  | Raw x, Raw y => x =? y
  | Comp m o xs, Comp m' o' ys =>
      (m =? m') && (o =? o') &&
      (fix go (xs ys : list (option val)) {struct xs} : bool :=
         match xs, ys with
         | [], [] => true
         | Some x :: xs', Some y :: ys' => val_eqb x y && go xs' ys'
         | None :: xs', None :: ys' => go xs' ys'
         | _, _ => false
         end) xs ys
  | _, _ => false
  end.

Definition oval_eqb (a b : option val) : bool :=
  match a, b with
  | Some x, Some y => val_eqb x y
  | None, None => true
  | _, _ => false
  end.

Fixpoint list_eqb {A} (eqb : A -> A -> bool) (xs ys : list A) : bool :=
  match xs, ys with
  | [], [] => true
  | x :: xs', y :: ys' => eqb x y && list_eqb eqb xs' ys'
  | _, _ => false
  end.

Definition item_eqb (a b : item) : bool :=
  match a, b with
  | ItFeat x, ItFeat y => val_eqb x y
  | ItCfg k v, ItCfg k' v' => (k =? k') && (v =? v')
  | ItReq l, ItReq l' => list_eqb oval_eqb l l'
  | _, _ => false
  end.

Definition items_eqb := list_eqb item_eqb.

Definition input_eqb (a b : input) : bool :=
  match a, b with
  | IData f, IData g => f =? g
  | IPres f, IPres g => f =? g
  | ICfg f, ICfg g => f =? g
  | _, _ => false
  end.

Definition memZ (x : Z) (l : list Z) : bool := existsb (Z.eqb x) l.
Definition mem_input (x : input) (l : list input) : bool :=
  existsb (input_eqb x) l.

(* ---- association lists ---- *)
Fixpoint assoc {A} (k : Z) (l : list (Z * A)) : option A :=
  match l with
  | [] => None
  | (k', v) :: t => if k =? k' then Some v else assoc k t
  end.

Definition del {A} (k : Z) (l : list (Z * A)) : list (Z * A) :=
  filter (fun kv => negb (fst kv =? k)) l.

Definition has {A} (k : Z) (l : list (Z * A)) : bool :=
  match assoc k l with Some _ => true | None => false end.

(* ---- reading the base state ---- *)
Definition cfg (b : base) (k : Z) : option Z := assoc k (b_cfg b).

(* __getitem__: _events first, then _usertemp *)
Definition feat_raw (b : base) (f : Z) : option Z :=
  match assoc f (b_events b) with
  | Some i => Some i
  | None => assoc f (b_temps b)
  end.

Definition in_base (b : base) (f : Z) : bool :=
  match feat_raw b f with Some _ => true | None => false end.

(* ---- availability (AncillaryFeature.is_available, RTDCBase.__contains__) *)
Definition is_channel (b : base) : bool :=
  match cfg b k_chip_region with
  | Some v => v =? v_channel
  | None => true
  end.

Definition pres_names (l : list input) : list Z :=
  flat_map (fun u => match u with IPres f => [f] | IData f => [f]
                             | ICfg _ => [] end) l.

Fixpoint avail (fuel : nat) (reg : list recipe) (st : state) (r : recipe)
  {struct fuel} : bool :=
  match fuel with
  | O => false
  | S n =>
      forallb (fun k => has k (b_cfg (s_base st))) (r_keys r)
      && forallb (contains n reg st) (r_feats r)
      && negb (existsb (avail n reg st)
                 (filter (fun o => (r_name o =? r_name r)
                                   && (r_prio r <? r_prio o)) reg))
      && (if r_rf r =? 1 then is_channel (s_base st)
          else if r_rf r =? 2
               then existsb (contains n reg st) (pres_names (r_extra r))
               else true)
  end
with contains (fuel : nat) (reg : list recipe) (st : state) (f : Z)
  {struct fuel} : bool :=
  match fuel with
  | O => false
  | S n =>
      in_base (s_base st) f
      || has f (s_cache st)
      || existsb (avail n reg st) (filter (fun o => r_name o =? f) reg)
  end.

(* AncillaryFeature.available_features(ds)[f]: the LAST available instance *)
Definition select (fuel : nat) (reg : list recipe) (st : state) (f : Z)
  : option recipe :=
  find (fun r => (r_name r =? f) && avail fuel reg st r) (rev reg).

(* ---- the values a method reads ---- *)
Definition present (b : bool) : option val :=
  if b then Some (Raw 0) else None.

Definition direct (fuel : nat) (reg : list recipe) (st : state) (u : input)
  : option val :=
  match u with
  | IData f => option_map Raw (feat_raw (s_base st) f)
  | IPres f => present (contains fuel reg st f)
  | ICfg k => option_map Raw (cfg (s_base st) k)
  end.

(* the value of a declared ingredient, as it went into the hash *)
Fixpoint feat_item (fs : list Z) (items : list item) (f : Z)
  : option (option val) :=
  match fs, items with
  | g :: fs', ItFeat v :: items' =>
      if f =? g then Some (Some v) else feat_item fs' items' f
  | _, _ => None
  end.

Fixpoint cfg_item (items : list item) (k : Z) : option (option val) :=
  match items with
  | [] => None
  | ItCfg k' v :: t => if k =? k' then Some (Some (Raw v)) else cfg_item t k
  | _ :: t => cfg_item t k
  end.

Fixpoint extra_zip (ex : list input) (l : list (option val)) (u : input)
  : option (option val) :=
  match ex, l with
  | e :: ex', v :: l' => if input_eqb u e then Some v else extra_zip ex' l' u
  | _, _ => None
  end.

Fixpoint req_item (ex : list input) (items : list item) (u : input)
  : option (option val) :=
  match items with
  | [] => None
  | ItReq l :: _ => extra_zip ex l u
  | _ :: t => req_item ex t u
  end.

Definition from_items (r : recipe) (items : list item) (u : input)
  : option (option val) :=
  match (match u with
         | IData f => feat_item (r_feats r) items f
         | IPres f => if memZ f (r_feats r) then Some (Some (Raw 0)) else None
         | ICfg k => cfg_item items k
         end) with
  | Some v => Some v
  | None => req_item (r_extra r) items u
  end.

(* inside the method a declared ingredient has the value that was hashed
   (the second ds[col] hits the cache filled while hashing); everything else
   is read from the dataset *)
Definition view_input (fuel : nat) (reg : list recipe) (st : state)
  (r : recipe) (items : list item) (u : input) : option val :=
  match from_items r items u with
  | Some v => v
  | None => direct fuel reg st u
  end.

(* ---- compute_emodulus: scenario actually taken ---- *)
Definition emod_common : list input :=
  [IData f_area_um; IData f_deform; ICfg k_channel_width; ICfg k_flow_rate;
   ICfg k_pixel_size; ICfg k_lut].
Definition emod_inputs (scen : Z) : list input :=
  if scen =? 2 then emod_common ++ [ICfg k_viscosity]
  else if scen =? 3
       then emod_common ++ [ICfg k_medium; ICfg k_temperature; ICfg k_vmodel]
       else emod_common ++ [ICfg k_medium; IData f_temp; ICfg k_vmodel].

(* inl scenario | inr error *)
Definition emod_outcome (medium temperature viscosity : option Z)
  (has_temp : bool) : Z + Z :=
  let med := match medium with Some m => m | None => 4 end in
  match viscosity with
  | Some _ =>
      if medium_other med then inl 2
      else inr e_value
  | None =>
      if negb (medium_known med) then inr e_value
      else match temperature with
           | Some _ => inl 3
           | None => if has_temp then inl 1 else inr e_other
           end
  end.

(* compute_ctc: all three channels present but not all six elements *)
Definition ctc_missing (fuel : nat) (reg : list recipe) (st : state) : bool :=
  contains fuel reg st f_fl1 && contains fuel reg st f_fl2
  && contains fuel reg st f_fl3
  && negb (forallb (fun k => has k (b_cfg (s_base st))) k_ct).

(* ---- reading a feature (RTDCBase.__getitem__) ---- *)
(* fuel for availability questions: [SF] for is_available of the recipes
   (available_features), [AF] = SF + 1 for __contains__, which asks
   is_available of every instance *)
Definition SF : nat := 23.
Definition AF : nat := S SF.

Definition store (outs : list Z) (items : list item) (m : Z)
  (view : list (option val)) (c : list (Z * (list item * val)))
  : list (Z * (list item * val)) :=
  fold_left (fun c o => (o, (items, Comp m o view)) :: c) outs c.

(* one ds[col] of AncillaryFeature.hash; the first error aborts *)
Definition hash_step (rd : state -> Z -> state * res)
  (acc : state * list val * option Z) (g : Z) : state * list val * option Z :=
  let '(s, vs, e) := acc in
  match e with
  | Some _ => acc
  | None =>
      let '(s', x) := rd s g in
      match x with
      | Ok v => (s', vs ++ [v], None)
      | Err k => (s', vs, Some k)
      end
  end.

Fixpoint read (fuel : nat) (reg : list recipe) (st : state) (f : Z)
  {struct fuel} : state * res :=
  match fuel with
  | O => (st, Err e_fuel)
  | S n =>
    match feat_raw (s_base st) f with
    | Some i => (st, Ok (Raw i))
    | None =>
      match select SF reg st f with
      | None => (st, Err e_key)
      | Some r =>
        (* AncillaryFeature.hash: ds[col] for every required feature *)
        let '(st1, fvals, err) :=
          fold_left (hash_step (read n reg)) (r_feats r) (st, [], None) in
        match err with
        | Some k => (st1, Err k)
        | None =>
          let fitems := map ItFeat fvals in
          let citems :=
            map (fun k => ItCfg k (match cfg (s_base st1) k with
                                   | Some v => v | None => 0 end))
                (r_keys r) in
          let ritems :=
            if rf_hashed r
            then [ItReq (map (direct AF reg st1) (r_extra r))] else [] in
          let items := fitems ++ citems ++ ritems in
          let hit :=
            match assoc f (s_cache st1) with
            | Some (h, v) => if items_eqb h items then Some v else None
            | None => None
            end in
          match hit with
          | Some v => (st1, Ok v)
          | None =>
            (* AncillaryFeature.compute *)
            let b := s_base st1 in
            let outcome : (list (option val) * list input) + Z :=
              if r_mkind r =? 1 then
                match emod_outcome (cfg b k_medium) (cfg b k_temperature)
                        (cfg b k_viscosity) (contains AF reg st1 f_temp) with
                | inl sc => inl ([Some (Raw sc)], emod_inputs sc)
                | inr e => inr e
                end
              else if r_mkind r =? 2 then
                if ctc_missing AF reg st1 then inr e_ctmiss
                else inl ([], r_uses r)
              else inl ([], r_uses r) in
            match outcome with
            | inr e => (st1, Err e)
            | inl (pre, ins) =>
              let view := pre ++ map (view_input AF reg st1 r items) ins in
              (mkState b (store (r_outs r) items (r_meth r) view
                            (s_cache st1)),
               Ok (Comp (r_meth r) f view))
            end
          end
        end
      end
    end
  end.

Definition RF : nat := 8.      (* fuel for reads: chain depth *)

Definition clear (st : state) : state := mkState (s_base st) [].
Definition fresh (b : base) : state := mkState b [].

(* ---- operations ---- *)
Definition set_cfg (b : base) k v :=
  mkBase (b_events b) (b_temps b) ((k, v) :: del k (b_cfg b)).
Definition del_cfg (b : base) k :=
  mkBase (b_events b) (b_temps b) (del k (b_cfg b)).
Definition set_temp (b : base) f v :=
  mkBase (b_events b) ((f, v) :: del f (b_temps b)) (b_cfg b).

Definition names (reg : list recipe) : list Z :=
  fold_right (fun r acc => if memZ (r_name r) acc then acc
                           else r_name r :: acc) [] reg.

Definition res_code (r : res) : Z :=
  match r with Ok _ => 0 | Err e => e end.

(* 0: equals what a fresh dataset computes; 1: a value, but not the fresh
   one (stale); otherwise the error kind *)
Definition cmp_code (r r0 : res) : Z :=
  match r, r0 with
  | Ok v, Ok v0 => if val_eqb v v0 then 0 else 1
  | Ok _, Err _ => 1
  | Err e, _ => e
  end.

Definition b2z (b : bool) : Z := if b then 1 else 0.

Definition step (reg : list recipe) (st : state) (o : op) : state * list Z :=
  match o with
  | SetCfg k v => (mkState (set_cfg (s_base st) k v) (s_cache st), [])
  | DelCfg k => (mkState (del_cfg (s_base st) k) (s_cache st), [])
  | SetTemp f v => (mkState (set_temp (s_base st) f v) (s_cache st), [])
  | Read f =>
      let '(st', r) := read RF reg st f in
      let '(_, r0) := read RF reg (clear st) f in
      (st', [cmp_code r r0; res_code r0])
  | Contains f =>
      (st, [b2z (contains AF reg st f); b2z (contains AF reg (clear st) f)])
  | Features =>
      (st, map (fun f => b2z (contains AF reg st f)) (names reg))
  end.

Fixpoint run (reg : list recipe) (st : state) (ops : list op) : list Z :=
  match ops with
  | [] => []
  | o :: t => let '(st', out) := step reg st o in out ++ run reg st' t
  end.

(* states reached by a history, for the theorems *)
Fixpoint run_state (reg : list recipe) (st : state) (ops : list op) : state :=
  match ops with
  | [] => st
  | o :: t => run_state reg (fst (step reg st o)) t
  end.

(* correspondence entry point: (events, temps, cfg, ops) *)
Definition run_flat (reg : list recipe)
  (c : list (Z * Z) * list (Z * Z) * list (Z * Z) * list op) : list Z :=
  let '(ev, tm, cf, ops) := c in
  run reg (fresh (mkBase ev tm cf)) ops.

(* ---- emodulus precedence table ---- *)
(* documented scenarios: C lut+medium+temperature, B lut+viscosity,
   A lut+medium+temp feature; precedence C > B > A *)
Definition spec_scenario (lut med tmp visc has_temp : bool) : Z :=
  if lut && med && tmp then 3
  else if lut && visc then 2
  else if lut && med && has_temp then 1
  else 0.

Definition emod_base (lut med tmp visc vm has_temp : bool) (medv : Z) : base :=
  mkBase
    ([(f_area_um, 0); (f_deform, 0)] ++ (if has_temp then [(f_temp, 0)] else []))
    []
    ((if lut then [(k_lut, 1)] else []) ++
     (if med then [(k_medium, medv)] else []) ++
     (if tmp then [(k_temperature, 1)] else []) ++
     (if visc then [(k_viscosity, 1)] else []) ++
     (if vm then [(k_vmodel, 1)] else []) ++
     [(k_pixel_size, 1); (k_flow_rate, 1); (k_channel_width, 1)]).

Definition bools6 : list (bool * bool * bool * bool * bool * bool) :=
  let bs := [false; true] in
  flat_map (fun a => flat_map (fun b => flat_map (fun c => flat_map (fun d =>
  flat_map (fun e => map (fun f => (a, b, c, d, e, f)) bs) bs) bs) bs) bs) bs.

Definition sel_scenario (reg : list recipe) (b : base) : Z :=
  match select SF reg (fresh b) f_emodulus with
  | Some r => r_scen r
  | None => 0
  end.

(* one row of the table: availability, scenario of the recipe chosen,
   scenario whose inputs the computation used (10 + error kind otherwise) *)
Definition emod_row (reg : list recipe)
  (c : bool * bool * bool * bool * bool * bool * Z) : list Z :=
  let '(lut, med, tmp, visc, vm, ht, medv) := c in
  let b := emod_base lut med tmp visc vm ht medv in
  [b2z (contains AF reg (fresh b) f_emodulus);
   sel_scenario reg b;
   match snd (read RF reg (fresh b) f_emodulus) with
   | Ok (Comp _ _ (Some (Raw sc) :: _)) => sc
   | Ok _ => 7
   | Err e => 10 + e
   end].

(* ---- registry checks (evaluated on the generated table) ---- *)
Definition declared (r : recipe) : list input :=
  map IData (r_feats r) ++ map ICfg (r_keys r) ++ r_extra r.

(* the ingredient is part of the cache key: a required feature, a required
   configuration key, or something the hashed req_func result is made of *)
Definition covered (r : recipe) (u : input) : bool :=
  match u with
  | IData f => memZ f (r_feats r)
  | IPres f => memZ f (r_feats r)
  | ICfg k => memZ k (r_keys r)
  end
  || mem_input u (r_extra r).

Definition complete (r : recipe) : bool :=
  forallb (covered r) (r_uses r) && (r_mkind r =? 0).

(* two instances whose hashes can coincide (same configuration keys hashed,
   same number of feature items, same kind of req_func item) and of which
   one may fill the cache slot the other reads *)
Definition collidable (r0 r : recipe) : bool :=
  memZ (r_name r) (r_outs r0)
  && list_eqb Z.eqb (r_keys r0) (r_keys r)
  && (Z.of_nat (length (r_feats r0)) =? Z.of_nat (length (r_feats r)))
  && (rf_hashed r0 && rf_hashed r || negb (rf_hashed r0) && negb (rf_hashed r)).

Definition same_recipe_shape (r0 r : recipe) : bool :=
  list_eqb Z.eqb (r_feats r0) (r_feats r)
  && list_eqb input_eqb (r_extra r0) (r_extra r)
  && list_eqb input_eqb (r_uses r0) (r_uses r)
  && (r_meth r0 =? r_meth r) && (r_mkind r0 =? r_mkind r).

Definition collide_ok (reg : list recipe) : bool :=
  forallb (fun r0 => forallb (fun r =>
     negb (collidable r0 r) || same_recipe_shape r0 r) reg) reg.

(* recipes that the known findings say read undeclared ingredients *)
Definition known_incomplete (r : recipe) : bool :=
  (r_mkind r =? 1)                                   (* emodulus *)
  || ((r_mkind r =? 2) && (Z.of_nat (length (r_feats r)) =? 2)).
                                                     (* 2-channel fl*_max_ctc *)
