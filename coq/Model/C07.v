(* Model of basin-provided features (dclab/rtdc_dataset: feat_basin.py,
   core.py, writer.py, export.py).  Executable definitions only; proofs are in
   Proofs/C07.v.

   Events are represented by integer fingerprints, a feature is a list of
   them.  Follows the code:
     numpy indexing of a 1-d array        -> positions / np_index
     BasinProxyFeature.__array__          -> proxy_array
     BasinProxyFeature.__getitem__        -> proxy_getitem (three routes, cache)
     RTDCWriter.store_basin (basinmapN)   -> alloc / alloc_named / store_basin
     basin_priority_sorted_key, retrieve  -> sorted_basins
     RTDCBase.__getitem__, _get_basin_feature_data, Basin.features
                                          -> lookup / has_feat
     map_indices_child2root               -> child2root
     Export.hdf5 (basins branch, with the fix C07-hierarchy-export-basinmap)
                                          -> export
   Oracles (not modelled): HDF5 storage, path resolution and identifier
   verification (every basin written is found), hierarchy children
   (child[f] = root[f] at the child-to-root indices). *)
From Coq Require Import ZArith List Bool.
Import ListNotations.
Open Scope Z_scope.

Definition zlen {A} (l : list A) : Z := Z.of_nat (length l).

Definition nthz {A} (l : list A) (i : Z) : option A :=
  if i <? 0 then None else nth_error l (Z.to_nat i).

(* l[idx] for a list of non-negative integers; IndexError -> None *)
Fixpoint gather {A} (l : list A) (idx : list Z) : option (list A) :=
  match idx with
  | [] => Some []
  | i :: r => match nthz l i, gather l r with
              | Some a, Some t => Some (a :: t)
              | _, _ => None
              end
  end.

(* np.where(m)[0], counting from k *)
Fixpoint where_from (k : Z) (m : list bool) : list Z :=
  match m with
  | [] => []
  | b :: r => if b then k :: where_from (k + 1) r else where_from (k + 1) r
  end.
Definition where_ (m : list bool) : list Z := where_from 0 m.

(* l[m] for a boolean array m of the same length *)
Fixpoint mask {A} (m : list bool) (l : list A) : list A :=
  match m, l with
  | b :: m', a :: l' => if b then a :: mask m' l' else mask m' l'
  | _, _ => []
  end.

Fixpoint zrange (k : nat) (start step : Z) : list Z :=
  match k with
  | O => []
  | S k' => start :: zrange k' (start + step) step
  end.
Definition iota (n : Z) : list Z := zrange (Z.to_nat n) 0 1.

(* ------------------------------------------------------------------ *)
(* numpy indexing of a one-dimensional array of length n               *)
(* ------------------------------------------------------------------ *)
Inductive index :=
| IInt (i : Z)
| ISlice (a b s : option Z)
| IBool (m : list bool)
| IArr (l : list Z).

Inductive res (A : Type) :=
| RErr                       (* IndexError *)
| ROne (a : A)
| RMany (l : list A).
Arguments RErr {A}.
Arguments ROne {A} _.
Arguments RMany {A} _.

Definition norm_int (n i : Z) : option Z :=
  if (0 <=? i) && (i <? n) then Some i
  else if (i <? 0) && (0 <=? i + n) then Some (i + n)
  else None.

Fixpoint norm_all (n : Z) (l : list Z) : option (list Z) :=
  match l with
  | [] => Some []
  | i :: r => match norm_int n i, norm_all n r with
              | Some j, Some t => Some (j :: t)
              | _, _ => None
              end
  end.

(* slice.indices(n) for a positive step *)
Definition clip_bound (n : Z) (x : option Z) (dflt : Z) : Z :=
  match x with
  | None => dflt
  | Some v => if v <? 0 then Z.max 0 (v + n) else Z.min n v
  end.

(* slice.indices(n) for a negative step: bounds in -1 .. n-1 *)
Definition clip_bound_neg (n : Z) (x : option Z) (dflt : Z) : Z :=
  match x with
  | None => dflt
  | Some v => if v <? 0 then Z.max (-1) (v + n) else Z.min (n - 1) v
  end.

(* (single?, positions) or None for IndexError *)
Definition positions (n : Z) (ix : index) : option (bool * list Z) :=
  match ix with
  | IInt i => match norm_int n i with
              | Some j => Some (true, [j])
              | None => None
              end
  | ISlice a b s =>
      let step := match s with None => 1 | Some v => v end in
      if step =? 0 then None       (* ValueError: slice step cannot be zero *)
      else if 0 <? step then
        let start := clip_bound n a 0 in
        let stop := clip_bound n b n in
        let cnt := if stop <=? start then 0
                   else (stop - start + step - 1) / step in
        Some (false, zrange (Z.to_nat cnt) start step)
      else
        (* negative step (numpy arrays only: basinmap / cached array) *)
        let start := clip_bound_neg n a (n - 1) in
        let stop := clip_bound_neg n b (-1) in
        let cnt := if start <=? stop then 0
                   else (start - stop - step - 1) / (- step) in
        Some (false, zrange (Z.to_nat cnt) start step)
  | IBool m => if zlen m =? n then Some (false, where_ m) else None
  | IArr l => match norm_all n l with
              | Some ps => Some (false, ps)
              | None => None
              end
  end.

Definition np_index {A} (l : list A) (ix : index) : res A :=
  match positions (zlen l) ix with
  | None => RErr
  | Some (single, ps) =>
      match gather l ps with
      | None => RErr
      | Some vs => if single then match vs with
                                  | a :: _ => ROne a
                                  | [] => RErr
                                  end
                   else RMany vs
      end
  end.

(* ------------------------------------------------------------------ *)
(* BasinProxyFeature                                                   *)
(* ------------------------------------------------------------------ *)
Section Proxy.
  Variable A : Type.
  Variable feat : list A.        (* feat_obj: the basin dataset's feature *)
  Variable bmap : list Z.        (* basinmap (uint64) *)
  Variable is_scalar : bool.

  (* for ii, idx in enumerate(indices): out_arr[ii] = self.feat_obj[idx] *)
  Fixpoint loop (indices : list Z) : option (list A) :=
    match indices with
    | [] => Some []
    | i :: r => match nthz feat i with
                | None => None
                | Some a => match loop r with
                            | None => None
                            | Some t => Some (a :: t)
                            end
                end
    end.

  (* __array__: (new cache, array) *)
  Definition proxy_array (cache : option (list A))
    : option (list A) * option (list A) :=
    match cache, is_scalar with
    | None, true =>
        (* self._cache = self.feat_obj[:][self.basinmap] *)
        match gather feat bmap with
        | Some c => (Some c, Some c)
        | None => (None, None)
        end
    | _, _ => (cache, loop bmap)
    end.

  Definition is_full (ix : index) : bool :=
    match ix with ISlice None None None => true | _ => false end.

  (* __getitem__: (new cache, result) *)
  Definition proxy_getitem (cache : option (list A)) (ix : index)
    : option (list A) * res A :=
    match cache, ix with
    | None, IInt i =>
        (* single index, cheap: self.feat_obj[self.basinmap[index]] *)
        (cache, match np_index bmap (IInt i) with
                | ROne j => match nthz feat j with
                            | Some a => ROne a
                            | None => RErr
                            end
                | _ => RErr
                end)
    | _, _ =>
        if negb is_scalar then
          let indices := if is_full ix then RMany bmap
                         else np_index bmap ix in
          (cache, match indices with
                  | RMany js => match loop js with
                                | Some l => RMany l
                                | None => RErr
                                end
                  | _ => RErr
                  end)
        else
          let '(c', arr) := proxy_array cache in
          (c', match arr with
               | Some l => np_index l ix
               | None => RErr
               end)
    end.
End Proxy.

(* Ways of reading a feature object besides indexing *)
Inductive access :=
| AIndex (ix : index)     (* obj[ix] *)
| AIter                   (* [v for v in obj]: obj[0], obj[1], ... until
                             IndexError (no __iter__ is defined) *)
| AArray                  (* np.array(obj): obj.__array__() *)
| ACast                   (* np.array(obj, dtype=...): numpy casts what
                             __array__ returns; the cache keeps the data *)
| AMax | AMin             (* obj.max() / obj.min(): _fetch_ufunc_attr
                             computes np.nanmax/nanmin(self.__array__()) *)
| AMean.                  (* obj.mean(): same route; the value (a float
                             division) is judged by the oracle only *)

Definition list_max (l : list Z) : option Z :=
  match l with [] => None | x :: r => Some (fold_left Z.max r x) end.
Definition list_min (l : list Z) : option Z :=
  match l with [] => None | x :: r => Some (fold_left Z.min r x) end.

(* summary of an array: max / min; mean is left abstract ([]) *)
Definition summary {A} (sel : list A -> option A) (l : list A) : res A :=
  match sel l with Some v => ROne v | None => RErr end.

Section ProxyAccess.
  Variable A : Type.
  Variable feat : list A.
  Variable bmap : list Z.
  Variable is_scalar : bool.
  Variable cast : A -> A.
  Variable amax amin : list A -> option A.

  (* legacy iteration protocol: any IndexError ends the iteration *)
  Fixpoint proxy_iter (fuel : nat) (i : Z) (cache : option (list A))
    : option (list A) * list A :=
    match fuel with
    | O => (cache, [])
    | S fu =>
        let '(c', r) := proxy_getitem A feat bmap is_scalar cache (IInt i) in
        match r with
        | ROne a => let '(c'', rest) := proxy_iter fu (i + 1) c' in
                    (c'', a :: rest)
        | _ => (c', [])
        end
    end.

  Definition proxy_access (cache : option (list A)) (ac : access)
    : option (list A) * res A :=
    match ac with
    | AIndex ix => proxy_getitem A feat bmap is_scalar cache ix
    | AIter => let '(c', l) := proxy_iter (S (length bmap)) 0 cache in
               (c', RMany l)
    | AArray =>
        (* ragged features (fixed code): array of objects filled by the
           same per-index loop *)
        let '(c', arr) := proxy_array A feat bmap is_scalar cache in
        (c', match arr with Some l => RMany l | None => RErr end)
    | ACast =>
        let '(c', arr) := proxy_array A feat bmap is_scalar cache in
        (c', match arr with Some l => RMany (map cast l) | None => RErr end)
    | AMax =>
        let '(c', arr) := proxy_array A feat bmap is_scalar cache in
        (c', match arr with Some l => summary amax l | None => RErr end)
    | AMin =>
        let '(c', arr) := proxy_array A feat bmap is_scalar cache in
        (c', match arr with Some l => summary amin l | None => RErr end)
    | AMean =>
        let '(c', arr) := proxy_array A feat bmap is_scalar cache in
        (c', match arr with
             | Some [] => RErr
             | Some _ => RMany []
             | None => RErr
             end)
    end.
End ProxyAccess.

(* stored data (h5py backed or numpy) *)
Definition direct_access {A} (cast : A -> A) (amax amin : list A -> option A)
           (d : list A) (ac : access) : res A :=
  match ac with
  | AIndex ix => np_index d ix
  | AIter => RMany d
  | AArray => RMany d
  | ACast => RMany (map cast d)
  | AMax => summary amax d
  | AMin => summary amin d
  | AMean => match d with [] => RErr | _ => RMany [] end
  end.

(* fingerprints of scalars are 8 * value: truncation towards zero *)
Definition trunc8 (k : Z) : Z := Z.quot k 8 * 8.

(* ------------------------------------------------------------------ *)
(* files, basin definitions, store_basin                               *)
(* ------------------------------------------------------------------ *)
Definition fdata := list (Z * list Z).   (* feature id -> fingerprints *)

Fixpoint assoc {B} (k : Z) (l : list (Z * B)) : option B :=
  match l with
  | [] => None
  | (k', v) :: r => if k =? k' then Some v else assoc k r
  end.

Fixpoint zmem (k : Z) (l : list Z) : bool :=
  match l with [] => false | x :: r => (k =? x) || zmem k r end.

Record bdef := {
  b_internal : bool;               (* type "internal" (else "file") *)
  b_target : nat;                  (* file-type: the basin's file *)
  b_int : fdata;                   (* internal: the basin_events group *)
  b_slot : option nat;             (* mapping: None = "same", k = basinmapk *)
  b_feats : option (list Z)        (* features *)
}.

Record file := {
  f_n : Z;
  f_innate : fdata;
  f_slots : list (option (list Z));   (* events/basinmap0..9 *)
  f_basins : list bdef
}.

Definition store := list (option file).

Definition get_file (st : store) (fid : nat) : option file :=
  match nth_error st fid with Some (Some fl) => Some fl | _ => None end.

Fixpoint list_eqb (a b : list Z) : bool :=
  match a, b with
  | [], [] => true
  | x :: a', y :: b' => (x =? y) && list_eqb a' b'
  | _, _ => false
  end.

Fixpoint set_nth {B} (k : nat) (v : B) (l : list B) : list B :=
  match l, k with
  | [], _ => []
  | _ :: r, O => v :: r
  | x :: r, S k' => x :: set_nth k' v r
  end.

Definition slot (slots : list (option (list Z))) (k : nat) : option (list Z) :=
  nth k slots None.

(* for ii in range(10): ... *)
Fixpoint alloc_loop (cands : list nat) (slots : list (option (list Z)))
         (m : list Z) : option (nat * list (option (list Z))) :=
  match cands with
  | [] => None                               (* ValueError: exhausted *)
  | ii :: r =>
      match slot slots ii with
      | Some m' => if list_eqb m' m then Some (ii, slots)
                   else alloc_loop r slots m
      | None => Some (ii, set_nth ii (Some m) slots)
      end
  end.

Definition alloc (slots : list (option (list Z))) (m : list Z) :=
  alloc_loop (seq 0 10) slots m.

Definition alloc_named (k : nat) (slots : list (option (list Z))) (m : list Z)
  : option (nat * list (option (list Z))) :=
  match slot slots k with
  | None => Some (k, set_nth k (Some m) slots)
  | Some m' => if list_eqb m' m then Some (k, slots) else None
  end.

Definition empty_slots : list (option (list Z)) := repeat None 10.

(* one store_basin call *)
Inductive sbasin :=
| SBInternal (data : fdata) (m : list Z)
| SBFile (target : Z) (m : option (list Z)) (name : option Z)
         (feats : option (list Z)).

Definition sorted_ids (l : list Z) : list Z :=
  filter (fun k => zmem k l) [1; 2; 3; 4; 5; 6; 7; 8].

Definition store_basin (fl : file) (sb : sbasin) : option file :=
  let mk (internal : bool) (tgt : nat) (idata : fdata) (m : option (list Z))
         (name : option Z) (feats : option (list Z)) : option file :=
      match m with
      | None =>
          Some {| f_n := f_n fl; f_innate := f_innate fl;
                  f_slots := f_slots fl;
                  f_basins := f_basins fl ++
                    [{| b_internal := internal; b_target := tgt;
                        b_int := idata; b_slot := None;
                        b_feats := feats |}] |}
      | Some mm =>
          match (match name with
                 | None => alloc (f_slots fl) mm
                 | Some k => alloc_named (Z.to_nat k) (f_slots fl) mm
                 end) with
          | None => None
          | Some (k, slots') =>
              Some {| f_n := f_n fl; f_innate := f_innate fl;
                      f_slots := slots';
                      f_basins := f_basins fl ++
                        [{| b_internal := internal; b_target := tgt;
                            b_int := idata; b_slot := Some k;
                            b_feats := feats |}] |}
          end
      end in
  match sb with
  | SBInternal data m =>
      mk true O data (Some m) None (Some (sorted_ids (map fst data)))
  | SBFile t m name feats =>
      mk false (Z.to_nat t) [] m name
         (match feats with None => None | Some l => Some (sorted_ids l) end)
  end.

Fixpoint store_basins (fl : file) (sbs : list sbasin) : option file :=
  match sbs with
  | [] => Some fl
  | sb :: r => match store_basin fl sb with
               | None => None
               | Some fl' => store_basins fl' r
               end
  end.

(* ------------------------------------------------------------------ *)
(* lookup                                                              *)
(* ------------------------------------------------------------------ *)
(* basin_priority_sorted_key: type, (format), mapping *)
Definition bkey (b : bdef) : Z :=
  (if b_internal b then 0 else 100) +
  match b_slot b with None => 0 | Some k => Z.of_nat k + 1 end.

Fixpoint insert_sorted (b : bdef) (l : list bdef) : list bdef :=
  match l with
  | [] => [b]
  | x :: r => if bkey b <? bkey x then b :: l else x :: insert_sorted b r
  end.

(* stable *)
Definition sorted_basins (l : list bdef) : list bdef :=
  fold_right insert_sorted [] l.

Fixpoint first_some {B C} (f : B -> option C) (l : list B) : option C :=
  match l with
  | [] => None
  | x :: r => match f x with Some c => Some c | None => first_some f r end
  end.

(* feat in ds.features_innate + ds.features_basin *)
Fixpoint has_feat (fuel : nat) (st : store) (fid : nat) (f : Z) : bool :=
  match fuel with
  | O => false
  | S fu =>
      match get_file st fid with
      | None => false
      | Some fl =>
          match assoc f (f_innate fl) with
          | Some _ => true
          | None =>
              existsb (fun b =>
                         match b_feats b with
                         | Some l => zmem f l
                         | None => has_feat fu st (b_target b) f
                         end) (f_basins fl)
          end
      end
  end.

(* feat in bn.features *)
Definition provides (fu : nat) (st : store) (b : bdef) (f : Z) : bool :=
  match b_feats b with
  | Some l => zmem f l
  | None => has_feat fu st (b_target b) f
  end.

(* what ds[feat] returns *)
Inductive obj :=
| ODirect (d : list Z)               (* stored data (h5py backed) *)
| OProxy (d : list Z) (m : list Z).  (* BasinProxyFeature(feat_obj, basinmap) *)

Definition materialize (o : obj) : option (list Z) :=
  match o with
  | ODirect d => Some d
  | OProxy d m => gather d m
  end.

Fixpoint lookup (fuel : nat) (st : store) (fid : nat) (f : Z) : option obj :=
  match fuel with
  | O => None
  | S fu =>
      match get_file st fid with
      | None => None
      | Some fl =>
          match assoc f (f_innate fl) with
          | Some d => Some (ODirect d)            (* feat in self._events *)
          | None =>
              let attempt (b : bdef) : option obj :=
                  if provides fu st b f then
                    (* bn.get_feature_data(feat) = bn.ds[feat] *)
                    let data :=
                        if b_internal b then assoc f (b_int b)
                        else match lookup fu st (b_target b) f with
                             | Some o => materialize o
                             | None => None
                             end in
                    match data with
                    | None => None          (* KeyError: try the next one *)
                    | Some d =>
                        match b_slot b with
                        | None => Some (ODirect d)
                        | Some k => match slot (f_slots fl) k with
                                    | Some m => Some (OProxy d m)
                                    | None => None
                                    end
                        end
                    end
                  else None in
              let bs := sorted_basins (f_basins fl) in
              (* for basin_type in ["internal", "file", None] *)
              match first_some attempt (filter b_internal bs) with
              | Some o => Some o
              | None =>
                  match first_some attempt
                          (filter (fun b => negb (b_internal b)) bs) with
                  | Some o => Some o
                  | None => first_some attempt bs
                  end
              end
          end
      end
  end.

Definition fuel_of (st : store) : nat := S (length st).

Definition resolve (st : store) (fid : nat) (f : Z) : option (list Z) :=
  match lookup (fuel_of st) st fid f with
  | Some o => materialize o
  | None => None
  end.

(* ------------------------------------------------------------------ *)
(* export                                                              *)
(* ------------------------------------------------------------------ *)
Definition count_true (m : list bool) : Z := zlen (where_ m).

(* map_indices_child2root(child, arange(len(child))): the parents' filters
   are applied from the child upwards *)
Definition child2root (pfilts : list (list bool)) : option (list Z) :=
  match rev pfilts with
  | [] => None
  | last :: ups =>
      fold_left (fun acc pf => match acc with
                               | None => None
                               | Some idx => gather (where_ pf) idx
                               end)
                ups (gather (where_ last) (iota (count_true last)))
  end.

Definition opt_bind {B C} (x : option B) (f : B -> option C) : option C :=
  match x with None => None | Some v => f v end.

(* basinmap of an upstream basin seen from a hierarchy child (the fix) *)
Definition hier_map (idx_root : list Z) (m : option (list Z))
  : option (list Z) :=
  match m with
  | None => Some idx_root
  | Some mm => gather mm idx_root
  end.

(* the basins branch: np.where(filter_arr)[0] / basinmap_orig[filter_arr] *)
Definition export_map (filt : list bool) (m : option (list Z))
  : option (list Z) :=
  match m with
  | None => Some (where_ filt)
  | Some mm => if zlen mm =? zlen filt then Some (mask filt mm) else None
  end.

Definition all_feats (st : store) (fid : nat) : list Z :=
  filter (has_feat (fuel_of st) st fid) [1; 2; 3; 4; 5; 6; 7; 8].

(* Basin.as_dict *)
Definition as_dict (st : store) (fl : file) (b : bdef) : option sbasin :=
  let feats := match b_feats b with
               | Some l => Some l
               | None => Some (all_feats st (b_target b))
               end in
  match b_slot b with
  | None =>
      if b_internal b then None      (* internal basins are always mapped *)
      else Some (SBFile (Z.of_nat (b_target b)) None None feats)
  | Some k =>
      match slot (f_slots fl) k with
      | None => None                 (* BasinmapFeatureMissingError *)
      | Some m =>
          if b_internal b then Some (SBInternal (b_int b) m)
          else Some (SBFile (Z.of_nat (b_target b)) (Some m) None feats)
      end
  end.

Fixpoint all_some {B} (l : list (option B)) : option (list B) :=
  match l with
  | [] => Some []
  | None :: _ => None
  | Some x :: r => match all_some r with
                   | Some t => Some (x :: t)
                   | None => None
                   end
  end.

(* filter_arr = None when filtering is disabled *)
Definition fmask {A} (filt : option (list bool)) (l : list A) : list A :=
  match filt with Some f => mask f l | None => l end.

(* "if not filtered: pass" / new mapping / nested mapping *)
Definition export_map_opt (filt : option (list bool)) (m : option (list Z))
  : option (option (list Z)) :=
  match filt with
  | None => Some m
  | Some f => match export_map f m with
              | Some m' => Some (Some m')
              | None => None
              end
  end.

Definition empty_selection (filt : option (list bool)) : bool :=
  match filt with Some f => count_true f =? 0 | None => false end.

Definition export (st : store) (src : nat) (pfilts : list (list bool))
           (filt : option (list bool)) (feats : option (list Z))
  : option file :=
  opt_bind (get_file st src) (fun root =>
  let hier := match pfilts with [] => false | _ => true end in
  opt_bind (if hier then child2root pfilts else Some (iota (f_n root)))
    (fun idx_root =>
  (* ds[feat] of the dataset that is exported *)
  let view (d : list Z) : option (list Z) :=
      if hier then gather d idx_root else Some d in
  if negb (match filt with
           | Some f => zlen idx_root =? zlen f
           | None => true
           end) then None else
  let names := match feats with
               | Some l => sorted_ids l
               | None => sorted_ids (map fst (f_innate root))
               end in
  opt_bind (all_some (map (fun f =>
              opt_bind (resolve st src f) (fun d =>
              opt_bind (view d) (fun v => Some (f, fmask filt v)))) names))
    (fun innate =>
  (* no event selected: nothing is stored, no basins (fix
     C07-export-empty-selection-basins) *)
  if empty_selection filt then
    Some {| f_n := 0; f_innate := []; f_slots := empty_slots;
            f_basins := [] |}
  else
  (* default feature list: the basinmap features of the source are
     innate features and are exported (filtered) as well *)
  opt_bind (match feats with
            | Some _ => Some empty_slots
            | None => all_some (map (fun s =>
                        match s with
                        | None => Some None
                        | Some m => opt_bind (view m) (fun v =>
                                      Some (Some (fmask filt v)))
                        end) (f_slots root))
            end) (fun slots0 =>
  opt_bind (all_some (map (as_dict st root)
                          (sorted_basins (f_basins root))))
    (fun upstream =>
  let self := SBFile (Z.of_nat src)
                     (if hier then Some idx_root else None) None None in
  (* hierarchy children: upstream maps refer to root events *)
  opt_bind (all_some (map (fun sb =>
              match sb with
              | SBInternal d m => Some sb
              | SBFile t m nm fs =>
                  if hier then
                    opt_bind (hier_map idx_root m) (fun m' =>
                      Some (SBFile t (Some m') nm fs))
                  else Some sb
              end) upstream)) (fun upstream' =>
  opt_bind (all_some (map (fun sb =>
              match sb with
              | SBInternal d m => Some sb
              | SBFile t m nm fs =>
                  opt_bind (export_map_opt filt m) (fun m' =>
                    Some (SBFile t m' nm fs))
              end) (upstream' ++ [self]))) (fun blist =>
  let blist' := filter (fun sb => match sb with
                                  | SBInternal _ _ => false
                                  | _ => true
                                  end) blist in
  store_basins {| f_n := match filt with
                         | Some f => count_true f
                         | None => zlen idx_root
                         end;
                  f_innate := innate;
                  f_slots := slots0; f_basins := [] |} blist'))))))).

(* ------------------------------------------------------------------ *)
(* copier.rtdc_copy / basin_definition_copy (compress, repack)         *)
(* ------------------------------------------------------------------ *)
Definition has_key (f : Z) (l : fdata) : bool :=
  match assoc f l with Some _ => true | None => false end.

(* one basin dict in basin_definition_copy: internal basins are rewritten to
   the features that are copied (dropped when none is), others are copied *)
Definition copy_basin (innate : fdata) (keep : list Z) (b : bdef)
  : list bdef :=
  if b_internal b then
    let feats := match b_feats b with Some l => l | None => [] end in
    let used := filter (fun f => zmem f keep) feats in
    match used with
    | [] => []
    | _ => [{| b_internal := true; b_target := b_target b;
               (* basin_events: only features in feature_iter that are not
                  already copied from "events" *)
               b_int := filter (fun kv => zmem (fst kv) keep
                                          && negb (has_key (fst kv) innate))
                               (b_int b);
               b_slot := b_slot b; b_feats := Some used |}]
    end
  else [b].

(* keep = feature_iter (the basinmap features are always included) *)
Definition copy_file (fl : file) (keep : list Z) : file :=
  {| f_n := f_n fl;
     f_innate := filter (fun kv => zmem (fst kv) keep) (f_innate fl);
     f_slots := f_slots fl;
     f_basins := flat_map (copy_basin (f_innate fl) keep) (f_basins fl) |}.

(* ------------------------------------------------------------------ *)
(* pipelines                                                           *)
(* ------------------------------------------------------------------ *)
Inductive step :=
| SWrite (n : Z) (innate : fdata) (sbs : list sbasin)
| SExport (src : Z) (pfilts : list (list bool)) (filt : option (list bool))
          (feats : option (list Z))
| SCopy (src : Z) (keep : list Z).

Definition sb_sources (sb : sbasin) : list nat :=
  match sb with
  | SBInternal _ _ => []
  | SBFile t _ _ _ => [Z.to_nat t]
  end.

Definition run_step (st : store) (s : step) : store :=
  st ++ [match s with
         | SWrite n innate sbs =>
             if forallb (fun sb =>
                           forallb (fun t => match get_file st t with
                                             | Some _ => true
                                             | None => false
                                             end) (sb_sources sb)) sbs
             then store_basins {| f_n := n; f_innate := innate;
                                  f_slots := empty_slots; f_basins := [] |}
                               sbs
             else None
         | SExport src pfilts filt feats =>
             export st (Z.to_nat src) pfilts filt feats
         | SCopy src keep =>
             match get_file st (Z.to_nat src) with
             | Some fl => Some (copy_file fl keep)
             | None => None
             end
         end].

Definition run_steps (steps : list step) : store :=
  fold_left run_step steps [].

Definition is_scalar_feat (f : Z) : bool := f <=? 3.

(* np.array(obj, dtype=...): scalars are cast to int (truncation), images
   etc. to a float type (no change of the values) *)
Definition cast_of (f : Z) : Z -> Z :=
  if is_scalar_feat f then trunc8 else (fun x => x).

Definition enc (r : res Z) : list Z :=
  match r with
  | RErr => [2]
  | ROne a => [0; a]
  | RMany l => 1 :: l
  end.

(* caches of the proxies that were handed out: (file, feature) -> cache *)
Definition caches := list (Z * option (list Z)).

Definition ckey (fid f : Z) : Z := fid * 16 + f.

Definition run_query (st : store) (cs : caches) (q : Z * Z * access)
  : caches * list Z :=
  let '(fid, f, ac) := q in
  match get_file st (Z.to_nat fid) with
  | None => (cs, [5])
  | Some _ =>
      match lookup (fuel_of st) st (Z.to_nat fid) f with
      | None => (cs, [3])
      | Some (ODirect d) =>
          (cs, enc (direct_access (cast_of f) list_max list_min d ac))
      | Some (OProxy d m) =>
          let c := match assoc (ckey fid f) cs with
                   | Some c => c
                   | None => None
                   end in
          let '(c', r) := proxy_access Z d m (is_scalar_feat f) (cast_of f)
                                       list_max list_min c ac in
          ((ckey fid f, c') :: cs, enc r)
      end
  end.

Fixpoint run_queries (st : store) (cs : caches) (qs : list (Z * Z * access))
  : list (list Z) :=
  match qs with
  | [] => []
  | q :: r => let '(cs', out) := run_query st cs q in
              out :: run_queries st cs' r
  end.

Definition run_flat (c : list step * list (Z * Z * access)) : list (list Z) :=
  run_queries (run_steps (fst c)) [] (snd c).

(* ------------------------------------------------------------------ *)
(* specification                                                       *)
(* ------------------------------------------------------------------ *)
(* what a basin with mapping m shows of the basin's data *)
Definition view_through (basin_data : list Z) (m : option (list Z))
  : option (list Z) :=
  match m with
  | None => Some basin_data
  | Some mm => gather basin_data mm
  end.

(* the basin map after a chain of filtered exports, computed the way
   Export.hdf5 does it at every level *)
Fixpoint chain_map (m : option (list Z)) (filts : list (list bool))
  : option (list Z) :=
  match filts with
  | [] => match m with Some mm => Some mm | None => None end
  | f :: r => match export_map f m with
              | Some m' => chain_map (Some m') r
              | None => None
              end
  end.

(* spec: the events that survive the successive filters *)
Fixpoint chain_data {A} (d : list A) (filts : list (list bool)) : list A :=
  match filts with
  | [] => d
  | f :: r => chain_data (mask f d) r
  end.

(* every filter has the length of the dataset it is applied to *)
Fixpoint chain_ok (n : Z) (filts : list (list bool)) : bool :=
  match filts with
  | [] => true
  | f :: r => (zlen f =? n) && chain_ok (count_true f) r
  end.

Definition in_range (n : Z) (m : list Z) : bool :=
  forallb (fun j => (0 <=? j) && (j <? n)) m.


(* the map requested by one store_basin call *)
Definition sb_map (sb : sbasin) : option (list Z) :=
  match sb with
  | SBInternal _ m => Some m
  | SBFile _ m _ _ => m
  end.

(* a basin definition refers to a basinmap feature holding exactly [m] *)
Definition slot_holds (slots : list (option (list Z))) (b : bdef)
           (m : option (list Z)) : Prop :=
  match m with
  | None => b_slot b = None
  | Some mm => exists k, b_slot b = Some k /\ slot slots k = Some mm
  end.

(* well-formed pipeline states: [truth f] is the measurement's feature f,
   [omap fid] the origin events that the events of file fid stand for *)
Section Sound.
  Variable truth : Z -> list Z.
  Variable omap : nat -> list Z.

  Definition file_sound (st : store) (fid : nat) (fl : file) : Prop :=
    (forall f d, assoc f (f_innate fl) = Some d ->
                 gather (truth f) (omap fid) = Some d) /\
    (forall b, In b (f_basins fl) -> b_internal b = false ->
       match b_slot b with
       | None => omap fid = omap (b_target b)
       | Some k => exists m, slot (f_slots fl) k = Some m /\
                             gather (omap (b_target b)) m = Some (omap fid)
       end) /\
    (forall b, In b (f_basins fl) -> b_internal b = true ->
       exists k m rows,
         b_slot b = Some k /\ slot (f_slots fl) k = Some m /\
         gather rows m = Some (omap fid) /\
         forall f d, assoc f (b_int b) = Some d ->
                     gather (truth f) rows = Some d).

  Definition store_sound (st : store) : Prop :=
    forall fid fl, get_file st fid = Some fl -> file_sound st fid fl.
End Sound.

(* ------------------------------------------------------------------ *)
(* large-index family: store_basin calls with maps given as a common   *)
(* base (i + off) plus a few (position, delta) differences             *)
(* ------------------------------------------------------------------ *)
Fixpoint add_diffs (i : Z) (l : list Z) (diffs : list (Z * Z)) : list Z :=
  match l with
  | [] => []
  | x :: r => (x + match assoc i diffs with Some d => d | None => 0 end)
              :: add_diffs (i + 1) r diffs
  end.

Definition checksum (m : list Z) : Z :=
  fold_left (fun acc x => (acc * 31 + x) mod 1000003) m 0.

Definition run_big (c : Z * Z * list (list (Z * Z) * option Z)) : list Z :=
  let '(L, off, ms) := c in
  let base := map (fun i => i + off) (iota L) in
  let sbs := map (fun dn : list (Z * Z) * option Z =>
                    SBFile 0 (Some (add_diffs 0 base (fst dn))) (snd dn) None)
                 ms in
  match store_basins {| f_n := L; f_innate := []; f_slots := empty_slots;
                        f_basins := [] |} sbs with
  | None => [-1]
  | Some fl =>
      (* per basin definition: length and checksum of the map it refers to *)
      flat_map (fun b => match b_slot b with
                         | Some k => match slot (f_slots fl) k with
                                     | Some m => [zlen m; checksum m]
                                     | None => [-2]
                                     end
                         | None => [-2]
                         end) (f_basins fl)
  end.

(* chain_map / chain_data / chain_ok on a chain of filtered exports that
   starts at an origin with n events *)
Definition run_chain (c : Z * list (list bool)) : list Z :=
  let '(n, filts) := c in
  match chain_map None filts with
  | None => [-1]
  | Some m => m ++ [-7] ++ chain_data (iota n) filts
              ++ [-7; if chain_ok n filts then 1 else 0]
  end.

(* ------------------------------------------------------------------ *)
(* RTDCBase.basins_retrieve, file-type basins: which location is used  *)
(* ------------------------------------------------------------------ *)
(* Paths are lists of components.  A file system maps an absolute path to
   the run identifier of the dataset stored there.  For every entry of
   "paths" the code first tries the entry as given, then the entry relative
   to the directory of the referrer, and stops at the first location that
   exists and passes verify_basin.  Relative entries as given are relative
   to the working directory, which is assumed not to contain the basin. *)
Inductive loc :=
| LAbs (p : list Z)
| LRel (p : list Z).

Definition fsys := list Z -> option Z.

Fixpoint find_basin (fs : fsys) (ok : Z -> bool) (parent : list Z)
         (locs : list loc) : option (Z * list Z) :=   (* (entry index, path) *)
  match locs with
  | [] => None
  | l :: r =>
      let next := match find_basin fs ok parent r with
                  | Some (i, p) => Some (i + 1, p)
                  | None => None
                  end in
      let p := match l with LAbs p => p | LRel p => parent ++ p end in
      match fs p with
      | Some id => if ok id then Some (0, p) else next
      | None => next
      end
  end.

(* the correspondence instance: referrer in directory [2] (possibly moved
   there from [1]), basin stored as [abs [1;3;9]; rel [3;9]]; what lives at
   the absolute and at the relative location: 0 nothing, 1 a dataset with
   another identifier, 2 the basin *)
Definition run_find (c : Z * Z) : list Z :=
  let '(sabs, srel) := c in
  let ident (s : Z) : option Z :=
      if s =? 2 then Some 7 else if s =? 1 then Some 8 else None in
  let fs (p : list Z) : option Z :=
      if list_eqb p [1; 3; 9] then ident sabs
      else if list_eqb p [2; 3; 9] then ident srel else None in
  match find_basin fs (fun id => id =? 7) [2]
                   [LAbs [1; 3; 9]; LRel [3; 9]] with
  | Some (i, _) => [i]
  | None => [-1]
  end.
