(* Model of dclab/rtdc_dataset/copier.py (h5ds_copy, rtdc_copy,
   basin_definition_copy, is_properly_compressed), of h5py's ChunkIterator as
   used by h5ds_copy, and of the task wrappers cli/task_compress.py,
   task_repack.py and task_condense.py (feature selection of
   condense_dataset).  Executable definitions only; proofs in Proofs/C08*.v.

   An HDF5 dataset is abstracted to its layout and content:
     shape, chunks (None = contiguous), dtype kind (0 numeric, 1 variable
     length string, 2 fixed length string, 3 compound), string width, the
     Zstandard filter level if filter 32015 is in the pipeline, the elements in
     row-major order (an element is the list of its numbers / bytes / fields)
     and the attributes (key, value).
   Names (features, logs, tables, basins, attribute keys) are integers; the
   harness numbers them in sorted order of the strings, so that h5py's
   alphabetical group iteration is increasing order of the integers.

   The model follows the code WITH the four repairs proposed in
   fixes_proposed/C08-*.diff (table attributes are copied; one pass over the
   basin definitions; empty datasets are copied verbatim instead of being
   dropped; a Zstandard filter without parameters is "not properly
   compressed" instead of an IndexError).

   Trusted, not modelled: the HDF5 filter pipeline and h5o.copy (a verbatim
   copy returns the same abstract dataset), dataset creation/IO of h5py,
   RTDCWriter.store_feature/store_log/write_text (C01), the values of the
   completed min/max/mean attributes (C20). *)
From Coq Require Import ZArith List Bool.
Import ListNotations.
Open Scope Z_scope.

(* ---------------------------------------------------------------------- *)
(* datasets                                                                 *)
(* ---------------------------------------------------------------------- *)
Definition elem := list Z.

Record dset := mkD {
  d_shape : list Z;
  d_chunks : option (list Z);
  d_kind : Z;
  d_width : Z;
  d_zstd : option (list Z);     (* cd_values of filter 32015, if present *)
  d_data : list elem;
  d_attrs : list (Z * Z) }.

(* is_properly_compressed (repaired: empty cd_values -> False) *)
Definition properly (d : dset) : bool :=
  match d_zstd d with
  | Some (l :: _) => 5 <=? l
  | _ => false
  end.

(* ---------------------------------------------------------------------- *)
(* h5py ChunkIterator over the whole dataspace                              *)
(* ---------------------------------------------------------------------- *)
Definition box := list (Z * Z).          (* per dimension [start, stop) *)

(* the intervals [k*c, min((k+1)*c, n)) of one dimension, in order *)
Fixpoint dim_ivs_aux (fuel : nat) (start n c : Z) : list (Z * Z) :=
  match fuel with
  | O => []
  | S k => if n <=? start then []
           else (start, Z.min (start + c) n) :: dim_ivs_aux k (start + c) n c
  end.

Definition dim_ivs (n c : Z) : list (Z * Z) := dim_ivs_aux (Z.to_nat n) 0 n c.

(* the chunks in iteration order (last dimension runs fastest); rank 0 gives
   no chunk at all (ChunkIterator stops immediately) *)
Fixpoint boxes_rec (shape chunks : list Z) : list box :=
  match shape, chunks with
  | n :: ns, c :: cs =>
      flat_map (fun iv => map (cons iv) (boxes_rec ns cs)) (dim_ivs n c)
  | _, _ => [[]]
  end.

Definition boxes (shape chunks : list Z) : list box :=
  match shape with [] => [] | _ => boxes_rec shape chunks end.

(* The odometer that h5py actually runs (ChunkIterator.__next__): state =
   chunk index per dimension.  Used for the correspondence and proved equal
   to [boxes] on a swept finite domain (Proofs). *)
Fixpoint odo_slices (idx shape chunks : list Z) : box :=
  match idx, shape, chunks with
  | i :: is_, n :: ns, c :: cs =>
      (i * c, Z.min ((i + 1) * c) n) :: odo_slices is_ ns cs
  | _, _, _ => []
  end.

(* bump the last index, carry while the dimension is exhausted; returns the
   new index vector.  Works on the reversed vectors (last dimension first);
   the first dimension (last of the reversed list) is never reset. *)
Fixpoint odo_bump_rev (ridx rshape rchunks : list Z) : list Z :=
  match ridx, rshape, rchunks with
  | i :: is_, n :: ns, c :: cs =>
      let i' := i + 1 in
      if i' * c <? n then i' :: is_
      else match is_ with
           | [] => [i']                       (* dim 0: no reset *)
           | _ => 0 :: odo_bump_rev is_ ns cs
           end
  | _, _, _ => ridx
  end.

Definition odo_bump (idx shape chunks : list Z) : list Z :=
  rev (odo_bump_rev (rev idx) (rev shape) (rev chunks)).

Fixpoint odo_run (fuel : nat) (idx shape chunks : list Z) : list box :=
  match fuel with
  | O => []
  | S k =>
      match idx, shape, chunks with
      | i0 :: _, n0 :: _, c0 :: _ =>
          if n0 <=? i0 * c0 then []
          else odo_slices idx shape chunks
               :: odo_run k (odo_bump idx shape chunks) shape chunks
      | _, _, _ => []
      end
  end.

Definition zprod (l : list Z) : Z := fold_right Z.mul 1 l.

Definition odometer (shape chunks : list Z) : list box :=
  odo_run (S (Z.to_nat (zprod shape))) (map (fun _ => 0) shape) shape chunks.

(* ---------------------------------------------------------------------- *)
(* n-dimensional indexing of the row-major element list                     *)
(* ---------------------------------------------------------------------- *)
Fixpoint zrange_aux (k : nat) (a : Z) : list Z :=
  match k with O => [] | S k' => a :: zrange_aux k' (a + 1) end.
Definition zrange (a b : Z) : list Z := zrange_aux (Z.to_nat (b - a)) a.

Fixpoint flat_of (shape idx : list Z) : Z :=
  match shape, idx with
  | _ :: ns, i :: is_ => i * zprod ns + flat_of ns is_
  | _, _ => 0
  end.

(* all index vectors of a box, row-major *)
Fixpoint box_idx (b : box) : list (list Z) :=
  match b with
  | [] => [[]]
  | (lo, hi) :: b' =>
      flat_map (fun i => map (cons i) (box_idx b')) (zrange lo hi)
  end.

Definition full_box (shape : list Z) : box := map (fun n => (0, n)) shape.
Definition all_idx (shape : list Z) : list (list Z) := box_idx (full_box shape).

Definition src_at (shape : list Z) (data : list elem) (idx : list Z) : elem :=
  nth (Z.to_nat (flat_of shape idx)) data [].

Fixpoint idx_eqb (a b : list Z) : bool :=
  match a, b with
  | [], [] => true
  | x :: a', y :: b' => (x =? y) && idx_eqb a' b'
  | _, _ => false
  end.

(* the destination as a log of element writes, latest first *)
Definition wlog := list (list Z * elem).

Fixpoint read (w : wlog) (idx : list Z) : elem :=
  match w with
  | [] => []                                   (* fill value *)
  | (i, v) :: w' => if idx_eqb idx i then v else read w' idx
  end.

(* dst[chunk] = src[chunk] *)
Definition write_box (shape : list Z) (data : list elem) (w : wlog) (b : box)
  : wlog :=
  rev (map (fun idx => (idx, src_at shape data idx)) (box_idx b)) ++ w.

(* for chunk in src.iter_chunks(): dst[chunk] = src[chunk] *)
Definition chunk_writes (shape chunks : list Z) (data : list elem) : wlog :=
  fold_left (write_box shape data) (boxes shape chunks) [].

Definition chunk_copy (shape chunks : list Z) (data : list elem) : list elem :=
  map (read (chunk_writes shape chunks data)) (all_idx shape).

(* ---------------------------------------------------------------------- *)
(* h5ds_copy on one dataset                                                 *)
(* ---------------------------------------------------------------------- *)
Definition longest (data : list elem) : Z :=
  fold_right (fun s m => Z.max (Z.of_nat (length s)) m) 0 data.

(* numpy astype("S<w>"): truncation to w bytes (padding is invisible) *)
Definition to_fixed (w : Z) (s : elem) : elem := firstn (Z.to_nat w) s.

(* chunks=None together with a compression filter: h5py guesses a chunk
   shape itself (not modelled: AUTO) *)
Definition AUTO_CHUNKS : option (list Z) := Some [-1].

Definition rechunk (n0 : Z) (chunks : option (list Z)) : option (list Z) :=
  match chunks with
  | Some (c0 :: cs) => if n0 <? c0 then Some (n0 :: cs) else Some (c0 :: cs)
  | Some [] => Some []
  | None => AUTO_CHUNKS
  end.

Definition h5ds_copy (ensure : bool) (src : dset) : dset :=
  let n0 := hd 0 (d_shape src) in
  if ensure && negb (properly src) && negb (n0 =? 0) then
    let chunks := rechunk n0 (d_chunks src) in
    let conv := d_kind src =? 1 in
    let width := if conv then Z.max (longest (d_data src)) 100
                 else d_width src in
    let data :=
      if conv then map (to_fixed width) (d_data src)
      else match d_chunks src with
           | None => d_data src
           | Some ch => chunk_copy (d_shape src) ch (d_data src)
           end in
    mkD (d_shape src) chunks (if conv then 2 else d_kind src) width
        (Some [5]) data (d_attrs src)
  else src.                                   (* h5py.h5o.copy *)

(* ---------------------------------------------------------------------- *)
(* files                                                                    *)
(* ---------------------------------------------------------------------- *)
Inductive node :=
| NDs (d : dset)
| NGrp (children : list (Z * dset)).         (* e.g. "trace" *)

(* one basin definition: the text dataset and the parsed JSON dictionary *)
Record bdef := mkB {
  b_ds : dset;
  b_internal : bool;
  b_feats : list Z;            (* "features" of the dictionary *)
  b_rest : Z }.                (* everything else in the dictionary *)

Record h5file := mkF {
  f_attrs : list (Z * Z);
  f_events : list (Z * node);
  f_bevents : list (Z * dset);
  f_logs : list (Z * dset);
  f_tables : list (Z * dset);
  f_basins : list (Z * bdef);
  (* the attribute "setup:software version", a chain "a | b | c", as the
     list of its (stripped, non-empty) segments; it is NOT part of f_attrs *)
  f_soft : list Z }.

Definition empty_file : h5file := mkF [] [] [] [] [] [] [].

(* RTDCWriter.version_brand: every task that opens its output with the
   writer (compress, condense, tdms2rtdc) appends "dclab <version>" unless
   that is the last segment already *)
Definition SEG_CUR := 1.
Definition bump_version (segs : list Z) : list Z :=
  match segs with
  | [] => [SEG_CUR]
  | _ => if last segs 0 =? SEG_CUR then segs else segs ++ [SEG_CUR]
  end.

Inductive fsel := FAll | FScalar | FNone | FList (l : list Z).

Definition memZ (x : Z) (l : list Z) : bool := existsb (Z.eqb x) l.

Fixpoint assoc {A} (k : Z) (l : list (Z * A)) : option A :=
  match l with
  | [] => None
  | (k', v) :: l' => if k =? k' then Some v else assoc k l'
  end.

Fixpoint nodupZ (l : list Z) : list Z :=
  match l with
  | [] => []
  | x :: l' => if memZ x l' then nodupZ l' else x :: nodupZ l'
  end.

Fixpoint insertZ (x : Z) (l : list Z) : list Z :=
  match l with
  | [] => [x]
  | y :: l' => if x <=? y then x :: l else y :: insertZ x l'
  end.
Definition sortZ (l : list Z) : list Z := fold_right insertZ [] l.

Fixpoint remove_firstZ (x : Z) (l : list Z) : list Z :=
  match l with
  | [] => []
  | y :: l' => if x =? y then l' else y :: remove_firstZ x l'
  end.

(* attribute keys of the completed statistics *)
Definition A_MIN := 1.
Definition A_MAX := 2.
Definition A_MEAN := 3.
Definition OPAQUE := -1.     (* value computed by numpy, see C20 *)

Definition complete_attr (k : Z) (d : dset) : dset :=
  match assoc k (d_attrs d) with
  | Some _ => d
  | None => mkD (d_shape d) (d_chunks d) (d_kind d) (d_width d) (d_zstd d)
                (d_data d) (d_attrs d ++ [(k, OPAQUE)])
  end.

Definition complete_stats (d : dset) : dset :=
  complete_attr A_MEAN (complete_attr A_MAX (complete_attr A_MIN d)).

(* the compound table written with create_dataset(data=..., zstd 5) plus
   (repair) its attributes; h5py chooses the chunk shape itself *)
Definition table_copy (src : dset) : dset :=
  mkD (d_shape src) AUTO_CHUNKS (d_kind src) (d_width src) (Some [5])
      (d_data src) (d_attrs src).

Section Env.
  (* dclab.definitions.feature_exists / scalar_feature_exists, the regular
     expression ^basinmap[0-9]*$, and DEFECTIVE_FEATURES[feat](src) evaluated
     on the source file *)
  Variable fexists fscalar fbmap : Z -> bool.
  Variable defective : Z -> bool.
  (* md5 name of a rewritten internal basin *)
  Variable rekey : Z -> list Z -> Z.

  Definition copy_node (n : node) : node :=
    match n with
    | NDs d => NDs (h5ds_copy true d)
    | NGrp ch => NGrp (map (fun kd => (fst kd, h5ds_copy true (snd kd))) ch)
    end.

  Definition events_src (inc_basins : bool) (f : h5file) : list Z :=
    let ev := map fst (f_events f) in
    match inc_basins, f_bevents f with
    | true, _ :: _ => sortZ (nodupZ (ev ++ map fst (f_bevents f)))
    | _, _ => ev
    end.

  Definition feature_iter0 (sel : fsel) (src : list Z) : list Z :=
    match sel with
    | FList l => l
    | FAll => src
    | FScalar => filter fscalar src
    | FNone => []
    end.

  Definition feature_iter (sel : fsel) (inc_basins : bool) (f : h5file)
    : list Z :=
    let src := events_src inc_basins f in
    let bm := filter fbmap src in
    if inc_basins then
      fold_left (fun it b => if memZ b it then it else it ++ [b]) bm
                (feature_iter0 sel src)
    else
      fold_left (fun it b => if memZ b it then remove_firstZ b it else it) bm
                (feature_iter0 sel src).

  (* basin_definition_copy (repaired: one pass over the definitions) *)
  Definition basin_step (fit : list Z) (dst : list (Z * bdef))
             (kb : Z * bdef) : list (Z * bdef) :=
    let '(key, bn) := kb in
    match assoc key dst with
    | Some _ => dst
    | None =>
        if b_internal bn then
          let used := filter (fun x => memZ x fit) (b_feats bn) in
          match used with
          | [] => dst
          | _ =>
              if idx_eqb used (b_feats bn) then
                dst ++ [(key, mkB (h5ds_copy true (b_ds bn)) true
                                    (b_feats bn) (b_rest bn))]
              else
                let nk := rekey key used in
                match assoc nk dst with
                | Some _ => dst
                | None =>
                    (* RTDCWriter.write_text: fixed-length, compressed *)
                    dst ++ [(nk, mkB (mkD [] None 2 0 (Some [5]) [] []) true
                                      used (b_rest bn))]
                end
          end
        else
          dst ++ [(key, mkB (h5ds_copy true (b_ds bn)) false (b_feats bn)
                             (b_rest bn))]
    end.

  Definition basin_definition_copy (fit : list Z) (f : h5file)
    : list (Z * bdef) :=
    fold_left (basin_step fit) (f_basins f) [].

  (* a rewritten definition is written through RTDCWriter(dst_h5file), which
     brands the software version of the destination *)
  Definition basin_rewrites (fit : list Z) (f : h5file) : bool :=
    existsb (fun kb =>
               let used := filter (fun x => memZ x fit) (b_feats (snd kb)) in
               b_internal (snd kb) && negb (idx_eqb used [])
               && negb (idx_eqb used (b_feats (snd kb))))
            (f_basins f).

  (* the loop over feature_iter; state = (events, basin_events) of dst *)
  Definition feat_step (inc_basins : bool) (f : h5file)
             (st : list (Z * node) * list (Z * dset)) (feat : Z)
    : list (Z * node) * list (Z * dset) :=
    let '(ev, bev) := st in
    if negb (fexists feat) then st
    else
      (* (repair) internal basin data are copied whether or not a feature of
         the same name is stored in "events" *)
      let bev' := match inc_basins, assoc feat (f_bevents f) with
                  | true, Some d => bev ++ [(feat, h5ds_copy true d)]
                  | _, _ => bev
                  end in
      match assoc feat (f_events f) with
      | Some n =>
          if defective feat then (ev, bev')
          else
            let n' := copy_node n in
            (* (repair) no statistics for empty features: dst.size *)
            let n'' := match n' with
                       | NDs d => if fscalar feat
                                     && negb (zprod (d_shape d) =? 0)
                                  then NDs (complete_stats d) else n'
                       | g => g
                       end in
            (ev ++ [(feat, n'')], bev')
      | None => (ev, bev')
      end.

  Definition rtdc_copy (sel : fsel) (inc_basins inc_logs inc_tables : bool)
             (f : h5file) : h5file :=
    let fit := feature_iter sel inc_basins f in
    let logs := if inc_logs
                then map (fun kd => (fst kd, h5ds_copy true (snd kd)))
                         (f_logs f)
                else [] in
    let tables := if inc_tables
                  then map (fun kd => (fst kd, table_copy (snd kd)))
                           (f_tables f)
                  else [] in
    let basins := if inc_basins then basin_definition_copy fit f else [] in
    let '(ev, bev) := fold_left (feat_step inc_basins f) fit ([], []) in
    mkF (f_attrs f) ev bev logs tables basins
        (if inc_basins && basin_rewrites fit f then bump_version (f_soft f)
         else f_soft f).

  (* ---- task wrappers --------------------------------------------------- *)
  (* log names: the harness reserves these numbers *)
  Definition L_CMD := 900.       (* dclab-compress / dclab-condense *)
  Definition L_WARN := 901.      (* ...-warnings *)
  (* the names dclab-compress_<md5 of the input> of renamed command logs
     differ from run to run: they are arguments [kold], [kwold] *)

  Definition rename_log (old new : Z) (keep_existing : bool)
             (logs : list (Z * dset)) : list (Z * dset) :=
    match assoc old logs with
    | None => logs
    | Some d =>
        let rest := filter (fun kd => negb (fst kd =? old)) logs in
        match keep_existing, assoc new logs with
        | true, Some _ => rest
        | _, _ => rest ++ [(new, d)]
        end
    end.

  Definition cmd_log : dset := mkD [] None 2 100 (Some [5]) [] [].

  Definition with_logs (f : h5file) (logs : list (Z * dset)) : h5file :=
    mkF (f_attrs f) (f_events f) (f_bevents f) logs (f_tables f) (f_basins f)
        (f_soft f).

  Definition with_soft (f : h5file) (soft : list Z) : h5file :=
    mkF (f_attrs f) (f_events f) (f_bevents f) (f_logs f) (f_tables f)
        (f_basins f) soft.

  Definition compress (warned : bool) (kold kwold : Z) (f : h5file) : h5file :=
    let g := rtdc_copy FAll true true true f in
    let l1 := rename_log L_CMD kold false (f_logs g) in
    let l2 := rename_log L_WARN kwold false l1 in
    let l3 := l2 ++ [(L_CMD, cmd_log)] in
    with_soft (with_logs g (if warned then l3 ++ [(L_WARN, cmd_log)] else l3))
              (bump_version (f_soft g)).

  Definition repack (strip_basins strip_logs : bool) (f : h5file) : h5file :=
    rtdc_copy FAll (negb strip_basins) (negb strip_logs) true f.

  (* condense_dataset for an HDF5 input.  [loaded], [basin], [anc] are
     ds.features_loaded / features_basin / features_ancillary and [dsval]
     is ds[feat] as seen through dclab (oracles); [fsc] = ds.features_scalar
     membership. *)
  Variable fsc : Z -> bool.
  Variable dsval : Z -> list elem.

  Definition stored_feature (feat : Z) : node :=
    NDs (mkD [Z.of_nat (length (dsval feat))] AUTO_CHUNKS 0 0 (Some [5])
             (dsval feat) [(A_MIN, OPAQUE); (A_MAX, OPAQUE); (A_MEAN, OPAQUE)]).

  Definition condense_features (store_anc store_basin : bool)
             (loaded basin anc : list Z) (g : h5file) : list Z :=
    let sc_loaded := filter fsc loaded in
    let basint := map fst (f_bevents g) in
    let excl := sc_loaded ++ basint in
    let fb := if store_basin
              then filter (fun x => fsc x && negb (memZ x excl)) basin
              else [] in
    let fa := if store_anc
              then filter (fun x => fsc x && negb (memZ x excl)) anc
              else [] in
    nodupZ (sc_loaded ++ fb ++ fa).

  (* [is_hdf5] = isinstance(ds, RTDC_HDF5): a .tdms input is not copied,
     every selected feature goes through the writer; nothing else of the
     source is carried over *)
  Definition condense_base (is_hdf5 : bool) (f : h5file) : h5file :=
    if is_hdf5 then rtdc_copy FScalar true true true f else empty_file.

  Definition condense (store_anc store_basin warned is_hdf5 : bool)
             (kold kwold : Z)
             (loaded basin anc : list Z) (f : h5file) : h5file :=
    let g := condense_base is_hdf5 f in
    let feats := condense_features store_anc store_basin loaded basin anc g in
    let l1 := rename_log L_CMD kold true (f_logs g) in
    let l2 := rename_log L_WARN kwold true l1 in
    let ev := fold_left
                (fun ev x => match assoc x ev with
                             | Some _ => ev
                             | None => ev ++ [(x, stored_feature x)]
                             end) feats (f_events g) in
    let l3 := l2 ++ [(L_CMD, cmd_log)] in
    mkF (f_attrs g) ev (f_bevents g)
        (if warned then l3 ++ [(L_WARN, cmd_log)] else l3)
        (f_tables g) (f_basins g) (bump_version (f_soft g)).
End Env.

(* ---------------------------------------------------------------------- *)
(* two places where a task does NOT preserve content (known findings)       *)
(* ---------------------------------------------------------------------- *)
(* RTDCWriter stores fl1_max/fl2_max/fl3_max (and a few more) as uint32; the
   HDF5 conversion clamps to the range of the destination type.  tdms2rtdc
   goes through it with the signed peak maxima of the .tdms file. *)
Definition h5_to_uint32 (v : Z) : Z := Z.max 0 (Z.min v 4294967295).

(* condense_dataset: hw.store_feature(feat, ds[feat]) raises "Empty data
   object" for an empty array: the features of [feats] that rtdc_copy has not
   copied and that have no events make the task fail *)
Definition condense_crashes (dsval : Z -> list elem) (feats : list Z)
           (ev : list (Z * node)) : bool :=
  existsb (fun x => match assoc x ev with
                    | Some _ => false
                    | None => (length (dsval x) =? 0)%nat
                    end) feats.

(* ---------------------------------------------------------------------- *)
(* fmt_hdf5/feat_defect.py: DEFECTIVE_FEATURES[feat](h5)                    *)
(* ---------------------------------------------------------------------- *)
(* The facts the five predicates read from the file; the software version
   string "a | b | c" is abstracted to what they look at (first and last
   segment only; segments in between play no role). *)
(* a PEP 440 version as far as the comparisons with the release thresholds
   need it: (major, minor, micro, phase) with phase < 0 for dev/alpha/beta/rc
   pre-releases, 0 for the release, > 0 for post-releases and for further
   release components *)
Definition ver := (Z * Z * Z * Z)%type.
Definition ver_ltb (a b : ver) : bool :=
  let '(a1, a2, a3, a4) := a in
  let '(b1, b2, b3, b4) := b in
  (a1 <? b1) || ((a1 =? b1) && ((a2 <? b2) || ((a2 =? b2) &&
     ((a3 <? b3) || ((a3 =? b3) && (a4 <? b4)))))).

Record dfacts := mkFacts {
  df_exact_aspect : bool;      (* the string is "ShapeIn 2.0.6" or "ShapeIn 2.0.7" *)
  df_has_shapein : bool;       (* "ShapeIn" occurs in the string *)
  df_last_dclab : option ver;  (* last entry starts with "dclab": its version *)
  df_first_shapein : option ver; (* first entry starts with "ShapeIn": its version *)
  df_log_acq : bool;           (* a log "shapein-acquisition" exists *)
  df_first_bare : option ver;  (* the first entry parsed as a version *)
  df_log_141 : bool;           (* a log "dclab_issue_141" exists *)
  df_has_frame : bool;         (* "frame" in events *)
  df_rate : bool;              (* imaging:frame rate is set and not 0 *)
  df_time_f32 : bool;          (* events/time is float32 *)
  df_roi_wide : bool }.        (* imaging:roi size x > 500 *)

Definition dclab_older (x : dfacts) (v : ver) : bool :=
  match df_last_dclab x with Some w => ver_ltb w v | None => false end.

(* feature codes *)
Definition D_ASPECT := 1.
Definition D_CVX := 2.
Definition D_PRNC := 3.
Definition D_RAW := 4.
Definition D_TILT := 5.
Definition D_TIME := 6.
Definition D_VOLUME := 7.

Definition defect_inert (x : dfacts) : bool :=
  df_roi_wide x && dclab_older x (0, 48, 3, 0).

Definition defect_inert_raw_cvx (x : dfacts) : bool :=
  defect_inert x &&
  match df_first_shapein x with
  | Some si => ver_ltb si (2, 0, 5, 0)  (* Shape-In >= 2.0.5 is trusted *)
  | None =>
      if df_log_acq x then
        (* newer Shape-In: the first entry is the bare version (an entry
           that is no version makes parse_version raise: not modelled) *)
        match df_first_bare x with
        | Some si => ver_ltb si (2, 0, 5, 0)
        | None => true
        end
      else true                         (* other recording software *)
  end.

Definition defect_time (x : dfacts) : bool :=
  df_has_frame x && df_rate x &&
  (df_time_f32 x || (df_has_shapein x && dclab_older x (0, 47, 6, 0))).

Definition defect_volume (x : dfacts) : bool :=
  negb (df_log_141 x) && dclab_older x (0, 37, 0, 0).

Definition defective_code (x : dfacts) (c : Z) : bool :=
  if c =? D_ASPECT then df_exact_aspect x
  else if (c =? D_CVX) || (c =? D_RAW) then defect_inert_raw_cvx x
  else if (c =? D_PRNC) || (c =? D_TILT) then defect_inert x
  else if c =? D_TIME then defect_time x
  else if c =? D_VOLUME then defect_volume x
  else false.

(* ---------------------------------------------------------------------- *)
(* tdms2rtdc: which events are exported                                     *)
(* ---------------------------------------------------------------------- *)
(* cli/common.py skip_empty_image_events sets filter.manual[0] = False when
   the first image (or contour) is empty and filter.manual[n-1] = False when
   the last image is empty; ds.export.hdf5(filtered=True) then writes the
   remaining events of every innate feature, in order. *)
Definition tdms_manual (n : Z) (skip_i skip_f first_empty last_empty : bool)
           (i : Z) : bool :=
  negb ((i =? 0) && skip_i && first_empty)
  && negb ((i =? n - 1) && skip_f && last_empty).

Definition tdms_kept (n : Z) (skip_i skip_f first_empty last_empty : bool)
  : list Z :=
  filter (tdms_manual n skip_i skip_f first_empty last_empty) (zrange 0 n).

Definition tdms_export (kept : list Z) (vals : list elem) : list elem :=
  map (fun i => nth (Z.to_nat i) vals []) kept.

(* ---------------------------------------------------------------------- *)
(* specification: the content of a file, layout forgotten                   *)
(* ---------------------------------------------------------------------- *)
(* what a reader sees of one dataset: shape, elements, attributes *)
Definition content (d : dset) : list Z * list elem * list (Z * Z) :=
  (d_shape d, d_data d, d_attrs d).

Definition node_content (n : node) :=
  match n with
  | NDs d => [(0, content d)]
  | NGrp ch => map (fun kd => (fst kd, content (snd kd))) ch
  end.

(* ---------------------------------------------------------------------- *)
(* interface used by the correspondence check (harness/c08.py)              *)
(* ---------------------------------------------------------------------- *)
Definition enc_opt_list (o : option (list Z)) : list Z :=
  match o with
  | None => [-1]
  | Some l => Z.of_nat (length l) :: l
  end.

Definition enc_dset (d : dset) : list Z :=
  (Z.of_nat (length (d_shape d)) :: d_shape d)
  ++ enc_opt_list (d_chunks d)
  ++ [d_kind d; d_width d]
  ++ enc_opt_list (d_zstd d)
  ++ (Z.of_nat (length (d_attrs d))
      :: flat_map (fun kv => [fst kv; snd kv]) (d_attrs d))
  ++ (Z.of_nat (length (d_data d))
      :: flat_map (fun e => Z.of_nat (length e) :: e) (d_data d)).

Definition enc_node (sec name : Z) (n : node) : list (list Z) :=
  match n with
  | NDs d => [[sec; name; -1] ++ enc_dset d]
  | NGrp ch => [sec; name; -2]
               :: map (fun kd => [sec; name; fst kd] ++ enc_dset (snd kd)) ch
  end.

Definition enc_bdef (key : Z) (b : bdef) : list Z :=
  [5; key; (if b_internal b then 1 else 0); b_rest b;
   Z.of_nat (length (b_feats b))] ++ b_feats b ++ enc_dset (b_ds b).

Definition enc_file (f : h5file) : list (list Z) :=
  [0 :: flat_map (fun kv => [fst kv; snd kv]) (f_attrs f)]
  ++ flat_map (fun kn => enc_node 1 (fst kn) (snd kn)) (f_events f)
  ++ map (fun kd => [2; fst kd; -1] ++ enc_dset (snd kd)) (f_bevents f)
  ++ map (fun kd => [3; fst kd; -1] ++ enc_dset (snd kd)) (f_logs f)
  ++ map (fun kd => [4; fst kd; -1] ++ enc_dset (snd kd)) (f_tables f)
  ++ map (fun kb => enc_bdef (fst kb) (snd kb)) (f_basins f)
  ++ [6 :: f_soft f].

(* feature classes of a case: (id, bits) with bits = 1 exists + 2 scalar
   + 4 basinmap + 16 in ds.features_scalar (8: unused, the defect markers are
   computed by [defective_code] from the facts of the case) *)
Definition cls_bit (tbl : list (Z * Z)) (bit : Z) (x : Z) : bool :=
  match assoc x tbl with
  | Some b => Z.odd (b / bit)
  | None => false
  end.

Definition case_rekey (old : Z) (used : list Z) : Z := - (1000 + old).

(* task: 0 repack(strip_basins, strip_logs) 1 compress(warned)
         2 condense(store_anc, store_basin, warned)
         3 rtdc_copy(sel, inc_basins, inc_logs, inc_tables)
   sel: 0 all, 1 scalar, 2 none, 3 list *)
Record ccase := mkCase {
  c_facts : dfacts;
  c_defmap : list (Z * Z);     (* feature number -> defect code *)
  c_tbl : list (Z * Z);
  c_task : Z;
  c_flags : list bool;
  c_sel : Z;
  c_list : list Z;
  c_loaded : list Z;
  c_basin : list Z;
  c_anc : list Z;
  c_dsval : list (Z * list elem);
  c_file : h5file }.

Definition nthb (l : list bool) (k : nat) : bool := nth k l false.

Definition run_case (c : ccase) : list (list Z) :=
  let t := c_tbl c in
  let fe := cls_bit t 1 in
  let fs := cls_bit t 2 in
  let fb := cls_bit t 4 in
  (* defective in the source: a stored feature that carries a marker *)
  let fd := fun x => match assoc x (c_defmap c), assoc x (f_events (c_file c)) with
                     | Some code, Some _ => defective_code (c_facts c) code
                     | _, _ => false
                     end in
  let fsc := cls_bit t 16 in
  let dv := fun x => match assoc x (c_dsval c) with Some v => v | None => [] end in
  let fl := c_flags c in
  let out :=
    if c_task c =? 0 then
      repack fe fs fb fd case_rekey (nthb fl 0) (nthb fl 1) (c_file c)
    else if c_task c =? 1 then
      compress fe fs fb fd case_rekey (nthb fl 0) 902 903 (c_file c)
    else if c_task c =? 2 then
      condense fe fs fb fd case_rekey fsc dv (nthb fl 0) (nthb fl 1)
               (nthb fl 2) (nthb fl 3) 902 903 (c_loaded c) (c_basin c)
               (c_anc c) (c_file c)
    else
      rtdc_copy fe fs fb fd case_rekey
                (if c_sel c =? 0 then FAll else if c_sel c =? 1 then FScalar
                 else if c_sel c =? 2 then FNone else FList (c_list c))
                (nthb fl 0) (nthb fl 1) (nthb fl 2) (c_file c) in
  enc_file out
  ++ (if c_task c =? 2 then
        let g := condense_base fe fs fb fd case_rekey (nthb fl 3) (c_file c) in
        [[9; if condense_crashes dv
                  (condense_features fsc (nthb fl 0) (nthb fl 1) (c_loaded c)
                                     (c_basin c) (c_anc c) g) (f_events g)
             then 1 else 0]]
      else []).

(* iter_chunks of a (shape, chunks) pair: flat list of slices, by [boxes]
   and by the odometer *)
Definition enc_boxes (bs : list box) : list (list Z) :=
  map (flat_map (fun iv => [fst iv; snd iv])) bs.
Definition run_uint32 (vs : list Z) : list Z := map h5_to_uint32 vs.
Definition run_tdms (c : Z * list bool) : list Z :=
  tdms_kept (fst c) (nthb (snd c) 0) (nthb (snd c) 1) (nthb (snd c) 2)
            (nthb (snd c) 3).
(* h5ds_copy on one dataset: the unit tie of chunk_copy / to_fixed *)
Definition run_h5ds (d : dset) : list Z := enc_dset (h5ds_copy true d).
Definition run_chunks (sc : list Z * list Z) : list (list (list Z)) :=
  [enc_boxes (boxes (fst sc) (snd sc)); enc_boxes (odometer (fst sc) (snd sc))].
