(* Model of dclab/cli/task_split.py:split and dclab/cli/task_join.py:join
   (with the parts of cli/common.py:skip_empty_image_events,
   rtdc_dataset/export.py:hdf5 and rtdc_dataset/writer.py:store_feature they
   rely on).  Executable definitions only; proofs are in Proofs/C09*.v.

   Conventions
   - an event column is a [list Z]; times are in eighths of a second, frame
     rates in eighths of a Hz (the generators only emit such values, float64
     arithmetic on them is exact), every other feature value is an opaque
     integer (the harness uses the bit pattern of the float64 / a checksum of
     the image) because split and join only copy it;
   - a feature is an integer id [10 * rank + kind]: rank = alphabetical rank of
     the feature name (so that comparing ids is comparing names, as
     [sorted(features_innate)] does), kind = 1 time, 2 frame, 3 index_online,
     4 index, 0 anything else;
   - strings (date, time) are lists of code points.

   [join_gen] is parametrised by the comparison used for ordering the inputs
   and by the pruning loop; [join_fixed] instantiates it with the code of
   /repo (numeric key, iteration over a copy; commits bb0c30e, 72ba70a). *)
From Coq Require Import ZArith List Bool.
From Verif Require Import Common.ListIdx Common.PyList.
Import ListNotations.
Open Scope Z_scope.

(* ======================================================================= *)
(* split                                                                     *)
(* ======================================================================= *)
Section Split.
  Context {A : Type}.

  (* export of the events whose (boolean) filter entry is True; j is the
     index of the head of l *)
  Fixpoint select_from (j : Z) (p : Z -> bool) (l : list A) : list A :=
    match l with
    | [] => []
    | x :: r => if p j then x :: select_from (j + 1) p r
                else select_from (j + 1) p r
    end.

  (* num_files = len(ds) // split_events; if len(ds) % split_events: += 1 *)
  Definition num_files (n k : Z) : Z :=
    n / k + (if n mod k =? 0 then 0 else 1).

  (* the manual filter of part ii:
       manual[:] = False; manual[ii*k:(ii+1)*k] = True;
       skip_empty_image_events: manual[0] = False / manual[n-1] = False *)
  Definition part_pred (n k : Z) (s0 s1 : bool) (ii j : Z) : bool :=
    (ii * k <=? j) && (j <? (ii + 1) * k)
    && negb (s0 && (j =? 0)) && negb (s1 && (j =? n - 1)).

  Definition split_parts (l : list A) (k : Z) (s0 s1 : bool) : list (list A) :=
    let n := Z.of_nat (length l) in
    map (fun ii => select_from 0 (part_pred n k s0 s1 (Z.of_nat ii)) l)
        (seq 0 (Z.to_nat (num_files n k))).

  Definition is_nil (l : list A) : bool :=
    match l with [] => true | _ => false end.

  (* skip_empty_image_events: what makes the first / the last event "empty"
     (the two tests differ: the initial one also looks at the contour) *)
  Variable empty_first : A -> bool.
  Variable empty_last : A -> bool.

  Definition first_empty (l : list A) : bool :=
    match l with [] => false | x :: _ => empty_first x end.
  Definition last_empty (l : list A) : bool :=
    match rev l with [] => false | x :: _ => empty_last x end.

  (* split(): one file per window; a window whose events are all skipped
     yields a file without events (since /repo 810f03d the export of an empty
     selection no longer raises) *)
  Definition split (l : list A) (k : Z) (initial final : bool)
    : list (list A) :=
    split_parts l k (initial && first_empty l) (final && last_empty l).
  Definition has_empty_part (parts : list (list A)) : bool :=
    existsb is_nil parts.
End Split.

Definition b2z (b : bool) : Z := if b then 1 else 0.

(* an event as skip_empty_image_events sees it: its position, the pixels of
   its image (None: the dataset has no "image"), the coordinates of its
   contour (None: "contour" not in ds; a dataset with a mask always has one,
   it is computed) *)
Record sev := mk_sev {
  se_pos : Z;
  se_img : option (list Z);
  se_cnt : option (list Z)
}.

(* np.all(a == 0): also True for an array without elements *)
Definition all_zero (l : list Z) : bool := forallb (Z.eqb 0) l.

(* initial: ("contour" in ds and np.all(ds["contour"][0] == 0))
            or ("image" in ds and np.all(ds["image"][0] == 0))
   (the tdms "video frame offset" disjunct is not modelled) *)
Definition sev_first_empty (e : sev) : bool :=
  (match se_cnt e with Some c => all_zero c | None => false end)
  || (match se_img e with Some p => all_zero p | None => false end).
(* final: "image" in ds and np.all(ds["image"][len(ds) - 1] == 0) *)
Definition sev_last_empty (e : sev) : bool :=
  match se_img e with Some p => all_zero p | None => false end.

Definition split_events := @split sev sev_first_empty sev_last_empty.

(* ======================================================================= *)
(* join                                                                      *)
(* ======================================================================= *)
Record meas := mk_meas_full {
  m_date : list Z;            (* experiment:date  "YYYY-MM-DD" *)
  m_time : list Z;            (* experiment:time  "HH:MM:SS" or "HH:MM:SS.fff" *)
  m_run : Z;                  (* experiment:run index *)
  m_rate : Z;                 (* imaging:frame rate, eighths of a Hz *)
  m_innate : list Z;          (* ds.features_innate *)
  m_avail : list Z;           (* ds.features (innate and computable) *)
  m_cols : list (Z * list Z); (* ds[feat] for every available feature *)
  m_logs : list Z;            (* names of the logs *)
  m_sample : Z                (* experiment:sample (an id for the name) *)
}.

Definition mk_meas d tm run rate inn av cols logs : meas :=
  mk_meas_full d tm run rate inn av cols logs 0.

Definition kind (f : Z) : Z := f mod 10.

Fixpoint lookup_col (f : Z) (cols : list (Z * list Z)) : option (list Z) :=
  match cols with
  | [] => None
  | (g, c) :: r => if f =? g then Some c else lookup_col f r
  end.

(* ---- acquisition time ------------------------------------------------- *)
Definition dig (c : Z) : Z := c - 48.
Definition num2 (a b : Z) : Z := 10 * dig a + dig b.

(* days since 1970-01-01 of a proleptic Gregorian date (time.mktime in UTC) *)
Definition days_from_civil (y m d : Z) : Z :=
  let y' := if m <=? 2 then y - 1 else y in
  let era := y' / 400 in
  let yoe := y' - era * 400 in
  let mp := (m + 9) mod 12 in
  let doy := (153 * mp + 2) / 5 + d - 1 in
  let doe := yoe * 365 + yoe / 4 - yoe / 100 + doy in
  era * 146097 + doe - 719468.

Definition parse_date (s : list Z) : Z :=
  match s with
  | [y1; y2; y3; y4; _; m1; m2; _; d1; d2] =>
      days_from_civil (1000 * dig y1 + 100 * dig y2 + 10 * dig y3 + dig y4)
                      (num2 m1 m2) (num2 d1 d2)
  | _ => 0
  end.

Definition parse_hms (s : list Z) : Z :=
  match firstn 8 s with
  | [h1; h2; _; m1; m2; _; s1; s2] =>
      3600 * num2 h1 h2 + 60 * num2 m1 m2 + num2 s1 s2
  | _ => 0
  end.

Fixpoint digits_val (l : list Z) (acc : Z) : Z :=
  match l with
  | [] => acc
  | c :: r => digits_val r (10 * acc + dig c)
  end.

(* float(etime[8:]) for ".fff", in eighths (exact for the generated inputs) *)
Definition frac8 (s : list Z) : Z :=
  match s with
  | [] => 0
  | _ :: ds => 8 * digits_val ds 0 / 10 ^ Z.of_nat (length ds)
  end.

(* get_acquisition_time / the t_offsets loop, in eighths of a second *)
Definition acq_time8 (m : meas) : Z :=
  8 * (86400 * parse_date (m_date m) + parse_hms (m_time m))
  + frac8 (skipn 8 (m_time m)).

(* ---- which strings time.strptime(date + etime[:8], "%Y-%m-%d%H:%M:%S") and
   float(etime[8:]) accept (exact on the domain [dt_shape_strict] below) *)
Definition is_digit (c : Z) : bool := (48 <=? c) && (c <=? 57).
Definition leap (y : Z) : bool :=
  ((y mod 4 =? 0) && negb (y mod 100 =? 0)) || (y mod 400 =? 0).
Definition days_in_month (y m : Z) : Z :=
  if m =? 2 then (if leap y then 29 else 28)
  else if (m =? 4) || (m =? 6) || (m =? 9) || (m =? 11) then 30 else 31.

Definition valid_date (s : list Z) : bool :=
  match s with
  | [y1; y2; y3; y4; a; m1; m2; b; d1; d2] =>
      forallb is_digit [y1; y2; y3; y4; m1; m2; d1; d2]
      && (a =? 45) && (b =? 45)
      && (let y := 1000 * dig y1 + 100 * dig y2 + 10 * dig y3 + dig y4 in
          let m := num2 m1 m2 in
          let d := num2 d1 d2 in
          (1900 <=? y) && (1 <=? m) && (m <=? 12)
          && (1 <=? d) && (d <=? days_in_month y m))
  | _ => false
  end.

Definition valid_frac (s : list Z) : bool :=
  match s with
  | [] => true
  | c :: ds => (c =? 46) && negb (Nat.eqb (length ds) 0) && forallb is_digit ds
  end.

Definition valid_time (s : list Z) : bool :=
  match firstn 8 s with
  | [h1; h2; a; m1; m2; b; s1; s2] =>
      forallb is_digit [h1; h2; m1; m2; s1; s2]
      && (a =? 58) && (b =? 58)
      && (num2 h1 h2 <? 24) && (num2 m1 m2 <? 60) && (num2 s1 s2 <=? 61)
      && valid_frac (skipn 8 s)
  | _ => false
  end.

Definition wf_datetime (m : meas) : bool :=
  valid_date (m_date m) && valid_time (m_time m).

(* the domain on which the model of strptime/float is exact: "DDDD-DD-DD" with
   a year from 1900, "DD:DD:DD" optionally followed by "." and digits only
   (D a digit).  Inside it a string is accepted iff the numbers are a real
   date/time (strptime takes seconds up to 61, mktime normalises them).
   Outside it (one-digit fields "2024-3-5", "1:02:03", float syntax such as
   ".5e1", "inf", "1_5") Python accepts more than [wf_datetime]; such strings
   are not generated and the theorems about rejection exclude them. *)
Definition shape_date (s : list Z) : bool :=
  match s with
  | [y1; y2; y3; y4; a; m1; m2; b; d1; d2] =>
      forallb is_digit [y1; y2; y3; y4; m1; m2; d1; d2]
      && (a =? 45) && (b =? 45)
      && (1900 <=? 1000 * dig y1 + 100 * dig y2 + 10 * dig y3 + dig y4)
  | _ => false
  end.
Definition shape_time (s : list Z) : bool :=
  match firstn 8 s with
  | [h1; h2; a; m1; m2; b; s1; s2] =>
      forallb is_digit [h1; h2; m1; m2; s1; s2] && (a =? 58) && (b =? 58)
      && (match skipn 8 s with
          | [] => true
          | c :: ds => (c =? 46) && forallb is_digit ds
          end)
  | _ => false
  end.
Definition dt_shape_strict (m : meas) : bool :=
  shape_date (m_date m) && shape_time (m_time m).

(* ---- ordering of the inputs ------------------------------------------- *)
(* fixed code: key = (acquisition time, run index), compared as a tuple *)
Definition tkey (m : meas) : Z * Z := (acq_time8 m, m_run m).
Definition tkey_leb (a b : Z * Z) : bool :=
  (fst a <? fst b) || ((fst a =? fst b) && (snd a <=? snd b)).
Definition leb_num (a b : meas) : bool := tkey_leb (tkey a) (tkey b).

(* ---- features to export ----------------------------------------------- *)
(* for pp in sorted_paths[1:]: prune `features`; the flag records whether a
   FeatureSetNotIdenticalJoinWarning was issued (feature excluded, or an
   innate feature of this input ignored) *)
Fixpoint prune_all (prune : (Z -> bool) -> list Z -> list Z)
         (feats : list Z) (rest : list meas) : list Z * bool :=
  match rest with
  | [] => (feats, false)
  | m :: r =>
      let feats' := prune (fun f => mem Z.eqb f (m_avail m)) feats in
      let w := negb (Nat.eqb (length feats) (length feats'))
               || existsb (fun f => negb (mem Z.eqb f feats')) (m_innate m) in
      let '(fs, w') := prune_all prune feats' r in
      (fs, w || w')
  end.

(* ---- writing ------------------------------------------------------------ *)
Inductive jerr := EKey | EOverflow | EValue.
Inductive res (T : Type) :=
| Ok (x : T)
| Err (e : jerr).
Arguments Ok {T}.
Arguments Err {T}.

(* the data stored for feature f of input m (offset ti, in eighths), given
   what the output column holds so far *)
Definition fdata (m : meas) (ti : Z) (f : Z) (old : list Z) : res (list Z) :=
  match lookup_col f (m_cols m) with
  | None => Err EKey                                   (* dsi[feat] *)
  | Some [] => Err EValue      (* write_ndarray: "Empty data object" *)
  | Some col =>
      if kind f =? 1 then Ok (map (Z.add ti) col)
      else if kind f =? 2 then
        (* np.uint64(round(ti * fr)) *)
        let off := round_half_even (ti * m_rate m) 64 in
        if off <? 0 then Err EOverflow else Ok (map (Z.add off) col)
      else if kind f =? 3 then
        let ido0 := match old with [] => 0 | _ => last old 0 + 1 end in
        Ok (map (Z.add ido0) col)
      else if kind f =? 4 then
        (* store_feature("index"): np.arange(nev0 + 1, nev0 + nev + 1) *)
        Ok (map (fun i => Z.of_nat (length old) + 1 + Z.of_nat i)
                (seq 0 (length col)))
      else Ok col
  end.

(* for feat in features: hw.store_feature(feat, fdata) *)
Fixpoint append_all (m : meas) (ti : Z) (st : list (Z * list Z))
  : res (list (Z * list Z)) :=
  match st with
  | [] => Ok []
  | (f, old) :: r =>
      match fdata m ti f old with
      | Err e => Err e
      | Ok d =>
          match append_all m ti r with
          | Err e => Err e
          | Ok r' => Ok ((f, old ++ d) :: r')
          end
      end
  end.

(* the first input is written by export.hdf5 (no offsets: t_offsets[0] = 0),
   the others are appended *)
Fixpoint join_files (t0 : Z) (ms : list meas) (st : list (Z * list Z))
  : res (list (Z * list Z)) :=
  match ms with
  | [] => Ok st
  | m :: r =>
      match append_all m (acq_time8 m - t0) st with
      | Err e => Err e
      | Ok st' => join_files t0 r st'
      end
  end.

(* names of the logs of the output: (0, 0) export log, (0, 1) dclab-join,
   (0, 2) dclab-join-feature-warnings, (i, l) log l of source #i,
   (i, 1000000) src-#i_cfg *)
Definition LOG_CFG : Z := 1000000.
Fixpoint source_logs (i : Z) (ms : list meas) : list (Z * Z) :=
  match ms with
  | [] => []
  | m :: r => map (pair i) (m_logs m) ++ [(i, LOG_CFG)] ++ source_logs (i + 1) r
  end.

Record joined := mk_joined {
  j_order : list Z;             (* positions (in paths_in) in output order *)
  j_feats : list Z;
  j_cols : list (Z * list Z);
  j_logs : list (Z * Z);
  (* metadata of the output: export.hdf5 writes the configuration of the
     first (earliest) input, store_metadata(metadata) then sets
     experiment:run index (default argument: 1), the writer rectifies
     experiment:event count from the stored features *)
  j_date : list Z;
  j_time : list Z;
  j_sample : Z;
  j_run : Z;
  j_count : Z
}.

(* join(metadata=None): {"experiment": {"run index": 1}} *)
Definition JOIN_RUN_INDEX : Z := 1.

(* number of events of an input (length of its first column) *)
Definition meas_len (m : meas) : Z :=
  match m_cols m with
  | [] => 0
  | (_, c) :: _ => Z.of_nat (length c)
  end.

(* experiment:event count of the output: rectified from the stored features;
   without any feature it stays what export.hdf5 copied from the first input *)
Definition event_count (m0 : meas) (cols : list (Z * list Z)) : Z :=
  match cols with
  | [] => meas_len m0
  | (_, c) :: _ => Z.of_nat (length c)
  end.

Fixpoint tag_from (i : Z) (l : list meas) : list (Z * meas) :=
  match l with
  | [] => []
  | m :: r => (i, m) :: tag_from (i + 1) r
  end.

Definition join_gen (leb : meas -> meas -> bool)
           (prune : (Z -> bool) -> list Z -> list Z)
           (inputs : list meas) : res joined :=
  (* len(paths_in) < 2: ValueError; a date/time that strptime/float reject:
     ValueError (raised while the sort keys are computed, nothing written) *)
  if (length inputs <? 2)%nat then Err EValue
  else if negb (forallb wf_datetime inputs) then Err EValue else
  let sorted := py_sorted (fun a b => leb (snd a) (snd b)) (tag_from 0 inputs) in
  let ms := map snd sorted in
  match ms with
  | [] => Err EValue
  | m0 :: rest =>
      let '(feats, warn) := prune_all prune (py_sorted Z.leb (m_innate m0)) rest in
      (* export.hdf5: features = sorted(set(features)) *)
      let efeats := sort_dedup feats in
      match join_files (acq_time8 m0) ms (map (fun f => (f, [])) efeats) with
      | Err e => Err e
      | Ok cols =>
          Ok {| j_order := map fst sorted;
                j_feats := efeats;
                j_cols := cols;
                j_logs := [(0, 0); (0, 1)] ++ (if warn then [(0, 2)] else [])
                          ++ source_logs 1 ms;
                j_date := m_date m0;
                j_time := m_time m0;
                j_sample := m_sample m0;
                j_run := JOIN_RUN_INDEX;
                j_count := event_count m0 cols |}
      end
  end.

Definition join_fixed := join_gen leb_num (py_prune_copy Z.eqb).

(* ---- a measurement split into parts (for join-of-split) ----------------- *)
Definition part_full (m : meas) (sel : list Z -> list Z) : meas :=
  {| m_date := m_date m; m_time := m_time m; m_run := m_run m;
     m_rate := m_rate m; m_innate := m_innate m; m_avail := m_avail m;
     m_cols := map (fun fc => (fst fc, sel (snd fc))) (m_cols m);
     m_logs := m_logs m; m_sample := m_sample m |}.

(* number of events a selection keeps of n events *)
Definition part_len (n : Z) (sel : list Z -> list Z) : nat :=
  length (sel (repeat 0 (Z.to_nat n))).

(* a part without events is a file without features: features_innate = [],
   features = ["index"] (computed, of length 0) *)
Definition part_of (m : meas) (n : Z) (sel : list Z -> list Z) : meas :=
  if Nat.eqb (part_len n sel) 0 then
    {| m_date := m_date m; m_time := m_time m; m_run := m_run m;
       m_rate := m_rate m; m_innate := [];
       m_avail := filter (fun f => kind f =? 4) (m_avail m);
       m_cols := map (fun fc => (fst fc, []))
                     (filter (fun fc => kind (fst fc) =? 4) (m_cols m));
       m_logs := m_logs m; m_sample := m_sample m |}
  else part_full m sel.

(* s0 / s1: the first / last event is skipped (empty boundary image) *)
Definition split_meas (m : meas) (n k : Z) (s0 s1 : bool) : list meas :=
  map (fun ii => part_of m n (select_from 0 (part_pred n k s0 s1 (Z.of_nat ii))))
      (seq 0 (Z.to_nat (num_files n k))).

(* no window consists of skipped boundary events only *)
Definition no_empty_part (n k : Z) (s0 s1 : bool) : bool :=
  forallb (fun ii => negb (Nat.eqb (part_len n (select_from 0
                                      (part_pred n k s0 s1 (Z.of_nat ii)))) 0))
          (seq 0 (Z.to_nat (num_files n k))).

(* ======================================================================= *)
(* specification                                                             *)
(* ======================================================================= *)
Definition getcol (f : Z) (m : meas) : list Z :=
  match lookup_col f (m_cols m) with Some c => c | None => [] end.

(* the events of the inputs one after the other, each value shifted by the
   offset of its input *)
Definition spec_shifted (shift : meas -> Z) (f : Z) (ms : list meas) : list Z :=
  concat (map (fun m => map (Z.add (shift m)) (getcol f m)) ms).

Definition spec_time (t0 : Z) (f : Z) (ms : list meas) : list Z :=
  spec_shifted (fun m => acq_time8 m - t0) f ms.
Definition spec_frame (t0 : Z) (f : Z) (ms : list meas) : list Z :=
  spec_shifted (fun m => round_half_even ((acq_time8 m - t0) * m_rate m) 64) f ms.
Definition spec_plain (f : Z) (ms : list meas) : list Z :=
  concat (map (getcol f) ms).
Definition spec_index (f : Z) (ms : list meas) : list Z :=
  map (fun i => 1 + Z.of_nat i) (seq 0 (length (spec_plain f ms))).
(* index_online: every later block is shifted by (last value so far) + 1 *)
Definition ido_append (acc p : list Z) : list Z :=
  acc ++ map (Z.add (match acc with [] => 0 | _ => last acc 0 + 1 end)) p.
Definition spec_ido_blocks (blocks : list (list Z)) : list Z :=
  fold_left ido_append blocks [].
Definition spec_ido (f : Z) (ms : list meas) : list Z :=
  spec_ido_blocks (map (getcol f) ms).

(* the inputs, tagged with their position in paths_in, in the order join
   processes them *)
Definition tagged_leb (leb : meas -> meas -> bool) (a b : Z * meas) : bool :=
  leb (snd a) (snd b).
Definition sorted_gen (leb : meas -> meas -> bool) (inputs : list meas) :=
  py_sorted (tagged_leb leb) (tag_from 0 inputs).
(* inputs with acquisition time t and run index r *)
Definition same_key (t r : Z) (a : Z * meas) : bool :=
  (acq_time8 (snd a) =? t) && (m_run (snd a) =? r).

(* features available in every later input *)
Definition spec_features (m0 : meas) (rest : list meas) : list Z :=
  filter (fun f => forallb (fun m => mem Z.eqb f (m_avail m)) rest)
         (py_sorted Z.leb (m_innate m0)).

(* well-formed input: every available feature has a column, innate features
   are available and distinct, the frame rate is not negative, date and time
   are strings strptime/float accept, no column is empty (the measurement
   holds at least one event) *)
Definition wf_meas (m : meas) : Prop :=
  NoDup (m_innate m)
  /\ (forall f, In f (m_innate m) -> In f (m_avail m))
  /\ (forall f, In f (m_avail m) -> lookup_col f (m_cols m) <> None)
  /\ 0 <= m_rate m
  /\ wf_datetime m = true
  /\ (forall f, lookup_col f (m_cols m) <> Some []).

(* ======================================================================= *)
(* interface used by the correspondence check (harness/c09.py)               *)
(* ======================================================================= *)
Definition raw_meas : Type :=
  list Z * list Z * Z * Z * list Z * list Z * list (Z * list Z) * list Z * Z.

Definition decode_meas (t : raw_meas) : meas :=
  let '(d, tm, run, rate, inn, av, cols, logs, sample) := t in
  mk_meas_full d tm run rate inn av cols logs sample.

Definition enc_cols (cols : list (Z * list Z)) : list Z :=
  flat_map (fun fc => fst fc :: Z.of_nat (length (snd fc)) :: snd fc) cols.

Definition enc_join (r : res joined) : list Z :=
  match r with
  | Err EKey => [1]
  | Err EOverflow => [2]
  | Err EValue => [3]
  | Ok j =>
      [0; Z.of_nat (length (j_order j))] ++ j_order j
      ++ [Z.of_nat (length (j_feats j))] ++ j_feats j
      ++ enc_cols (j_cols j)
      ++ [Z.of_nat (length (j_logs j))]
      ++ flat_map (fun p => [fst p; snd p]) (j_logs j)
      ++ [Z.of_nat (length (j_date j))] ++ j_date j
      ++ [Z.of_nat (length (j_time j))] ++ j_time j
      ++ [j_sample j; j_run j; j_count j]
  end.

Definition join_flat (ms : list raw_meas) : list Z :=
  enc_join (join_fixed (map decode_meas ms)).

(* events = (position, (has image, pixels), (has contour, coordinates));
   case = (events, k, initial, final) *)
Definition decode_sev (t : Z * (bool * list Z) * (bool * list Z)) : sev :=
  let '(p, (hi, px), (hc, cs)) := t in
  mk_sev p (if hi then Some px else None) (if hc then Some cs else None).

Definition split_flat
           (c : list (Z * (bool * list Z) * (bool * list Z)) * Z * bool * bool)
  : list Z :=
  let '(evs, k, initial, final) := c in
  let parts := split_events (map decode_sev evs) k initial final in
  (* per part: events, then the sample-name suffix "i/num_files" *)
  [0; Z.of_nat (length parts)]
  ++ flat_map (fun ip => (Z.of_nat (length (snd ip)) :: map se_pos (snd ip))
                         ++ [fst ip; Z.of_nat (length parts)])
              (combine (map (fun i => Z.of_nat i + 1) (seq 0 (length parts)))
                       parts).

(* join of the parts of a split: (measurement, n, k, first skipped, last
   skipped) *)
Definition join_split_flat (c : raw_meas * Z * Z * bool * bool) : list Z :=
  let '(m, n, k, s0, s1) := c in
  enc_join (join_fixed (split_meas (decode_meas m) n k s0 s1)).

(* Python semantics of Common/PyList.v against the interpreter itself:
   (tag, l1, l2) *)
Definition pysem_flat (c : Z * list Z * list Z) : list Z :=
  let '(tag, l1, l2) := c in
  if tag =? 0 then py_prune Z.eqb (fun x => mem Z.eqb x l2) l1
  else if tag =? 1 then py_prune_copy Z.eqb (fun x => mem Z.eqb x l2) l1
  else if tag =? 2 then [b2z (str_leb l1 l2)]
  else if tag =? 3 then
    map snd (py_sorted (fun a b : Z * Z => fst a <=? fst b)
                       (combine l1 (map Z.of_nat (seq 0 (length l1)))))
  else if tag =? 4 then
    match l1 with [num; den] => [round_half_even num den] | _ => [] end
  else if tag =? 5 then
    match l1 with [n] => str_of_Z n | _ => [] end
  else if tag =? 6 then
    (* get_acquisition_time: [0; eighths] or [1] for ValueError *)
    let m := mk_meas l1 l2 0 0 [] [] [] [] in
    if wf_datetime m then [0; acq_time8 m] else [1]
  else sort_dedup l1.

(* ======================================================================= *)
(* trace channels                                                            *)
(* ======================================================================= *)
(* hw.store_feature("trace", dsi["trace"]) writes, for every channel the
   input has, to the output dataset of that channel (created when absent):
   the number of rows per channel after joining inputs = (events, channels) *)
Fixpoint tl_add (k n : Z) (st : list (Z * Z)) : list (Z * Z) :=
  match st with
  | [] => [(k, n)]
  | (k', v) :: r => if k =? k' then (k', v + n) :: r else (k', v) :: tl_add k n r
  end.
Definition tl_input (st : list (Z * Z)) (inp : Z * list Z) : list (Z * Z) :=
  fold_left (fun s k => tl_add k (fst inp) s) (snd inp) st.
Definition trace_lengths (inputs : list (Z * list Z)) : list (Z * Z) :=
  fold_left tl_input inputs [].
Definition tl_total (inputs : list (Z * list Z)) : Z :=
  fold_right Z.add 0 (map fst inputs).
(* every channel holds every event *)
Definition tl_consistent (inputs : list (Z * list Z)) : bool :=
  forallb (fun kv => snd kv =? tl_total inputs) (trace_lengths inputs).

Definition trace_len_flat (inputs : list (Z * list Z)) : list Z :=
  flat_map (fun kv => [fst kv; snd kv])
           (py_sorted (fun a b : Z * Z => fst a <=? fst b) (trace_lengths inputs)).
