(* C10 — command line tasks never leave a partial file at the output path.
   Executable definitions only; proofs are in Proofs/C10.v.

   Sources modelled:
     dclab/cli/common.py:setup_task_paths   (unlink stale outputs, then stale
                                             temporary files)
     dclab/cli/task_{compress,condense,repack,join,split,tdms2rtdc}.py
     dclab/rtdc_dataset/export.py:hdf5      (creates the file through
                                             RTDCWriter(mode="append"))
     dclab/rtdc_dataset/writer.py:RTDCWriter.__init__/__exit__

   An abstract file system maps every path that matters to the task
   (inputs, requested outputs, the temporary names <out>.rtdc~, other files)
   to a file state.  The tasks act on it through seven operations.  A task
   *protocol* is the per-output-file life cycle

       setup ; create ; Write* ; Close ; (OpenAppend ; Write* ; Close)* ; Rename

   (arbitrary numbers of writes and of re-open/append rounds, any
   interleaving between different output files and with reads of the
   inputs), with setup and create depending on the task:

       task        setup (stale files)                 create
       compress    Unlink out? ; Unlink tmp?           CreateTrunc tmp  (h5py.File(tmp, "w"))
       repack      Unlink out? ; Unlink tmp?           CreateTrunc tmp
       condense    Unlink out? ; Unlink tmp?           CreateTrunc tmp
       join        Unlink out? ; Unlink tmp?           OpenAppend tmp   (export.hdf5 -> RTDCWriter "append")
       tdms2rtdc   Unlink out? ; Unlink tmp?  (all)    OpenAppend tmp
       split       none (export refuses an existing    OpenAppend tmp
                   temporary file: OSError)

   "Unlink p?" is present in a run exactly when p exists before the run
   (`[po.unlink() for po in paths_out if po.exists()]`).
   The safety argument does not depend on these differences, so one
   automaton ([step_file]) accepts the union of the six life cycles; what
   differs per task is whether several outputs are possible.

   Fault semantics: the process is killed immediately before operation k
   (every file open for writing is torn), or operation k raises and the
   exception unwinds through the `with` blocks (open files are closed,
   RTDCWriter.__exit__ may write more before closing, or fail again). *)
From Coq Require Import List Bool Arith NArith ZArith.
Import ListNotations.

(* ------------------------------------------------------------------ *)
(* paths, operations, file system                                      *)
(* ------------------------------------------------------------------ *)
Inductive path :=
| PIn (j : nat)       (* j-th input file *)
| POut (i : nat)      (* i-th requested output path *)
| PTmp (i : nat)      (* its temporary name  <out>.rtdc~ *)
| POther (j : nat).   (* any other file *)

Definition path_eqb (p q : path) : bool :=
  match p, q with
  | PIn a, PIn b => Nat.eqb a b
  | POut a, POut b => Nat.eqb a b
  | PTmp a, PTmp b => Nat.eqb a b
  | POther a, POther b => Nat.eqb a b
  | _, _ => false
  end.

Definition is_tmp (p : path) : bool :=
  match p with PTmp _ => true | _ => false end.

Inductive op :=
| Unlink (p : path)
| CreateTrunc (p : path)
| OpenAppend (p : path)
| Write (p : path)
| Close (p : path)
| Rename (p q : path)
| OpenRead (p : path).

Inductive fstate :=
| Absent
| Old                          (* complete, closed file that existed before the run *)
| Junk                         (* unusable: stale leftover, torn, or modified old file *)
| Fresh (n : N) (opn : bool).  (* created by this run; n write operations applied;
                                  opn: open for writing *)

Definition fs := path -> fstate.

Definition upd (s : fs) (p : path) (v : fstate) : fs :=
  fun q => if path_eqb q p then v else s q.

Definition apply (o : op) (s : fs) : fs :=
  match o with
  | Unlink p => upd s p Absent
  | CreateTrunc p => upd s p (Fresh 0 true)
  | OpenAppend p =>
      upd s p (match s p with
               | Absent => Fresh 0 true
               | Fresh n _ => Fresh n true
               | _ => Junk
               end)
  | Write p =>
      upd s p (match s p with
               | Fresh n true => Fresh (n + 1) true
               | _ => Junk
               end)
  | Close p =>
      match s p with
      | Fresh n true => upd s p (Fresh n false)
      | _ => s
      end
  | Rename p q =>
      match s p with
      | Absent => s
      | v => upd (upd s q v) p Absent
      end
  | OpenRead _ => s
  end.

Fixpoint exec (s : fs) (t : list op) : fs :=
  match t with
  | [] => s
  | o :: t' => exec (apply o s) t'
  end.

(* ------------------------------------------------------------------ *)
(* faults                                                              *)
(* ------------------------------------------------------------------ *)
Inductive fault :=
| Kill
| Raise (partial_effect : bool) (extra : path -> option N).

(* the process dies: whatever is open for writing is torn *)
Definition crash (s : fs) : fs :=
  fun p => match s p with Fresh _ true => Junk | x => x end.

(* the failing operation itself: rename/unlink are atomic (no effect when
   they fail); a failing create/open/write/close may leave the file it
   works on in any condition *)
Definition fail_op (pe : bool) (o : op) (s : fs) : fs :=
  if pe then
    match o with
    | CreateTrunc p | OpenAppend p => upd s p Junk
    | Write p | Close p =>
        match s p with Fresh _ true => upd s p Junk | _ => s end
    | _ => s
    end
  else s.

(* exception unwinding: every `with` block closes its file; __exit__ of the
   writer may apply [m] more writes before ([extra p = Some m]) or fail
   itself ([None]) *)
Definition unwind (extra : path -> option N) (s : fs) : fs :=
  fun p => match s p with
           | Fresh n true =>
               match extra p with
               | Some m => Fresh (n + m) false
               | None => Junk
               end
           | x => x
           end.

Definition exec_fault (s0 : fs) (t : list op) (k : nat) (f : fault) : fs :=
  let s := exec s0 (firstn k t) in
  match f with
  | Kill => crash s
  | Raise pe extra =>
      match nth_error t k with
      | Some o => unwind extra (fail_op pe o s)
      | None => s          (* k is past the end: the run completed *)
      end
  end.

(* ------------------------------------------------------------------ *)
(* what an observer sees                                               *)
(* ------------------------------------------------------------------ *)
Inductive vis := VAbsent | VPartial | VComplete.

Definition wcount_op (i : nat) (o : op) : N :=
  match o with
  | Write (PTmp k) => if Nat.eqb k i then 1%N else 0%N
  | _ => 0%N
  end.

(* number of write operations the run applies to the i-th temporary file *)
Fixpoint wcount (i : nat) (t : list op) : N :=
  match t with
  | [] => 0%N
  | o :: t' => (wcount_op i o + wcount i t')%N
  end.

(* a file created by this run is complete iff it is closed and holds all
   [total] writes of the fault-free run *)
Definition view (total : N) (st : fstate) : vis :=
  match st with
  | Absent => VAbsent
  | Old => VComplete
  | Junk => VPartial
  | Fresh m opn => if negb opn && N.eqb m total then VComplete else VPartial
  end.

Definition total_of (t : list op) (p : path) : N :=
  match p with
  | POut i | PTmp i => wcount i t
  | _ => 0%N
  end.

(* ------------------------------------------------------------------ *)
(* the task protocols                                                  *)
(* ------------------------------------------------------------------ *)
Inductive task := Compress | Condense | Repack | Join | Split | Tdms2rtdc.

(* more than one output file possible *)
Definition multi_output (tk : task) : bool :=
  match tk with Split | Tdms2rtdc => true | _ => false end.

Record cfg := {
  c_task : task;
  c_so : nat -> bool;   (* output i exists before the run *)
  c_st : nat -> bool    (* temporary file i exists before the run *)
}.

(* operations local to one output file *)
Inductive lop :=
| LUnlinkOut | LUnlinkTmp | LCreateTrunc | LOpenAppend | LWrite | LClose
| LRename | LOpenReadTmp | LOpenReadOut | LCloseOut.

Inductive cls :=
| CFile (i : nat) (l : lop)
| CRead                       (* read-only use of an input / other file *)
| CBad.                       (* never part of any task protocol *)

Definition classify (o : op) : cls :=
  match o with
  | Unlink (POut i) => CFile i LUnlinkOut
  | Unlink (PTmp i) => CFile i LUnlinkTmp
  | CreateTrunc (PTmp i) => CFile i LCreateTrunc
  | OpenAppend (PTmp i) => CFile i LOpenAppend
  | Write (PTmp i) => CFile i LWrite
  | Close (PTmp i) => CFile i LClose
  | Close (POut i) => CFile i LCloseOut
  | Close (PIn _) | Close (POther _) => CRead
  | Rename (PTmp i) (POut k) => if Nat.eqb i k then CFile i LRename else CBad
  | OpenRead (PTmp i) => CFile i LOpenReadTmp
  | OpenRead (POut i) => CFile i LOpenReadOut
  | OpenRead (PIn _) | OpenRead (POther _) => CRead
  | _ => CBad
  end.

Inductive phase :=
| P0      (* nothing happened to this output yet *)
| P1      (* stale output unlinked *)
| P2      (* stale temporary file unlinked *)
| PW      (* temporary file open for writing *)
| PC      (* temporary file closed *)
| PDone.  (* renamed to the output path *)

(* the temporary name is known to be absent: it did not exist before the
   run, or it has been unlinked *)
Definition tmp_absent (st : bool) (ph : phase) : bool :=
  match ph with
  | P0 | P1 => negb st
  | P2 => true
  | _ => false
  end.

(* The life cycle of one output file.  The safety argument is the same for
   all six tasks, so the automaton accepts the union of what they do (see the
   table above): stale files may be unlinked when they exist (an unlink of a
   missing file raises in the real code); the temporary file is created
   either by truncation ("w") or by open-append on a name known to be
   absent (export.hdf5 / RTDCWriter "append"); then any number of writes and
   of close / re-open-append rounds; the single rename comes last and only
   when the file is closed. *)
Definition step_file (so st : bool) (ph : phase) (l : lop) : option phase :=
  match ph, l with
  | P0, LUnlinkOut => if so then Some P1 else None
  | P2, LUnlinkOut => if so then Some P2 else None
  | (P0 | P1), LUnlinkTmp => if st then Some P2 else None
  | (P0 | P1 | P2), LCreateTrunc => Some PW
  | (P0 | P1 | P2), LOpenAppend =>
      if tmp_absent st ph then Some PW else None
  | PW, LWrite => Some PW
  | PW, LClose => Some PC
  | PC, LOpenAppend => Some PW
  | PC, LOpenReadTmp => Some PC
  | PC, LClose => Some PC
  | PC, LUnlinkOut => if so then Some PC else None   (* late removal of the
                                                        stale output *)
  | PC, LRename => Some PDone
  | PDone, LOpenReadOut => Some PDone
  | PDone, LCloseOut => Some PDone
  | _, _ => None
  end.

Definition pstate := nat -> phase.

Definition pupd (ps : pstate) (i : nat) (ph : phase) : pstate :=
  fun k => if Nat.eqb k i then ph else ps k.

Definition step (c : cfg) (ps : pstate) (o : op) : option pstate :=
  match classify o with
  | CBad => None
  | CRead => Some ps
  | CFile i l =>
      match step_file (c_so c i) (c_st c i) (ps i) l with
      | Some ph => Some (pupd ps i ph)
      | None => None
      end
  end.

Fixpoint run (c : cfg) (ps : pstate) (t : list op) : option pstate :=
  match t with
  | [] => Some ps
  | o :: t' =>
      match step c ps o with
      | Some ps' => run c ps' t'
      | None => None
      end
  end.

Definition ps0 : pstate := fun _ => P0.

Definition is_done (ph : phase) : bool :=
  match ph with PDone => true | _ => false end.

Definition op_index_lt (n : nat) (o : op) : bool :=
  match classify o with
  | CFile i _ => Nat.ltb i n
  | _ => true
  end.

(* [accepts c n t]: t is a word of the protocol of task [c_task c] for n
   output files, given which stale files exist *)
Definition accepts (c : cfg) (n : nat) (t : list op) : bool :=
  (multi_output (c_task c) || Nat.eqb n 1)
  && forallb (op_index_lt n) t
  && match run c ps0 t with
     | Some ps => forallb (fun i => is_done (ps i)) (seq 0 n)
     | None => false
     end.

(* initial file system described by the stale-file flags *)
Definition init_fs (c : cfg) : fs :=
  fun p => match p with
           | PIn _ => Old
           | POut i => if c_so c i then Old else Absent
           | PTmp i => if c_st c i then Junk else Absent
           | POther _ => Old
           end.

(* ------------------------------------------------------------------ *)
(* the protocol of a single output file written as a grammar            *)
(*   Unlink out? ; Unlink tmp? ; create ; Write^w0 ; Close ;            *)
(*   (OpenAppend ; Write^w ; Close)^* ; Rename                          *)
(* ------------------------------------------------------------------ *)
Definition writes (i w : nat) : list op := repeat (Write (PTmp i)) w.

Definition round (i w : nat) : list op :=
  OpenAppend (PTmp i) :: writes i w ++ [Close (PTmp i)].

(* trunc: the file is created with CreateTrunc ("w") rather than by
   open-append on the absent name *)
Definition setup_create (so st trunc : bool) : list op :=
  (if so then [Unlink (POut 0)] else [])
  ++ (if st then [Unlink (PTmp 0)] else [])
  ++ [if trunc then CreateTrunc (PTmp 0) else OpenAppend (PTmp 0)].

Definition file_word (so st trunc : bool) (w0 : nat) (rounds : list nat)
  : list op :=
  setup_create so st trunc
  ++ writes 0 w0
  ++ Close (PTmp 0)
     :: flat_map (round 0) rounds ++ [Rename (PTmp 0) (POut 0)].

Definition cfg1 (tk : task) (so st : bool) : cfg :=
  {| c_task := tk; c_so := fun _ => so; c_st := fun _ => st |}.


(* hypothesis of the theorems on the file system before the run: it is what
   the stale-file flags say; inputs and other files are complete or absent *)
Definition init_ok (c : cfg) (s0 : fs) : Prop :=
  (forall i, s0 (POut i) = if c_so c i then Old else Absent)
  /\ (forall i, c_st c i = false -> s0 (PTmp i) = Absent)
  /\ (forall j, s0 (PIn j) = Old)
  /\ (forall j, s0 (POther j) = Old \/ s0 (POther j) = Absent).

(* ------------------------------------------------------------------ *)
(* restart                                                             *)
(* ------------------------------------------------------------------ *)
(* the file system as the *next* run finds it: what this run completed is
   now an old complete file, whatever sits at a temporary name is a stale
   leftover *)
Definition age (t : list op) (s : fs) : fs :=
  fun p =>
    match p with
    | PTmp _ => match s p with Absent => Absent | _ => Junk end
    | _ => match view (total_of t p) (s p) with
           | VAbsent => Absent
           | VComplete => Old
           | VPartial => Junk
           end
    end.

(* the stale-file flags that describe a file system *)
Definition flags_of (tk : task) (s : fs) : cfg :=
  {| c_task := tk;
     c_so := fun i => match s (POut i) with Absent => false | _ => true end;
     c_st := fun i => match s (PTmp i) with Absent => false | _ => true end |}.

(* ------------------------------------------------------------------ *)
(* one strict protocol per task                                        *)
(* ------------------------------------------------------------------ *)
(* What each task does with one output file, written from its source
   (table at the top of this file): which stale files setup removes, how
   the temporary file is created, and exactly how many re-open/append
   rounds follow.  Each is a regular language (a finite automaton per task;
   the counter of remaining rounds is bounded by [append_rounds]) and a
   sub-language of the union automaton [step_file]
   (Proofs/C10.v: accepts_task_sub), so the safety theorems apply to it.
   The correspondence run reports a trace that leaves its task's strict
   language as a warning; the obligation is the union automaton. *)

(* common.setup_task_paths is called (all tasks but split) *)
Definition has_setup (tk : task) : bool :=
  match tk with Split => false | _ => true end.

(* the temporary file is created with h5py.File(path_temp, "w") *)
Definition creates_trunc (tk : task) : bool :=
  match tk with Compress | Condense | Repack => true | _ => false end.

(* re-open/append rounds after the creating round (RTDCWriter on path_temp):
   compress, join, split, tdms2rtdc append their logs in a second round *)
Definition append_rounds (tk : task) : nat :=
  match tk with Condense | Repack => 0 | _ => 1 end.

Inductive sphase :=
| S0 | S1 | S2
| SW (r : nat)      (* writing; r append rounds still to come *)
| SC (r : nat)      (* closed *)
| SDone.

Definition abs_phase (sp : sphase) : phase :=
  match sp with
  | S0 => P0 | S1 => P1 | S2 => P2
  | SW _ => PW | SC _ => PC | SDone => PDone
  end.

Definition is_create (tk : task) (l : lop) : bool :=
  match l with
  | LCreateTrunc => creates_trunc tk
  | LOpenAppend => negb (creates_trunc tk)
  | _ => false
  end.

Definition sstep_file (tk : task) (so st : bool) (sp : sphase) (l : lop)
  : option sphase :=
  match sp, l with
  | S0, LUnlinkOut => if has_setup tk && so then Some S1 else None
  | S0, LUnlinkTmp =>
      if has_setup tk && negb so && st then Some S2 else None
  | S1, LUnlinkTmp => if has_setup tk && st then Some S2 else None
  | S0, (LCreateTrunc | LOpenAppend) =>
      if is_create tk l && negb (has_setup tk && so) && negb st
      then Some (SW (append_rounds tk)) else None
  | S1, (LCreateTrunc | LOpenAppend) =>
      if is_create tk l && negb st then Some (SW (append_rounds tk))
      else None
  | S2, (LCreateTrunc | LOpenAppend) =>
      if is_create tk l then Some (SW (append_rounds tk)) else None
  | SW r, LWrite => Some (SW r)
  | SW r, LClose => Some (SC r)
  | SC (S r), LOpenAppend => Some (SW r)
  | SC O, LRename => Some SDone
  | _, _ => None
  end.

Definition sstate := nat -> sphase.

Definition supd (ss : sstate) (i : nat) (sp : sphase) : sstate :=
  fun k => if Nat.eqb k i then sp else ss k.

Definition sstep (c : cfg) (ss : sstate) (o : op) : option sstate :=
  match classify o with
  | CBad => None
  | CRead => Some ss
  | CFile i l =>
      match sstep_file (c_task c) (c_so c i) (c_st c i) (ss i) l with
      | Some sp => Some (supd ss i sp)
      | None => None
      end
  end.

Fixpoint srun (c : cfg) (ss : sstate) (t : list op) : option sstate :=
  match t with
  | [] => Some ss
  | o :: t' =>
      match sstep c ss o with
      | Some ss' => srun c ss' t'
      | None => None
      end
  end.

Definition ss0 : sstate := fun _ => S0.

Definition is_sdone (sp : sphase) : bool :=
  match sp with SDone => true | _ => false end.

(* the strict protocol of task [c_task c] *)
Definition accepts_task (c : cfg) (n : nat) (t : list op) : bool :=
  (multi_output (c_task c) || Nat.eqb n 1)
  && forallb (op_index_lt n) t
  && match srun c ss0 t with
     | Some ss => forallb (fun i => is_sdone (ss i)) (seq 0 n)
     | None => false
     end.

(* the rename tail of split: parts 0 .. n-1 in order *)
Definition ren (i : nat) : op := Rename (PTmp i) (POut i).

Definition op_eqb (a b : op) : bool :=
  match a, b with
  | Unlink p, Unlink q | CreateTrunc p, CreateTrunc q
  | OpenAppend p, OpenAppend q | Write p, Write q | Close p, Close q
  | OpenRead p, OpenRead q => path_eqb p q
  | Rename p1 p2, Rename q1 q2 => path_eqb p1 q1 && path_eqb p2 q2
  | _, _ => false
  end.

Fixpoint ops_eqb (a b : list op) : bool :=
  match a, b with
  | [], [] => true
  | x :: a', y :: b' => op_eqb x y && ops_eqb a' b'
  | _, _ => false
  end.

(* the trace ends with the renames of parts 0 .. n-1, in this order
   (the shape C10_split_parts speaks about; checked on the recorded split
   traces) *)
Definition split_shape (n : nat) (t : list op) : bool :=
  ops_eqb (skipn (length t - n) t) (map ren (seq 0 n)).

(* ------------------------------------------------------------------ *)
(* interface for the correspondence check (Gen/TaskTraces.v, harness)  *)
(* ------------------------------------------------------------------ *)
(* traces are run-length encoded *)
Fixpoint expand (l : list (op * N)) : list op :=
  match l with
  | [] => []
  | (o, n) :: r => N.iter n (cons o) (expand r)
  end.

Definition traced_case : Type :=
  (task * nat * list bool * list bool * list (op * N))%type.

Definition cfg_of (tk : task) (so st : list bool) : cfg :=
  {| c_task := tk;
     c_so := fun i => nth i so false;
     c_st := fun i => nth i st false |}.

(* position of the first operation the protocol rejects, or -1 *)
Fixpoint reject_pos (c : cfg) (ps : pstate) (t : list op) (k : Z) : Z :=
  match t with
  | [] => (-1)%Z
  | o :: t' =>
      match step c ps o with
      | Some ps' => reject_pos c ps' t' (k + 1)%Z
      | None => k
      end
  end.

Definition vis_code (v : vis) : Z :=
  match v with VAbsent => 0%Z | VPartial => 1%Z | VComplete => 2%Z end.

(* [accepted; first rejected position; number of operations;
    then for every output i: view of out_i, view of tmp_i after the
    fault-free run; then: the trace is in its task's strict language; it
    ends with the renames of parts 0..n-1 in order] *)
Definition check_case (tc : traced_case) : list Z :=
  match tc with
  | (tk, n, so, st, rle) =>
      let c := cfg_of tk so st in
      let t := expand rle in
      let sF := exec (init_fs c) t in
      [ (if accepts c n t then 1 else 0)%Z;
        reject_pos c ps0 t 0%Z;
        Z.of_nat (length t) ]
      ++ flat_map (fun i => [vis_code (view (wcount i t) (sF (POut i)));
                             vis_code (view (wcount i t) (sF (PTmp i)))])
                  (seq 0 n)
      ++ [ (if accepts_task c n t then 1 else 0)%Z;
           (if split_shape n t then 1 else 0)%Z ]
  end.

(* predicted observation after a fault at operation k:
   for every output i: view of out_i, view of tmp_i; then for every input
   j < nin: 1 if unchanged *)
(* 0: killed; 1: raises without effect, unwinding closes the files;
   2: raises after a partial effect on the file, and the unwinding fails
   again *)
Definition fault_of (kind : Z) : fault :=
  if (kind =? 0)%Z then Kill
  else if (kind =? 2)%Z then Raise true (fun _ => None)
  else Raise false (fun _ => Some 0%N).

Definition predict (tc : traced_case) (nin : nat) (k : nat) (kind : Z)
  : list Z :=
  match tc with
  | (tk, n, so, st, rle) =>
      let c := cfg_of tk so st in
      let t := expand rle in
      let s := exec_fault (init_fs c) t k (fault_of kind) in
      flat_map (fun i => [vis_code (view (wcount i t) (s (POut i)));
                          vis_code (view (wcount i t) (s (PTmp i)))])
               (seq 0 n)
      ++ map (fun j => match s (PIn j) with Old => 1%Z | _ => 0%Z end)
             (seq 0 nin)
  end.
