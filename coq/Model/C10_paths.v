(* C10 — the names of the temporary files.
   Executable definitions only; proofs are in Proofs/C10_paths.v.

   Sources modelled:
     dclab/cli/common.py:setup_task_paths
         po.suffix != ".rtdc"  ->  po.with_name(po.name + ".rtdc")
         paths_temp = [po.with_suffix(".rtdc~") for po in paths_out]
     dclab/cli/task_split.py
         pp = path_out / f"{path_in.stem}_{ii+1:04d}.rtdc"
         pt = pp.with_suffix(".rtdc~")
     pathlib.PurePath.suffix / with_suffix (Python 3.12)

   A file name (final path component) is the list of its character codes. *)
From Coq Require Import List Bool ZArith.
Import ListNotations.
Local Open Scope Z_scope.

Definition dot : Z := 46.
Definition tilde : Z := 126.
Definition s_rtdc : list Z := [46; 114; 116; 100; 99].        (* ".rtdc" *)
Definition s_tdms : list Z := [46; 116; 100; 109; 115].       (* ".tdms" *)
Definition s_rtdc_tilde : list Z := s_rtdc ++ [tilde].         (* ".rtdc~" *)

Definition len (l : list Z) : Z := Z.of_nat (length l).

(* name.rfind('.') : scanning left to right, remember the last hit *)
Fixpoint rfind_dot (l : list Z) (pos acc : Z) : Z :=
  match l with
  | [] => acc
  | c :: r => rfind_dot r (pos + 1) (if c =? dot then pos else acc)
  end.

(* PurePath.suffix *)
Definition suffix (name : list Z) : list Z :=
  let i := rfind_dot name 0 (-1) in
  if (0 <? i) && (i <? len name - 1) then skipn (Z.to_nat i) name else [].

(* PurePath.with_suffix (name non-empty, suf a valid suffix) *)
Definition with_suffix (name suf : list Z) : list Z :=
  match suffix name with
  | [] => name ++ suf
  | old => firstn (length name - length old) name ++ suf
  end.

Fixpoint zlist_eqb (a b : list Z) : bool :=
  match a, b with
  | [], [] => true
  | x :: a', y :: b' => (x =? y) && zlist_eqb a' b'
  | _, _ => false
  end.

(* setup_task_paths: output name with the .rtdc suffix enforced *)
Definition normalize_out (name : list Z) : list Z :=
  if zlist_eqb (suffix name) s_rtdc then name else name ++ s_rtdc.

Definition temp_of (out : list Z) : list Z := with_suffix out s_rtdc_tilde.

(* (output name, temporary name) computed for a requested output name *)
Definition setup_names (name : list Z) : list Z * list Z :=
  let o := normalize_out name in (o, temp_of o).

(* an input name that the tasks accept *)
Definition allowed_input (name : list Z) : bool :=
  zlist_eqb (suffix name) s_rtdc || zlist_eqb (suffix name) s_tdms.

(* setup_task_paths as a whole.  A path is (directory, file name) with the
   directory *resolved* (the code compares `Path.resolve()`d paths: relative
   paths, "./x", "a/../x" and symlinked directories denote the directory they
   resolve to).  After the suffix correction neither the output path nor its
   temporary path may be one of the inputs - the task refuses to run
   (ValueError) - otherwise the output and the temporary path are returned;
   these are the only two paths setup unlinks. *)
Definition fpath : Type := (Z * list Z)%type.

Definition fpath_eqb (a b : fpath) : bool :=
  (fst a =? fst b) && zlist_eqb (snd a) (snd b).

Definition setup_paths_at (inputs : list fpath) (d : Z) (name : list Z)
  : option (fpath * fpath) :=
  let o := (d, normalize_out name) in
  let t := (d, temp_of (normalize_out name)) in
  if existsb (fpath_eqb o) inputs || existsb (fpath_eqb t) inputs
  then None else Some (o, t).

(* several requested outputs (lists: tdms2rtdc on a folder, any caller of
   setup_task_paths with lists): `for po in paths_out + paths_temp: refuse if
   po.resolve() is an input`; then every output and every temporary path is
   unlinked when it exists - [unlink_set] is exactly what setup may remove *)
Definition out_tmp (r : fpath) : fpath * fpath :=
  ((fst r, normalize_out (snd r)), (fst r, temp_of (normalize_out (snd r)))).

Definition unlink_set (reqs : list fpath) : list fpath :=
  map (fun r => fst (out_tmp r)) reqs ++ map (fun r => snd (out_tmp r)) reqs.

Definition setup_paths_list (inputs reqs : list fpath)
  : option (list (fpath * fpath)) :=
  if existsb (fun p => existsb (fpath_eqb p) inputs) (unlink_set reqs)
  then None else Some (map out_tmp reqs).

(* one directory *)
Definition setup_paths (inputs : list (list Z)) (name : list Z)
  : option (list Z * list Z) :=
  match setup_paths_at (map (fun n => (0, n)) inputs) 0 name with
  | None => None
  | Some (o, t) => Some (snd o, snd t)
  end.

(* flat result: [-2] when refused, else out ++ [-1] ++ temp;
   q = ((input dir, input name), (output dir, requested name)) *)
Definition setup_at_flat (q : fpath * fpath) : list Z :=
  match setup_paths_at [fst q] (fst (snd q)) (snd (snd q)) with
  | None => [-2]
  | Some (o, t) => snd o ++ [-1] ++ snd t
  end.

Definition setup_paths_flat (q : list Z * list Z) : list Z :=
  setup_at_flat ((0, fst q), (0, snd q)).

(* split: <stem>_<NNNN>.rtdc, where the input name is <stem><suffix> *)
Definition underscore : Z := 95.
Definition split_out (stem digits : list Z) : list Z :=
  stem ++ [underscore] ++ digits ++ s_rtdc.

(* flat result for the correspondence check: out ++ [-1] ++ temp *)
Definition setup_flat (name : list Z) : list Z :=
  let (o, t) := setup_names name in o ++ [-1] ++ t.
