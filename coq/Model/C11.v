(* Model of dclab's metadata normalisation (property C11).
   Executable definitions only; proofs are in Proofs/C11.v.

   Follows (with the repairs of fixes_proposed/C11-*.diff applied):
     dclab/definitions/meta_parse.py   fint fbool fboolorfloat fintlist
                                       f1dfloatduple f2dfloatarray lcstr
                                       (+ builtins str, float)      -> apply
     dclab/definitions/meta_logic.py   config_key_exists            -> key_exists
                                       get_config_value_func        -> func_of
     dclab/rtdc_dataset/config.py      verify_section_key           -> verify
                                       ConfigurationDict.__setitem__-> setitem
                                       ConfigurationDict.update     -> update
                                       Configuration.update/__init__-> cfg_update
                                       load_from_file (one line)    -> line_route
                                       keyval_typ2str / tostring    -> typ2str
                                       keyval_str2typ               -> str2typ
     writer.py:store_metadata + h5py attribute + parse_config       -> h5 / h5_route

   Values are Python/numpy values.  Strings are lists of code points, floats
   are exact: [FFin m] is m/8 (the generators emit multiples of 1/8 only; the
   rounding of binary64 is not modelled), NaN and the infinities are explicit.
   The key -> converter table and the list of scalar feature names are
   parameters of the model; the instance used by the theorems of Props/C11.v
   and by the correspondence check is generated from the source tree
   (Gen/MetaTable.v, harness/translators/tables.py). *)
From Coq Require Import ZArith List Bool.
Import ListNotations.
Open Scope Z_scope.

(* ------------------------------------------------------------------ *)
(* strings                                                             *)
(* ------------------------------------------------------------------ *)
Definition str := list Z.

Definition is_upper (c : Z) : bool := (65 <=? c) && (c <=? 90).
Definition lower_c (c : Z) : Z := if is_upper c then c + 32 else c.
Definition lower (s : str) : str := map lower_c s.

Fixpoint str_eqb (a b : str) : bool :=
  match a, b with
  | [], [] => true
  | x :: a', y :: b' => (x =? y) && str_eqb a' b'
  | _, _ => false
  end.

(* str.strip() without arguments: ASCII white space *)
Definition is_ws (c : Z) : bool := (c =? 32) || ((9 <=? c) && (c <=? 13)).

Fixpoint lstrip_by (p : Z -> bool) (s : str) : str :=
  match s with
  | c :: t => if p c then lstrip_by p t else s
  | [] => []
  end.
Definition rstrip_by (p : Z -> bool) (s : str) : str :=
  rev (lstrip_by p (rev s)).
Definition strip_by (p : Z -> bool) (s : str) : str :=
  rstrip_by p (lstrip_by p s).
Definition strip (s : str) : str := strip_by is_ws s.

Fixpoint starts_with (pre s : str) : bool :=
  match pre, s with
  | [], _ => true
  | x :: p', y :: s' => (x =? y) && starts_with p' s'
  | _ :: _, [] => false
  end.
Definition ends_with (suf s : str) : bool := starts_with (rev suf) (rev s).

(* str.split(sep) for a one-character separator: always at least one part *)
Fixpoint split_on (sep : Z) (s : str) : list str :=
  match s with
  | [] => [[]]
  | c :: t =>
      if c =? sep then [] :: split_on sep t
      else match split_on sep t with
           | h :: r => (c :: h) :: r
           | [] => [[c]]
           end
  end.

(* s.split(" ", 1)[0] *)
Fixpoint first_word (s : str) : str :=
  match s with
  | [] => []
  | c :: t => if c =? 32 then [] else c :: first_word t
  end.

Fixpoint count_c (x : Z) (s : str) : Z :=
  match s with
  | [] => 0
  | c :: t => (if c =? x then 1 else 0) + count_c x t
  end.

Fixpoint mem_str (x : str) (l : list str) : bool :=
  match l with
  | [] => false
  | y :: t => str_eqb x y || mem_str x t
  end.

(* frequently used literals *)
Definition s_true : str := [116; 114; 117; 101].
Definition s_false : str := [102; 97; 108; 115; 101].
Definition s_True : str := [84; 114; 117; 101].
Definition s_False : str := [70; 97; 108; 115; 101].
Definition s_None : str := [78; 111; 110; 101].
Definition s_nan : str := [110; 97; 110].
Definition s_inf : str := [105; 110; 102].
Definition s_infinity : str := [105; 110; 102; 105; 110; 105; 116; 121].
Definition s_user : str := [117; 115; 101; 114].
Definition s_online_filter : str :=
  [111; 110; 108; 105; 110; 101; 95; 102; 105; 108; 116; 101; 114].
Definition s_filtering : str := [102; 105; 108; 116; 101; 114; 105; 110; 103].
Definition s_plotting : str := [112; 108; 111; 116; 116; 105; 110; 103].
Definition s_analysis : str := [97; 110; 97; 108; 121; 115; 105; 115].
Definition s_soft_limit : str := [115; 111; 102; 116; 32; 108; 105; 109; 105; 116].
Definition s_polygon_points : str :=
  [112; 111; 108; 121; 103; 111; 110; 32; 112; 111; 105; 110; 116; 115].
Definition s_sp_min : str := [32; 109; 105; 110].
Definition s_sp_max : str := [32; 109; 97; 120].
Definition s_limit_events_auto : str :=
  [108; 105; 109; 105; 116; 32; 101; 118; 101; 110; 116; 115; 32; 97; 117; 116; 111].
Definition s_ml_score_ : str := [109; 108; 95; 115; 99; 111; 114; 101; 95].

(* ------------------------------------------------------------------ *)
(* values                                                              *)
(* ------------------------------------------------------------------ *)
Inductive fl := FFin (m : Z) (* m / 8 *) | FNaN | FPInf | FNInf.

(* float(n) is exact up to 2**53; beyond, binary64 rounds, which is not
   modelled: such conversions are outside the model *)
Definition exact_int (n : Z) : bool := Z.abs n <=? 2 ^ 53.
Definition exact_fl (f : fl) : bool :=
  match f with FFin m => Z.abs m <=? 8 * 2 ^ 53 | _ => true end.


Inductive scalar :=
| SNone
| SStr (s : str) | SBytes (s : str)
| SBool (b : bool) | SInt (n : Z) | SFloat (f : fl)
| SNpBool (b : bool) | SNpInt (n : Z) | SNpF64 (f : fl) | SNpF32 (f : fl).

Inductive dtype := DBool | DInt | DF64.

(* an integer array converts to float exactly only below 2**53 *)
Definition arr_exact (d : dtype) (l : list fl) : bool :=
  match d with DInt => forallb exact_fl l | _ => true end.

Inductive value :=
| VS (x : scalar)
| VSeq (tup : bool) (l : list scalar)          (* list / tuple of scalars *)
| VSeq2 (tup : bool) (l : list (list scalar))  (* list / tuple of lists *)
| VArr0 (d : dtype) (x : fl)                   (* numpy arrays, ndim 0, 1, 2 *)
| VArr1 (d : dtype) (l : list fl)
| VArr2 (d : dtype) (l : list (list fl)).

Inductive err := EValue | EType | EOverflow | EAttr | EKey | EOther.

(* [Unmod]: the input is outside the modelled fragment (e.g. a decimal string
   that is not a multiple of 1/8); the correspondence check never compares
   such a case, and no theorem concludes anything from it. *)
Inductive res (A : Type) := Ok (a : A) | Raise (e : err) | Unmod.
Arguments Ok {A} a.
Arguments Raise {A} e.
Arguments Unmod {A}.

Definition bind {A B} (r : res A) (f : A -> res B) : res B :=
  match r with Ok a => f a | Raise e => Raise e | Unmod => Unmod end.

Fixpoint mapM {A B} (f : A -> res B) (l : list A) : res (list B) :=
  match l with
  | [] => Ok []
  | x :: t => bind (f x) (fun y => bind (mapM f t) (fun r => Ok (y :: r)))
  end.

(* ------------------------------------------------------------------ *)
(* float(str), str(number)                                             *)
(* ------------------------------------------------------------------ *)
Definition is_digit (c : Z) : bool := (48 <=? c) && (c <=? 57).

Fixpoint span_digits (s : str) : str * str :=
  match s with
  | c :: t => if is_digit c then let (d, r) := span_digits t in (c :: d, r)
              else ([], s)
  | [] => ([], [])
  end.

Definition digits_val (d : str) : Z :=
  fold_left (fun a c => 10 * a + (c - 48)) d 0.

Definition len {A} (l : list A) : Z := Z.of_nat (length l).

Definition fneg (f : fl) : fl :=
  match f with FFin m => FFin (- m) | FNaN => FNaN | FPInf => FNInf
             | FNInf => FPInf end.

(* Python's float(s) on the fragment: white space, sign, nan/inf/infinity,
   digits[.digits][e[sign]digits]; results that are not multiples of 1/8, an
   underscore or an exponent beyond 30 are outside the model *)
Definition parse_float (s0 : str) : res fl :=
  let s1 := strip s0 in
  let '(neg, s2) := match s1 with
                    | 45 :: t => (true, t)
                    | 43 :: t => (false, t)
                    | _ => (false, s1)
                    end in
  let sg := fun f => if neg then fneg f else f in
  let l2 := lower s2 in
  if str_eqb l2 s_nan then Ok FNaN
  else if str_eqb l2 s_inf || str_eqb l2 s_infinity then Ok (sg FPInf)
  else if 0 <? count_c 95 s2 then Unmod
  else
    let (ip, r1) := span_digits s2 in
    let (fp, r2) := match r1 with
                    | 46 :: t => span_digits t
                    | _ => ([], r1)
                    end in
    match ip, fp with
    | [], [] => Raise EValue
    | _, _ =>
        let mant := digits_val (ip ++ fp) in
        let finish := fun (ex : Z) =>
          let sc := ex - len fp in
          if (30 <? ex) || (ex <? -30) then Unmod
          else if 0 <=? sc then
                 let r := FFin (8 * mant * 10 ^ sc) in
                 if exact_fl r then Ok (sg r) else Unmod
          else let p := 10 ^ (- sc) in
               if (8 * mant) mod p =? 0 then Ok (sg (FFin (8 * mant / p)))
               else Unmod in
        match r2 with
        | [] => finish 0
        | c :: t =>
            if (c =? 101) || (c =? 69) then
              let '(eneg, t2) := match t with
                                 | 45 :: u => (true, u)
                                 | 43 :: u => (false, u)
                                 | _ => (false, t)
                                 end in
              let (ed, r3) := span_digits t2 in
              match ed, r3 with
              | _ :: _, [] =>
                  if 3 <? len ed then Unmod
                  else finish (if eneg then - digits_val ed else digits_val ed)
              | _, _ => Raise EValue
              end
            else Raise EValue
        end
    end.

Fixpoint digits_fuel (fuel : nat) (n : Z) (acc : str) : str :=
  match fuel with
  | O => acc
  | S f => let acc' := (48 + n mod 10) :: acc in
           if n <? 10 then acc' else digits_fuel f (n / 10) acc'
  end.
Definition digits_of (n : Z) : str :=
  digits_fuel (S (Z.to_nat (Z.log2 n))) n [].

Definition repr_int (n : Z) : str :=
  if n <? 0 then 45 :: digits_of (- n) else digits_of n.

(* repr(float) for multiples of 1/8 below 1e16 *)
Definition repr_fl (f : fl) : res str :=
  match f with
  | FNaN => Ok s_nan
  | FPInf => Ok s_inf
  | FNInf => Ok (45 :: s_inf)
  | FFin m =>
      let a := Z.abs m in
      let ip := a / 8 in
      if 10 ^ 16 <=? ip then Unmod
      else
        let fr := (a mod 8) * 125 in
        let d3 := [48 + fr / 100; 48 + (fr / 10) mod 10; 48 + fr mod 10] in
        let d := rstrip_by (fun c => c =? 48) d3 in
        let d := match d with [] => [48] | _ => d end in
        Ok ((if m <? 0 then [45] else []) ++ digits_of ip ++ [46] ++ d)
  end.

(* repr(bytes) for printable ASCII without quote and backslash *)
Definition plain_c (c : Z) : bool :=
  (32 <=? c) && (c <=? 126) && negb (c =? 39) && negb (c =? 92).
Definition repr_bytes (s : str) : res str :=
  if forallb plain_c s then Ok ([98; 39] ++ s ++ [39]) else Unmod.

(* ------------------------------------------------------------------ *)
(* Python conversions                                                  *)
(* ------------------------------------------------------------------ *)
Definition fl_of_bool (b : bool) : fl := FFin (if b then 8 else 0).
Definition fl_of_int (n : Z) : fl := FFin (8 * n).


Definition py_float_scalar (x : scalar) : res fl :=
  match x with
  | SNone => Raise EType
  | SStr s | SBytes s => parse_float s
  | SBool b | SNpBool b => Ok (fl_of_bool b)
  | SInt n | SNpInt n => if exact_int n then Ok (fl_of_int n) else Unmod
  | SFloat f | SNpF64 f | SNpF32 f => Ok f
  end.

Definition py_float (v : value) : res fl :=
  match v with
  | VS x => py_float_scalar x
  | VArr0 d x => if arr_exact d [x] then Ok x else Unmod
  | _ => Raise EType
  end.

Definition int_of_fl (f : fl) : res Z :=
  match f with
  | FFin m => Ok (Z.quot m 8)
  | FNaN => Raise EValue
  | _ => Raise EOverflow
  end.

Definition fl_is_zero (f : fl) : bool :=
  match f with FFin m => m =? 0 | _ => false end.
Definition bool_of_fl (f : fl) : bool := negb (fl_is_zero f).

(* --- meta_parse.fint ------------------------------------------------ *)
Definition fint_z (v : value) : res Z :=
  match v with
  | VS (SStr s) =>
      let s' := lower s in
      if str_eqb s' s_false then Ok 0
      else if str_eqb s' s_true then Ok 1
      else match s' with
           | _ :: _ => bind (parse_float s') int_of_fl
           | [] => Raise EValue
           end
  | VS (SInt n) | VS (SNpInt n) => Ok n          (* numbers.Integral: exact *)
  | VS (SBool b) => Ok (if b then 1 else 0)
  | _ => bind (py_float v) int_of_fl
  end.
Definition fint (v : value) : res value :=
  bind (fint_z v) (fun n => Ok (VS (SInt n))).

(* --- meta_parse.fbool ----------------------------------------------- *)
Definition fbool_b (v : value) : res bool :=
  match v with
  | VS (SStr s) =>
      let s' := lower s in
      if str_eqb s' s_false then Ok false
      else if str_eqb s' s_true then Ok true
      else match s' with
           | _ :: _ => bind (parse_float s') (fun f => Ok (bool_of_fl f))
           | [] => Raise EValue
           end
  | _ => bind (py_float v) (fun f => Ok (bool_of_fl f))
  end.
Definition fbool (v : value) : res value :=
  bind (fbool_b v) (fun b => Ok (VS (SBool b))).

(* --- meta_parse.fboolorfloat (repaired: np.bool_, numbers.Real) ------ *)
(* [value == 0]; None when the truth value of the comparison is itself an
   error (arrays with more than one element) or not modelled *)
Definition eq_zero (v : value) : res bool :=
  match v with
  | VS (SBool b) | VS (SNpBool b) => Ok (negb b)
  | VS (SInt n) | VS (SNpInt n) => Ok (n =? 0)
  | VS (SFloat f) | VS (SNpF64 f) | VS (SNpF32 f) => Ok (fl_is_zero f)
  | VS _ => Ok false
  | VSeq _ _ | VSeq2 _ _ => Ok false
  | VArr0 _ x => Ok (fl_is_zero x)
  | VArr1 _ (_ :: _ :: _) => Raise EValue     (* ambiguous truth value *)
  | VArr2 _ ((_ :: _ :: _) :: _) => Raise EValue
  | VArr2 _ (_ :: _ :: _) => Raise EValue
  | _ => Unmod                                (* arrays of size 0 or 1 *)
  end.

Definition is_real (v : value) : bool :=
  match v with
  | VS (SInt _) | VS (SNpInt _) | VS (SFloat _) | VS (SNpF64 _)
  | VS (SNpF32 _) | VS (SBool _) => true
  | _ => false
  end.

Definition fboolorfloat (v : value) : res value :=
  match v with
  | VS (SStr _) | VS (SBool _) | VS (SNpBool _) => fbool v
  | _ =>
      bind (eq_zero v) (fun z =>
        if z then fbool v
        else if is_real v then
               bind (py_float v) (fun f => Ok (VS (SFloat f)))
             else Raise EValue)
  end.

(* --- meta_parse.fintlist (repaired: zeros are kept) ------------------ *)
Definition truthy_or_number (x : scalar) : bool :=
  match x with
  | SNone => false
  | SStr s | SBytes s => match s with [] => false | _ => true end
  | _ => true
  end.

Fixpoint fintlist_items (l : list value) : res (list scalar) :=
  match l with
  | [] => Ok []
  | it :: t =>
      let keep := match it with
                  | VS x => truthy_or_number x
                  | VSeq _ l' => match l' with [] => false | _ => true end
                  | _ => true
                  end in
      if keep then
        bind (fint_z it) (fun n =>
          bind (fintlist_items t) (fun r => Ok (SInt n :: r)))
      else fintlist_items t
  end.

Definition is_bracket_or_space (c : Z) : bool :=
  (c =? 91) || (c =? 93) || (c =? 32).

Definition fintlist (v : value) : res value :=
  let items :=
    match v with
    | VSeq _ l => Ok (map VS l)
    | VSeq2 _ l => Ok (map (VSeq false) l)
    | VS (SStr s) =>
        Ok (map (fun p => VS (SStr p))
                (split_on 44 (strip_by is_bracket_or_space (strip s))))
    | VS (SBytes _) => Raise EType
    | _ => Raise EAttr
    end in
  bind items (fun its =>
    bind (fintlist_items its) (fun r => Ok (VSeq false r))).

(* --- meta_parse.f1dfloatduple ---------------------------------------- *)
Definition f1dfloatduple (v : value) : res value :=
  let elems :=
    match v with
    | VSeq _ l => mapM py_float_scalar l
    | VArr1 d l => if arr_exact d l then Ok l else Unmod
    | _ => Raise EValue          (* ndim != 1, or a ragged nesting *)
    end in
  bind elems (fun fs =>
    match fs with
    | [a; b] => Ok (VSeq true [SFloat a; SFloat b])
    | _ => Raise EValue
    end).

(* --- meta_parse.f2dfloatarray ---------------------------------------- *)
Definition np_float_scalar (x : scalar) : res fl :=
  match x with
  | SNone => Ok FNaN
  | _ => match py_float_scalar x with
         | Raise _ => Raise EValue
         | r => r
         end
  end.

Fixpoint all_len {A} (n : nat) (l : list (list A)) : bool :=
  match l with
  | [] => true
  | r :: t => Nat.eqb (length r) n && all_len n t
  end.

Definition f2dfloatarray (v : value) : res value :=
  match v with
  | VS x => bind (np_float_scalar x) (fun f => Ok (VArr0 DF64 f))
  | VSeq _ l => bind (mapM np_float_scalar l) (fun fs => Ok (VArr1 DF64 fs))
  | VSeq2 _ l =>
      match l with
      | [] => Ok (VArr1 DF64 [])
      | r :: _ =>
          if all_len (length r) l then
            bind (mapM (mapM np_float_scalar) l) (fun rows =>
              Ok (VArr2 DF64 rows))
          else Raise EValue
      end
  | VArr0 d x => if arr_exact d [x] then Ok (VArr0 DF64 x) else Unmod
  | VArr1 d l => if arr_exact d l then Ok (VArr1 DF64 l) else Unmod
  | VArr2 d l => if arr_exact d (concat l) then Ok (VArr2 DF64 l)
                 else Unmod
  end.

(* --- meta_parse.lcstr, builtins str and float ------------------------- *)
Definition lcstr (v : value) : res value :=
  match v with
  | VS (SStr s) => Ok (VS (SStr (lower s)))
  | VS (SBytes s) => Ok (VS (SBytes (lower s)))
  | _ => Raise EAttr
  end.

Definition py_str (v : value) : res value :=
  match v with
  | VS x =>
      bind (match x with
            | SNone => Ok s_None
            | SStr s => Ok s
            | SBytes s => repr_bytes s
            | SBool b | SNpBool b => Ok (if b then s_True else s_False)
            | SInt n | SNpInt n => Ok (repr_int n)
            | SFloat f | SNpF64 f | SNpF32 f => repr_fl f
            end) (fun s => Ok (VS (SStr s)))
  | _ => Unmod
  end.

(* --- meta_parse.fnumber (online_filter "<feat> min/max") -------------- *)
Definition is_number (v : value) : bool :=
  match v with
  | VS (SBool _) | VS (SInt _) | VS (SFloat _) | VS (SNpInt _)
  | VS (SNpF64 _) | VS (SNpF32 _) => true
  | _ => false
  end.

Definition py_floatv (v : value) : res value :=
  bind (py_float v) (fun f => Ok (VS (SFloat f))).

Definition fnumber (v : value) : res value :=
  if is_number v then Ok v else py_floatv v.

(* the converter functions that occur in the tables; [CId] stands for "no
   converter" (get_config_value_func returns the identity) *)
Inductive conv :=
| CStr | CFloat | CFint | CFbool | CFboolorfloat | CFintlist | CF1d | CF2d
| CLcstr | CFnumber | CId.

Definition apply (c : conv) (v : value) : res value :=
  match c with
  | CStr => py_str v
  | CFloat => py_floatv v
  | CFint => fint v
  | CFbool => fbool v
  | CFboolorfloat => fboolorfloat v
  | CFintlist => fintlist v
  | CF1d => f1dfloatduple v
  | CF2d => f2dfloatarray v
  | CLcstr => lcstr v
  | CFnumber => fnumber v
  | CId => Ok v
  end.

(* ------------------------------------------------------------------ *)
(* documented types (meta_parse.func_types / meta_const.config_types)  *)
(* ------------------------------------------------------------------ *)
Inductive pytype :=
| TStr | TFloat | TBool | TNpBool | TIntegral | TNumber | TList | TTuple
| TNdarray.

Definition has_type (t : pytype) (v : value) : bool :=
  match t, v with
  | TStr, VS (SStr _) => true
  | TFloat, VS (SFloat _) | TFloat, VS (SNpF64 _) => true
  | TBool, VS (SBool _) => true
  | TNpBool, VS (SNpBool _) => true
  | TIntegral, VS (SInt _) | TIntegral, VS (SNpInt _)
  | TIntegral, VS (SBool _) => true
  | TNumber, VS (SInt _) | TNumber, VS (SNpInt _) | TNumber, VS (SBool _)
  | TNumber, VS (SFloat _) | TNumber, VS (SNpF64 _)
  | TNumber, VS (SNpF32 _) => true
  | TList, VSeq false _ | TList, VSeq2 false _ => true
  | TTuple, VSeq true _ | TTuple, VSeq2 true _ => true
  | TNdarray, VArr0 _ _ | TNdarray, VArr1 _ _ | TNdarray, VArr2 _ _ => true
  | _, _ => false
  end.

Definition has_some_type (ts : list pytype) (v : value) : bool :=
  existsb (fun t => has_type t v) ts.

(* the type of every successful result of a converter *)
Definition out_types (c : conv) : list pytype :=
  match c with
  | CStr | CLcstr => [TStr]
  | CFloat => [TFloat]
  | CFint => [TIntegral]
  | CFbool => [TBool]
  | CFboolorfloat => [TBool; TFloat]
  | CFintlist => [TList]
  | CF1d => [TTuple]
  | CF2d => [TNdarray]
  | CFnumber => [TNumber]
  | CId => []
  end.

Definition pytype_eqb (a b : pytype) : bool :=
  match a, b with
  | TStr, TStr | TFloat, TFloat | TBool, TBool | TNpBool, TNpBool
  | TIntegral, TIntegral | TNumber, TNumber | TList, TList | TTuple, TTuple
  | TNdarray, TNdarray => true
  | _, _ => false
  end.

(* t is at least as wide as u *)
Definition type_covers (t u : pytype) : bool :=
  pytype_eqb t u ||
  match t, u with
  | TNumber, TFloat | TNumber, TIntegral | TNumber, TBool
  | TIntegral, TBool => true
  | _, _ => false
  end.

(* ------------------------------------------------------------------ *)
(* key tables and validation                                           *)
(* ------------------------------------------------------------------ *)
Record row := mkrow { r_sec : str; r_key : str; r_conv : conv;
                      r_types : list pytype; r_meta : bool }.

Section Tables.
  Variable tbl : list row.          (* meta_const.config_funcs/config_types *)
  Variable feats : list str.        (* feat_const.scalar_feature_names *)
  Variable sections : list str.     (* sections of CFG_METADATA *)

  Fixpoint lookup_row (l : list row) (sec key : str) : option row :=
    match l with
    | [] => None
    | r :: t => if str_eqb (r_sec r) sec && str_eqb (r_key r) key
                then Some r else lookup_row t sec key
    end.

  Definition is_lc_alnum (c : Z) : bool :=
    is_digit c || ((97 <=? c) && (c <=? 122)).

  (* feat_logic.scalar_feature_exists: a name of the list or ml_score_xxx *)
  Definition feat_exists (name : str) : bool :=
    mem_str name feats ||
    (starts_with s_ml_score_ name &&
     match skipn 9 name with
     | [a; b; c] => is_lc_alnum a && is_lc_alnum b && is_lc_alnum c
     | _ => false
     end).

  (* meta_logic.config_key_exists (repaired: any number of commas) *)
  Definition key_exists (sec key : str) : bool :=
    if str_eqb sec s_user then
      match strip key with [] => false | _ => true end
    else match lookup_row tbl sec key with
    | Some _ => true
    | None =>
      if str_eqb sec s_online_filter then
        if (0 <? count_c 44 key) &&
           (ends_with s_soft_limit key || ends_with s_polygon_points key)
        then match split_on 44 (first_word key) with
             | [f1; f2] => feat_exists f1 && feat_exists f2
             | _ => false
             end
        else feat_exists (first_word key)
      else false
    end.

  (* meta_logic.get_config_value_func *)
  Definition func_of (sec key : str) : conv :=
    if str_eqb sec s_user then CId
    else match lookup_row tbl sec key with
    | Some r => r_conv r
    | None =>
      if str_eqb sec s_online_filter then
        if ends_with s_soft_limit key then CFbool
        else if ends_with s_polygon_points key then CF2d
        else if ends_with [109; 105; 110] key || ends_with [109; 97; 120] key
             then CFnumber
        else CId
      else CId
    end.

  (* meta_logic.get_config_value_type; [] is "no type defined" *)
  Definition types_of (sec key : str) : list pytype :=
    if str_eqb sec s_user then []
    else match lookup_row tbl sec key with
    | Some r => r_types r
    | None =>
      if str_eqb sec s_online_filter then
        if ends_with s_soft_limit key then [TBool; TNpBool]
        else if ends_with s_polygon_points key then [TNdarray]
        else if ends_with [109; 105; 110] key || ends_with [109; 97; 120] key
             then [TNumber]
        else []
      else []
    end.

  Inductive warning :=
  | WUnknown | WEmpty | WBadValue | WBadUserKey | WDeprecated.

  (* config.verify_section_key: None = valid, Some w = the warning issued *)
  Definition verify (sec key : str) : option warning :=
    if key_exists sec key then None
    else if str_eqb sec s_plotting || str_eqb sec s_analysis then Some WUnknown
    else if str_eqb sec s_filtering then
      if ends_with s_sp_min key || ends_with s_sp_max key then
        if feat_exists (firstn (length key - 4) key) then None
        else Some WUnknown
      else if str_eqb key s_limit_events_auto then Some WDeprecated
      else Some WUnknown
    else if str_eqb sec s_user then Some WBadUserKey
    else Some WUnknown.

  (* ---------------------------------------------------------------- *)
  (* ConfigurationDict                                                 *)
  (* ---------------------------------------------------------------- *)
  Definition dict := list (str * value).

  Fixpoint dget (d : dict) (k : str) : option value :=
    match d with
    | [] => None
    | (k', v) :: t => if str_eqb k k' then Some v else dget t k
    end.

  Fixpoint dset (d : dict) (k : str) (v : value) : dict :=
    match d with
    | [] => [(k, v)]
    | (k', v') :: t => if str_eqb k k' then (k', v) :: t
                       else (k', v') :: dset t k v
    end.

  (* what an assignment does: the new dictionary and the warnings issued (in
     order), or the exception raised by the converter *)
  Inductive outcome :=
  | Done (d : dict) (w : list warning)
  | Exc (e : err)
  | OUnmod.

  (* bytes.decode("utf-8") on ASCII *)
  Definition decode (v : value) : res value :=
    match v with
    | VS (SBytes s) => if forallb (fun c => c <? 128) s then Ok (VS (SStr s))
                       else Unmod
    | _ => Ok v
    end.

  (* ConfigurationDict.__setitem__ for a dictionary with a section (repaired:
     byte strings are decoded first) *)
  Definition setitem (sec key : str) (v0 : value) (d : dict) : outcome :=
    let key := lower key in
    match decode v0 with
    | Unmod => OUnmod
    | Raise e => Exc e
    | Ok v =>
      let w1 := match verify sec key with
                | Some w => [w]
                | None => match v with
                          | VS (SStr []) => [WEmpty]
                          | _ => []
                          end
                end in
      let w2 := match v with VS SNone => [WBadValue] | _ => [] end in
      match w1 ++ w2 with
      | [] =>
          match apply (func_of sec key) v with
          | Ok w => Done (dset d key w) []
          | Raise e => Exc e
          | Unmod => OUnmod
          end
      | ws => Done d ws
      end
    end.

  (* ConfigurationDict.update / Configuration.update for one section / the
     constructor Configuration(cfg=...): item assignment, key by key; an
     exception aborts the loop *)
  Fixpoint update (sec : str) (items : list (str * value)) (d : dict)
    : outcome :=
    match items with
    | [] => Done d []
    | (k, v) :: t =>
        match setitem sec k v d with
        | Done d' ws =>
            match update sec t d' with
            | Done d'' ws' => Done d'' (ws ++ ws')
            | o => o
            end
        | o => o
        end
    end.

  (* ---------------------------------------------------------------- *)
  (* configuration file: one "key = text" entry of section sec         *)
  (* ---------------------------------------------------------------- *)
  Definition is_quote (c : Z) : bool := (c =? 39) || (c =? 34).
  Definition strip_sq (s : str) := strip_by (fun c => (c =? 39) || (c =? 32)) s.
  Definition strip_dq (s : str) := strip_by (fun c => (c =? 34) || (c =? 32)) s.

  (* keyval_str2typ on the stripped value (used for keys that
     config_key_exists does not know, e.g. the box filter ranges) *)
  Definition str2typ (val : str) : res value :=
    let val := strip val in
    let lv := lower val in
    match val with
    | [] => Unmod
    | c0 :: _ =>
      if starts_with [91] val && ends_with [93] val then
        let inner := strip_by (fun c => (c =? 91) || (c =? 93) || (c =? 44)) val in
        match inner with
        | [] => Ok (VSeq false [])
        | _ => bind (mapM parse_float (split_on 44 inner)) (fun fs =>
                 Ok (VSeq false (map SFloat fs)))
        end
      else if str_eqb lv s_true || str_eqb lv [121] then Ok (VS (SBool true))
      else if str_eqb lv s_false || str_eqb lv [110] then Ok (VS (SBool false))
      else if is_quote c0 && is_quote (last val 0) then
        Ok (VS (SStr (strip (strip_by (fun c => c =? 34)
                                      (strip_by (fun c => c =? 39) val)))))
      else if feat_exists val then Ok (VS (SStr val))
      else if 0 <? count_c 44 val then Unmod   (* decimal comma *)
      else match parse_float val with
           | Ok f => Ok (VS (SFloat f))
           | Raise _ => Ok (VS (SStr val))
           | Unmod => Unmod
           end
    end.

  (* load_from_file, for the text right of "=": the value that is later
     handed to Configuration.update; None = the entry is skipped *)
  Definition load_value (sec var : str) (rawval : str) : res (option value) :=
    (* rawval: the part of the (stripped) line right of the first "=" *)
    let val := strip (strip_dq (strip_sq rawval)) in
    match val with
    | [] => Ok None
    | _ =>
      if key_exists sec var then
        bind (apply (func_of sec var) (VS (SStr val))) (fun w =>
          match w with
          | VS (SStr []) => Ok None           (* len(str(val)) == 0 *)
          | _ => Ok (Some w)
          end)
      else bind (str2typ val) (fun w => Ok (Some w))
    end.

  (* one entry (rawvar "=" rawval) of section sec, then Configuration.update *)
  Definition file_entry (sec rawvar rawval : str) (d : dict) : outcome :=
    let var := lower (strip rawvar) in
    match load_value sec var rawval with
    | Unmod => OUnmod
    | Raise e => Exc e
    | Ok None => Done d []
    | Ok (Some v) =>
        match var with
        | [] => Done d []                     (* len(var) == 0 *)
        | _ => setitem sec var v d
        end
    end.

  (* line.split("#")[0] *)
  Fixpoint before_hash (s : str) : str :=
    match s with
    | [] => []
    | c :: t => if c =? 35 then [] else c :: before_hash t
    end.

  (* line.split("=", 1): at the FIRST "=" *)
  Fixpoint split_first (sep : Z) (s : str) : option (str * str) :=
    match s with
    | [] => None
    | c :: t =>
        if c =? sep then Some ([], t)
        else match split_first sep t with
             | Some (a, b) => Some (c :: a, b)
             | None => None
             end
    end.

  (* load_from_file for one line below the header "[sec]", followed by
     Configuration.update: comments, blank lines, further headers and lines
     without "=" are ignored *)
  Definition line_route (sec line : str) (d : dict) : outcome :=
    let l := strip (before_hash line) in
    match l with
    | [] => Done d []
    | _ =>
      if starts_with [91] l && ends_with [93] l then Done d []
      else match split_first 61 l with
           | None => Done d []
           | Some (rawvar, rawval) => file_entry sec rawvar rawval d
           end
    end.

  (* the line "key = text", as written by hand or by Configuration.tostring *)
  Definition entry_line (key text : str) : str := key ++ [32; 61; 32] ++ text.

  Definition file_route (sec key text : str) (d : dict) : outcome :=
    line_route sec (entry_line key text) d.

  (* config.keyval_typ2str: the text Configuration.tostring writes *)
  Definition fmt12 (m : Z) : str :=
    let a := Z.abs m in
    let fr := (a mod 8) * 125 in
    (if m <? 0 then [45] else []) ++ digits_of (a / 8) ++ [46] ++
    [48 + fr / 100; 48 + (fr / 10) mod 10; 48 + fr mod 10] ++
    [48; 48; 48; 48; 48; 48; 48; 48; 48].

  Definition typ2str_scalar (x : scalar) : res str :=
    match x with
    | SStr s => Ok s
    | SBool b | SNpBool b => Ok (if b then s_True else s_False)
    | SInt n | SNpInt n => Ok (repr_int n)
    | SFloat f | SNpF64 f =>
        match f with
        | FFin m => Ok (fmt12 m)
        | FNaN => Ok s_nan
        | FPInf => Ok s_inf
        | FNInf => Ok (45 :: s_inf)
        end
    | _ => Unmod
    end.

  Fixpoint join_comma (l : list str) : str :=
    match l with
    | [] => []
    | [a] => a
    | a :: t => a ++ [44; 32] ++ join_comma t
    end.

  Definition typ2str (v : value) : res str :=
    match v with
    | VS x => typ2str_scalar x
    | VSeq false l =>
        bind (mapM typ2str_scalar l) (fun ts =>
          Ok ([91] ++ join_comma ts ++ [93]))
    | _ => Unmod
    end.

  (* assignment, Configuration.save, Configuration(files=[...]): what the
     re-loaded configuration holds under the key; [97] when the assignment
     stored nothing *)
  Definition save_load_route (sec key : str) (v : value) : outcome + unit :=
    match setitem sec key v [] with
    | Done d [] =>
        match dget d (lower key) with
        | Some w =>
            match typ2str w with
            | Ok t => inl (line_route sec (entry_line (strip (lower key)) t) [])
            | Raise e => inl (Exc e)
            | Unmod => inl OUnmod
            end
        | None => inr tt
        end
    | Done _ _ => inr tt
    | o => inl o
    end.

  (* ---------------------------------------------------------------- *)
  (* HDF5 attributes                                                   *)
  (* ---------------------------------------------------------------- *)
  Definition int64_ok (n : Z) : bool := (- 2 ^ 63 <=? n) && (n <? 2 ^ 63).

  Definition scalar_is_bool (x : scalar) : bool :=
    match x with SBool _ | SNpBool _ => true | _ => false end.
  Definition scalar_is_intlike (x : scalar) : bool :=
    match x with SBool _ | SNpBool _ | SInt _ | SNpInt _ => true
               | _ => false end.
  Definition scalar_is_num (x : scalar) : bool :=
    match x with SNone | SStr _ | SBytes _ => false | _ => true end.
  Definition scalar_num (x : scalar) : fl :=
    match x with
    | SBool b | SNpBool b => fl_of_bool b
    | SInt n | SNpInt n => fl_of_int n
    | SFloat f | SNpF64 f | SNpF32 f => f
    | _ => FNaN
    end.
  Definition scalar_int_ok (x : scalar) : bool :=
    match x with SInt n | SNpInt n => int64_ok n | _ => true end.

  Definition seq_dtype (l : list scalar) : option dtype :=
    if forallb scalar_is_bool l then
      match l with [] => Some DF64 | _ => Some DBool end
    else if forallb scalar_is_intlike l then
      if forallb scalar_int_ok l then Some DInt else None
    else if forallb scalar_is_num l then Some DF64
    else None.

  (* h5file.attrs[k] = v ; h5file.attrs[k]  (h5py): Python scalars come back
     as numpy scalars, sequences as arrays, 0-d arrays as scalars *)
  Definition h5 (v : value) : res value :=
    match v with
    | VS SNone => Raise EType
    | VS (SStr s) => if forallb (fun c => negb (c =? 0)) s then Ok v else Unmod
    | VS (SBytes s) => Unmod
    | VS (SBool b) | VS (SNpBool b) => Ok (VS (SNpBool b))
    | VS (SInt n) | VS (SNpInt n) =>
        if int64_ok n then Ok (VS (SNpInt n)) else Unmod
    | VS (SFloat f) | VS (SNpF64 f) => Ok (VS (SNpF64 f))
    | VS (SNpF32 f) => Ok (VS (SNpF32 f))
    | VSeq _ l =>
        match seq_dtype l with
        | Some d => Ok (VArr1 d (map scalar_num l))
        | None => Unmod
        end
    | VSeq2 _ l =>
        match l with
        | r :: _ =>
            if all_len (length r) l then
              match seq_dtype (concat l) with
              | Some d => Ok (VArr2 d (map (map scalar_num) l))
              | None => Unmod
              end
            else Unmod
        | [] => Unmod
        end
    | VArr0 DBool x => Ok (VS (SNpBool (bool_of_fl x)))
    | VArr0 DInt x => match x with
                      | FFin m => if int64_ok (Z.quot m 8)
                                  then Ok (VS (SNpInt (Z.quot m 8)))
                                  else Unmod
                      | _ => Unmod
                      end
    | VArr0 DF64 x => Ok (VS (SNpF64 x))
    | VArr1 d l => Ok (VArr1 d l)
    | VArr2 d l => Ok (VArr2 d l)
    end.

  (* RTDCWriter.store_metadata for one entry, then re-opening the file:
     parse_config assigns the attribute to a fresh Configuration *)
  Definition h5_route (sec key : str) (v0 : value) (d : dict) : outcome :=
    match decode v0 with
    | Unmod => OUnmod
    | Raise e => Exc e
    | Ok v =>
      if str_eqb sec s_user then
        match h5 v with
        | Ok x => setitem sec key x d
        | Raise e => Exc e
        | Unmod => OUnmod
        end
      else if negb (mem_str sec sections) || negb (key_exists sec key)
      then Exc EValue
      else
        match apply (func_of sec key) v with
        | Ok w => match h5 w with
                  | Ok x => setitem sec key x d
                  | Raise e => Exc e
                  | Unmod => OUnmod
                  end
        | Raise e => Exc e
        | Unmod => OUnmod
        end
    end.

  (* ---------------------------------------------------------------- *)
  (* Configuration: sections (case-insensitive, repaired)              *)
  (* ---------------------------------------------------------------- *)
  Variable allsecs : list str.      (* keys of config_keys *)

  Definition config := list (str * dict).

  Fixpoint cget (c : config) (s : str) : option dict :=
    match c with
    | [] => None
    | (s', d) :: t => if str_eqb s s' then Some d else cget t s
    end.

  Fixpoint cset (c : config) (s : str) (d : dict) : config :=
    match c with
    | [] => [(s, d)]
    | (s', d') :: t => if str_eqb s s' then (s', d) :: t
                       else (s', d') :: cset t s d
    end.

  Inductive coutcome :=
  | CDone (c : config) (w : list warning)
  | CExc (e : err)
  | CUnmod.

  (* Configuration.update({sec: items}) and Configuration(cfg={sec: items})
     (on top of the configuration c): the section is created when missing *)
  Definition cfg_update (sec : str) (items : list (str * value)) (c : config)
    : coutcome :=
    let ls := lower sec in
    let d := match cget c ls with Some d => d | None => [] end in
    match update ls items d with
    | Done d' ws => CDone (cset c ls d') ws
    | Exc e => CExc e
    | OUnmod => CUnmod
    end.

  (* cfg[sec][key] = v: Configuration.__getitem__ creates known sections
     only, otherwise KeyError *)
  Definition cfg_item (sec key : str) (v : value) (c : config) : coutcome :=
    let ls := lower sec in
    match cget c ls with
    | None => if mem_str ls allsecs || str_eqb ls s_user
              then cfg_update sec [(key, v)] c else CExc EKey
    | Some _ => cfg_update sec [(key, v)] c
    end.

  (* cfg[sec] = items (repaired): the section is REPLACED by a dictionary
     filled by update, i.e. every entry is verified and converted *)
  Definition cfg_setsection (sec : str) (items : list (str * value))
             (c : config) : coutcome :=
    let ls := lower sec in
    match update ls items [] with
    | Done d' ws => CDone (cset c ls d') ws
    | Exc e => CExc e
    | OUnmod => CUnmod
    end.

  (* load_from_file + Configuration.update for a whole file: [cur] is the
     section of the last header; an entry before any header is an error
     (the variable `sec` is unbound) *)
  Fixpoint load_lines (cur : option str) (lines : list str) (c : config)
    : coutcome :=
    match lines with
    | [] => CDone c []
    | line :: rest =>
      let l := strip (before_hash line) in
      match l with
      | [] => load_lines cur rest c
      | _ =>
        if starts_with [91] l && ends_with [93] l then
          let s := lower (firstn (length l - 2) (skipn 1 l)) in
          let c' := match cget c s with
                    | Some _ => c
                    | None => cset c s []
                    end in
          load_lines (Some s) rest c'
        else match split_first 61 l with
        | None => load_lines cur rest c
        | Some _ =>
          match cur with
          | None => CExc EOther
          | Some s =>
            let d := match cget c s with Some d => d | None => [] end in
            match line_route s line d with
            | Done d' ws =>
                match load_lines cur rest (cset c s d') with
                | CDone c'' ws' => CDone c'' (ws ++ ws')
                | o => o
                end
            | Exc e => CExc e
            | OUnmod => CUnmod
            end
          end
        end
      end
    end.

  (* the entries of one section, as a dictionary-level fold *)
  Fixpoint load_section (sec : str) (lines : list str) (d : dict) : outcome :=
    match lines with
    | [] => Done d []
    | line :: rest =>
        match line_route sec line d with
        | Done d' ws =>
            match load_section sec rest d' with
            | Done d'' ws' => Done d'' (ws ++ ws')
            | o => o
            end
        | o => o
        end
    end.

  (* ---------------------------------------------------------------- *)
  (* carry-over: export.hdf5 and the command-line tools                *)
  (* ---------------------------------------------------------------- *)
  (* One hop of export.hdf5 (and of join/split/condense, which export): the
     entry found in the configuration of the source is handed to
     RTDCWriter.store_metadata of the new file, which is then opened.  For
     compress/repack (attributes copied verbatim) a hop is re-opening. *)
  Definition stored_of (key : str) (o : outcome) : option value :=
    match o with
    | Done d [] => dget d (lower key)
    | _ => None
    end.

  Fixpoint carry_hops (n : nat) (sec key : str) (v : value) : outcome :=
    match n with
    | O => h5_route sec key v []
    | S n' =>
        match stored_of key (carry_hops n' sec key v) with
        | Some w => h5_route sec key w []
        | None => carry_hops n' sec key v
        end
    end.

  (* ---------------------------------------------------------------- *)
  (* specification                                                     *)
  (* ---------------------------------------------------------------- *)
  (* what the property says an assignment should store: nothing for an
     unknown key, "" and None, otherwise the value converted once *)
  Definition spec_store (sec key : str) (v : value) : res (option value) :=
    bind (decode v) (fun v =>
      match verify sec (lower key), v with
      | Some _, _ => Ok None
      | None, VS (SStr []) => Ok None
      | None, VS SNone => Ok None
      | None, _ => bind (apply (func_of sec (lower key)) v)
                        (fun w => Ok (Some w))
      end).

  (* "compare equal": Python's ==/numpy.array_equal identify 1, 1.0, True and
     a sequence with the array of its elements; NaN is taken to equal NaN *)
  Inductive nform :=
  | NNone | NText (s : str) | NBytes (s : str) | NNum (f : fl)
  | NVec (l : list fl) | NMat (l : list (list fl)) | NOther.

  Definition nf_scalar (x : scalar) : nform :=
    match x with
    | SNone => NNone
    | SStr s => NText s
    | SBytes s => NBytes s
    | _ => NNum (scalar_num x)
    end.

  Definition nf (v : value) : nform :=
    match v with
    | VS x => nf_scalar x
    | VSeq _ l => if forallb scalar_is_num l then NVec (map scalar_num l)
                  else NOther
    | VSeq2 _ l => if forallb (forallb scalar_is_num) l
                   then NMat (map (map scalar_num) l) else NOther
    | VArr0 _ x => NNum x
    | VArr1 _ l => NVec l
    | VArr2 _ l => NMat l
    end.

  (* ---------------------------------------------------------------- *)
  (* flat encodings for the correspondence check                       *)
  (* ---------------------------------------------------------------- *)
  Definition enc_fl (f : fl) : list Z :=
    match f with FFin m => [0; m] | FNaN => [1; 0] | FPInf => [2; 0]
               | FNInf => [3; 0] end.
  Definition enc_b (b : bool) : Z := if b then 1 else 0.
  Definition enc_scalar (x : scalar) : list Z :=
    match x with
    | SNone => [0]
    | SStr s => 1 :: len s :: s
    | SBytes s => 2 :: len s :: s
    | SBool b => [3; enc_b b]
    | SInt n => [4; n]
    | SFloat f => 5 :: enc_fl f
    | SNpBool b => [6; enc_b b]
    | SNpInt n => [7; n]
    | SNpF64 f => 8 :: enc_fl f
    | SNpF32 f => 9 :: enc_fl f
    end.
  Definition enc_d (d : dtype) : Z :=
    match d with DBool => 0 | DInt => 1 | DF64 => 2 end.
  Definition enc_value (v : value) : list Z :=
    match v with
    | VS x => 10 :: enc_scalar x
    | VSeq t l => 11 :: enc_b t :: len l :: flat_map enc_scalar l
    | VSeq2 t l => 12 :: enc_b t :: len l ::
                   flat_map (fun r => len r :: flat_map enc_scalar r) l
    | VArr0 d x => 13 :: enc_d d :: enc_fl x
    | VArr1 d l => 14 :: enc_d d :: len l :: flat_map enc_fl l
    | VArr2 d l => 15 :: enc_d d :: len l ::
                   flat_map (fun r => len r :: flat_map enc_fl r) l
    end.
  Definition enc_err (e : err) : Z :=
    match e with EValue => 1 | EType => 2 | EOverflow => 3 | EAttr => 4
               | EKey => 5 | EOther => 9 end.
  Definition enc_res (r : res value) : list Z :=
    match r with
    | Ok v => 1 :: enc_value v
    | Raise e => [2; enc_err e]
    | Unmod => [99]
    end.
  Definition enc_warning (w : warning) : Z :=
    match w with WUnknown => 1 | WEmpty => 2 | WBadValue => 3
               | WBadUserKey => 4 | WDeprecated => 5 end.
  (* outcome observed through d.get(lower key) *)
  Definition enc_outcome (key : str) (o : outcome) : list Z :=
    match o with
    | Done d ws =>
        1 :: len ws :: map enc_warning ws ++
        match dget d (lower key) with
        | Some v => 1 :: enc_value v
        | None => [0]
        end
    | Exc e => [2; enc_err e]
    | OUnmod => [99]
    end.

  Definition enc_nf (n : nform) : list Z :=
    match n with
    | NNone => [0]
    | NText s => 1 :: len s :: s
    | NBytes s => 2 :: len s :: s
    | NNum f => 3 :: enc_fl f
    | NVec l => 4 :: len l :: flat_map enc_fl l
    | NMat l => 5 :: len l :: flat_map (fun r => len r :: flat_map enc_fl r) l
    | NOther => [99]
    end.

  (* ConfigurationDict.items(): sorted by key (code point order) *)
  Fixpoint str_leb (a b : str) : bool :=
    match a, b with
    | [], _ => true
    | _ :: _, [] => false
    | x :: a', y :: b' =>
        if x <? y then true else if y <? x then false else str_leb a' b'
    end.

  Fixpoint insert_kv (kv : str * value) (l : dict) : dict :=
    match l with
    | [] => [kv]
    | kv' :: t => if str_leb (fst kv) (fst kv') then kv :: l
                  else kv' :: insert_kv kv t
    end.

  Definition items (d : dict) : dict := fold_right insert_kv [] d.

  (* several assignments to one section (update / constructor with a whole
     dictionary), observed through items() *)
  Definition multi_case (c : str * list (str * value)) : list Z :=
    let (sec, its) := c in
    match update sec its [] with
    | Done d ws =>
        1 :: len ws :: map enc_warning ws ++ len d ::
        flat_map (fun kv => len (fst kv) :: fst kv ++ enc_value (snd kv))
                 (items d)
    | Exc e => [2; enc_err e]
    | OUnmod => [99]
    end.

  (* correspondence entry points; a case is (route, sec, key, value) with
       route 0: item assignment / update / constructor
       route 1: configuration file (the value is the text right of "=")
       route 2: RTDCWriter.store_metadata and re-opening
       route 3: like 0, on a dictionary that already holds the value
                converted once (idempotence of the whole assignment)       *)
  Definition run_case (c : Z * str * str * value) : list Z :=
    let '(route, sec0, key, v) := c in
    (* Configuration lower-cases section names; RTDCWriter.store_metadata
       (routes 2 and 7) takes them as they are *)
    let sec := if (route =? 2) || (route =? 7) then sec0 else lower sec0 in
    if route =? 0 then enc_outcome key (setitem sec key v [])
    else if route =? 1 then
      match v with
      | VS (SStr text) =>
          enc_outcome (strip key) (file_route sec key text [])
      | _ => [98]
      end
    else if route =? 4 then
      match save_load_route sec key v with
      | inl o => enc_outcome (strip key) o
      | inr _ => [97]
      end
    else if route =? 5 then
      (* Configuration.as_dict / tojson: the JSON value of the stored entry,
         observed through the normal form [nf] *)
      match setitem sec key v [] with
      | Done d [] => match dget d (lower key) with
                     | Some w => enc_nf (nf w)
                     | None => [97]
                     end
      | Done _ _ => [97]
      | Exc e => [2; enc_err e]
      | OUnmod => [99]
      end
    else if route =? 2 then enc_outcome key (h5_route sec key v [])
    else if route =? 7 then enc_outcome key (carry_hops 2 sec key v)
    else
      match setitem sec key v [] with
      | Done d [] =>
          match dget d (lower key) with
          | Some w => enc_outcome key (setitem sec key w d)
          | None => [97]
          end
      | o => enc_outcome key o
      end.
  (* Configuration-level cases: (how, sec, items): how 0 = update /
     constructor, 1 = item assignment of the single entry; observed through
     the stored entries of the (lower-case) section, sorted *)
  Definition enc_coutcome (sec : str) (o : coutcome) : list Z :=
    match o with
    | CDone c ws =>
        let d := match cget c (lower sec) with Some d => d | None => [] end in
        1 :: len ws :: map enc_warning ws ++ len d ::
        flat_map (fun kv => len (fst kv) :: fst kv ++ enc_value (snd kv))
                 (items d)
    | CExc e => [2; enc_err e]
    | CUnmod => [99]
    end.

  (* how 0: update/constructor; 1: one item assignment on the empty
     configuration; 2: update with all but the last entry, then item
     assignment of the last one (non-empty section); 3: update with the
     first entry, then cfg[sec] = {the others} *)
  Definition cfg_case (c : Z * str * list (str * value)) : list Z :=
    let '(how, sec, its) := c in
    if how =? 0 then enc_coutcome sec (cfg_update sec its [])
    else if how =? 1 then
      match its with
      | [(k, v)] => enc_coutcome sec (cfg_item sec k v [])
      | _ => [98]
      end
    else if how =? 2 then
      match rev its with
      | (k, v) :: r =>
          match cfg_update sec (rev r) [] with
          | CDone c1 ws1 =>
              match cfg_item sec k v c1 with
              | CDone c2 ws2 => enc_coutcome sec (CDone c2 (ws1 ++ ws2))
              | o => enc_coutcome sec o
              end
          | o => enc_coutcome sec o
          end
      | [] => [98]
      end
    else
      match its with
      | first :: others =>
          match cfg_update sec [first] [] with
          | CDone c1 ws1 =>
              match cfg_setsection sec others c1 with
              | CDone c2 ws2 => enc_coutcome sec (CDone c2 (ws1 ++ ws2))
              | o => enc_coutcome sec o
              end
          | o => enc_coutcome sec o
          end
      | [] => [98]
      end.

  (* a whole configuration file, observed through section sec *)
  Definition file_case (c : str * list str) : list Z :=
    let (sec, lines) := c in enc_coutcome sec (load_lines None lines []).
End Tables.

(* direct call of a converter function *)
Definition conv_of_Z (n : Z) : conv :=
  match n with
  | 0 => CStr | 1 => CFloat | 2 => CFint | 3 => CFbool | 4 => CFboolorfloat
  | 5 => CFintlist | 6 => CF1d | 7 => CF2d | 8 => CLcstr | 9 => CFnumber
  | _ => CId
  end.
Definition conv_case (c : Z * value) : list Z :=
  let (n, v) := c in enc_res (apply (conv_of_Z n) v).
(* twice: f(f(v)) *)
Definition conv_twice_case (c : Z * value) : list Z :=
  let (n, v) := c in
  enc_res (bind (apply (conv_of_Z n) v) (apply (conv_of_Z n))).
