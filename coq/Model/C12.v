(* Model of the analysis entry points of dclab that read filtered events:
     dclab/statistics.py        Statistics.get_feature / __call__, mode,
                                the registered methods, get_statistics
     dclab/rtdc_dataset/core.py get_kde_scatter, get_kde_contour,
                                get_downsampled_scatter, _apply_scale
     dclab/kde_methods.py       ignore_nan_inf (the nan/inf wrapper)
     dclab/kde_contours.py      get_quantile_levels (percentile part)
     dclab/rtdc_dataset/export.py  Export.tsv (data selection)
   Executable definitions only; proofs are in Proofs/C12.v.

   Values: a float is a pair (tag, k): (0,k) = k/8, (1,_) = NaN, (2,_) = +inf,
   (3,_) = -inf (harness/gen.py:fval_list).  Every entry point has the shape
       core o purge(nan/inf) o select mask
   The estimators' numerics (histogram spline, gaussian_kde, product kernel,
   Doane spacing, linspace/meshgrid, grid interpolation, downsample_grid,
   np.log/np.exp) are Section variables: nothing is assumed about them.
   Concrete over Z: event count, %-gated, mean (sum, count), median (x16),
   variance (numerator, n), inter-quartile range (x32), mode (bin index),
   linear-interpolation percentile (np.percentile) used for quantile levels. *)
From Coq Require Import ZArith List Bool.
Import ListNotations.
Open Scope Z_scope.

Definition fv := (Z * Z)%type.
Definition finite (v : fv) : bool := fst v =? 0.
Definition fnan : fv := (1, 0).

(* numpy boolean-mask indexing xs[mask] (equal lengths) *)
Fixpoint select {A} (m : list bool) (xs : list A) : list A :=
  match m, xs with
  | b :: m', x :: xs' => if b then x :: select m' xs' else select m' xs'
  | _, _ => []
  end.

Definition all_true {A} (xs : list A) : list bool := map (fun _ => true) xs.

Fixpoint countp {A} (p : A -> bool) (l : list A) : Z :=
  match l with
  | [] => 0
  | a :: t => (if p a then 1 else 0) + countp p t
  end.

Definition zlen {A} (l : list A) : Z := Z.of_nat (length l).
Definition nthZ (l : list Z) (i : Z) : Z := nth (Z.to_nat i) l 0.

(* x[~(isnan(x)|isinf(x))], values in units of 1/8 *)
Definition purge (xs : list fv) : list Z := map snd (filter finite xs).

(* Filter.update step 4: ds.filter.all after apply_filter().  [mask] is the
   conjunction box & invalid & polygon & manual (& limit) - property C03 *)
Definition filter_all {A} (enable : bool) (mask : list bool) (xs : list A)
  : list bool := if enable then mask else all_true xs.

(* ---------------------------------------------------------------------- *)
(* statistics.py                                                          *)
(* ---------------------------------------------------------------------- *)

(* Statistics.get_feature *)
Definition get_feature (enable : bool) (fall : list bool) (xs : list fv)
  : list Z := purge (if enable then select fall xs else xs).

(* a statistic: NaN or the exact rational num/den *)
Inductive sres := SNaN | SVal (num den : Z).

Definition zsum (l : list Z) : Z := fold_right Z.add 0 l.

Fixpoint insert (a : Z) (l : list Z) : list Z :=
  match l with
  | [] => [a]
  | b :: t => if a <=? b then a :: l else b :: insert a t
  end.
Definition isort (l : list Z) : list Z := fold_right insert [] l.

(* np.average: sum / count; data in 1/8 -> den = 8 * n *)
Definition st_mean (d : list Z) : sres := SVal (zsum d) (8 * zlen d).

(* np.median: middle order statistic, or the mean of the two middle ones;
   x16 = (x8 + x8) *)
Definition median16 (d : list Z) : Z :=
  let s := isort d in
  let n := zlen d in
  if Z.even n then nthZ s (n / 2 - 1) + nthZ s (n / 2)
  else 2 * nthZ s (n / 2).
Definition st_median (d : list Z) : sres := SVal (median16 d) 16.

(* np.std: sqrt(mean(|x - mean|^2)); exact variance =
   (n*sum(x^2) - (sum x)^2) / (64 n^2) *)
Definition var_num (d : list Z) : Z :=
  zlen d * zsum (map (fun x => x * x) d) - zsum d * zsum d.
Definition st_var (d : list Z) : sres :=
  SVal (var_num d) (64 * zlen d * zlen d).

(* np.percentile(d, 100*a/b), method "linear": virtual index h = (n-1)*a/b,
   lo = floor h, result = s[lo] + (s[lo+1]-s[lo]) * (h-lo);  scaled by b.
   [s] is the sorted sample. *)
Definition perc_lo (a b n : Z) : Z := (a * (n - 1)) / b.
Definition perc_rem (a b n : Z) : Z := (a * (n - 1)) mod b.
Definition perc_sorted (a b : Z) (s : list Z) : Z :=
  let n := zlen s in
  let lo := perc_lo a b n in
  let r := perc_rem a b n in
  b * nthZ s lo + r * (nthZ s (lo + 1) - nthZ s lo).
Definition perc_lin (a b : Z) (d : list Z) : Z := perc_sorted a b (isort d).

(* statistics.mode: iqr = P75 - P25 (x 8*4 = 32) *)
Definition iqr32 (d : list Z) : Z := perc_lin 3 4 d - perc_lin 1 4 d.

(* np.round: round half to even of num/den, den > 0 *)
Definition rhe (num den : Z) : Z :=
  let q := num / den in
  let r2 := 2 * (num mod den) in
  if r2 <? den then q
  else if den <? r2 then q + 1
  else if Z.even q then q else q + 1.

(* bin index np.round(data / bin_size) with bin_size = bn/bd > 0 (the float
   2*iqr/n**(1/3) as an exact dyadic rational, supplied by the caller) *)
Definition mode_keys (bn bd : Z) (d : list Z) : list Z :=
  map (fun x => rhe (x * bd) (8 * bn)) d.

(* u[np.argmax(np.bincount(indices))] over the sorted unique keys: the
   smallest key among those with the largest count *)
Fixpoint best_key (cands keys : list Z) (best bc : Z) : Z :=
  match cands with
  | [] => best
  | k :: t => let c := countp (Z.eqb k) keys in
              if bc <? c then best_key t keys k c else best_key t keys best bc
  end.
Definition mode_key (keys : list Z) : Z := best_key (isort keys) keys 0 0.

(* mode: NaN when the bin size is zero; otherwise the bin index k (the
   reported value is k*bin + bin/2) *)
Definition st_mode (bn bd : Z) (d : list Z) : sres :=
  if iqr32 d =? 0 then SNaN else SVal (mode_key (mode_keys bn bd d)) 1.

(* Statistics.__call__ for methods with req_feature *)
Definition stat_call (method : list Z -> sres) (enable : bool)
           (fall : list bool) (xs : list fv) : sres :=
  let data := get_feature enable fall xs in
  match data with
  | [] => SNaN
  | _ => method data
  end.

(* "Events": np.sum(ds.filter.all); "%-gated": np.average(filter.all)*100;
   both NaN for len(ds) == 0 *)
Definition st_events (fall : list bool) : sres :=
  match fall with [] => SNaN | _ => SVal (countp (fun b => b) fall) 1 end.
Definition st_gated (fall : list bool) : sres :=
  match fall with
  | [] => SNaN
  | _ => SVal (100 * countp (fun b => b) fall) (zlen fall)
  end.

(* one feature block of get_statistics: Mean, Median, Mode, SD *)
Definition feature_stats (enable : bool) (fall : list bool) (bn bd : Z)
           (xs : list fv) : list sres :=
  [stat_call st_mean enable fall xs;
   stat_call st_median enable fall xs;
   stat_call (st_mode bn bd) enable fall xs;
   stat_call st_var enable fall xs;
   (* not a dclab statistic: exposes the inter-quartile range used by Mode *)
   stat_call (fun d => SVal (iqr32 d) 32) enable fall xs].

(* get_statistics(ds); [fall] = ds.filter.all as left by apply_filter()
   (len(ds) entries, see filter_all); every feature has len(ds) events *)
Definition get_statistics (enable : bool) (fall : list bool)
           (feats : list (Z * Z * list fv)) : list sres :=
  [st_events fall; st_gated fall]
  ++ flat_map (fun f => let '(bn, bd, xs) := f in
                        feature_stats enable fall bn bd xs) feats.

(* ---------------------------------------------------------------------- *)
(* KDE, contour, quantile, downsampling, tsv: abstract estimators         *)
(* ---------------------------------------------------------------------- *)
Inductive scale := Lin | Log.

Section Analysis.
  Variable D : Type.                 (* density values *)
  Variable dnan : D.
  Variable logf expf : fv -> fv.     (* np.log / np.exp, element-wise *)
  Variable K : Type.                 (* kde type and kde_kwargs *)
  (* the estimator behind ignore_nan_inf and Cache:
     core k events_x events_y xout yout -> density at (xout, yout) *)
  Variable core : K -> list fv -> list fv -> list fv -> list fv -> list D.

  Definition apply_scale (s : scale) (l : list fv) : list fv :=
    match s with Lin => l | Log => map logf l end.
  Definition unscale (s : scale) (l : list fv) : list fv :=
    match s with Lin => l | Log => map expf l end.

  (* ~get_bad_vals(x, y) *)
  Definition good2 (xs ys : list fv) : list bool :=
    map (fun p => finite (fst p) && finite (snd p)) (combine xs ys).

  (* density[~bad] = values ; density[bad] = nan *)
  Fixpoint place (good : list bool) (dens : list D) : list D :=
    match good with
    | [] => []
    | true :: g => match dens with
                   | d :: ds => d :: place g ds
                   | [] => dnan :: place g []
                   end
    | false :: g => dnan :: place g dens
    end.

  (* kde_methods.ignore_nan_inf(kde_method) *)
  Definition wrapped (k : K) (ex ey : list fv)
             (pos : option (list fv * list fv)) : list D :=
    let gin := good2 ex ey in
    let cx := select gin ex in
    let cy := select gin ey in
    match pos with
    | None => place gin (core k cx cy cx cy)
    | Some (px, py) =>
        let gout := good2 px py in
        place gout (core k cx cy (select gout px) (select gout py))
    end.

  (* kde_methods.methods[kde_type]: kde_none is NOT decorated with
     ignore_nan_inf - it returns ones in the shape of xout (or of the events),
     also at nan/inf positions *)
  Variable is_none : K -> bool.
  Variable done : D.
  Definition kde_method (k : K) (ex ey : list fv)
             (pos : option (list fv * list fv)) : list D :=
    if is_none k
    then map (fun _ => done) (match pos with None => ex | Some (px, _) => px end)
    else wrapped k ex ey pos.

  (* RTDCBase.get_kde_scatter *)
  Definition kde_scatter (fall : list bool) (k : K) (sx sy : scale)
             (xs ys : list fv) (pos : option (list fv * list fv)) : list D :=
    let x := select fall xs in
    let y := select fall ys in
    let xsc := apply_scale sx x in
    let ysc := apply_scale sy y in
    let pos' := match pos with
                | None => None
                | Some (px, py) => Some (apply_scale sx px, apply_scale sy py)
                end in
    match x with
    | [] => []
    | _ => kde_method k xsc ysc pos'
    end.

  (* RTDCBase.get_kde_contour *)
  Variable A : Type.                         (* a spacing *)
  Variable spacing : list fv -> A.           (* bin_width_doane (own purge) *)
  (* linspace + meshgrid from user accuracies, Doane spacings and the
     jointly purged scaled data; None = the implementation raises *)
  Variable mesh : option A -> option A -> A -> A -> list fv -> list fv ->
                  option (list fv * list fv).

  Definition kde_contour (fall : list bool) (k : K) (sx sy : scale)
             (xacc yacc : option A) (xs ys : list fv)
    : option (list fv * list fv * list D) :=
    let x := select fall xs in
    let y := select fall ys in
    let xsc := apply_scale sx x in
    let ysc := apply_scale sy y in
    let g := good2 xsc ysc in
    match mesh xacc yacc (spacing xsc) (spacing ysc)
               (select g xsc) (select g ysc) with
    | None => None
    | Some (mx, my) =>
        let dens := match x with
                    | [] => []
                    | _ => kde_method k xsc ysc (Some (mx, my))
                    end in
        Some (unscale sx mx, unscale sy my, dens)
    end.

  (* kde_contours.get_quantile_levels(density, x, y, xp, yp, q = a/b):
     [interp] = density interpolated at one event (integer units) *)
  Variable interp : fv -> fv -> Z.
  Definition event_density (xp yp : list fv) : list Z :=
    let g := good2 xp yp in
    map (fun p => interp (fst p) (snd p))
        (combine (select g xp) (select g yp)).
  Definition quantile_level (a b : Z) (xp yp : list fv) : Z :=
    perc_lin a b (event_density xp yp).
  (* as called for a dataset: xp = ds[xax][ds.filter.all] *)
  Definition ds_quantile_level (fall : list bool) (a b : Z)
             (xs ys : list fv) : Z :=
    quantile_level a b (select fall xs) (select fall ys).

  (* RTDCBase.get_downsampled_scatter; [dsgrid] = downsample_grid's idx *)
  Variable dsgrid : list fv -> list fv -> Z -> bool -> list bool.

  (* mask = zeros(len(ds)); mask[where(filter.all)] = idx *)
  Fixpoint scatter_mask (fall idx : list bool) : list bool :=
    match fall with
    | [] => []
    | true :: f => match idx with
                   | i :: r => i :: scatter_mask f r
                   | [] => false :: scatter_mask f []
                   end
    | false :: f => false :: scatter_mask f idx
    end.

  Definition downsampled (fall : list bool) (sx sy : scale) (samples : Z)
             (rm : bool) (xs ys : list fv)
    : list fv * list fv * list bool :=
    let x := select fall xs in
    let y := select fall ys in
    (* never more than the number of selected events (core.py, fix of C16) *)
    let samples' := Z.min samples (countp (fun b => b) fall) in
    let idx := dsgrid (apply_scale sx x) (apply_scale sy y) samples' rm in
    (select idx x, select idx y, scatter_mask fall idx).

  (* Export.tsv: the data columns written by np.savetxt *)
  Definition tsv_columns (filtered : bool) (fall : list bool)
             (feats : list (list fv)) : list (list fv) :=
    map (fun f => if filtered then select fall f else f) feats.
End Analysis.

(* ---------------------------------------------------------------------- *)
(* flat encodings for the correspondence check                            *)
(* ---------------------------------------------------------------------- *)
Definition enc_sres (r : sres) : list Z :=
  match r with SNaN => [0; 0; 0] | SVal a b => [1; a; b] end.

(* case = (enable, mask, [(bn, bd, feature values)]) *)
Definition stats_flat (case : bool * list bool * list (Z * Z * list fv))
  : list Z :=
  let '(enable, mask, feats) := case in
  flat_map enc_sres (get_statistics enable (filter_all enable mask mask) feats).

(* np.log on the encoding that keeps the argument: log(k/8) is written (0,k);
   log(0) = -inf, log(negative) = nan, log(inf) = inf, log(-inf) = nan *)
Definition logf_enc (v : fv) : fv :=
  let '(t, k) := v in
  if t =? 0 then (if 0 <? k then (0, k) else if k =? 0 then (3, 0) else fnan)
  else if t =? 2 then (2, 0) else fnan.

(* a stand-in estimator with exact arithmetic, mirrored by
   harness/c12.py:fake_kde; order sensitive in the events *)
Fixpoint wsum (i : Z) (l : list fv) : Z :=
  match l with [] => 0 | v :: t => i * snd v + wsum (i + 1) t end.
Definition fake_core (_ : unit) (ex ey xo yo : list fv) : list fv :=
  let base := 3 * wsum 1 ex + 5 * wsum 2 ey + 8 * zlen ex in
  map (fun p => (0, base + 7 * snd (fst p) + 11 * snd (snd p)))
      (combine xo yo).

Definition enc_fv (v : fv) : list Z := [fst v; if fst v =? 0 then snd v else 0].
Definition scale_of (z : Z) : scale := if z =? 0 then Lin else Log.

Definition fake_core_b (_ : bool) := fake_core tt.
Definition fone : fv := (0, 8).

(* case = (enable, mask, sx, sy, xs, ys, haspos, px, py, none) *)
Definition scatter_flat
           (case : bool * list bool * Z * Z * list fv * list fv *
                   bool * list fv * list fv * bool) : list Z :=
  let '(enable, mask, sx, sy, xs, ys, haspos, px, py, none) := case in
  let fall := filter_all enable mask xs in
  flat_map enc_fv
    (kde_scatter fv fnan logf_enc bool fake_core_b (fun b => b) fone fall none
                 (scale_of sx) (scale_of sy) xs ys
                 (if haspos then Some (px, py) else None)).

(* get_kde_contour with explicit accuracies and the stand-in estimator, linear
   scales.  The stand-in for linspace/meshgrid: kx x ky nodes from the minimum
   to the maximum of the jointly finite selected events (the harness chooses
   data whose range is a multiple of the node distance, and accuracies with
   ceil(range/acc) = k); None = the implementation raises (no finite event) *)
Definition zmin (l : list Z) : Z := fold_right Z.min (hd 0 l) l.
Definition zmax (l : list Z) : Z := fold_right Z.max (hd 0 l) l.
Definition lin_nodes (lo hi k : Z) : list Z :=
  map (fun i => if k =? 1 then lo else lo + Z.of_nat i * ((hi - lo) / (k - 1)))
      (seq 0 (Z.to_nat k)).
(* accuracies are written as node counts k (accuracy = range/(k - 1/2));
   [Some 0] is the user value 0.  core.py: "if xacc is None or xacc == 0:
   xacc = xacc_sc / 5", independently for the two axes; [dx dy] are the
   default counts that the (stand-in) Doane spacing yields *)
Definition acc_or_default (user : option Z) (dflt : Z) : Z :=
  match user with
  | None => dflt
  | Some k => if k =? 0 then dflt else k
  end.
Definition mesh_fake (xa ya : option Z) (dx dy : Z) (xc yc : list fv)
  : option (list fv * list fv) :=
  match xc with
  | _ :: _ =>
      let kx := acc_or_default xa dx in
      let ky := acc_or_default ya dy in
      let gx := lin_nodes (zmin (map snd xc)) (zmax (map snd xc)) kx in
      let gy := lin_nodes (zmin (map snd yc)) (zmax (map snd yc)) ky in
      Some (flat_map (fun x => map (fun _ => (0, x)) gy) gx,
            flat_map (fun _ => map (fun y => (0, y)) gy) gx)
  | [] => None
  end.

(* exp on the encoding of logf_enc: log(k/8) is written (0,k) *)
Definition expf_enc (v : fv) : fv := v.

(* case = (enable, mask, sx, sy, xs, ys, xacc, yacc, kd, none): xacc / yacc =
   None, Some 0 or Some k; kd = node count of the default spacing.  On a log
   axis the harness uses 2 nodes (the end points: they are exact in the
   encoding, interior nodes of a logarithmic grid are not dyadic) *)
Definition contour_flat
           (case : bool * list bool * Z * Z * list fv * list fv * option Z *
                   option Z * Z * bool) : list Z :=
  let '(enable, mask, sx, sy, xs, ys, xa, ya, kd, none) := case in
  let fall := filter_all enable mask xs in
  match kde_contour fv fnan logf_enc expf_enc bool fake_core_b
                    (fun b => b) fone Z (fun _ => kd) mesh_fake fall none
                    (scale_of sx) (scale_of sy) xa ya xs ys with
  | None => [1]
  | Some (mx, my, dens) =>
      0 :: zlen mx :: flat_map enc_fv mx ++ flat_map enc_fv my
        ++ flat_map enc_fv dens
  end.

(* get_downsampled_scatter(ret_mask=True) with a stand-in for
   downsample_grid: an event is kept iff it is finite and kx + ky + samples is
   even (or it is not finite and remove_invalid is off) *)
Definition dsgrid_fake (xs ys : list fv) (samples : Z) (rm : bool)
  : list bool :=
  map (fun p => let '(x, y) := p in
                if finite x && finite y
                then Z.even (snd x + snd y + samples)
                else negb rm) (combine xs ys).

(* case = (enable, mask, sx, sy, xs, ys, samples, rm) *)
Definition down_flat
           (case : bool * list bool * Z * Z * list fv * list fv * Z * bool)
  : list Z :=
  let '(enable, mask, sx, sy, xs, ys, samples, rm) := case in
  let fall := filter_all enable mask xs in
  let '(px, py, m) := downsampled logf_enc dsgrid_fake fall (scale_of sx)
                                  (scale_of sy) samples rm xs ys in
  zlen px :: flat_map enc_fv px ++ flat_map enc_fv py
    ++ map (fun b : bool => if b then 1 else 0) m.

(* case = (a, b, data): np.percentile(data, 100*a/b) * b * 8 *)
Definition perc_flat (case : Z * Z * list Z) : list Z :=
  let '(a, b, d) := case in [perc_lin a b d].

(* get_quantile_levels on an affine density c0 + c1*x + c2*y sampled on a
   grid covering [xlo,xhi] x [ylo,yhi] (bilinear interpolation reproduces an
   affine function; outside the grid the fill value 0 is used).
   case = (a, b, [c0; c1; c2; xlo; xhi; ylo; yhi], xp, yp); all in 1/8 *)
Definition affine_interp (c : list Z) (x y : fv) : Z :=
  let g := fun i => nth i c 0 in
  let kx := snd x in
  let ky := snd y in
  if (g 3%nat <=? kx) && (kx <=? g 4%nat) && (g 5%nat <=? ky) && (ky <=? g 6%nat)
  then 8 * g 0%nat + g 1%nat * kx + g 2%nat * ky else 0.
Definition quant_flat (case : Z * Z * list Z * list fv * list fv) : list Z :=
  let '(a, b, c, xp, yp) := case in
  [quantile_level (affine_interp c) a b xp yp;
   zlen (event_density (affine_interp c) xp yp)].

(* ---------------------------------------------------------------------- *)
(* kde_methods.kde_multivariate: how the evaluation positions reach        *)
(* statsmodels (external/statsmodels/nonparametric/_kernel_base.py)         *)
(* ---------------------------------------------------------------------- *)
(* a 2-D array: (number of rows, number of columns, rows) *)
Definition matrix := (Z * Z * list (list Z))%type.

Definition transpose (m : matrix) : matrix :=
  let '(r, c, rows) := m in
  (c, r, map (fun j => map (fun row => nth j row 0) rows)
             (seq 0 (Z.to_nat c))).

(* _adjust_shape(dat, k_vars) for 2-D input: transposed only when
   shape[0] == k_vars and shape[1] != k_vars; the final reshape to
   (nobs, k_vars) raises unless there are k_vars columns (or no element) *)
Definition adjust_shape (k : Z) (m : matrix) : option (list (list Z)) :=
  let '(r, c, rows) := m in
  let m' := if (r =? k) && negb (c =? k) then transpose m else m in
  let '(r', c', rows') := m' in
  if (c' =? k) || (r' =? 0) then Some rows' else None.

Definition point_rows (xo yo : list Z) : list (list Z) :=
  map (fun p => [fst p; snd p]) (combine xo yo).

(* before the proposed fix: positions = np.vstack([xout, yout]), shape (2,N) *)
Definition mv_points_vstack (xo yo : list Z) : option (list (list Z)) :=
  adjust_shape 2 (2, zlen xo, [xo; yo]).
(* fixed code: positions = np.column_stack([xout, yout]), shape (N,2) *)
Definition mv_points (xo yo : list Z) : option (list (list Z)) :=
  adjust_shape 2 (zlen xo, 2, point_rows xo yo).

(* case = (r, c, rows): _adjust_shape(np.array(rows).reshape(r, c), 2);
   result: 0 :: flattened rows, or [1] for ValueError *)
Definition adjust_flat (case : Z * Z * list (list Z)) : list Z :=
  match adjust_shape 2 case with
  | Some rows => 0 :: zlen rows :: concat rows
  | None => [1]
  end.

(* ---------------------------------------------------------------------- *)
From Coq Require Import String.
(* the registry Statistics.available_methods this model was written for:
   (name, req_feature) in registration order *)
Definition model_stat_methods : list (string * bool) :=
  [("Mean", true); ("Median", true); ("Mode", true); ("SD", true);
   ("Events", false); ("%-gated", false); ("Flow rate", false)]%string.

