(* Model of dclab/rtdc_dataset/check.py:IntegrityChecker (violation level
   cues only) and of writer.py:RTDCWriter.rectify_metadata.
   Executable definitions only; proofs are in Proofs/C13*.v.

   An .rtdc file is abstracted to the record [file] (what the checks look
   at); harness/c13.py computes this abstraction from the HDF5 file with raw
   h5py, independently of dclab's reader.  One function per violation-level
   [check_*] method, written from the source, in the (sorted) order in which
   IntegrityChecker.check runs them.  Alert/info cues and message texts are
   not modelled.

   The model follows the code with the fixes proposed in
   fixes_proposed/C13-*.diff applied:
     - check_feat_index uses np.array_equal (no exception on a wrong length)
     - check_fl_samples_per_event skips empty traces, check_fl_max*_positive
       skip empty features (no exception)
     - check_feature_size counts the stored contours
   (all committed: 8ab308c, 28dbe47) and, proposed in fixes_proposed/:
     - C13-external-link-target-missing: an external link is recognised from
       the link itself (its target may be missing)
     - C13-image-rank: an image feature with fewer than three dimensions is a
       ROI mismatch (missing dimension: encoded as -1 in [Image])
     - C13-length-of-empty-dataset: without event count and with only empty
       features the length is 0
     - C13-invalid-event-count: a negative event count is ignored for the
       length and reported; C13-polygon-points-rank: polygon points that are
       not two-dimensional are a wrong shape (missing dimension: -1)
   and with dclab commit ea8e52b (rectify_metadata takes the event count from
   the first trace dataset when "trace" is the alphabetically first feature;
   [rectify_gen false] is the behaviour before that commit). *)
From Coq Require Import String ZArith List Bool.
Import ListNotations.
Open Scope Z_scope.

(* ------------------------------------------------------------------ *)
(* inventory the model was written for (compared with the generated   *)
(* coq/Gen/CheckInventory.v in Proofs/C13_inventory.v)                *)
(* ------------------------------------------------------------------ *)
Open Scope string_scope.
(* (method, may emit level "violation") in the order check() runs them *)
Definition model_methods : list (string * bool) := [
  ("check_basin_features_internal", true);
  ("check_compression", false);
  ("check_empty", false);
  ("check_external_links", true);
  ("check_feat_index", true);
  ("check_feature_size", true);
  ("check_features_unknown_hdf5", true);
  ("check_fl_max_ctc_positive", false);
  ("check_fl_max_positive", false);
  ("check_fl_metadata_channel_names", false);
  ("check_fl_num_channels", true);
  ("check_fl_num_lasers", true);
  ("check_fl_samples_per_event", true);
  ("check_flow_rate", false);
  ("check_fmt_hdf5", false);
  ("check_info", false);
  ("check_metadata_bad", true);
  ("check_metadata_bad_greater_zero", true);
  ("check_metadata_choices", true);
  ("check_metadata_hdf5_type", false);
  ("check_metadata_missing", true);
  ("check_metadata_online_filter_polygon_points_shape", true);
  ("check_ml_class", true);
  ("check_shapein_issue3_bad_medium", false);
  ("check_temperature_zero_zmd", true)].

(* IMPORTANT_KEYS followed by IMPORTANT_KEYS_FL; the position in this list
   is the key id used by the model (0..16 basic, 17..26 fluorescence) *)
Definition model_important : list (string * string) := [
  ("experiment", "date"); ("experiment", "event count");
  ("experiment", "run index"); ("experiment", "sample");
  ("experiment", "time");
  ("imaging", "flash device"); ("imaging", "flash duration");
  ("imaging", "frame rate"); ("imaging", "pixel size");
  ("imaging", "roi position x"); ("imaging", "roi position y");
  ("imaging", "roi size x"); ("imaging", "roi size y");
  ("setup", "channel width"); ("setup", "chip region");
  ("setup", "flow rate"); ("setup", "medium");
  ("fluorescence", "bit depth"); ("fluorescence", "channel count");
  ("fluorescence", "channels installed"); ("fluorescence", "laser count");
  ("fluorescence", "lasers installed"); ("fluorescence", "sample rate");
  ("fluorescence", "samples per event"); ("fluorescence", "signal max");
  ("fluorescence", "signal min"); ("fluorescence", "trace median")].
Definition model_n_basic : nat := 17.
(* keys of check_metadata_bad_greater_zero *)
Definition model_greater_zero : list (string * string) := [
  ("imaging", "frame rate"); ("imaging", "pixel size");
  ("setup", "channel width"); ("setup", "flow rate")].
Definition model_ignored_unknown : list string := ["def"].
Definition model_desirable : list string := ["experiment"; "imaging"; "setup"].
Close Scope string_scope.

(* key ids (positions in model_important) *)
Definition k_event_count := 1.
Definition k_frame_rate := 7.
Definition k_pixel_size := 8.
Definition k_roi_x := 11.
Definition k_roi_y := 12.
Definition k_channel_width := 13.
Definition k_flow_rate := 15.
Definition k_channel_count := 18.
Definition k_laser_count := 20.
Definition k_spe := 23.
(* sections *)
Definition s_experiment := 0.
Definition s_imaging := 1.
Definition s_setup := 2.
Definition s_fluorescence := 3.
Definition sec_of (k : Z) : Z :=
  if k <? 5 then s_experiment else if k <? 13 then s_imaging
  else if k <? 17 then s_setup else s_fluorescence.

(* ------------------------------------------------------------------ *)
(* the abstract file                                                   *)
(* ------------------------------------------------------------------ *)
Inductive fdata :=
| Plain (len : Z)                       (* any other known feature *)
| Image (which : Z) (len h w : Z)       (* 0 image, 1 image_bg, 2 mask *)
| Index (vals : list Z)                 (* stored "index" *)
| FlMax (i : Z) (len : Z)               (* fl1_max, fl2_max, fl3_max *)
| Temp (len : Z) (allzero : bool)       (* "temp"; np.allclose(temp, 0) *)
| MlScore (len : Z) (bad : bool)        (* ml_score_xxx; bad = values
                                           outside [0, 1] *)
| MlClass (len : Z).                    (* stored "ml_class" *)

(* rank: position of the name in the sorted list of the names in /events
   (an order isomorphic encoding of the feature name) *)
Record feat := mkFeat { ft_rank : Z; ft_data : fdata }.

Definition flen (d : fdata) : Z :=
  match d with
  | Plain l => l
  | Image _ l _ _ => l
  | Index v => Z.of_nat (length v)
  | FlMax _ l => l
  | Temp l _ => l
  | MlScore l _ => l
  | MlClass l => l
  end.

Record file := mkFile {
  f_evcount : option Z;              (* experiment:event count *)
  f_feats : list feat;               (* known features in /events but trace *)
  f_trace_rank : Z;                  (* rank of the name "trace" *)
  f_traces : list (Z * (Z * Z));     (* (trace id, (events, samples)), in
                                        HDF5 (alphabetical) order *)
  f_unknown : list Z;                (* names in /events unknown to dclab;
                                        0 stands for "def" *)
  f_extlink : bool;                  (* hdf5_has_external *)
  f_roi_x : option Z;
  f_roi_y : option Z;
  f_frame_rate : option Z;           (* set-up values, in 1/64 *)
  f_pixel_size : option Z;
  f_channel_width : option Z;
  f_flow_rate : option Z;
  f_plain : list Z;                  (* ids of the other important keys
                                        that are present *)
  f_imaging_other : bool;            (* another [imaging] key is present *)
  f_chcount : option Z;              (* fluorescence:channel count *)
  f_chnames : list Z;                (* i with "channel i name" present *)
  f_lasercount : option Z;
  f_lambdas : list Z;                (* i with "laser i lambda" present *)
  f_powers : list (Z * Z);           (* (i, "laser i power" in 1/64) *)
  f_spe : option Z;                  (* fluorescence:samples per event *)
  f_polys : list (Z * Z);            (* shapes of [online_filter] "...
                                        polygon points" values *)
  f_zmd : bool;                      (* "ZMD" in setup:identifier *)
  f_basins : list (bool * list Z);   (* internal basins: (paths =
                                        ["basin_events"], feature ids) *)
  f_basin_events : option (list Z)   (* members of /basin_events *)
}.

(* ------------------------------------------------------------------ *)
(* cues                                                                *)
(* ------------------------------------------------------------------ *)
Inductive cue :=
| BasinGroupMissing
| BasinFeatMissing (feat : Z)
| ExternalLink
| IndexNotEnumerated
| MlClassError
| TempAllZero
| FeatureSize (rank : Z)
| TraceSize (tr : Z)
| FeatureUnknown (u : Z)
| ChannelCount
| LaserCount
| SamplesPerEvent (tr : Z)
| RoiMismatch (axis : Z) (img : Z)      (* axis 0 = y, 1 = x *)
| NonPositive (k : Z)
| PolygonShape (i : Z)
| MissingKey (k : Z)
| MissingSection (sec : Z).

Definition encode (c : cue) : list Z :=
  match c with
  | BasinGroupMissing => [1; 0; 0]
  | BasinFeatMissing x => [1; 1; x]
  | ExternalLink => [2; 0; 0]
  | IndexNotEnumerated => [3; 0; 0]
  | MlClassError => [3; 1; 0]
  | TempAllZero => [3; 2; 0]
  | FeatureSize r => [4; 0; r]
  | TraceSize t => [4; 1; t]
  | FeatureUnknown u => [5; u; 0]
  | ChannelCount => [6; k_channel_count; 0]
  | LaserCount => [6; k_laser_count; 0]
  | SamplesPerEvent t => [6; k_spe; t]
  | RoiMismatch a i => [6; (if a =? 0 then k_roi_y else k_roi_x); i]
  | NonPositive k => [6; k; 0]
  | PolygonShape i => [6; 100; i]
  | MissingKey k => [7; k; 0]
  | MissingSection s => [8; s; 0]
  end.

(* ------------------------------------------------------------------ *)
(* helpers                                                             *)
(* ------------------------------------------------------------------ *)
Definition memZ (x : Z) (l : list Z) : bool := existsb (Z.eqb x) l.

Fixpoint assocZ (x : Z) (l : list (Z * Z)) : option Z :=
  match l with
  | [] => None
  | (k, v) :: r => if x =? k then Some v else assocZ x r
  end.

Definition is_some {A} (o : option A) : bool :=
  match o with Some _ => true | None => false end.

(* insertion sort of (rank, length) pairs by rank: Python's sorted(names) *)
Fixpoint insert_by_rank (e : Z * Z) (l : list (Z * Z)) : list (Z * Z) :=
  match l with
  | [] => [e]
  | x :: r => if fst e <=? fst x then e :: l else x :: insert_by_rank e r
  end.
Definition sort_by_rank (l : list (Z * Z)) : list (Z * Z) :=
  fold_right insert_by_rank [] l.

Fixpoint first_nonzero (l : list (Z * Z)) : option Z :=
  match l with
  | [] => None
  | (_, n) :: r => if n =? 0 then first_nonzero r else Some n
  end.

Definition ntraces (f : file) : Z := Z.of_nat (length (f_traces f)).

(* RTDCBase._get_length when the event count is missing: the sorted keys of
   the known stored features; len(ds["trace"]) is the number of traces *)
Definition reader_entries (f : file) : list (Z * Z) :=
  map (fun ft => (ft_rank ft, flen (ft_data ft))) (f_feats f)
  ++ (if ntraces f =? 0 then [] else [(f_trace_rank f, ntraces f)]).

(* len(ds); None: ValueError "Could not determine size of dataset" *)
Definition length_from_features (f : file) : option Z :=
  match sort_by_rank (reader_entries f) with
  | [] => None                       (* no feature at all: ValueError *)
  | es => match first_nonzero es with
          | Some n => Some n
          | None => Some 0           (* all features are empty *)
          end
  end.

(* a negative stored event count is invalid and ignored
   (fixes_proposed/C13-invalid-event-count) *)
Definition lends (f : file) : option Z :=
  match f_evcount f with
  | Some n => if 0 <=? n then Some n else length_from_features f
  | None => length_from_features f
  end.

Definition flmax_innate (f : file) (i : Z) : bool :=
  existsb (fun ft => match ft_data ft with
                     | FlMax j _ => j =? i
                     | _ => false end) (f_feats f).

(* IntegrityChecker.has_fluorescence: `"fluorescence" in self.ds` asks for a
   *feature* of that name and is never true *)
Definition has_fl (f : file) : bool :=
  flmax_innate f 1 || flmax_innate f 2 || flmax_innate f 3.

Definition count_true (l : list bool) : Z :=
  Z.of_nat (length (filter (fun b => b) l)).

(* ------------------------------------------------------------------ *)
(* the checks (violation level), in the order of IntegrityChecker.check *)
(* ------------------------------------------------------------------ *)
Definition check_basin_features_internal (f : file) : list cue :=
  flat_map (fun b : bool * list Z =>
              if fst b then
                match f_basin_events f with
                | None => [BasinGroupMissing]
                | Some g => map BasinFeatMissing
                              (filter (fun x => negb (memZ x g)) (snd b))
                end
              else []) (f_basins f).

(* hdf5_has_external: the objects of the file as a tree; an external link
   (h5py.ExternalLink, its target may not exist), a virtual dataset and a
   dataset with external raw storage are external data, groups are searched
   recursively.  The harness abstracts the whole file to [list h5obj] and
   [mk_file] sets [f_extlink] with this function. *)
Inductive h5obj :=
| H5Dataset (virtual extstorage : bool)
| H5Group (members : list h5obj)
| H5ExtLink.

Fixpoint obj_external (o : h5obj) : bool :=
  match o with
  | H5Dataset v e => v || e
  | H5Group ms => existsb obj_external ms
  | H5ExtLink => true
  end.

Definition has_external (root : list h5obj) : bool :=
  existsb obj_external root.

Definition check_external_links (f : file) : list cue :=
  if f_extlink f then [ExternalLink] else [].

(* np.array_equal(index, np.arange(1, n + 1)) *)
Fixpoint enum_from (k : Z) (l : list Z) : bool :=
  match l with
  | [] => true
  | v :: r => (v =? k) && enum_from (k + 1) r
  end.
Definition index_ok (vals : list Z) (n : Z) : bool :=
  (Z.of_nat (length vals) =? Z.max 0 n) && enum_from 1 vals.

(* without a stored index the ancillary index np.arange(1, n+1) is compared
   with itself *)
Definition check_feat_index (f : file) (n : Z) : list cue :=
  if existsb (fun ft => match ft_data ft with
                        | Index v => negb (index_ok v n)
                        | _ => false end) (f_feats f)
  then [IndexNotEnumerated] else [].

Definition check_feature_size (f : file) (n : Z) : list cue :=
  flat_map (fun ft => if flen (ft_data ft) =? n then []
                      else [FeatureSize (ft_rank ft)]) (f_feats f)
  ++ flat_map (fun t : Z * (Z * Z) =>
                 if fst (snd t) =? n then [] else [TraceSize (fst t)])
       (f_traces f).

Definition check_features_unknown_hdf5 (f : file) : list cue :=
  map FeatureUnknown (filter (fun u => negb (u =? 0)) (f_unknown f)).

Definition channels_found (f : file) : Z :=
  count_true (map (fun i => memZ i (f_chnames f) && flmax_innate f i)
                  [1; 2; 3]).

Definition check_fl_num_channels (f : file) : list cue :=
  match f_chcount f with
  | Some c => if c =? channels_found f then [] else [ChannelCount]
  | None => []
  end.

Definition lasers_found (f : file) : Z :=
  count_true (map (fun i => memZ i (f_lambdas f)
                            && match assocZ i (f_powers f) with
                               | Some p => negb (p =? 0)
                               | None => false end) [1; 2; 3]).

Definition check_fl_num_lasers (f : file) : list cue :=
  match f_lasercount f with
  | Some c => if c =? lasers_found f then [] else [LaserCount]
  | None => []
  end.

Definition check_fl_samples_per_event (f : file) : list cue :=
  match f_spe f with
  | Some s =>
      flat_map (fun t : Z * (Z * Z) =>
                  if fst (snd t) =? 0 then []
                  else if snd (snd t) =? s then []
                       else [SamplesPerEvent (fst t)]) (f_traces f)
  | None => []
  end.

Definition images (f : file) : list (Z * (Z * Z)) :=
  flat_map (fun ft => match ft_data ft with
                      | Image which _ h w => [(which, (h, w))]
                      | _ => [] end) (f_feats f).

(* for ii, roi in enumerate(["roi size y", "roi size x"]):
     for feat in ["image", "image_bg", "mask"]: *)
Definition check_metadata_bad (f : file) : list cue :=
  match f_roi_x f, f_roi_y f with
  | Some rx, Some ry =>
      flat_map (fun which =>
        flat_map (fun im : Z * (Z * Z) =>
                    if (fst im =? which) && negb (fst (snd im) =? ry)
                    then [RoiMismatch 0 which] else []) (images f))
        [0; 1; 2]
      ++
      flat_map (fun which =>
        flat_map (fun im : Z * (Z * Z) =>
                    if (fst im =? which) && negb (snd (snd im) =? rx)
                    then [RoiMismatch 1 which] else []) (images f))
        [0; 1; 2]
  | _, _ => []
  end.

Definition greater_zero_values (f : file) : list (Z * option Z) :=
  [(k_frame_rate, f_frame_rate f); (k_pixel_size, f_pixel_size f);
   (k_channel_width, f_channel_width f); (k_flow_rate, f_flow_rate f)].

Definition check_metadata_bad_greater_zero (f : file) : list cue :=
  flat_map (fun kv : Z * option Z =>
              match snd kv with
              | Some v => if v <=? 0 then [NonPositive (fst kv)] else []
              | None => []
              end) (greater_zero_values f)
  (* the event count may be zero, but not negative *)
  ++ match f_evcount f with
     | Some v => if v <? 0 then [NonPositive k_event_count] else []
     | None => []
     end.

(* VALID_CHOICES = {} *)
Definition check_metadata_choices (f : file) : list cue := [].

Fixpoint polys_from (i : Z) (l : list (Z * Z)) : list cue :=
  match l with
  | [] => []
  | (rows, cols) :: r =>
      (if negb (cols =? 2) || (rows <? 3) then [PolygonShape i] else [])
      ++ polys_from (i + 1) r
  end.
Definition check_metadata_online_filter_polygon_points_shape (f : file)
  : list cue := polys_from 0 (f_polys f).

(* is [sec]: key present? keys with a modelled value are derived from it *)
Definition key_present (f : file) (k : Z) : bool :=
  if k =? k_event_count then is_some (f_evcount f)
  else if k =? k_frame_rate then is_some (f_frame_rate f)
  else if k =? k_pixel_size then is_some (f_pixel_size f)
  else if k =? k_roi_x then is_some (f_roi_x f)
  else if k =? k_roi_y then is_some (f_roi_y f)
  else if k =? k_channel_width then is_some (f_channel_width f)
  else if k =? k_flow_rate then is_some (f_flow_rate f)
  else if k =? k_channel_count then is_some (f_chcount f)
  else if k =? k_laser_count then is_some (f_lasercount f)
  else if k =? k_spe then is_some (f_spe f)
  else memZ k (f_plain f).

Definition zrange (a b : Z) : list Z :=
  map (fun i => a + Z.of_nat i) (seq 0 (Z.to_nat (b - a))).

Definition imaging_keys : list Z := zrange 5 13.

(* the [imaging] section exists in ds.config iff one of its keys is stored;
   [experiment] and [setup] are always created by the reader, [fluorescence]
   by the check_fl_* methods that ran before *)
Definition imaging_section (f : file) : bool :=
  f_imaging_other f || existsb (key_present f) imaging_keys.

Definition missing_in (f : file) (keys : list Z) : list cue :=
  map MissingKey (filter (fun k => negb (key_present f k)) keys).

(* expand_section=False (check_dataset) *)
Definition check_metadata_missing (f : file) : list cue :=
  missing_in f (zrange 0 5)
  ++ (if imaging_section f then missing_in f imaging_keys
      else [MissingSection s_imaging])
  ++ missing_in f (zrange 13 17)
  ++ (if has_fl f then missing_in f (zrange 17 27) else []).

(* A stored "ml_class" is just read.  Otherwise "ml_class" is available as
   soon as one ml_score_xxx feature is stored; computing it raises ValueError
   for scores outside [0, 1], for an empty score feature (np.nanmax of an
   empty array) and for a score feature whose length can not be broadcast
   into the len(ds) rows of the score matrix (neither len(ds) nor 1) *)
Definition mlclass_stored (f : file) : bool :=
  existsb (fun ft => match ft_data ft with MlClass _ => true | _ => false end)
          (f_feats f).
Definition check_ml_class (f : file) (n : Z) : list cue :=
  if negb (mlclass_stored f)
     && existsb (fun ft => match ft_data ft with
                           | MlScore l bad =>
                               bad || (l =? 0)
                               || (negb (l =? n) && negb (l =? 1))
                           | _ => false end) (f_feats f)
  then [MlClassError] else [].

Definition check_temperature_zero_zmd (f : file) : list cue :=
  if f_zmd f && existsb (fun ft => match ft_data ft with
                                   | Temp _ z => z
                                   | _ => false end) (f_feats f)
  then [TempAllZero] else [].

(* IntegrityChecker.check restricted to level "violation" *)
Definition violations_n (f : file) (n : Z) : list cue :=
  check_basin_features_internal f
  ++ check_external_links f
  ++ check_feat_index f n
  ++ check_feature_size f n
  ++ check_features_unknown_hdf5 f
  ++ (if has_fl f then check_fl_num_channels f ++ check_fl_num_lasers f
                       ++ check_fl_samples_per_event f else [])
  ++ check_metadata_bad f
  ++ check_metadata_bad_greater_zero f
  ++ check_metadata_choices f
  ++ check_metadata_missing f
  ++ check_metadata_online_filter_polygon_points_shape f
  ++ check_ml_class f n
  ++ check_temperature_zero_zmd f.

Definition violations (f : file) : option (list cue) :=
  match lends f with
  | Some n => Some (violations_n f n)
  | None => None
  end.

(* flat observable for the correspondence check; [[-1;0;0]]: exception *)
Definition violations_flat (f : file) : list (list Z) :=
  match violations f with
  | Some cs => map encode cs
  | None => [[-1; 0; 0]]
  end.

(* ------------------------------------------------------------------ *)
(* the writer: RTDCWriter.rectify_metadata (runs when the writer closes) *)
(* ------------------------------------------------------------------ *)
(* sorted(h5file["events"].keys()) with len(h5file["events"][name]);
   for the group "trace" the (fixed) code looks at its first member when the
   group is not empty.  [fixed = false] gives the behaviour before dclab
   commit ea8e52b *)
Definition first_trace_len (f : file) : Z :=
  match f_traces f with
  | [] => 0
  | t :: _ => fst (snd t)
  end.

Definition writer_entries (fixed : bool) (f : file) : list (Z * Z) :=
  map (fun ft => (ft_rank ft, flen (ft_data ft))) (f_feats f)
  ++ (if ntraces f =? 0 then []
      else [(f_trace_rank f, if fixed then first_trace_len f
                             else ntraces f)]).

Definition nonempty_image (f : file) (which : Z) : option (Z * Z) :=
  match filter (fun ft => match ft_data ft with
                          | Image w l _ _ => (w =? which) && negb (l =? 0)
                          | _ => false end) (f_feats f) with
  | {| ft_data := Image _ _ h w |} :: _ => Some (h, w)
  | _ => None
  end.

Definition flmax_nonempty (f : file) (i : Z) : bool :=
  existsb (fun ft => match ft_data ft with
                     | FlMax j l => (j =? i) && negb (l =? 0)
                     | _ => false end) (f_feats f).

Definition set_rectified (f : file) (ev : Z) (spe chc rx ry : option Z)
  : file :=
  mkFile (Some ev) (f_feats f) (f_trace_rank f) (f_traces f) (f_unknown f)
         (f_extlink f) rx ry (f_frame_rate f) (f_pixel_size f)
         (f_channel_width f) (f_flow_rate f) (f_plain f) (f_imaging_other f)
         chc (f_chnames f) (f_lasercount f) (f_lambdas f) (f_powers f)
         spe (f_polys f) (f_zmd f) (f_basins f) (f_basin_events f).

(* None: ValueError "No features in ..." *)
Definition rectify_gen (fixed : bool) (f : file) : option file :=
  match sort_by_rank (writer_entries fixed f) with
  | [] => None
  | (_, ev) :: _ =>
      let spe := match f_traces f with
                 | t :: _ => Some (snd (snd t))   (* group is not empty *)
                 | [] => f_spe f
                 end in
      let chcount := count_true (map (flmax_nonempty f) [1; 2; 3]) in
      let chc := if chcount =? 0 then f_chcount f
                 else match f_chcount f with
                      | Some c => Some c
                      | None => Some chcount
                      end in
      let shape := match nonempty_image f 0 with
                   | Some s => Some s
                   | None => nonempty_image f 2
                   end in
      let rx := match shape with Some s => Some (snd s) | None => f_roi_x f end in
      let ry := match shape with Some s => Some (fst s) | None => f_roi_y f end in
      Some (set_rectified f ev spe chc rx ry)
  end.

Definition rectify := rectify_gen true.

(* ------------------------------------------------------------------ *)
(* "complete metadata and consistent data": what the caller of the     *)
(* writer has to supply (all of it is decidable)                       *)
(* ------------------------------------------------------------------ *)
Definition rectified_keys : list Z := [k_event_count].

(* a key the caller must give: every important key except those that the
   writer sets itself for this input *)
Definition key_supplied (f : file) (k : Z) : bool :=
  key_present f k
  || (k =? k_event_count)
  || ((k =? k_spe) && negb (ntraces f =? 0))
  || ((k =? k_roi_x) || (k =? k_roi_y))
     && (is_some (nonempty_image f 0) || is_some (nonempty_image f 2))
  || ((k =? k_channel_count)
      && negb (count_true (map (flmax_nonempty f) [1; 2; 3]) =? 0)).

Definition positive_or_absent (o : option Z) : bool :=
  match o with Some v => 0 <? v | None => true end.

Definition same_shape (f : file) (h w : Z) : bool :=
  forallb (fun im : Z * (Z * Z) => (fst (snd im) =? h) && (snd (snd im) =? w))
          (images f).

Definition complete_input (f : file) (n : Z) : bool :=
  (0 <? n)
  (* all features and traces hold n events; the writer stores an enumerating
     index whatever the caller passes *)
  && forallb (fun ft => flen (ft_data ft) =? n) (f_feats f)
  && forallb (fun t : Z * (Z * Z) => fst (snd t) =? n) (f_traces f)
  && forallb (fun ft => match ft_data ft with
                        | Index v => index_ok v n
                        | MlScore _ bad => negb bad
                        | Temp _ z => negb (f_zmd f && z)
                        | _ => true end) (f_feats f)
  (* the writer refuses unknown features and creates no external links *)
  && match f_unknown f with [] => true | _ => false end
  && negb (f_extlink f)
  (* all traces have the same number of samples; all images the same shape,
     equal to the given ROI when neither image nor mask is stored *)
  && match f_traces f with
     | [] => true
     | t :: r => forallb (fun u : Z * (Z * Z) => snd (snd u) =? snd (snd t)) r
     end
  && match nonempty_image f 0, nonempty_image f 2 with
     | Some s, _ => same_shape f (fst s) (snd s)
     | None, Some s => same_shape f (fst s) (snd s)
     | None, None =>
         match f_roi_x f, f_roi_y f with
         | Some rx, Some ry => same_shape f ry rx
         | _, _ => true
         end
     end
  (* mandatory metadata *)
  && forallb (key_supplied f) (zrange 0 17)
  && (negb (has_fl f) || forallb (key_supplied f) (zrange 17 27))
  && positive_or_absent (f_frame_rate f)
  && positive_or_absent (f_pixel_size f)
  && positive_or_absent (f_channel_width f)
  && positive_or_absent (f_flow_rate f)
  (* fluorescence counts given by the caller are right *)
  && match f_chcount f with
     | Some c => c =? channels_found f
     | None => forallb (fun i => negb (flmax_innate f i) || memZ i (f_chnames f))
                       [1; 2; 3]
     end
  && match f_lasercount f with
     | Some c => c =? lasers_found f
     | None => true
     end
  && forallb (fun p : Z * Z => (snd p =? 2) && (3 <=? fst p)) (f_polys f)
  && forallb (fun b : bool * list Z =>
                negb (fst b)
                || match f_basin_events f with
                   | Some g => forallb (fun x => memZ x g) (snd b)
                   | None => false
                   end) (f_basins f).

(* ------------------------------------------------------------------ *)
(* the other write paths, in terms of the abstract file                *)
(* ------------------------------------------------------------------ *)
Definition with_content (h : file) (feats : list feat)
  (traces : list (Z * (Z * Z))) (unknown : list Z) (ext : bool)
  (basins : list (bool * list Z)) (bev : option (list Z)) : file :=
  mkFile (f_evcount h) feats (f_trace_rank h) traces unknown ext
         (f_roi_x h) (f_roi_y h) (f_frame_rate h) (f_pixel_size h)
         (f_channel_width h) (f_flow_rate h) (f_plain h) (f_imaging_other h)
         (f_chcount h) (f_chnames h) (f_lasercount h) (f_lambdas h)
         (f_powers h) (f_spe h) (f_polys h) (f_zmd h) basins bev.

(* copier.rtdc_copy (dclab-repack, first half of dclab-compress): features
   known to dclab are copied, h5py copies the data behind links into the new
   file; metadata, basins and basin_events are copied *)
Definition copy_model (f : file) : file :=
  with_content f (f_feats f) (f_traces f) [] false (f_basins f)
               (f_basin_events f).

(* dclab-compress appends its log with an RTDCWriter: metadata completion *)
Definition compress_model (f : file) : option file := rectify (copy_model f).

Definition zseq (a n : Z) : list Z :=
  map (fun i => a + Z.of_nat i) (seq 0 (Z.to_nat n)).

(* a stored feature written again with [n] events: the writer stores an
   enumeration as "index" whatever it is given *)
Definition relen (n : Z) (d : fdata) : fdata :=
  match d with
  | Plain _ => Plain n
  | Image w _ h x => Image w n h x
  | Index _ => Index (zseq 1 n)
  | FlMax i _ => FlMax i n
  | Temp _ z => Temp n z
  | MlScore _ b => MlScore n b
  | MlClass _ => MlClass n
  end.

(* a file derived from the stored file [g] by a dclab tool: a selection of
   its features (ranks [keep]) and, as a whole, its traces, all with [n]
   events, further features [extra] (ancillary or "index", [n] events), the
   metadata of [g]; internal basins are not exported.  Then the writer's
   completion.  Instances: ds.export.hdf5 (features, filtered), dclab-split
   (all features, a slice), dclab-join (common features, summed length),
   dclab-condense (scalar features plus computed ones). *)
Definition derive_input (g : file) (keep : list Z) (keep_trace : bool)
  (extra : list feat) (n : Z) : file :=
  with_content g
    (map (fun ft => mkFeat (ft_rank ft) (relen n (ft_data ft)))
         (filter (fun ft => memZ (ft_rank ft) keep) (f_feats g)) ++ extra)
    (if keep_trace
     then map (fun t : Z * (Z * Z) => (fst t, (n, snd (snd t)))) (f_traces g)
     else [])
    [] false [] None.

Definition derive_model (g : file) (keep : list Z) (keep_trace : bool)
  (extra : list feat) (n : Z) : option file :=
  rectify (derive_input g keep keep_trace extra n).

(* features a tool may add: scalar (ancillary) features, an enumerating
   index, ml_class - all with the new number of events *)
Definition extra_ok (n : Z) (ft : feat) : bool :=
  match ft_data ft with
  | Plain l => l =? n
  | Index v => index_ok v n
  | MlClass l => l =? n
  | _ => false
  end.

(* every fl?_max feature of the source is kept *)
Definition keeps_channels (keep : list Z) (fl : file) : bool :=
  forallb (fun ft => match ft_data ft with
                     | FlMax _ _ => memZ (ft_rank ft) keep
                     | _ => true end) (f_feats fl).

(* ------------------------------------------------------------------ *)
(* entry points for the harness (flat case encoding)                   *)
(* ------------------------------------------------------------------ *)
Definition oz (l : list Z) : option Z :=
  match l with [v] => Some v | _ => None end.

(* features: [rank; kind; a; b; c] ++ index values
   kind 0 Plain len | 1 Image which len h w (a=which, b=len, c=h, then w as
   the single extra value) | 2 Index | 3 FlMax i len | 4 Temp len zero |
   5 MlScore len bad | 6 MlClass len *)
Definition mk_feat (l : list Z) : feat :=
  match l with
  | r :: 0 :: a :: _ => mkFeat r (Plain a)
  | r :: 1 :: a :: b :: c :: d :: _ => mkFeat r (Image a b c d)
  | r :: 2 :: _ :: _ :: _ :: vals => mkFeat r (Index vals)
  | r :: 3 :: a :: b :: _ => mkFeat r (FlMax a b)
  | r :: 4 :: a :: b :: _ => mkFeat r (Temp a (negb (b =? 0)))
  | r :: 5 :: a :: b :: _ => mkFeat r (MlScore a (negb (b =? 0)))
  | r :: 6 :: a :: _ => mkFeat r (MlClass a)
  | r :: _ => mkFeat r (Plain 0)
  | [] => mkFeat 0 (Plain 0)
  end.

Definition mk_triple (l : list Z) : Z * (Z * Z) :=
  match l with a :: b :: c :: _ => (a, (b, c)) | _ => (0, (0, 0)) end.
Definition mk_pair (l : list Z) : Z * Z :=
  match l with a :: b :: _ => (a, b) | _ => (0, 0) end.
Definition mk_basin (l : list Z) : bool * list Z :=
  match l with a :: r => (negb (a =? 0), r) | [] => (false, []) end.

(* scalars: 0 evcount 1 roi_x 2 roi_y 3 frame_rate 4 pixel_size
   5 channel_width 6 flow_rate 7 chcount 8 lasercount 9 spe (each [] or [v])
   10 [trace_rank] 11 (unused) 12 [imaging_other] 13 [zmd]
   14 basin_events: [] (absent) or 1 :: members *)
Definition mk_file (sc : list (list Z)) (feats traces : list (list Z))
  (unknown plain chnames lambdas : list Z) (powers polys basins : list (list Z))
  (tree : list h5obj) : file :=
  let g i := nth i sc [] in
  let flag i := match g i with v :: _ => negb (v =? 0) | [] => false end in
  mkFile (oz (g 0%nat)) (map mk_feat feats)
         (match g 10%nat with v :: _ => v | [] => 0 end)
         (map mk_triple traces) unknown (has_external tree)
         (oz (g 1%nat)) (oz (g 2%nat)) (oz (g 3%nat)) (oz (g 4%nat))
         (oz (g 5%nat)) (oz (g 6%nat)) plain (flag 12%nat)
         (oz (g 7%nat)) chnames (oz (g 8%nat)) lambdas (map mk_pair powers)
         (oz (g 9%nat)) (map mk_pair polys) (flag 13%nat)
         (map mk_basin basins)
         (match g 14%nat with _ :: r => Some r | [] => None end).

(* ------------------------------------------------------------------ *)
(* cli/task_verify_dataset.py: exit status of dclab-verify-dataset      *)
(* (the file exists).  Alerts are not modelled: their number is an input *)
(* ------------------------------------------------------------------ *)
(* exit_status = 4; try: check_dataset ... except BaseException: (stays 4)
   else: if aler and viol: 3 elif aler: 1 elif viol: 2 else: 0 *)
Definition exit_status (raised : bool) (nviol nalert : Z) : Z :=
  if raised then 4
  else if (0 <? nalert) && (0 <? nviol) then 3
  else if 0 <? nalert then 1
  else if 0 <? nviol then 2
  else 0.

Definition verify_exit (f : file) (nalert : Z) : Z :=
  match violations f with
  | None => exit_status true 0 nalert
  | Some cs => exit_status false (Z.of_nat (length cs)) nalert
  end.

Definition case : Type :=
  (list (list Z) * list (list Z) * list (list Z) * list Z * list Z * list Z
   * list Z * list (list Z) * list (list Z) * list (list Z)
   * list h5obj)%type.

(* argument types of the run_* entry points *)
Definition derive_arg : Type := (case * list (list Z) * list (list Z))%type.
Definition copy_arg : Type := (case * Z)%type.

Definition file_of_case (c : case) : file :=
  let '(sc, feats, traces, unknown, plain, chnames, lambdas, powers, polys,
        basins, tree) := c in
  mk_file sc feats traces unknown plain chnames lambdas powers polys basins
          tree.

Definition run_flat (c : case) : list (list Z) :=
  violations_flat (file_of_case c).

(* [[exit status; 0; 0]] followed by the violations; the second component is
   the number of alerts reported by the implementation *)
Definition run_flat_x (p : copy_arg) : list (list Z) :=
  let f := file_of_case (fst p) in
  [verify_exit f (snd p); 0; 0] :: violations_flat f.

(* the whole abstract file in the case encoding (inverse of mk_file, without
   the object tree), for the comparison of derived files *)
Definition ol (o : option Z) : list Z :=
  match o with Some v => [v] | None => [] end.
Definition bz (b : bool) : Z := if b then 1 else 0.
Definition feat_flat (ft : feat) : list Z :=
  match ft_data ft with
  | Plain l => [ft_rank ft; 0; l]
  | Image w l h x => [ft_rank ft; 1; w; l; h; x]
  | Index v => [ft_rank ft; 2; 0; 0; 0] ++ v
  | FlMax i l => [ft_rank ft; 3; i; l]
  | Temp l z => [ft_rank ft; 4; l; bz z]
  | MlScore l b => [ft_rank ft; 5; l; bz b]
  | MlClass l => [ft_rank ft; 6; l]
  end.
Definition file_flat (f : file) : list (list (list Z)) :=
  [ [ol (f_evcount f); ol (f_roi_x f); ol (f_roi_y f); ol (f_frame_rate f);
     ol (f_pixel_size f); ol (f_channel_width f); ol (f_flow_rate f);
     ol (f_chcount f); ol (f_lasercount f); ol (f_spe f);
     [f_trace_rank f]; [bz (f_extlink f)]; [bz (f_imaging_other f)];
     [bz (f_zmd f)];
     match f_basin_events f with Some g => 1 :: g | None => [] end];
    map feat_flat (f_feats f);
    map (fun t : Z * (Z * Z) => [fst t; fst (snd t); snd (snd t)]) (f_traces f);
    [f_unknown f]; [f_plain f]; [f_chnames f]; [f_lambdas f];
    map (fun p : Z * Z => [fst p; snd p]) (f_powers f);
    map (fun p : Z * Z => [fst p; snd p]) (f_polys f);
    map (fun b : bool * list Z => bz (fst b) :: snd b) (f_basins f) ].

Definition ofile_flat (o : option file) : list (list (list Z)) :=
  match o with Some f => file_flat f | None => [] end.

(* (case of the source, [[keep]; [keep_trace]; [n]], extra features); the
   harness annotates every rendered argument with its type, so that empty
   list literals are never left to inference *)
Definition run_derive_flat (p : derive_arg)
  : list (list (list Z)) :=
  let '(c, par, extra) := p in
  let keep := nth 0 par [] in
  let kt := match nth 1 par [] with v :: _ => negb (v =? 0) | [] => false end in
  let n := match nth 2 par [] with v :: _ => v | [] => 0 end in
  ofile_flat (derive_model (file_of_case c) keep kt (map mk_feat extra) n).

(* dclab-repack / dclab-compress of any (also corrupted) file *)
Definition run_copy_flat (p : copy_arg) : list (list (list Z)) :=
  let f := file_of_case (fst p) in
  if snd p =? 0 then file_flat (copy_model f)
  else ofile_flat (compress_model f).

(* the file completed by the writer, whole, for the comparison with the
   written file *)
Definition run_rectify_flat (c : case) : list (list (list Z)) :=
  ofile_flat (rectify (file_of_case c)).

(* the hypotheses of the theorems about written and derived files, evaluated
   on the generated inputs: [complete_input pre n] for the abstraction of the
   writer's file just before it closes *)
Definition run_hyp_writer_flat (p : copy_arg) : list (list (list Z)) :=
  [[[bz (complete_input (file_of_case (fst p)) (snd p))]]].

(* the guards of derived_output_clean on a derived file's source and
   request: [[keeps_channels]; [all added features are extra_ok]] *)
Definition run_hyp_derive_flat (p : derive_arg)
  : list (list (list Z)) :=
  let '(c, par, extra) := p in
  let keep := nth 0 par [] in
  let n := match nth 2 par [] with v :: _ => v | [] => 0 end in
  [[[bz (keeps_channels keep (file_of_case c))];
    [bz (forallb (extra_ok n) (map mk_feat extra))]]].
