(* Model of dclab's basin resolution (executable definitions only).

   Follows (tree with the fixes 28899f0 "basin without identifier",
   960b418 "local basin format from network datasets" and 7dc3f69 "key-less
   basin definitions get a key"),
     core.py     RTDCBase.basins_retrieve / features_basin / __contains__ /
                 __getitem__ / _get_basin_feature_data / ignore_basins
     feat_basin.py  Basin.ds / features / verify_basin / get_feature_data,
                 basin_priority_sorted_key, InternalH5DatasetBasin
     fmt_hdf5/base.py  _local_basins_allowed, basins_get_dicts
     fmt_hdf5/basin.py, fmt_http.py, fmt_s3.py, fmt_dcor/{base,basin}.py
                 (basin_type / basin_format of the classes, availability)

   A world is a list of resources: .rtdc files (reachable by local path, by
   URL and as S3 object) and DCOR resources (answered by the DCOR API only;
   no events of their own).  Availability of a location is an oracle fixed by
   the world: [Here i] exists iff resource i exists and is of the kind the
   basin class asks for, [Rel i] only relative to the referrer's directory,
   [Nowhere] never.

   The lazily built, cached structure of Basin objects that the code creates
   is represented by the (finite) tree of everything that can be opened from
   the root: [build] constructs it on explicit fuel.  The observables
   (features_basin, feat in ds, ds[feat], files opened by local path) are
   structural functions of that tree. *)
From Coq Require Import ZArith List Bool.
Import ListNotations.
Open Scope Z_scope.

(* ---------------------------------------------------------------- data *)
Definition rid := option (list Z).          (* measurement identifier *)

Inductive fmt := FHdf5 | FHttp | FS3 | FDcor.        (* dataset formats *)
Inductive btype := TInternal | TFile | TRemote.      (* dict "type" *)
Inductive bclass := CInternal | CHdf5 | CHttp | CS3 | CDcor. (* dict "format" *)

(* the (type, format) pairs that are generated *)
Inductive kind :=
| KInternal      (* internal / h5dataset *)
| KFile          (* file / hdf5 *)
| KHttp          (* remote / http *)
| KS3            (* remote / s3 *)
| KDcor          (* remote / dcor *)
| KRemoteHdf5    (* remote / hdf5 *)
| KInternalHdf5. (* internal / hdf5 *)

Inductive loc := Here (i : nat) | Rel (i : nat) | Nowhere.

Record basin := mkBasin {
  b_key : Z;                     (* name of the dataset in /basins *)
  b_kind : kind;
  b_map : Z;                     (* 0 = "same", n+1 = "basinmap<n>" *)
  b_locs : list loc;             (* "paths" / "urls" *)
  b_feats : option (list Z) }.   (* "features" *)

Record file := mkFile {
  f_rid : rid;
  f_innate : list Z;             (* features in /events *)
  f_internal : list Z;           (* features in /basin_events *)
  f_basins : list basin;         (* in the order h5py iterates /basins (or
                                    of the DCOR API's answer) *)
  f_dcor : bool }.               (* a DCOR resource: served by the DCOR API
                                    only, not as a file / object *)

(* an ordinary .rtdc file *)
Definition mkF (r : rid) (innate internal : list Z) (bs : list basin) : file :=
  mkFile r innate internal bs false.

Definition world := list file.

Definition ktype (k : kind) : btype :=
  match k with
  | KInternal | KInternalHdf5 => TInternal
  | KFile => TFile
  | KHttp | KS3 | KDcor | KRemoteHdf5 => TRemote
  end.

Definition kclass (k : kind) : bclass :=
  match k with
  | KInternal => CInternal
  | KFile | KRemoteHdf5 | KInternalHdf5 => CHdf5
  | KHttp => CHttp
  | KS3 => CS3
  | KDcor => CDcor
  end.

(* Basin subclass attribute basin_type *)
Definition class_type (c : bclass) : btype :=
  match c with CInternal => TInternal | CHdf5 => TFile | _ => TRemote end.

(* format of the dataset a basin class loads *)
Definition class_fmt (c : bclass) : fmt :=
  match c with CHttp => FHttp | CS3 => FS3 | CDcor => FDcor | _ => FHdf5 end.

(* RTDC_HDF5.__init__: _local_basins_allowed = (format == "hdf5") *)
Definition local_allowed (fm : fmt) : bool :=
  match fm with FHdf5 => true | _ => false end.

Definition btype_eqb (a b : btype) : bool :=
  match a, b with
  | TInternal, TInternal | TFile, TFile | TRemote, TRemote => true
  | _, _ => false
  end.

(* ------------------------------------------------------ list utilities *)
Fixpoint memz (x : Z) (l : list Z) : bool :=
  match l with [] => false | y :: r => (x =? y) || memz x r end.

Definition subsetz (a b : list Z) : bool := forallb (fun x => memz x b) a.

Fixpoint insert_u (x : Z) (l : list Z) : list Z :=
  match l with
  | [] => [x]
  | y :: r => if x <? y then x :: l
              else if x =? y then l else y :: insert_u x r
  end.

(* sorted(set(l)) *)
Definition sortdedup (l : list Z) : list Z := fold_right insert_u [] l.

Fixpoint list_eqb (a b : list Z) : bool :=
  match a, b with
  | [], [] => true
  | x :: a', y :: b' => (x =? y) && list_eqb a' b'
  | _, _ => false
  end.

(* [prefixb p s]: s.startswith(p) *)
Fixpoint prefixb (p s : list Z) : bool :=
  match p, s with
  | [], _ => true
  | x :: p', y :: s' => (x =? y) && prefixb p' s'
  | _ :: _, [] => false
  end.

(* ------------------------------------ basin_priority_sorted_key, sorted *)
Definition prio (b : basin) : Z :=
  let t := match ktype (b_kind b) with
           | TInternal => 0 | TFile => 1 | TRemote => 2 end in
  let f := match kclass (b_kind b) with
           | CInternal => 0 | CHdf5 => 1 | CHttp => 2 | CS3 => 3 | CDcor => 4
           end in
  t * 10000 + f * 100 + b_map b.

Fixpoint insert_b (b : basin) (l : list basin) : list basin :=
  match l with
  | [] => [b]
  | x :: r => if prio b <=? prio x then b :: l else x :: insert_b b r
  end.

(* stable: an element is placed before the later ones of equal priority *)
Definition sort_basins (l : list basin) : list basin :=
  fold_right insert_b [] l.

(* ---------------------------------------------------------- locations *)
(* the resource is there for this basin class: DCOR resources answer the
   DCOR API only, files only paths / URLs / object names *)
Definition exists_file (w : world) (c : bclass) (i : nat) : bool :=
  match nth_error w i with
  | None => false
  | Some f => Bool.eqb (f_dcor f)
                       (match c with CDcor => true | _ => false end)
  end.

(* the location taken as it is written (absolute path, URL, or a relative
   path resolved against the working directory, where nothing exists) *)
Definition resolve_asis (w : world) (c : bclass) (l : loc) : option nat :=
  match l with
  | Here i => if exists_file w c i then Some i else None
  | _ => None
  end.

(* pathlib: this_path.parent / pp  (an absolute pp stays what it is) *)
Definition resolve_rel (w : world) (c : bclass) (l : loc) : option nat :=
  match l with
  | Here i | Rel i => if exists_file w c i then Some i else None
  | Nowhere => None
  end.

Definition rid_of (w : world) (i : nat) : rid :=
  match nth_error w i with Some f => f_rid f | None => None end.

Definition innate_of (w : world) (i : nat) : list Z :=
  match nth_error w i with Some f => f_innate f | None => [] end.

(* ---------------------------------------------- instantiated basins *)
Record rbasin := mkRb {
  rb_b : basin;
  rb_self : nat;                  (* the referring file *)
  rb_tgt : option nat;            (* the file at the location, if it exists *)
  rb_ref : rid;                   (* measurement_identifier (of the referrer) *)
  rb_feats : option (list Z);     (* Basin._features after __init__ *)
  rb_ign : list Z }.              (* ignored_basins *)

Definition rb_class (rb : rbasin) : bclass := kclass (b_kind (rb_b rb)).
Definition rb_mapped (rb : rbasin) : bool := negb (b_map (rb_b rb) =? 0).

Definition nonempty (l : list Z) : bool :=
  match l with [] => false | _ => true end.

(* InternalH5DatasetBasin.__init__: keep the declared features that exist in
   h5root[location] *)
Definition internal_feats (f : file) (b : basin) : list Z :=
  match b_feats b, b_locs b with
  | Some fs, Here _ :: _ => filter (fun x => memz x (f_internal f)) fs
  | _, _ => []
  end.

Definition mk_rb (i : nat) (f : file) (keys : list Z) (b : basin)
           (t : option nat) : rbasin :=
  {| rb_b := b; rb_self := i; rb_tgt := t; rb_ref := f_rid f;
     rb_feats := match kclass (b_kind b) with
                 | CInternal => Some (internal_feats f b)
                 | _ => b_feats b
                 end;
     rb_ign := keys |}.

(* is_available() *)
Definition rb_avail (rb : rbasin) : bool :=
  match rb_class rb with
  | CInternal => match rb_feats rb with Some fs => nonempty fs | None => false end
  | _ => match rb_tgt rb with Some _ => true | None => false end
  end.

(* the comparison in verify_basin (with the fix: a basin without any
   identifier does not match a referrer that has one) *)
Definition id_ok (mapped : bool) (r c : rid) : bool :=
  match r with
  | None => true
  | Some rs =>
      match c with
      | None => false
      | Some cs => if mapped then prefixb cs rs else list_eqb rs cs
      end
  end.

(* verify_basin(): availability and identifier *)
Definition verify (w : world) (rb : rbasin) : bool :=
  match rb_class rb with
  | CInternal => true
  | _ => match rb_tgt rb with
         | None => false
         | Some j => id_ok (rb_mapped rb) (rb_ref rb) (rid_of w j)
         end
  end.

(* the dataset Basin.ds loads: format and file *)
Definition rb_child (rb : rbasin) : option (fmt * nat) :=
  match rb_class rb with
  | CInternal => None
  | c => match rb_tgt rb with
         | Some j => Some (class_fmt c, j)
         | None => None
         end
  end.

(* a file that was opened to read its identifier and then rejected *)
Definition probe (rb : rbasin) : list nat :=
  match rb_tgt rb with Some j => [j] | None => [] end.

(* ------------------------------------------------ basins_retrieve *)
Section Retrieve.
  Variable w : world.
  Variable fm : fmt.          (* format of the referring dataset *)
  Variable i : nat.           (* its file *)
  Variable f : file.
  Variable keys : list Z.     (* bd_keys *)

  (* the loop `for pp in p_paths` of a file-type basin *)
  Fixpoint file_loop (b : basin) (locs : list loc) : list rbasin * list nat :=
    match locs with
    | [] => ([], [])
    | l :: rest =>
        let rb1 := mk_rb i f keys b (resolve_asis w (kclass (b_kind b)) l) in
        if verify w rb1 then ([rb1], [])
        else
          let rb2 := mk_rb i f keys b (resolve_rel w (kclass (b_kind b)) l) in
          if verify w rb2 then ([rb2], probe rb1)
          else let '(r, p) := file_loop b rest in
               (r, probe rb1 ++ probe rb2 ++ p)
    end.

  Definition retrieve_one (ign : list Z) (b : basin) : list rbasin * list nat :=
    if memz (b_key b) ign then ([], [])                  (* cyclic *)
    else if (match kclass (b_kind b) with CHdf5 => true | _ => false end)
            && negb (local_allowed fm) then ([], [])     (* fix: class *)
    else match ktype (b_kind b) with
         | TInternal =>
             match b_locs b with
             | [] => ([], [])
             | l :: _ => ([mk_rb i f keys b
                                (resolve_asis w (kclass (b_kind b)) l)], [])
             end
         | TFile =>
             if negb (local_allowed fm) then ([], [])
             else file_loop b (b_locs b)
         | TRemote =>
             (map (fun l => mk_rb i f keys b
                                 (resolve_asis w (kclass (b_kind b)) l))
                  (b_locs b),
              [])
         end.

  Fixpoint retrieve_loop (ign : list Z) (bs : list basin)
    : list rbasin * list nat :=
    match bs with
    | [] => ([], [])
    | b :: rest =>
        let '(mine, mypr) := retrieve_one ign b in
        let '(rbs, pr) := retrieve_loop ign rest in
        (mine ++ rbs, mypr ++ pr)
    end.
End Retrieve.

Definition retrieve (w : world) (fm : fmt) (i : nat) (ign : list Z)
  : list rbasin * list nat :=
  match nth_error w i with
  | None => ([], [])
  | Some f =>
      let sorted := sort_basins (f_basins f) in
      let keys := map b_key sorted ++ ign in
      retrieve_loop w fm i f keys ign sorted
  end.

(* ------------------------------------------ everything that is opened *)
Inductive tree :=
| Tree (fm : fmt) (fid : nat) (probed : list nat) (kids : forest)
with forest :=
| FNil
| FLeaf (rb : rbasin) (rest : forest)             (* no dataset behind it *)
| FNode (rb : rbasin) (t : tree) (rest : forest). (* Basin.ds *)

Fixpoint build_kids (rec : fmt -> nat -> list Z -> option tree)
         (l : list rbasin) : option forest :=
  match l with
  | [] => Some FNil
  | rb :: l' =>
      match build_kids rec l' with
      | None => None
      | Some rest =>
          match rb_child rb with
          | None => Some (FLeaf rb rest)
          | Some (fm', j) =>
              match rec fm' j (rb_ign rb) with
              | None => None
              | Some t => Some (FNode rb t rest)
              end
          end
      end
  end.

(* None = out of fuel *)
Fixpoint build (w : world) (fuel : nat) (fm : fmt) (i : nat) (ign : list Z)
  : option tree :=
  match fuel with
  | O => None
  | S k =>
      let '(rbs, probed) := retrieve w fm i ign in
      match build_kids (build w k) rbs with
      | None => None
      | Some kids => Some (Tree fm i probed kids)
      end
  end.

(* all basin keys of the world, without repetition *)
Definition all_keys (w : world) : list Z :=
  flat_map (fun f => map b_key (f_basins f)) w.

Definition fuel_for (w : world) : nat :=
  S (length (nodup Z.eq_dec (all_keys w))).

(* ----------------------------------------------------- observables *)
Definition tree_file (t : tree) : nat :=
  match t with Tree _ i _ _ => i end.

Definition leaf_feats (rb : rbasin) : list Z :=
  match rb_feats rb with Some fs => fs | None => [] end.

(* one iteration of the loop in features_basin *)
Definition fb_step (rb : rbasin) (fs acc : list Z) : list Z :=
  if nonempty fs && subsetz fs acc then acc
  else if rb_avail rb then acc ++ fs else acc.

Section Obs.
  Variable w : world.

  (* features_basin, and Basin.features of every instantiated basin *)
  Fixpoint tfb (t : tree) : list Z :=
    match t with
    | Tree _ _ _ kids => sortdedup (ffb kids [])
    end
  with ffb (f : forest) (acc : list Z) : list Z :=
    match f with
    | FNil => acc
    | FLeaf rb rest => ffb rest (fb_step rb (leaf_feats rb) acc)
    | FNode rb t rest =>
        let fs := match rb_feats rb with
                  | Some fs => fs
                  | None => sortdedup (innate_of w (tree_file t) ++ tfb t)
                  end in
        ffb rest (fb_step rb fs acc)
    end.

  Definition node_feats (rb : rbasin) (t : tree) : list Z :=
    match rb_feats rb with
    | Some fs => fs
    | None => sortdedup (innate_of w (tree_file t) ++ tfb t)
    end.

  Definition pass_ok (pass : option btype) (rb : rbasin) : bool :=
    match pass with
    | None => true
    | Some ty => btype_eqb ty (class_type (rb_class rb))
    end.

  Definition is_internal (rb : rbasin) : bool :=
    match rb_class rb with CInternal => true | _ => false end.

  (* __getitem__: where the data of [feat] come from.
     file i, /events -> i ; file i, /basin_events -> 100 + i *)
  Fixpoint tget (t : tree) (feat : Z) : option Z :=
    match t with
    | Tree _ i _ kids =>
        if memz feat (innate_of w i) then Some (Z.of_nat i)
        else match fget kids (Some TInternal) feat with
             | Some s => Some s
             | None =>
                 match fget kids (Some TFile) feat with
                 | Some s => Some s
                 | None => fget kids None feat
                 end
             end
    end
  with fget (f : forest) (pass : option btype) (feat : Z) : option Z :=
    match f with
    | FNil => None
    | FLeaf rb rest =>
        if pass_ok pass rb && memz feat (leaf_feats rb) && verify w rb
           && is_internal rb
        then Some (100 + Z.of_nat (rb_self rb))
        else fget rest pass feat
    | FNode rb t rest =>
        if pass_ok pass rb
           && memz feat (match rb_feats rb with
                         | Some fs => fs
                         | None => sortdedup (innate_of w (tree_file t)
                                              ++ tfb t)
                         end)
           && verify w rb
        then match tget t feat with
             | Some s => Some s
             | None => fget rest pass feat
             end
        else fget rest pass feat
    end.

  (* files opened by local path *)
  Fixpoint ttouched (t : tree) : list nat :=
    match t with
    | Tree fm i pr kids =>
        (if local_allowed fm then [i] else []) ++ pr ++ ftouched kids
    end
  with ftouched (f : forest) : list nat :=
    match f with
    | FNil => []
    | FLeaf _ rest => ftouched rest
    | FNode _ t rest => ttouched t ++ ftouched rest
    end.

  (* feat in ds *)
  Definition tcontains (t : tree) (feat : Z) : bool :=
    memz feat (innate_of w (tree_file t)) || memz feat (tfb t).
End Obs.

(* ------------------------------------------------ flat observation *)
Definition universe : list Z := [0; 1; 2; 3; 4; 5].

Definition run_flat (c : world * fmt * nat) : list (list Z) :=
  let '(w, fm, i) := c in
  match build w (fuel_for w) fm i [] with
  | None => [[1]; []; []; []; []]
  | Some t =>
      [[0];
       filter (fun x => memz x universe) (tfb w t);
       map (fun x => if tcontains w t x then 1 else 0) universe;
       map (fun x => match tget w t x with Some s => s | None => -1 end)
           universe;
       sortdedup (map Z.of_nat (ttouched t))]
  end.

(* Hierarchy children: RTDC_Hierarchy delegates `basins`, `features_basin`
   and `__contains__` to its parent and reads `hparent[feat]` in
   `__getitem__`; a (grand)child of the root observes what the root
   observes, and the cycle cut happens in the root parent. *)
Definition run_flat_h (c : world * fmt * nat * nat) : list (list Z) :=
  let '(c', hier) := c in run_flat c'.

(* ------------------------------------------------------------------ *)
(* Reading: the lookup of mapping features (feat_basin.Basin.basinmap,
   core.__getitem__ / _get_basin_feature_data, with c5ad7bc and dad364d).

   One dataset with its basin objects 0 .. n-1.  Loading the dataset behind
   a mapped basin i needs the feature [needs i] (its basinmapN) of the
   referring dataset itself; that feature is looked up like every other one:
   in the events, then in the basins -- which may have to be loaded first.
   While basin i is looking for its mapping feature it is `active`
   (`_basinmap_lookup_active`): asking it again fails at once instead of
   recursing.  What a loaded basin delivers ([gives]) comes from another
   dataset object (a subtree of the model's tree, which is finite); it is a
   parameter here.  None = out of fuel. *)
Section Lookup.
  Variable n : nat.                       (* number of basin objects *)
  Variable innate : Z -> bool.            (* features in the events *)
  Variable needs : nat -> option Z.       (* mapping feature of basin i *)
  Variable gives : nat -> Z -> bool.      (* delivered by basin i once loaded *)

  Fixpoint memn (x : nat) (l : list nat) : bool :=
    match l with [] => false | y :: r => Nat.eqb x y || memn x r end.

  Fixpoint lookup (fuel : nat) (active : list nat) (feat : Z) : option bool :=
    match fuel with
    | O => None
    | S k =>
        if innate feat then Some true
        else
          (fix try (bs : list nat) : option bool :=
             match bs with
             | [] => Some false
             | i :: rest =>
                 let loaded :=
                     match needs i with
                     | None => Some true
                     | Some m =>
                         if memn i active then Some false   (* the guard *)
                         else lookup k (i :: active) m
                     end in
                 match loaded with
                 | None => None
                 | Some true => if gives i feat then Some true else try rest
                 | Some false => try rest
                 end
             end) (seq 0 n)
    end.
End Lookup.
