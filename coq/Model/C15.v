(* Model of the polygon filter (C15), executable definitions only.

   dclab/external/skimage/_shared/geometry.pyx : point_in_polygon, points_in_polygon
   dclab/external/skimage/_pnpoly.pyx          : _points_in_poly
   dclab/polygon_filter.py                     : PolygonFilter.filter / point_in_poly

   Numbers: a binary64 value is an exact rational, coordinates are [Q].
   Rounding of the intersection abscissa is NOT modelled (the correspondence
   check skips points closer to an edge than 2^-40 relative).

   The crossing predicate of the loop body exists twice:
     - [Gen/PnpolyGen.v : gen_cross], translated from the .pyx text on every run
       (with the division, as written in the source);
     - [model_cross] below, hand written, cross-multiplied (no division);
   [Bridge/C15_bridge.v] proves them equal.  The loop itself is generic in the
   predicate. *)
From Coq Require Import ZArith QArith List Bool.
Import ListNotations.
Open Scope Q_scope.

Definition pt := (Q * Q)%type.
Definition edge := (pt * pt)%type.

Definition Qleb (a b : Q) : bool := Qle_bool a b.
Definition Qltb (a b : Q) : bool := negb (Qle_bool b a).

(* ---- the crossing predicate (vi = vertex i, vj = vertex j = the previous
   one, p = query point) ---------------------------------------------------
     ((yp[i] <= y and y < yp[j]) or (yp[j] <= y and y < yp[i]))
       and x < (xp[j]-xp[i]) * (y-yp[i]) / (yp[j]-yp[i]) + xp[i]
   multiplied by (yp[j]-yp[i]), whose sign is known in each branch *)
Definition model_cross (vi vj p : pt) : bool :=
  let xi := fst vi in let yi := snd vi in
  let xj := fst vj in let yj := snd vj in
  let x := fst p in let y := snd p in
  (Qleb yi y && Qltb y yj
   && Qltb ((x - xi) * (yj - yi)) ((xj - xi) * (y - yi)))
  || (Qleb yj y && Qltb y yi
      && Qltb ((xj - xi) * (y - yi)) ((x - xi) * (yj - yi))).

(* ---- the loop of point_in_polygon, generic in the predicate -------------
     c = 0; j = nr_verts - 1
     for i in range(nr_verts):
         if cross(i, j): c = not c
         j = i
     return c *)
Section Loop.
  Context {A : Type}.                       (* points: Q*Q, or Z*Z in the sweep *)
  Variable cross : A -> A -> A -> bool.

  Fixpoint pip_loop (p prev : A) (vs : list A) (c : bool) : bool :=
    match vs with
    | [] => c
    | v :: vs' => pip_loop p v vs' (if cross v prev p then negb c else c)
    end.

  (* nr_verts = 0: the loop body never runs *)
  Definition pip (poly : list A) (p : A) : bool :=
    match poly with
    | [] => false
    | v0 :: _ => pip_loop p (last poly v0) poly false
    end.

  (* points_in_polygon / _points_in_poly: one result per point *)
  Definition points_in_poly (poly : list A) (pts : list A) : list bool :=
    map (pip poly) pts.

  (* PolygonFilter.filter: f = points_in_poly(...); if inverted: invert(f) *)
  Definition pf_filter (inverted : bool) (poly : list A) (pts : list A)
    : list bool :=
    let f := points_in_poly poly pts in
    if inverted then map negb f else f.
End Loop.

(* ---- specification ------------------------------------------------------ *)

(* twice the signed area of the triangle a b p: > 0 iff p is left of a->b *)
Definition orient (a b p : pt) : Q :=
  (fst b - fst a) * (snd p - snd a) - (snd b - snd a) * (fst p - fst a).

(* the horizontal ray from p towards +x crosses the open segment a b
   transversally: the end points are strictly on different sides of the
   ray's line and p is strictly on the side of the edge the ray comes from *)
Definition proper_cross (a b p : pt) : bool :=
  (Qltb (snd a) (snd p) && Qltb (snd p) (snd b) && Qltb 0 (orient a b p))
  || (Qltb (snd b) (snd p) && Qltb (snd p) (snd a) && Qltb (orient a b p) 0).

Definition between (a b x : Q) : bool :=
  (Qleb a x && Qleb x b) || (Qleb b x && Qleb x a).

(* p lies on the closed segment a b *)
Definition on_segment (a b p : pt) : bool :=
  Qeq_bool (orient a b p) 0
  && between (fst a) (fst b) (fst p) && between (snd a) (snd b) (snd p).

(* the directed edges visited by the loop: (vertex, previous vertex) *)
Fixpoint path_edges {A} (prev : A) (vs : list A) : list (A * A) :=
  match vs with
  | [] => []
  | v :: vs' => (v, prev) :: path_edges v vs'
  end.

Definition closed_edges {A} (poly : list A) : list (A * A) :=
  match poly with
  | [] => []
  | v0 :: _ => path_edges (last poly v0) poly
  end.

Definition on_boundary (poly : list pt) (p : pt) : bool :=
  existsb (fun e => on_segment (fst e) (snd e) p) (closed_edges poly).

(* parity of the number of edges satisfying f *)
Definition parity (f : edge -> bool) (es : list edge) : bool :=
  fold_right (fun e acc => xorb (f e) acc) false es.

(* even-odd rule for a horizontal ray in general position *)
Definition spec_inside (poly : list pt) (p : pt) : bool :=
  parity (fun e => proper_cross (fst e) (snd e) p) (closed_edges poly).

(* -- an evaluator that uses no ray at all: the winding number by quadrants.
   Quadrant of v seen from p (v <> p): 0: dx>0,dy>0   1: dx<=0,dy>0
                                        2: dx<0,dy<=0  3: dx>=0,dy<=0
   (four convex cones; the closed lower half plane belongs to 2 and 3, as the
   half-open rule of the loop counts a vertex level with the point as below) *)
Definition quadrant (p v : pt) : Z :=
  let dx := fst v - fst p in let dy := snd v - snd p in
  if Qltb 0 dx && Qltb 0 dy then 0%Z
  else if Qleb dx 0 && Qltb 0 dy then 1%Z
  else if Qltb dx 0 && Qleb dy 0 then 2%Z
  else 3%Z.

(* quarter turns made by the edge prev -> v around p (p not on the edge) *)
Definition quarter_turns (p : pt) (e : edge) : Z :=
  let v := fst e in let prev := snd e in
  let d := ((quadrant p v - quadrant p prev) mod 4)%Z in
  if (d =? 0)%Z then 0%Z
  else if (d =? 1)%Z then 1%Z
  else if (d =? 3)%Z then (-1)%Z
  else if Qltb 0 (orient prev v p) then 2%Z else (-2)%Z.

Definition winding4 (poly : list pt) (p : pt) : Z :=
  fold_right (fun e acc => (quarter_turns p e + acc)%Z) 0%Z (closed_edges poly).

Definition winding_odd (poly : list pt) (p : pt) : bool :=
  Z.odd (winding4 poly p / 4).

(* parity of crossings of the ray towards -x (a second direction), with the
   same half-open rule in y *)
Definition cross_left (vi vj p : pt) : bool :=
  let xi := fst vi in let yi := snd vi in
  let xj := fst vj in let yj := snd vj in
  let x := fst p in let y := snd p in
  (Qleb yi y && Qltb y yj
   && Qltb ((xj - xi) * (y - yi)) ((x - xi) * (yj - yi)))
  || (Qleb yj y && Qltb y yi
      && Qltb ((x - xi) * (yj - yi)) ((xj - xi) * (y - yi))).

(* proper crossings of the ray towards -x (specification of C15_left_ray_agrees) *)
Definition proper_cross_left (a b p : pt) : bool :=
  (Qltb (snd a) (snd p) && Qltb (snd p) (snd b) && Qltb (orient a b p) 0)
  || (Qltb (snd b) (snd p) && Qltb (snd p) (snd a) && Qltb 0 (orient a b p)).

Definition spec_inside_left (poly : list pt) (p : pt) : bool :=
  parity (fun e => proper_cross_left (fst e) (snd e) p) (closed_edges poly).

(* ---- interface for the correspondence check ------------------------------ *)
Definition mkq (nd : Z * Z) : Q := fst nd # Z.to_pos (snd nd).
Definition mkpt (t : (Z * Z) * (Z * Z)) : pt := (mkq (fst t), mkq (snd t)).
Definition b2z (b : bool) : Z := if b then 1%Z else 0%Z.

(* case = (inverted, polygon, points), numbers as (numerator, denominator);
   result per point: [filter result; spec_inside; winding_odd; on_boundary] *)
Definition run_case (cross : pt -> pt -> pt -> bool)
           (c : Z * list ((Z * Z) * (Z * Z)) * list ((Z * Z) * (Z * Z)))
  : list Z :=
  let '(inv, poly, pts) := c in
  let poly := map mkpt poly in
  let pts := map mkpt pts in
  map b2z (pf_filter cross (negb (inv =? 0)%Z) poly pts).

Definition run_aux (c : Z * list ((Z * Z) * (Z * Z)) * list ((Z * Z) * (Z * Z)))
  : list (list Z) :=
  let '(inv, poly, pts) := c in
  let poly := map mkpt poly in
  let pts := map mkpt pts in
  [ map (fun p => b2z (winding_odd poly p)) pts;
    map (fun p => b2z (on_boundary poly p)) pts;
    map (fun p => b2z (pip cross_left poly p)) pts;
    map (fun p => b2z (spec_inside poly p)) pts;
    map (fun p => b2z (spec_inside_left poly p)) pts ].

(* ========================================================================
   .poly persistence: PolygonFilter.save / save_all / _load / import_all
   (dclab/polygon_filter.py), character level.  A string is a list of code
   points.  The model follows the code WITH the two proposed repairs
   (fixes_proposed/C15-*.diff): coordinates are written with 17 significant
   digits (only visible here as the round-trip hypothesis on fmtf/parsef) and
   a line is split at its FIRST "=" only (li.split("=", 1)).
   Number formatting/parsing is a parameter: {:08d}/int() and {:.16e}/float64.
   ======================================================================== *)
From Coq Require Import Ascii String.
Open Scope Z_scope.

Definition str := list Z.

Definition zs (s : string) : str :=
  map (fun a => Z.of_N (N_of_ascii a)) (list_ascii_of_string s).

(* str.isspace() *)
Definition is_space (c : Z) : bool :=
  ((9 <=? c) && (c <=? 13)) || ((28 <=? c) && (c <=? 32)) || (c =? 133)
  || (c =? 160) || (c =? 5760) || ((8192 <=? c) && (c <=? 8202))
  || (c =? 8232) || (c =? 8233) || (c =? 8239) || (c =? 8287) || (c =? 12288).

Fixpoint lstrip_by (p : Z -> bool) (s : str) : str :=
  match s with
  | [] => []
  | c :: s' => if p c then lstrip_by p s' else s
  end.
Definition strip_by (p : Z -> bool) (s : str) : str :=
  rev (lstrip_by p (rev (lstrip_by p s))).
Definition strip : str -> str := strip_by is_space.             (* s.strip() *)
Definition mem (cs : str) (c : Z) : bool := existsb (Z.eqb c) cs.
Definition strip_set (cs : str) : str -> str := strip_by (mem cs). (* s.strip(cs) *)

(* ASCII only (the keys and the feature names are ASCII) *)
Definition lower_c (c : Z) : Z := if (65 <=? c) && (c <=? 90) then c + 32 else c.
Definition lower : str -> str := map lower_c.

Fixpoint str_eqb (a b : str) : bool :=
  match a, b with
  | [], [] => true
  | x :: a', y :: b' => (x =? y) && str_eqb a' b'
  | _, _ => false
  end.

Fixpoint startswith (pre s : str) : bool :=
  match pre, s with
  | [], _ => true
  | x :: pre', y :: s' => (x =? y) && startswith pre' s'
  | _ :: _, [] => false
  end.

(* li.split("=", 1): None when there is no "=" *)
Fixpoint split1 (d : Z) (s : str) : option (str * str) :=
  match s with
  | [] => None
  | c :: s' => if c =? d then Some ([], s')
               else match split1 d s' with
                    | Some (a, b) => Some (c :: a, b)
                    | None => None
                    end
  end.

(* s.split(): maximal runs of non-blank characters *)
Fixpoint split_ws_aux (cur : str) (s : str) : list str :=
  match s with
  | [] => match cur with [] => [] | _ => [rev cur] end
  | c :: s' => if is_space c
               then match cur with [] => split_ws_aux [] s' | _ => rev cur :: split_ws_aux [] s' end
               else split_ws_aux (c :: cur) s'
  end.
Definition split_ws : str -> list str := split_ws_aux [].

(* fd.readlines() with universal newlines; the line terminators are dropped
   (every consumer strips the line or its "="-separated parts) *)
Fixpoint lines_aux (cur : str) (s : str) : list str :=
  match s with
  | [] => match cur with [] => [] | _ => [rev cur] end
  | c :: s' =>
      if c =? 10 then rev cur :: lines_aux [] s'
      else if c =? 13 then
             match s' with
             | 10 :: s'' => rev cur :: lines_aux [] s''
             | _ => rev cur :: lines_aux [] s'
             end
      else lines_aux (c :: cur) s'
  end.
Definition lines : str -> list str := lines_aux [].

Inductive lres (A : Type) : Type :=
| LOk (a : A) | LIndexError | LValueError | LKeyError | LOther.
Arguments LOk {A} a. Arguments LIndexError {A}. Arguments LValueError {A}.
Arguments LKeyError {A}. Arguments LOther {A}.

Fixpoint mapi_aux {A B} (f : Z -> A -> B) (i : Z) (l : list A) : list B :=
  match l with [] => [] | a :: l' => f i a :: mapi_aux f (i + 1) l' end.

(* points.sort(): keys are compared first *)
Fixpoint insert_key {A} (k : Z) (v : A) (l : list (Z * A)) : list (Z * A) :=
  match l with
  | [] => [(k, v)]
  | (k', v') :: l' => if k <? k' then (k, v) :: l else (k', v') :: insert_key k v l'
  end.
Definition sort_keys {A} (l : list (Z * A)) : list (Z * A) :=
  fold_right (fun kv acc => insert_key (fst kv) (snd kv) acc) [] l.
Fixpoint has_dup_key {A} (l : list (Z * A)) : bool :=
  match l with
  | [] => false
  | (k, _) :: l' => existsb (fun kv => fst kv =? k) l' || has_dup_key l'
  end.

Section Persist.
  Variable F : Type.                       (* coordinate values *)
  Variable fmtf : F -> str.                (* "{:.16e}".format(v) *)
  Variable parsef : str -> option F.       (* np.float64(token) *)
  Variable fmt8 : Z -> str.                (* "{:08d}".format(n) *)
  Variable parse_int : str -> option Z.    (* int(s) *)

  Record pfilter := mkpf {
    f_id : Z; f_ax : str; f_ay : str; f_name : str; f_inv : bool;
    f_pts : list (F * F) }.

  (* ---- save ---- *)
  Definition point_line (i : Z) (xy : F * F) : str :=
    zs "point" ++ fmt8 i ++ zs " = " ++ fmtf (fst xy) ++ zs " " ++ fmtf (snd xy).

  Definition header_line (f : pfilter) : str := zs "[Polygon " ++ fmt8 (f_id f) ++ zs "]".

  Definition body_lines (f : pfilter) : list str :=
    [ zs "X Axis = " ++ f_ax f;
      zs "Y Axis = " ++ f_ay f;
      zs "Name = " ++ f_name f;
      zs "Inverted = " ++ (if f_inv f then zs "True" else zs "False") ]
    ++ mapi_aux point_line 0 (f_pts f).

  Definition save_lines (f : pfilter) : list str := header_line f :: body_lines f.

  Definition unlines (ls : list str) : str := flat_map (fun l => l ++ [10]) ls.

  (* PolygonFilter.save_all: every instance appends its lines *)
  Definition save_all (fs : list pfilter) : str := unlines (flat_map save_lines fs).

  (* ---- load ---- *)
  Definition is_head (li : str) : bool := startswith [91] (strip li).

  (* lines before the first header are ignored; block = header, body *)
  Fixpoint blocks_aux (cur : option (str * list str)) (ls : list str)
    : list (str * list str) :=
    match ls with
    | [] => match cur with Some (h, b) => [(h, rev b)] | None => [] end
    | li :: ls' =>
        if is_head li
        then match cur with
             | Some (h, b) => (h, rev b) :: blocks_aux (Some (li, [])) ls'
             | None => blocks_aux (Some (li, [])) ls'
             end
        else match cur with
             | Some (h, b) => blocks_aux (Some (h, li :: b)) ls'
             | None => blocks_aux None ls'
             end
    end.
  Definition blocks : list str -> list (str * list str) := blocks_aux None.

  Record acc := mkacc {
    a_x : option str; a_y : option str; a_name : option str; a_inv : bool;
    a_pts : list (Z * list F) }.

  Fixpoint parse_all (ts : list str) : option (list F) :=
    match ts with
    | [] => Some []
    | t :: ts' => match parsef t, parse_all ts' with
                  | Some v, Some vs => Some (v :: vs)
                  | _, _ => None
                  end
    end.

  (* body of `for var, val in subdata:` *)
  Definition load_line (a : acc) (li : str) : lres acc :=
    match split1 61 li with
    | None => LValueError                         (* cannot unpack *)
    | Some (var0, val0) =>
        let var := strip var0 in
        let val := strip val0 in
        let lv := lower var in
        if str_eqb lv (zs "x axis")
        then LOk (mkacc (Some (lower val)) (a_y a) (a_name a) (a_inv a) (a_pts a))
        else if str_eqb lv (zs "y axis")
        then LOk (mkacc (a_x a) (Some (lower val)) (a_name a) (a_inv a) (a_pts a))
        else if str_eqb lv (zs "name")
        then LOk (mkacc (a_x a) (a_y a) (Some val) (a_inv a) (a_pts a))
        else if str_eqb lv (zs "inverted")
        then LOk (mkacc (a_x a) (a_y a) (a_name a)
                        (if str_eqb val (zs "True") then true else a_inv a) (a_pts a))
        else if startswith (zs "point") lv
        then match parse_all (split_ws (strip_set (zs "[]") val)) with
             | None => LValueError
             | Some vs =>
                 match parse_int (skipn 5 var) with
                 | None => LValueError
                 | Some k => LOk (mkacc (a_x a) (a_y a) (a_name a) (a_inv a)
                                        (a_pts a ++ [(k, vs)]))
                 end
             end
        else LKeyError
    end.

  Fixpoint load_body (a : acc) (ls : list str) : lres acc :=
    match ls with
    | [] => LOk a
    | li :: ls' => match load_line a li with
                   | LOk a' => load_body a' ls'
                   | LIndexError => LIndexError | LValueError => LValueError
                   | LKeyError => LKeyError | LOther => LOther
                   end
    end.

  Fixpoint rows2 (rows : list (Z * list F)) : option (list (F * F)) :=
    match rows with
    | [] => Some []
    | (_, [x; y]) :: r' => match rows2 r' with Some l => Some ((x, y) :: l) | None => None end
    | _ => None
    end.

  Definition same_lengths (rows : list (Z * list F)) : bool :=
    match rows with
    | [] => true
    | (_, r0) :: r' => forallb (fun kr => Nat.eqb (List.length (snd kr)) (List.length r0)) r'
    end.

  (* registry of PolygonFilter: ids of the instances, _instance_counter *)
  Definition registry := (list Z * Z)%type.

  (* _set_unique_id *)
  Definition set_unique_id (uid : Z) (r : registry) : Z * registry :=
    let '(ids, counter) := r in
    let uid' := if mem ids uid then Z.max counter (uid + 1) else uid in
    (uid', (ids, Z.max counter (uid' + 1))).

  (* PolygonFilter(filename=..., fileid=k): _load, then _check_data, then the
     instance is registered *)
  Definition load_one_gen (ou : option Z) (ls : list str) (k : nat) (r : registry)
    : lres pfilter * registry :=
    match nth_error (blocks ls) k with
    | None => (LIndexError, r)
    | Some (h, body) =>
        match load_body (mkacc None None None false []) body with
        | LOk a =>
            match a_x a, a_y a with
            | Some ax, Some ay =>
                if has_dup_key (a_pts a) then (LValueError, r)   (* sort compares arrays *)
                else
                  let rows := sort_keys (a_pts a) in
                  if negb (same_lengths rows) then (LValueError, r)
                  else
                    (* unique_id argument given: the header number is not read *)
                    match (match ou with
                           | Some u => Some u
                           | None => parse_int (strip_set (zs "Polygon []") (strip h))
                           end) with
                    | None => (LValueError, r)
                    | Some uid =>
                        let '(uid1, r1) := set_unique_id uid r in
                        (* __init__ calls _set_unique_id(unique_id) a second time
                           with the ARGUMENT when one was given *)
                        let '(uid', r') := match ou with
                                           | Some u => set_unique_id u r1
                                           | None => (uid1, r1)
                                           end in
                        (* no point line: points = zeros((0, 2)) (fix 9e2cb2f) *)
                        match rows2 rows with
                        | None => (LOther, r')       (* PolygonFilterError *)
                        | Some pts =>
                            match a_name a with
                            | None => (LOther, r')   (* self.name was never set: AttributeError *)
                            | Some name =>
                                (LOk (mkpf uid' ax ay name (a_inv a) pts),
                                 (fst r' ++ [uid'], snd r'))
                            end
                        end
                    end
            | _, _ => (LOther, r)                         (* UnboundLocalError *)
            end
        | LIndexError => (LIndexError, r) | LValueError => (LValueError, r)
        | LKeyError => (LKeyError, r) | LOther => (LOther, r)
        end
    end.

  Definition load_one : list str -> nat -> registry -> lres pfilter * registry :=
    load_one_gen None.

  (* import_all: fileid = 0, 1, ... until IndexError *)
  Fixpoint import_loop (fuel : nat) (ls : list str) (k : nat) (r : registry)
           (got : list pfilter) : lres (list pfilter) * registry :=
    match fuel with
    | O => (LOther, r)
    | S fuel' =>
        match load_one ls k r with
        | (LOk f, r') => import_loop fuel' ls (S k) r' (got ++ [f])
        | (LIndexError, r') => (LOk got, r')
        | (LValueError, r') => (LValueError, r')
        | (LKeyError, r') => (LKeyError, r')
        | (LOther, r') => (LOther, r')
        end
    end.

  Definition import_all (text : str) (r : registry) : lres (list pfilter) * registry :=
    let ls := lines text in
    import_loop (S (List.length ls)) ls 0 r [].
End Persist.

(* ---- concrete number formats for running the model ------------------------ *)
Fixpoint digits_aux (fuel : nat) (n : Z) (acc : str) : str :=
  match fuel with
  | O => acc
  | S fuel' => if n <? 10 then (48 + n) :: acc
               else digits_aux fuel' (n / 10) ((48 + n mod 10) :: acc)
  end.
Definition dec (n : Z) : str := digits_aux (S (Z.to_nat (Z.log2 (Z.max n 1)))) n [].
Definition dec8 (n : Z) : str :=
  let d := dec n in repeat 48 (8 - List.length d) ++ d.

Definition is_digit (c : Z) : bool := (48 <=? c) && (c <=? 57).
Fixpoint parse_digits (s : str) (acc : Z) : option Z :=
  match s with
  | [] => Some acc
  | c :: s' => if is_digit c then parse_digits s' (10 * acc + (c - 48)) else None
  end.
(* int(s) for the inputs the check generates: blanks around, an optional sign,
   ASCII digits *)
Definition parse_int_c (s : str) : option Z :=
  match strip s with
  | [] => None
  | c :: d =>
      if (c =? 45) || (c =? 43)
      then match d with
           | [] => None
           | _ => match parse_digits d 0 with
                  | Some n => Some (if c =? 45 then - n else n)
                  | None => None
                  end
           end
      else parse_digits (c :: d) 0
  end.
Definition dec_signed (v : Z) : str := if v <? 0 then 45 :: dec (- v) else dec v.
(* coordinates of the executable instance are integers written in decimal *)
Definition fmtf_c (v : Z) : str := if v <? 0 then 45 :: dec (- v) else dec v.
Definition parsef_c (s : str) : option Z :=
  match s with
  | [] => None
  | 45 :: [] => None
  | 45 :: d => match parse_digits d 0 with Some n => Some (- n) | None => None end
  | d => parse_digits d 0
  end.

Definition pfz := pfilter Z.

Definition enc_str (s : str) : list Z := Z.of_nat (List.length s) :: s.
Definition enc_filter (f : pfz) : list Z :=
  [f_id Z f] ++ enc_str (f_ax Z f) ++ enc_str (f_ay Z f) ++ enc_str (f_name Z f)
  ++ [b2z (f_inv Z f); Z.of_nat (List.length (f_pts Z f))]
  ++ flat_map (fun xy => [fst xy; snd xy]) (f_pts Z f).
Definition enc_res (r : lres (list pfz) * registry) : list Z :=
  match fst r with
  | LOk fs => [0; Z.of_nat (List.length fs)] ++ flat_map enc_filter fs
  | LIndexError => [1] | LValueError => [2] | LKeyError => [3] | LOther => [4]
  end ++ [snd (snd r)] ++ fst (snd r).

Definition mk_filter (t : Z * str * str * str * Z * list (Z * Z)) : pfz :=
  let '(i, ax, ay, nm, inv, pts) := t in mkpf Z i ax ay nm (negb (inv =? 0)) pts.

(* case: filters to save -> the file text *)
Definition run_save (fs : list (Z * str * str * str * Z * list (Z * Z))) : list Z :=
  save_all Z fmtf_c dec8 (map mk_filter fs).

(* case: (file text, ids registered before, counter before) -> import_all *)
Definition run_import (c : str * list Z * Z) : list Z :=
  let '(text, ids, counter) := c in
  enc_res (import_all Z parsef_c parse_int_c text (ids, counter)).

(* case: (text, fileid, unique_id argument or -1 for None, ids, counter)
   -> PolygonFilter(filename=, fileid=, unique_id=) *)
Definition run_load_one (c : str * Z * Z * list Z * Z) : list Z :=
  let '(text, k, u, ids, counter) := c in
  let '(res, r) := load_one_gen Z parsef_c parse_int_c (if u <? 0 then None else Some u)
                                (lines text) (Z.to_nat k) (ids, counter) in
  enc_res (match res with
           | LOk f => LOk [f] | LIndexError => LIndexError | LValueError => LValueError
           | LKeyError => LKeyError | LOther => LOther
           end, r).

(* exact rational value of a token printed by "{:.16e}": [-]d.ddd...de[+-]dd *)
Fixpoint take_digits (s : str) (acc : Z) (n : Z) : Z * Z * str :=
  match s with
  | c :: s' => if is_digit c then take_digits s' (10 * acc + (c - 48)) (n + 1) else (acc, n, s)
  | [] => (acc, n, [])
  end.
Definition parse_sci (s : str) : option Q :=
  let '(neg, s1) := match s with 45 :: t => (true, t) | _ => (false, s) end in
  let '(ip, ni, s2) := take_digits s1 0 0 in
  if ni =? 0 then None else
  match s2 with
  | 46 :: s3 =>
      let '(m, nf, s4) := take_digits s3 ip 0 in
      match s4 with
      | 101 :: s5 =>
          let '(eneg, s6) := match s5 with 45 :: t => (true, t) | 43 :: t => (false, t)
                                           | _ => (false, s5) end in
          let '(e, ne, rest) := take_digits s6 0 0 in
          match rest with
          | [] => if ne =? 0 then None else
                  let ex := (if eneg then - e else e) - nf in
                  let v := if 0 <=? ex then inject_Z (m * 10 ^ ex)
                           else Qmake m (Z.to_pos (10 ^ (- ex))) in
                  Some (if neg then Qopp v else v)
          | _ => None
          end
      | _ => None
      end
  | _ => None
  end.

(* case: (token, (lo_num, lo_den), (hi_num, hi_den)): 1 when the exact decimal
   value of the token lies strictly inside (lo, hi), the interval of reals that
   round to the saved binary64 value; 0 otherwise; 2 when not parsable *)
Definition run_sci (c : str * (Z * Z) * (Z * Z)) : list Z :=
  let '(tok, lo, hi) := c in
  match parse_sci tok with
  | None => [2]
  | Some v => [if Qltb (mkq lo) v && Qltb v (mkq hi) then 1 else 0]
  end.

(* ---- PolygonFilter.copy(invert) ------------------------------------------------
     if invert: inverted = not self.inverted  else: inverted = self.inverted
     return PolygonFilter(axes=self.axes, points=self.points, name=self.name,
                          inverted=inverted)
   The new instance takes unique_id = _instance_counter through _set_unique_id
   and is appended to PolygonFilter.instances. *)
Definition pf_copy {F} (f : pfilter F) (invert : bool) (r : registry) : pfilter F * registry :=
  let inverted := if invert then negb (f_inv F f) else f_inv F f in
  let '(uid, r') := set_unique_id (snd r) r in
  (mkpf F uid (f_ax F f) (f_ay F f) (f_name F f) inverted (f_pts F f),
   (fst r' ++ [uid], snd r')).

(* PolygonFilter.filter of an instance whose coordinates are rationals *)
Definition pf_apply (cross : pt -> pt -> pt -> bool) (f : pfilter Q) (pts : list pt) : list bool :=
  pf_filter cross (f_inv Q f) (f_pts Q f) pts.

(* chain of copies: every copy is taken from the previous one *)
Fixpoint copy_chain {F} (f : pfilter F) (flags : list bool) (r : registry)
  : list (pfilter F) * registry :=
  match flags with
  | [] => ([], r)
  | b :: flags' => let '(g, r') := pf_copy f b r in
                   let '(gs, r'') := copy_chain g flags' r' in
                   (g :: gs, r'')
  end.

(* case: (inverted flag of the source, registered ids, counter, invert flags)
   -> [id; inverted] per copy, then the counter and the registered ids *)
Definition run_copies (c : Z * list Z * Z * list Z) : list Z :=
  let '(inv0, ids, counter, flags) := c in
  let src := mkpf Z 0 [] [] [] (negb (inv0 =? 0)) [] in
  let '(gs, r) := copy_chain src (map (fun b => negb (b =? 0)) flags) (ids, counter) in
  flat_map (fun g => [f_id Z g; b2z (f_inv Z g)]) gs ++ [snd r] ++ fst r.

(* ---- guards of the round-trip theorem (mirrored by harness/c15.py) --------- *)
Definition no_nl (s : str) : bool :=
  forallb (fun c => negb (c =? 10) && negb (c =? 13)) s.
(* neither the first nor the last character satisfies p *)
Definition clean_by (p : Z -> bool) (s : str) : bool :=
  match s with
  | [] => true
  | c :: _ => negb (p c) && negb (p (last s 0))
  end.
(* a name survives: no line break, no leading/trailing blank (C15-name-blanks) *)
Definition name_ok (s : str) : bool := no_nl s && clean_by is_space s.
(* feature names: additionally no upper-case ASCII letter (axes are lower-cased) *)
Definition axis_ok (s : str) : bool :=
  name_ok s && forallb (fun c => negb ((65 <=? c) && (c <=? 90))) s.
(* shape of a printed coordinate: non-empty, no blank, "=", "[" or "]" *)
Definition token_ok (s : str) : bool :=
  match s with
  | [] => false
  | _ => forallb (fun c => negb (is_space c) && negb (c =? 61) && negb (c =? 91)
                           && negb (c =? 93)) s
  end.
(* shape of a printed integer: non-empty, ASCII digits *)
Definition digits_ok (s : str) : bool :=
  match s with [] => false | _ => forallb is_digit s end.

Definition wf_filter {F} (f : pfilter F) : bool :=
  (0 <=? f_id F f) && axis_ok (f_ax F f) && axis_ok (f_ay F f) && name_ok (f_name F f).
