(* Model of dclab/downsampling.pyx (downsample_rand, downsample_grid,
   populate_grid, norm), of the "limit events" step of
   dclab/rtdc_dataset/filter.py:Filter.update and of
   dclab/rtdc_dataset/core.py:RTDCBase.get_downsampled_scatter.
   Executable definitions only; proofs are in Proofs/C16.v.

   numpy primitives are modelled once:
     l[m]            (boolean mask indexing)      -> select m l
     np.where(m)[0]                               -> where_ m
     base[m] = v     (boolean mask assignment)    -> scatter m v base
     l[idxs] = c     (integer index assignment)   -> assign l idxs c
     arr[ps]         (integer index read)         -> pick arr ps
     np.sum(m)                                    -> count_true m

   Floating point values are exact: [Fin z] stands for z * 2^-e with one
   exponent e per array (the grid cell of a point only depends on ratios
   within one array); NaN and the infinities are constructors.

   The numpy random generator is an oracle: a state type [rng], the state
   [seed47] (= np.random.RandomState(seed=47).get_state()) and
   [choice_st g n k], the positions drawn by
   np.random.choice(arr, size=k, replace=False) for len(arr) = n in global
   state g, with the state afterwards (legacy RandomState.choice computes
   arr[permutation(n)[:k]], so the positions do not depend on arr). *)
From Coq Require Import ZArith List Bool MSets.MSetPositive FSets.FMapPositive.
Import ListNotations.
Open Scope Z_scope.

Inductive fval := Fin (z : Z) | NaN | PInf | NInf.

(* np.isnan(v) | np.isinf(v) *)
Definition is_bad (v : fval) : bool :=
  match v with Fin _ => false | _ => true end.

Definition fin_val (v : fval) : Z := match v with Fin z => z | _ => 0 end.

Definition zlen {A} (l : list A) : Z := Z.of_nat (length l).

(* ---- numpy primitives --------------------------------------------------- *)
Fixpoint select {A} (m : list bool) (l : list A) : list A :=
  match m, l with
  | b :: m', x :: l' => if b then x :: select m' l' else select m' l'
  | _, _ => []
  end.

Fixpoint count_true (m : list bool) : Z :=
  match m with
  | [] => 0
  | b :: m' => (if b then 1 else 0) + count_true m'
  end.

Fixpoint where_from (i : Z) (m : list bool) : list Z :=
  match m with
  | [] => []
  | b :: m' => if b then i :: where_from (i + 1) m' else where_from (i + 1) m'
  end.
Definition where_ (m : list bool) : list Z := where_from 0 m.

(* base[m] = v ; len v = count_true m in every use *)
Fixpoint scatter (m v base : list bool) : list bool :=
  match m, base with
  | true :: m', x :: base' =>
      match v with
      | y :: v' => y :: scatter m' v' base'
      | [] => x :: scatter m' [] base'
      end
  | false :: m', x :: base' => x :: scatter m' v base'
  | _, _ => base
  end.

Fixpoint map2 {A B C} (f : A -> B -> C) (l : list A) (l' : list B) : list C :=
  match l, l' with
  | x :: r, y :: r' => f x y :: map2 f r r'
  | _, _ => []
  end.

(* set of non-negative indices *)
Definition key (i : Z) : positive := Z.to_pos (i + 1).
Definition idx_set (idxs : list Z) : PositiveSet.t :=
  fold_left (fun s i => PositiveSet.add (key i) s) idxs PositiveSet.empty.
Definition in_set (i : Z) (s : PositiveSet.t) : bool := PositiveSet.mem (key i) s.

Fixpoint assign_from (i : Z) (s : PositiveSet.t) (c : bool) (l : list bool)
  : list bool :=
  match l with
  | [] => []
  | x :: r => (if in_set i s then c else x) :: assign_from (i + 1) s c r
  end.
(* l[idxs] = c  (all indices in range in every use) *)
Definition assign (l : list bool) (idxs : list Z) (c : bool) : list bool :=
  assign_from 0 (idx_set idxs) c l.

(* arr[ps] through a position-indexed map *)
Fixpoint build (i : positive) (arr : list Z) (m : PositiveMap.t Z)
  : PositiveMap.t Z :=
  match arr with
  | [] => m
  | x :: r => build (Pos.succ i) r (PositiveMap.add i x m)
  end.
Definition pick (arr : list Z) (ps : list Z) : list Z :=
  let m := build 1%positive arr (PositiveMap.empty Z) in
  map (fun p => match PositiveMap.find (key p) m with
                | Some v => v
                | None => 0
                end) ps.

Fixpoint arange_from (i : Z) (n : nat) : list Z :=
  match n with O => [] | S n' => i :: arange_from (i + 1) n' end.
Definition arange (n : nat) : list Z := arange_from 0 n.

Definition ones {A} (l : list A) : list bool := map (fun _ => true) l.
Definition zeros {A} (l : list A) : list bool := map (fun _ => false) l.

(* ---- norm / grid cells -------------------------------------------------- *)
Definition zmin_list (z0 : Z) (l : list Z) : Z := fold_left Z.min l z0.
Definition zmax_list (z0 : Z) (l : list Z) : Z := fold_left Z.max l z0.

Definition ptp (ad : list Z) : Z :=
  match ad with
  | [] => 0
  | z0 :: r => zmax_list z0 r - zmin_list z0 r
  end.

(* what np.array(<NaN array>, dtype=np.uint32) yields on the machine the check
   runs on: full blocks of four become 2^31, the remainder 0 *)
Fixpoint nan_cast_from (i full : Z) (n : nat) : list Z :=
  match n with
  | O => []
  | S n' => (if i <? full then 2147483648 else 0) :: nan_cast_from (i + 1) full n'
  end.
Definition nan_cast (n : nat) : list Z :=
  nan_cast_from 0 (4 * (Z.of_nat n / 4)) n.

(* np.array(norm(ad) * (grid_size - 1), dtype=np.uint32), rounding not
   modelled: floor of the exact quotient *)
Definition discretize (ad : list Z) : list Z :=
  match ad with
  | [] => []
  | z0 :: r =>
      let mn := zmin_list z0 r in
      let p := zmax_list z0 r - mn in
      if p =? 0 then nan_cast (length ad)
      else map (fun z => ((z - mn) * 299) / p) ad
  end.

(* two's complement wrap of a signed w-bit integer *)
Definition wrap_int (w z : Z) : Z :=
  (z + 2 ^ (w - 1)) mod 2 ^ w - 2 ^ (w - 1).

(* the same for an array of signed w-bit integers: differences wrap *)
Definition discretize_int (w : Z) (ad : list Z) : list Z :=
  match ad with
  | [] => []
  | z0 :: r =>
      let mn := zmin_list z0 r in
      let p := wrap_int w (zmax_list z0 r - mn) in
      if p =? 0 then nan_cast (length ad)
      else map (fun z => Z.quot (wrap_int w (z - mn) * 299) p mod 4294967296) ad
  end.

(* populate_grid: first event per cell is kept; None = IndexError (bounds
   check of the 300x300 memoryview) *)
Fixpoint populate (xs ys : list Z) (seen : PositiveSet.t) : option (list bool) :=
  match xs, ys with
  | x :: xs', y :: ys' =>
      if (0 <=? x) && (x <? 300) && (0 <=? y) && (y <? 300) then
        let k := key (x * 300 + y) in
        if PositiveSet.mem k seen
        then option_map (cons false) (populate xs' ys' seen)
        else option_map (cons true) (populate xs' ys' (PositiveSet.add k seen))
      else None
  | _, _ => Some []
  end.

Inductive error := ErrValue | ErrIndex | ErrNegative | ErrOverflow.

Inductive result :=
| Ok (asd bsd : list fval) (keep : list bool)
| Err (e : error).

Section Model.
  Variable rng : Type.
  Variable seed47 : rng.
  Variable choice_st : rng -> Z -> Z -> list Z * rng.

  (* np.random.choice(arr, size=k, replace=False) in global state g *)
  Definition np_choice (g : rng) (arr : list Z) (k : Z)
    : option (list Z) * rng :=
    let n := zlen arr in
    if (n =? 0) || (n <? k) then (None, g)
    else let '(ps, g') := choice_st g n k in (Some (pick arr ps), g').

  (* ---- downsample_rand(a, samples, remove_invalid, ret_idx=True) -------- *)
  Definition downsample_rand (g : rng) (a : list fval) (samples : Z)
             (remove_invalid : bool) : result * rng :=
    let g0 := seed47 in                         (* np.random.set_state(rs) *)
    let bad := map is_bad a in
    let pool := if remove_invalid then select (map negb bad) a else a in
    let '(rkeep, g1) :=
      if negb (samples =? 0) && (samples <? zlen pool) then
        match np_choice g0 (arange (length pool)) samples with
        | (Some keep_ids, g') => (Some (assign (zeros pool) keep_ids true), g')
        | (None, g') => (None, g')
        end
      else (Some (ones pool), g0) in
    match rkeep with
    | None => (Err ErrValue, g1)
    | Some keep =>
        let dsa := select keep pool in
        let idx := if remove_invalid
                   then scatter (map negb bad) keep (zeros a)
                   else keep in
        (Ok dsa [] idx, g1)
    end.

  (* ---- downsample_grid: step 2, reach [samples] by removing/adding ------ *)
  Definition adjust (g : rng) (keepd : list bool) (samples : Z)
    : option (list bool) * rng :=
    let diff := count_true keepd - samples in
    if diff >? 0 then
      let rem_indices := where_ keepd in
      match np_choice seed47 rem_indices diff with
      | (Some rem, g') => (Some (assign keepd rem false), g')
      | (None, g') => (None, g')
      end
    else if diff <? 0 then
      let add_indices := where_ (map negb keepd) in
      match np_choice seed47 add_indices (- diff) with
      | (Some add, g') => (Some (assign keepd add true), g')
      | (None, g') => (None, g')
      end
    else (Some keepd, g).

  (* steps 1 and 2 on the valid points *)
  Definition grid_phase (g : rng) (ad bd : list Z) (samples : Z)
             (good keep0 : list bool) : (list bool + error) * rng :=
    if negb (samples =? 0) && (samples <? zlen ad) then
      match populate (discretize ad) (discretize bd) PositiveSet.empty with
      | None => (inr ErrIndex, g)
      | Some keepd =>
          match adjust g keepd samples with
          | (Some keepdb, g') => (inl (scatter good keepdb keep0), g')
          | (None, g') => (inr ErrValue, g')
          end
      end
    else (inl keep0, g).

  (* padding with invalid points *)
  Definition pad_phase (g : rng) (keep1 bad : list bool) (samples : Z)
             (remove_invalid : bool) : (list bool + error) * rng :=
    if remove_invalid then (inl keep1, g)
    else
      let diff_bad := (if samples =? 0 then zlen keep1 else samples)
                      - count_true keep1 in
      if diff_bad >? 0 then
        match np_choice seed47 (where_ bad) diff_bad with
        | (Some add_bad, g') => (inl (assign keep1 add_bad true), g')
        | (None, g') => (inr ErrValue, g')
        end
      else (inl keep1, g).

  (* ---- downsample_grid(a, b, samples, remove_invalid, ret_idx=True) ----- *)
  Definition downsample_grid (g : rng) (a b : list fval) (samples : Z)
             (remove_invalid : bool) : result * rng :=
    let bad := map2 orb (map is_bad a) (map is_bad b) in
    let good := map negb bad in
    let keep0 := good in                 (* ones_like; keep[bad] = False *)
    let ad := map fin_val (select good a) in
    let bd := map fin_val (select good b) in
    match grid_phase g ad bd samples good keep0 with
    | (inr e, g1) => (Err e, g1)
    | (inl keep1, g1) =>
        match pad_phase g1 keep1 bad samples remove_invalid with
        | (inr e, g2) => (Err e, g2)
        | (inl keep, g2) => (Ok (select keep a) (select keep b) keep, g2)
        end
    end.

  (* ---- signed integer input arrays (array level only) --------------------- *)
  (* norm() computes a.max() - rmin and a - rmin in the dtype of a: for a
     signed w-bit integer array both wrap; the quotient is a float64, the cast
     of the (possibly negative or > 1) product to uint32 truncates towards
     zero modulo 2^32 (observed). The dataset level converts to float64 first
     (_apply_scale). *)
  Definition grid_phase_int (w : Z) (g : rng) (ad bd : list Z) (samples : Z)
             (good keep0 : list bool) : (list bool + error) * rng :=
    if negb (samples =? 0) && (samples <? zlen ad) then
      match populate (discretize_int w ad) (discretize_int w bd) PositiveSet.empty with
      | None => (inr ErrIndex, g)
      | Some keepd =>
          match adjust g keepd samples with
          | (Some keepdb, g') => (inl (scatter good keepdb keep0), g')
          | (None, g') => (inr ErrValue, g')
          end
      end
    else (inl keep0, g).

  Definition downsample_grid_int (w : Z) (g : rng) (a b : list fval) (samples : Z)
             (remove_invalid : bool) : result * rng :=
    let bad := map2 orb (map is_bad a) (map is_bad b) in
    let good := map negb bad in
    let ad := map fin_val (select good a) in
    let bd := map fin_val (select good b) in
    match grid_phase_int w g ad bd samples good good with
    | (inr e, g1) => (Err e, g1)
    | (inl keep1, g1) =>
        match pad_phase g1 keep1 bad samples remove_invalid with
        | (inr e, g2) => (Err e, g2)
        | (inl keep, g2) => (Ok (select keep a) (select keep b) keep, g2)
        end
    end.

  (* ---- the request as the callers pass it ------------------------------- *)
  (* `cdef uint32 samples_int = np.uint32(samples)`: a Python int outside
     0..2^32-1 raises OverflowError (numpy 2), a numpy integer scalar
     ([np_scalar] = true) wraps modulo 2^32. The functions above are the
     bodies after this conversion. *)
  Definition to_uint32 (np_scalar : bool) (samples : Z) : option Z :=
    if np_scalar then Some (samples mod 4294967296)
    else if (0 <=? samples) && (samples <? 4294967296) then Some samples
    else None.

  (* downsample_rand: set_state comes before the conversion *)
  Definition downsample_rand_req (g : rng) (np_scalar : bool) (a : list fval)
             (samples : Z) (remove_invalid : bool) : result * rng :=
    match to_uint32 np_scalar samples with
    | Some s => downsample_rand g a s remove_invalid
    | None => (Err ErrOverflow, seed47)
    end.

  Definition downsample_grid_req (g : rng) (np_scalar : bool) (a b : list fval)
             (samples : Z) (remove_invalid : bool) : result * rng :=
    match to_uint32 np_scalar samples with
    | Some s => downsample_grid g a b s remove_invalid
    | None => (Err ErrOverflow, g)
    end.

  (* ---- Filter.update, step 4: combine and apply "limit events" ---------- *)
  (* fixed code (C16-cap-request): limit = min(limit events, sub.size); the
     configuration holds a Python int *)
  Definition limit_events (g : rng) (arr_all : list bool) (limit : Z)
    : (list bool + error) * rng :=
    if limit >? 0 then
      let sub := select arr_all arr_all in
      let limit' := Z.min limit (zlen sub) in
      match downsample_rand_req g false (map (fun _ => Fin 1) sub) limit' false with
      | (Ok _ _ idx, g') =>
          let sub' := map2 andb sub idx in          (* sub[~idx] = False *)
          (inl (scatter arr_all sub' arr_all), g')  (* arr_all[arr_all] = sub *)
      | (Err e, g') => (inr e, g')
      end
    else (inl arr_all, g).

  Definition filter_all (g : rng) (box invalid polygon manual : list bool)
             (enable : bool) (limit : Z) : (list bool + error) * rng :=
    if enable then
      limit_events g (map2 andb (map2 andb (map2 andb box invalid) polygon)
                           manual) limit
    else (inl (ones box), g).

  (* ---- RTDCBase.get_downsampled_scatter(..., ret_mask=True) ------------- *)
  (* xf yf: the two features (all events) as float64; xlf ylf: their
     logarithms (oracle, elementwise, so it commutes with the selection by
     filter.all); _apply_scale: the feature itself for the linear scale, its
     logarithm for "log"; fall: filter.all.
     fixed code (C16-cap-request): downsample = min(int(downsample),
     filter.all.sum()), a Python int *)
  Definition apply_scale (log : bool) (f lf : list fval) : list fval :=
    if log then lf else f.

  Definition scatter_ds (g : rng) (xf yf xlf ylf : list fval) (xlog ylog : bool)
             (fall : list bool) (downsample : Z) (remove_invalid : bool)
    : result * rng :=
    if downsample <? 0 then (Err ErrNegative, g)
    else
      let ds := Z.min downsample (count_true fall) in
      let x := select fall xf in
      let y := select fall yf in
      let xs := select fall (apply_scale xlog xf xlf) in
      let ys := select fall (apply_scale ylog yf ylf) in
      match downsample_grid_req g false xs ys ds remove_invalid with
      | (Ok _ _ idx, g') =>
          let mask := scatter fall idx (zeros fall) in  (* mask[mids] = idx *)
          (Ok (select idx x) (select idx y) mask, g')
      | (Err e, g') => (Err e, g')
      end.
End Model.

(* ---- specification ------------------------------------------------------- *)
(* number of events to return: request 0 means "everything eligible" *)
Definition spec_count (request eligible : Z) : Z :=
  if request =? 0 then eligible else Z.min request eligible.

Definition good_mask (a b : list fval) : list bool :=
  map negb (map2 orb (map is_bad a) (map is_bad b)).

(* m1 selects a subset of what m2 selects *)
Fixpoint subset_mask (m1 m2 : list bool) : bool :=
  match m1, m2 with
  | b1 :: r1, b2 :: r2 => (implb b1 b2) && subset_mask r1 r2
  | [], [] => true
  | _, _ => false
  end.

(* guards mirrored by the matchers of the two known findings *)
Definition grid_runs (a b : list fval) (samples : Z) : bool :=
  negb (samples =? 0) && (samples <? count_true (good_mask a b)).

Definition axes_not_constant (a b : list fval) : bool :=
  let good := good_mask a b in
  negb (ptp (map fin_val (select good a)) =? 0)
  && negb (ptp (map fin_val (select good b)) =? 0).

(* fewer than four valid points: the NaN cells are cast to 0 (nan_cast) *)
Definition no_constant_axis (a b : list fval) (samples : Z) : bool :=
  negb (grid_runs a b samples) || axes_not_constant a b
  || (count_true (good_mask a b) <? 4).

(* is_bad (log x): NaN for negative and NaN arguments, -inf for 0, +inf for +inf *)
Definition log_bad (x : fval) : bool :=
  match x with Fin z => z <=? 0 | _ => true end.

(* ---- interface used by the correspondence check (harness/c16.py) -------- *)
Definition dec_fval (p : Z * Z) : fval :=
  let '(t, z) := p in
  if t =? 0 then Fin z else if t =? 1 then NaN else if t =? 2 then PInf else NInf.
Definition enc_fval (v : fval) : list Z :=
  match v with Fin z => [0; z] | NaN => [1; 0] | PInf => [2; 0] | NInf => [3; 0] end.
Definition dec_bool (p : Z * Z) : bool := negb (snd p =? 0).
Definition enc_bool (b : bool) : Z := if b then 1 else 0.

(* recorded draws of the seeded generator: (n, k, positions) *)
Definition table := list (Z * Z * list Z).
Fixpoint lookup (n k : Z) (t : table) : list Z :=
  match t with
  | [] => [-1]
  | (n', k', ps) :: t' => if (n =? n') && (k =? k') then ps else lookup n k t'
  end.
(* states: 0 = seed 47, anything else = some other state (no draws known) *)
Definition tchoice (t : table) (g n k : Z) : list Z * Z :=
  (if g =? 0 then lookup n k t else [-2], 1).

Definition enc_error (e : error) : list Z :=
  match e with ErrValue => [1] | ErrIndex => [2] | ErrNegative => [3]
           | ErrOverflow => [5] end.
(* results with more than 600 events are compared through digests *)
Definition digest (l : list Z) : Z :=
  fold_left (fun h x => (h * 1000003 + x) mod 2305843009213693951) l 17.
Definition enc_mask_list (m : list bool) : list Z :=
  if 600 <? zlen m then [4; digest (map enc_bool m)] else map enc_bool m.
Definition enc_vals (l : list fval) : list Z :=
  if 600 <? zlen l then [4; digest (flat_map enc_fval l)] else flat_map enc_fval l.
Definition enc_result (r : result) : list Z :=
  match r with
  | Ok asd bsd keep =>
      [0; count_true keep] ++ enc_mask_list keep ++ enc_vals asd ++ enc_vals bsd
  | Err e => enc_error e
  end.
Definition enc_mask (r : list bool + error) : list Z :=
  match r with
  | inl m => [0; count_true m] ++ enc_mask_list m
  | inr e => enc_error e
  end.

Definition nthl (ls : list (list (Z * Z))) (i : nat) : list (Z * Z) := nth i ls [].
Definition nthp (ps : list Z) (i : nat) : Z := nth i ps 0.

(* case = (kind, arrays, parameters, table); the initial global state is 1
   (not the seeded one): every draw must be preceded by set_state *)
Definition run_flat (case : Z * list (list (Z * Z)) * list Z * table) : list Z :=
  let '(kind, ls, ps, t) := case in
  let ch := tchoice t in
  let fv i := map dec_fval (nthl ls i) in
  let bv i := map dec_bool (nthl ls i) in
  let flag i := negb (nthp ps i =? 0) in
  if kind =? 0 then      (* ps = [samples; remove_invalid; numpy scalar request] *)
    if nthp ps 3 =? 0 then
      enc_result (fst (downsample_grid_req Z 0 ch 1 (flag 2%nat) (fv 0%nat) (fv 1%nat)
                                           (nthp ps 0) (flag 1%nat)))
    else                 (* ps[3] = width of the signed integer dtype *)
      match to_uint32 (flag 2%nat) (nthp ps 0) with
      | Some s => enc_result (fst (downsample_grid_int Z 0 ch (nthp ps 3) 1 (fv 0%nat)
                                                       (fv 1%nat) s (flag 1%nat)))
      | None => enc_error ErrOverflow
      end
  else if kind =? 1 then
    enc_result (fst (downsample_rand_req Z 0 ch 1 (flag 2%nat) (fv 0%nat)
                                         (nthp ps 0) (flag 1%nat)))
  else if kind =? 2 then
    enc_mask (fst (filter_all Z 0 ch 1 (bv 0%nat) (bv 1%nat) (bv 2%nat) (bv 3%nat)
                              (flag 0%nat) (nthp ps 1)))
  else                   (* ps = [downsample; remove_invalid; xlog; ylog] *)
    enc_result (fst (scatter_ds Z 0 ch 1 (fv 0%nat) (fv 1%nat) (fv 2%nat) (fv 3%nat)
                                (flag 2%nat) (flag 3%nat)
                                (bv 4%nat) (nthp ps 0) (flag 1%nat))).
