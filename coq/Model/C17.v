(* Model of dclab's caches (property C17). Executable definitions only; the
   proofs are in Proofs/C17*.v.

   Part A  byte-level key of dclab/cached.py:Cache (_update_hash,
           _update_hash_chunk): [key_new] follows the code after the proposed
           repair (every item is a sequence of length-prefixed chunks, tagged
           with its type; arrays with dtype and shape); [key_old] is the key
           of the unrepaired code (plain concatenation of raw bytes / str()).
   Part B  Cache.__call__: the global FIFO memo table (_keys list + _cache
           dict), results living in a heap of mutable cells so that in-place
           modification of returned objects can be expressed. [copy_out]
           = true is the repaired code (a copy is handed out), false the
           unrepaired one (the cached object itself is handed out).
   Part C  util.file_monitoring_lru_cache / hashfile: functools.lru_cache
           keyed on (path, (mtime_ns, size), args) over a file system.
   Part D  features/contour.py:LazyContourList: two aligned bounded deques.
   Part E  per-object array caches (H5ScalarEvent._array, ChildScalar._array,
           BasinProxyFeature._cache): one cached cell, reads hand out views
           of it or copies; [ro] = true is the repaired code (cached cell is
           read-only).
   Part F  flat interfaces for the correspondence check (harness/c17.py). *)
From Coq Require Import ZArith List Bool.
Import ListNotations.
Open Scope Z_scope.

(* ====================================================================== *)
(* Part A: the key                                                         *)
(* ====================================================================== *)
Definition bytes := list Z.

(* int.to_bytes(k, "little") *)
Fixpoint le_bytes (k : nat) (n : Z) : bytes :=
  match k with
  | O => []
  | S k' => (n mod 256) :: le_bytes k' (n / 256)
  end.

Definition le8 (n : Z) : bytes := le_bytes 8 n.
Definition blen (b : bytes) : Z := Z.of_nat (length b).

(* _update_hash_chunk: 8-byte little-endian length, then the bytes *)
Definition chunk (b : bytes) : bytes := le8 (blen b) ++ b.

(* an argument as the key function sees it *)
Inductive arg :=
| Arr (dt sh data : bytes)   (* ndarray: dtype.str, str(shape), C-order data *)
| Oth (ty repr : bytes)      (* anything else: type(arg).__name__, str(arg) *)
| Seq (k : bytes) (l : list arg).   (* list / tuple / dict (k1, v1, k2, v2, ... sorted)
                                      / masked array (data, mask): kind tag, items *)

Record sig := {
  s_pos : list arg;                 (* *args *)
  s_kw : list (bytes * arg);        (* **kwargs, sorted by name *)
  s_name : arg;                     (* func.__name__ *)
  s_doc : arg;                      (* func.__doc__ (str or None) *)
  s_file : arg                      (* func.__code__.co_filename *)
}.

Definition t_ndarray : bytes := [110; 100; 97; 114; 114; 97; 121].
Definition t_list : bytes := [108; 105; 115; 116].
Definition t_tuple : bytes := [116; 117; 112; 108; 101].
Definition t_dict : bytes := [100; 105; 99; 116].
Definition t_masked : bytes := [109; 97; 115; 107; 101; 100].
Definition t_args : bytes := [97; 114; 103; 115].
Definition t_kwargs : bytes := [107; 119; 97; 114; 103; 115].
Definition t_str : bytes := [115; 116; 114].

(* --- the unrepaired key: md5 is fed the plain concatenation ------------- *)
Fixpoint old_arg (x : arg) : bytes :=
  match x with
  | Arr _ _ d => d
  | Oth _ r => r
  | Seq _ l => flat_map old_arg l
  end.

Definition key_old (c : sig) : bytes :=
  flat_map old_arg (s_pos c)
  ++ flat_map (fun kv => fst kv ++ old_arg (snd kv)) (s_kw c)
  ++ old_arg (s_name c) ++ old_arg (s_doc c) ++ old_arg (s_file c).

(* --- the repaired key: a list of chunks --------------------------------- *)
Fixpoint toks_arg (x : arg) : list bytes :=
  match x with
  | Arr dt sh d => [t_ndarray; dt; sh; d]
  | Oth ty r => [ty; r]
  | Seq k l => [k; le8 (Z.of_nat (length l))] ++ flat_map toks_arg l
  end.

Definition toks_kw (kv : bytes * arg) : list bytes :=
  toks_arg (Oth t_str (fst kv)) ++ toks_arg (snd kv).

Definition toks_sig (c : sig) : list bytes :=
  [t_args; le8 (Z.of_nat (length (s_pos c)))] ++ flat_map toks_arg (s_pos c)
  ++ [t_kwargs; le8 (Z.of_nat (length (s_kw c)))] ++ flat_map toks_kw (s_kw c)
  ++ toks_arg (s_name c) ++ toks_arg (s_doc c) ++ toks_arg (s_file c).

Definition key_new (c : sig) : bytes := flat_map chunk (toks_sig c).

(* well-formedness: what Python's dispatch in _update_hash guarantees (an
   object that is not an ndarray / list is not tagged "ndarray" / "list"),
   and lengths fit the 8-byte length field *)
Fixpoint beqb (a b : bytes) : bool :=
  match a, b with
  | [], [] => true
  | x :: a', y :: b' => (x =? y) && beqb a' b'
  | _, _ => false
  end.

Definition small (b : bytes) : bool := blen b <? 2 ^ 64.

Definition is_seq_kind (k : bytes) : bool :=
  beqb k t_list || beqb k t_tuple || beqb k t_dict || beqb k t_masked.

Fixpoint wf_arg (x : arg) : bool :=
  match x with
  | Arr dt sh d => small dt && small sh && small d
  | Oth ty r => negb (beqb ty t_ndarray) && negb (is_seq_kind ty)
                && small ty && small r
  | Seq k l => is_seq_kind k && forallb wf_arg l && (Z.of_nat (length l) <? 2 ^ 64)
  end.

Definition wf_sig (c : sig) : bool :=
  forallb wf_arg (s_pos c) && (Z.of_nat (length (s_pos c)) <? 2 ^ 64)
  && forallb (fun kv => small (fst kv) && wf_arg (snd kv)) (s_kw c)
  && (Z.of_nat (length (s_kw c)) <? 2 ^ 64)
  && wf_arg (s_name c) && wf_arg (s_doc c) && wf_arg (s_file c).

(* ====================================================================== *)
(* heap of mutable cells shared by parts B, D, E                           *)
(* ====================================================================== *)
Section Heap.
  Context {V : Type}.
  Definition heap := list (V * bool).     (* value, writeable flag *)

  Definition halloc (h : heap) (v : V) (w : bool) : heap * nat :=
    (h ++ [(v, w)], length h).

  Definition hget (h : heap) (r : nat) : option V :=
    match nth_error h r with Some (v, _) => Some v | None => None end.

  Fixpoint upd {X} (l : list X) (n : nat) (x : X) : list X :=
    match l, n with
    | [], _ => []
    | _ :: l', O => x :: l'
    | y :: l', S n' => y :: upd l' n' x
    end.

  (* in-place modification through reference r: refused on read-only cells
     (numpy raises "assignment destination is read-only") *)
  Definition hmodify (h : heap) (r : nat) (f : V -> V) : heap * bool :=
    match nth_error h r with
    | Some (v, true) => (upd h r (f v, true), true)
    | _ => (h, false)
    end.
End Heap.

(* ====================================================================== *)
(* Part B: Cache.__call__                                                  *)
(* ====================================================================== *)
Section Memo.
  Variables A K V E : Type.
  Variable key : A -> K.                (* md5 of the fed bytes *)
  Variable keqb : K -> K -> bool.
  Variable F : A -> V + E.              (* self.func( *args, **kwargs ) *)
  Variable copy_out : bool.

  Record mstate := {
    m_keys : list K;                    (* Cache._keys *)
    m_cache : list (K * nat);           (* Cache._cache, insertion order *)
    m_heap : @heap V;
    m_outs : list nat;                  (* objects handed out so far *)
    m_cap : Z                           (* cached.MAX_SIZE (a module global) *)
  }.

  Definition m_init (cap : Z) : mstate :=
    {| m_keys := []; m_cache := []; m_heap := []; m_outs := []; m_cap := cap |}.

  Fixpoint lookup (k : K) (c : list (K * nat)) : option nat :=
    match c with
    | [] => None
    | (k', r) :: c' => if keqb k k' then Some r else lookup k c'
    end.

  (* dict.pop(k) *)
  Fixpoint remove_key (k : K) (c : list (K * nat)) : list (K * nat) :=
    match c with
    | [] => []
    | (k', r) :: c' => if keqb k k' then c' else (k', r) :: remove_key k c'
    end.

  Inductive mop :=
  | Call (a : A)
  | Mut (j : nat) (f : V -> V)    (* modify in place the j-th returned object *)
  | Clear                         (* Cache.clear_cache() *)
  | SetCap (c : Z).               (* cached.MAX_SIZE = c *)

  Inductive mout :=
  | MVal (hit : bool) (v : option V)   (* value of the returned object *)
  | MExc (e : E)
  | MMut (ok : bool).

  (* data -> what is handed out *)
  Definition hand_out (h : @heap V) (r : nat) : @heap V * nat :=
    if copy_out then
      match hget h r with
      | Some v => halloc h v true
      | None => (h, r)
      end
    else (h, r).

  Definition mstep (s : mstate) (o : mop) : mstate * mout :=
    match o with
    | Call a =>
        let ref := key a in
        match lookup ref (m_cache s) with
        | Some r =>
            let '(h1, r1) := hand_out (m_heap s) r in
            ({| m_keys := m_keys s; m_cache := m_cache s; m_heap := h1;
                m_outs := m_outs s ++ [r1]; m_cap := m_cap s |}, MVal true (hget h1 r1))
        | None =>
            match F a with
            | inr e => (s, MExc e)
            | inl v =>
                let '(h0, r) := halloc (m_heap s) v true in
                let c1 := m_cache s ++ [(ref, r)] in
                let k1 := m_keys s ++ [ref] in
                let '(k2, c2) :=
                  if m_cap s <? Z.of_nat (length k1) then
                    match k1 with
                    | delref :: k' => (k', remove_key delref c1)
                    | [] => (k1, c1)
                    end
                  else (k1, c1) in
                let '(h1, r1) := hand_out h0 r in
                ({| m_keys := k2; m_cache := c2; m_heap := h1;
                    m_outs := m_outs s ++ [r1]; m_cap := m_cap s |},
                 MVal false (hget h1 r1))
            end
        end
    | Mut j f =>
        match nth_error (m_outs s) j with
        | Some r =>
            let '(h1, ok) := hmodify (m_heap s) r f in
            ({| m_keys := m_keys s; m_cache := m_cache s; m_heap := h1;
                m_outs := m_outs s; m_cap := m_cap s |}, MMut ok)
        | None => (s, MMut false)
        end
    | Clear =>
        ({| m_keys := []; m_cache := []; m_heap := m_heap s; m_outs := m_outs s;
            m_cap := m_cap s |}, MMut true)
    | SetCap c =>
        ({| m_keys := m_keys s; m_cache := m_cache s; m_heap := m_heap s;
            m_outs := m_outs s; m_cap := c |}, MMut true)
    end.

  Fixpoint mrun (s : mstate) (ops : list mop) : mstate * list mout :=
    match ops with
    | [] => (s, [])
    | o :: ops' =>
        let '(s1, r) := mstep s o in
        let '(s2, rs) := mrun s1 ops' in
        (s2, r :: rs)
    end.

  (* --- specification: what a fresh computation gives -------------------- *)
  Inductive sout := SVal (v : V) | SExc (e : E) | SNone.

  Definition spec_op (o : mop) : sout :=
    match o with
    | Call a => match F a with inl v => SVal v | inr e => SExc e end
    | Mut _ _ => SNone
    | Clear => SNone
    | SetCap _ => SNone
    end.

  Definition obs (o : mout) : option sout :=
    match o with
    | MVal _ (Some v) => Some (SVal v)
    | MVal _ None => None
    | MExc e => Some (SExc e)
    | MMut _ => Some SNone
    end.
End Memo.

Arguments m_keys {K V} _.
Arguments m_cache {K V} _.
Arguments m_heap {K V} _.
Arguments m_outs {K V} _.
Arguments m_cap {K V} _.
Arguments Clear {A V}.
Arguments SetCap {A V} c.
Arguments Call {A V} a.
Arguments Mut {A V} j f.
Arguments MVal {V E} hit v.
Arguments MExc {V E} e.
Arguments MMut {V E} ok.
Arguments SVal {V E} v.
Arguments SExc {V E} e.
Arguments SNone {V E}.

(* ====================================================================== *)
(* Part C: util.file_monitoring_lru_cache (hashfile)                       *)
(* ====================================================================== *)
Section HashFile.
  Variables C ARGS HV E : Type.          (* file content, extra arguments *)
  Variable aeqb : ARGS -> ARGS -> bool.
  Variable size_of : C -> Z.
  Variable fresh : C -> ARGS -> HV + E.  (* func( path, ... ) *)
  Variable maxsize : Z.

  Definition fkey := (Z * Z * Z * ARGS)%type.   (* path, mtime_ns, size, args *)

  Definition fkeqb (a b : fkey) : bool :=
    let '(p, m, s, x) := a in
    let '(p', m', s', x') := b in
    (p =? p') && (m =? m') && (s =? s') && aeqb x x'.

  Record fstate := {
    f_fs : list (Z * (C * Z));          (* path -> (content, mtime_ns) *)
    f_lru : list (fkey * HV)            (* least recently used first *)
  }.

  Fixpoint fs_get (fs : list (Z * (C * Z))) (p : Z) : option (C * Z) :=
    match fs with
    | [] => None
    | (p', x) :: fs' => if p =? p' then Some x else fs_get fs' p
    end.

  Fixpoint fs_del (fs : list (Z * (C * Z))) (p : Z) : list (Z * (C * Z)) :=
    match fs with
    | [] => []
    | (p', x) :: fs' => if p =? p' then fs_del fs' p else (p', x) :: fs_del fs' p
    end.

  Definition fs_set fs p (x : C * Z) := (p, x) :: fs_del fs p.

  (* find an entry; returns the value and the list without the entry *)
  Fixpoint lru_take (k : fkey) (l : list (fkey * HV))
    : option (HV * list (fkey * HV)) :=
    match l with
    | [] => None
    | (k', v) :: l' =>
        if fkeqb k k' then Some (v, l')
        else match lru_take k l' with
             | Some (w, l'') => Some (w, (k', v) :: l'')
             | None => None
             end
    end.

  Inductive fop :=
  | FWrite (p : Z) (c : C) (mtime : Z)   (* (re)write the file *)
  | FDelete (p : Z)
  | FHash (p : Z) (x : ARGS).

  Inductive fout :=
  | FVal (hit : bool) (v : HV)
  | FExc (e : E)
  | FMissing                              (* path does not exist: func raises *)
  | FNone.

  Definition fstep (s : fstate) (o : fop) : fstate * fout :=
    match o with
    | FWrite p c m => ({| f_fs := fs_set (f_fs s) p (c, m); f_lru := f_lru s |}, FNone)
    | FDelete p => ({| f_fs := fs_del (f_fs s) p; f_lru := f_lru s |}, FNone)
    | FHash p x =>
        match fs_get (f_fs s) p with
        | None => (s, FMissing)
        | Some (c, m) =>
            let k := (p, m, size_of c, x) in
            match lru_take k (f_lru s) with
            | Some (v, rest) =>
                ({| f_fs := f_fs s; f_lru := rest ++ [(k, v)] |}, FVal true v)
            | None =>
                match fresh c x with
                | inr e => (s, FExc e)
                | inl v =>
                    let l1 := f_lru s ++ [(k, v)] in
                    let l2 := if maxsize <? Z.of_nat (length l1) then tl l1 else l1 in
                    ({| f_fs := f_fs s; f_lru := l2 |}, FVal false v)
                end
            end
        end
    end.

  Fixpoint frun (s : fstate) (ops : list fop) : fstate * list fout :=
    match ops with
    | [] => (s, [])
    | o :: ops' =>
        let '(s1, r) := fstep s o in
        let '(s2, rs) := frun s1 ops' in
        (s2, r :: rs)
    end.

  (* specification: a plain file system, the function applied afresh *)
  Inductive fsout := FSVal (v : HV) | FSExc (e : E) | FSMissing | FSNone.

  Fixpoint fspec (fs : list (Z * (C * Z))) (ops : list fop) : list fsout :=
    match ops with
    | [] => []
    | FWrite p c m :: r => FSNone :: fspec (fs_set fs p (c, m)) r
    | FDelete p :: r => FSNone :: fspec (fs_del fs p) r
    | FHash p x :: r =>
        match fs_get fs p with
        | None => FSMissing
        | Some (c, _) => match fresh c x with inl v => FSVal v | inr e => FSExc e end
        end :: fspec fs r
    end.

  Definition fobs (o : fout) : fsout :=
    match o with
    | FVal _ v => FSVal v
    | FExc e => FSExc e
    | FMissing => FSMissing
    | FNone => FSNone
    end.

  (* the hypothesis of the design: a file never shows the same
     (mtime_ns, size) with two different contents. [seen] collects every
     (path, mtime, size, content) that has existed. *)
  Fixpoint stats_ok (seen : list (Z * Z * Z * C)) (ops : list fop) : Prop :=
    match ops with
    | [] => True
    | FWrite p c m :: r =>
        (forall c', In (p, m, size_of c, c') seen -> c' = c)
        /\ stats_ok ((p, m, size_of c, c) :: seen) r
    | _ :: r => stats_ok seen r
    end.
End HashFile.

Arguments f_fs {C ARGS HV} _.
Arguments f_lru {C ARGS HV} _.
Arguments FWrite {C ARGS} p c mtime.
Arguments FDelete {C ARGS} p.
Arguments FHash {C ARGS} p x.
Arguments FVal {HV E} hit v.
Arguments FExc {HV E} e.
Arguments FMissing {HV E}.
Arguments FNone {HV E}.
Arguments FSVal {HV E} v.
Arguments FSExc {HV E} e.
Arguments FSMissing {HV E}.
Arguments FSNone {HV E}.

(* ====================================================================== *)
(* Part D: LazyContourList                                                 *)
(* ====================================================================== *)
Section LCL.
  Variables CV E : Type.
  Variable contour_of : Z -> CV + E.    (* get_contour(self.masks[idx]) *)
  Variable maxlen : option Z.           (* deque(maxlen=max_events or None) *)
  Variable ro : bool.                   (* cached contours are read-only *)

  (* deque.append with maxlen *)
  Definition dq_append {X} (l : list X) (x : X) : list X :=
    let l' := l ++ [x] in
    match maxlen with
    | Some m => if m <? Z.of_nat (length l') then tl l' else l'
    | None => l'
    end.

  Record lstate := {
    l_indices : list Z;
    l_contours : list nat;              (* references into the heap *)
    l_heap : @heap CV;
    l_outs : list nat
  }.

  Definition l_init : lstate :=
    {| l_indices := []; l_contours := []; l_heap := []; l_outs := [] |}.

  (* deque.index(x): first position *)
  Fixpoint index_of (x : Z) (l : list Z) : option nat :=
    match l with
    | [] => None
    | y :: l' => if x =? y then Some O
                 else match index_of x l' with Some n => Some (S n) | None => None end
    end.

  Inductive lop := LGet (idx : Z) | LMut (j : nat) (f : CV -> CV).
  Inductive lout :=
  | LVal (hit : bool) (v : option CV)
  | LExc (e : E)
  | LIndexError
  | LMutR (ok : bool).

  Definition lstep (s : lstate) (o : lop) : lstate * lout :=
    match o with
    | LGet idx =>
        match index_of idx (l_indices s) with
        | Some q =>
            match nth_error (l_contours s) q with
            | Some r =>
                ({| l_indices := dq_append (l_indices s) idx;
                    l_contours := dq_append (l_contours s) r;
                    l_heap := l_heap s; l_outs := l_outs s ++ [r] |},
                 LVal true (hget (l_heap s) r))
            | None => (s, LIndexError)
            end
        | None =>
            match contour_of idx with
            | inr e => (s, LExc e)
            | inl c =>
                let '(h1, r) := halloc (l_heap s) c (negb ro) in
                ({| l_indices := dq_append (l_indices s) idx;
                    l_contours := dq_append (l_contours s) r;
                    l_heap := h1; l_outs := l_outs s ++ [r] |},
                 LVal false (hget h1 r))
            end
        end
    | LMut j f =>
        match nth_error (l_outs s) j with
        | Some r =>
            let '(h1, ok) := hmodify (l_heap s) r f in
            ({| l_indices := l_indices s; l_contours := l_contours s;
                l_heap := h1; l_outs := l_outs s |}, LMutR ok)
        | None => (s, LMutR false)
        end
    end.

  Fixpoint lrun (s : lstate) (ops : list lop) : lstate * list lout :=
    match ops with
    | [] => (s, [])
    | o :: ops' =>
        let '(s1, r) := lstep s o in
        let '(s2, rs) := lrun s1 ops' in
        (s2, r :: rs)
    end.

  Inductive lsout := LSVal (v : CV) | LSExc (e : E) | LSNone.

  Definition lspec (o : lop) : lsout :=
    match o with
    | LGet idx => match contour_of idx with inl c => LSVal c | inr e => LSExc e end
    | LMut _ _ => LSNone
    end.

  Definition lobs (o : lout) : option lsout :=
    match o with
    | LVal _ (Some v) => Some (LSVal v)
    | LVal _ None => None
    | LExc e => Some (LSExc e)
    | LIndexError => None
    | LMutR _ => Some LSNone
    end.
End LCL.

Arguments l_indices {CV} _.
Arguments l_contours {CV} _.
Arguments l_heap {CV} _.
Arguments l_outs {CV} _.
Arguments LGet {CV} idx.
Arguments LMut {CV} j f.
Arguments LVal {CV E} hit v.
Arguments LExc {CV E} e.
Arguments LIndexError {CV E}.
Arguments LMutR {CV E} ok.
Arguments LSVal {CV E} v.
Arguments LSExc {CV E} e.
Arguments LSNone {CV E}.

(* ====================================================================== *)
(* Part E: per-object array caches                                         *)
(* ====================================================================== *)
Section ObjCache.
  Variable data : list Z.               (* what the file / the parent holds *)
  Variable ro : bool.                   (* the cached array is read-only *)
  Variable nat_dt : Z.                  (* dtype of the data: 2 int64, 3 float64 *)
  Variable reuse : bool.                (* false: BasinProxyFeature.__array__, which
                                           uses its cache on the first call only and
                                           assembles a new array on every later call *)

  (* a view: base cell, selected positions of the base *)
  Definition view := (nat * list nat)%type.

  Record ostate := {
    o_array : option nat;               (* self._array *)
    o_heap : @heap (list Z);
    o_outs : list view
  }.

  Definition o_init : ostate := {| o_array := None; o_heap := []; o_outs := [] |}.

  (* dtype codes: 0 = not given, 1 float32, 2 int64, 3 float64. Values are
     scaled by 8 (the generators emit multiples of 1/8 below 2^20, exactly
     representable as float32); conversion to int64 truncates towards zero *)
  Inductive rd :=
  | RdAll                               (* obj[:], np.asarray(obj), obj.__array__() *)
  | RdSlice (lo hi : Z)                 (* obj[lo:hi], 0 <= lo, 0 <= hi: a view *)
  | RdFancy (idx : list Z)              (* obj[[i, j, ...]]: a copy *)
  | RdCopy                              (* np.array(obj, copy=True) *)
  | RdConv (d cp : Z)                   (* np.array(obj, dtype=d, copy=None|True) *)
  | RdItem (i : Z)                      (* obj[i] *)
  | RdAttr (k : Z)                      (* obj.max() (k = 0) / obj.min() (otherwise) *)
  | RdNop.                              (* requests that are not modelled *)

  Definition target (d : Z) : Z := if d =? 0 then nat_dt else d.

  Definition conv (t : Z) (l : list Z) : list Z :=
    if t =? 2 then map (fun v => Z.quot v 8 * 8) l else l.

  Definition rd_dt (r : rd) : Z :=
    match r with RdConv d _ => target d | _ => nat_dt end.

  Inductive oop := ORead (r : rd) | OMut (j : nat) (delta : Z).
  Inductive oout := OVal (dt : Z) (v : option (list Z)) | ONone | OMutR (ok : bool).

  Fixpoint seq_from (a : nat) (n : nat) : list nat :=
    match n with O => [] | S n' => a :: seq_from (S a) n' end.

  Definition select (l : list Z) (pos : list nat) : option (list Z) :=
    fold_right (fun p acc =>
                  match nth_error l p, acc with
                  | Some x, Some r => Some (x :: r)
                  | _, _ => None
                  end) (Some []) pos.

  Definition view_value (h : @heap (list Z)) (v : view) : option (list Z) :=
    match hget h (fst v) with
    | Some l => select l (snd v)
    | None => None
    end.

  (* add delta at the given positions *)
  Fixpoint bump (l : list Z) (pos : list nat) (delta : Z) : list Z :=
    match pos with
    | [] => l
    | p :: pos' =>
        bump (match nth_error l p with Some x => upd l p (x + delta) | None => l end)
             pos' delta
    end.

  (* __array__: load on first use; -> (heap, the cache cell, the array that
     this call of __array__ returns) *)
  Definition ensure (s : ostate) : @heap (list Z) * nat * nat :=
    match o_array s with
    | Some r =>
        if reuse then (o_heap s, r, r)
        else let '(h, b) := halloc (o_heap s) data true in (h, r, b)
    | None => let '(h, r) := halloc (o_heap s) data (negb ro) in (h, r, r)
    end.

  Definition slice_pos (n : nat) (lo hi : Z) : list nat :=
    let lo' := Z.to_nat (Z.min lo (Z.of_nat n)) in
    let hi' := Z.to_nat (Z.min hi (Z.of_nat n)) in
    seq_from lo' (hi' - lo').

  (* requests answered with a view of the array that __array__ returns:
     the selected positions *)
  Definition rd_view (r : rd) : option (list nat) :=
    let n := length data in
    match r with
    | RdAll => Some (seq_from O n)
    | RdSlice lo hi => Some (slice_pos n lo hi)
    | RdConv d cp => if (target d =? nat_dt) && (cp =? 0) then Some (seq_from O n) else None
    | _ => None
    end.

  (* requests answered with a new array: its content *)
  Definition rd_fresh (r : rd) : option (list Z) :=
    match r with
    | RdFancy idx => select data (map Z.to_nat idx)
    | RdCopy => Some data
    | RdConv d cp => Some (conv (target d) data)
    | RdItem i => match nth_error data (Z.to_nat i) with Some x => Some [x] | None => None end
    | RdAttr k =>
        match data with
        | [] => None
        | x :: l => Some [fold_left (if k =? 0 then Z.max else Z.min) l x]
        end
    | _ => None
    end.

  (* BasinProxyFeature.__getitem__: a single index is served from the basin
     directly as long as nothing has been cached ("cheap operation") *)
  Definition skip_load (s : ostate) (r : rd) : bool :=
    match r, o_array s with
    | RdItem _, None => negb reuse
    | _, _ => false
    end.

  (* any read request other than RdNop *)
  Definition oread (s : ostate) (r : rd) : ostate * oout :=
    if skip_load s r then
      let l := match rd_fresh r with Some l => l | None => [] end in
      let '(h, c) := halloc (o_heap s) l true in
      let v := (c, seq_from O (length l)) in
      ({| o_array := o_array s; o_heap := h; o_outs := o_outs s ++ [v] |},
       OVal (rd_dt r) (view_value h v))
    else
      let '(h0, a, b) := ensure s in
      let '(h1, v) :=
        match rd_view r with
        | Some pos => (h0, (b, pos))
        | None =>
            match rd_fresh r with
            | Some l => let '(h, c) := halloc h0 l true in
                        (h, (c, seq_from O (length l)))
            | None => (h0, (b, []))
            end
        end in
      ({| o_array := Some a; o_heap := h1; o_outs := o_outs s ++ [v] |},
       OVal (rd_dt r) (view_value h1 v)).

  Definition ostep (s : ostate) (o : oop) : ostate * oout :=
    match o with
    | ORead RdNop => (s, ONone)
    | ORead r => oread s r
    | OMut j delta =>
        match nth_error (o_outs s) j with
        | Some v =>
            let '(h1, ok) := hmodify (o_heap s) (fst v) (fun l => bump l (snd v) delta) in
            ({| o_array := o_array s; o_heap := h1; o_outs := o_outs s |}, OMutR ok)
        | None => (s, OMutR false)
        end
    end.

  Fixpoint orun (s : ostate) (ops : list oop) : ostate * list oout :=
    match ops with
    | [] => (s, [])
    | o :: ops' =>
        let '(s1, r) := ostep s o in
        let '(s2, rs) := orun s1 ops' in
        (s2, r :: rs)
    end.

  (* specification: what the request denotes on the stored data, and its dtype *)
  Definition ospec_read (r : rd) : Z * option (list Z) :=
    (rd_dt r,
     match rd_view r with
     | Some pos => select data pos
     | None => match rd_fresh r with Some l => Some l | None => Some [] end
     end).

  Definition ospec (o : oop) : option (Z * option (list Z)) :=
    match o with
    | ORead RdNop => None
    | ORead r => Some (ospec_read r)
    | OMut _ _ => None
    end.

  Definition oobs (o : oout) : option (Z * option (list Z)) :=
    match o with OVal dt v => Some (dt, v) | ONone => None | OMutR _ => None end.
End ObjCache.

(* ====================================================================== *)
(* Part F: flat interfaces for harness/c17.py                              *)
(* ====================================================================== *)

(* --- F1: Cache ---------------------------------------------------------- *)
(* pool entry: (tag, b1, b2, segs): tag 0 = Arr b1 b2 b3, else Oth b1 b2, where
   b3 is given run-length encoded: segments (k, pattern) = pattern repeated k
   times (large arrays would not fit a literal) *)
Definition expand (segs : list (Z * bytes)) : bytes :=
  flat_map (fun kp => concat (repeat (snd kp) (Z.to_nat (fst kp)))) segs.

Definition dec_atom (t : Z * bytes * bytes * list (Z * bytes)) : arg :=
  let '(tag, b1, b2, segs) := t in
  if tag =? 0 then Arr b1 b2 (expand segs) else Oth b1 b2.

Definition nth_atom (pool : list arg) (i : Z) : arg :=
  nth (Z.to_nat i) pool (Oth [] []).

(* argument: TA i = pool[i]; TL [...] = Python list *)
Inductive targ := TA (i : Z) | TL (kind : Z) (l : list targ).

Definition seq_kind (k : Z) : bytes :=
  if k =? 0 then t_list else if k =? 1 then t_tuple else if k =? 2 then t_dict else t_masked.

Fixpoint dec_arg (pool : list arg) (t : targ) : arg :=
  match t with
  | TA i => nth_atom pool i
  | TL k l => Seq (seq_kind k) (map (dec_arg pool) l)
  end.

Definition atom_repr (a : arg) : bytes :=
  match a with Arr _ _ d => d | Oth _ r => r | Seq _ _ => [] end.

(* call: (func = (name, doc, file) pool indices, args, kwargs (name index,
   arg), fv = code of the fresh result (>= 0 value id, < 0 exception)) *)
Definition ccall := ((Z * Z * Z) * list targ * list (Z * targ) * Z)%type.

Definition dec_sig (pool : list arg) (c : ccall) : sig * Z :=
  let '(fid, pos, kw, fv) := c in
  let '(nm, doc, file) := fid in
  ({| s_pos := map (dec_arg pool) pos;
      s_kw := map (fun kv => (atom_repr (nth_atom pool (fst kv)), dec_arg pool (snd kv))) kw;
      s_name := nth_atom pool nm; s_doc := nth_atom pool doc;
      s_file := nth_atom pool file |}, fv).

(* op: (0, call, _) call; (1, _, j) modify the j-th returned object *)
Definition cop := (Z * ccall * Z)%type.

Definition F_flat (a : sig * Z) : Z + Z :=
  if snd a <? 0 then inr (snd a) else inl (snd a).

Definition dec_cop (pool : list arg) (o : cop) : mop (sig * Z) Z :=
  let '(tag, c, j) := o in
  if tag =? 0 then Call (dec_sig pool c)
  else if tag =? 1 then Mut (Z.to_nat j) (fun v => -1 - v)
  else if tag =? 2 then Clear
  else SetCap j.

Definition enc_mout (fv : Z) (o : mout Z Z) : list Z :=
  match o with
  | MVal hit (Some v) => [if v =? fv then 0 else 1; if hit then 1 else 0]
  | MVal hit None => [7; if hit then 1 else 0]
  | MExc e => [3; 0]
  | MMut ok => [5; if ok then 1 else 0]
  end.

Definition cop_fv (o : cop) : Z := let '(_, c, _) := o in let '(_, _, _, fv) := c in fv.

(* case = (newkey, copy_out, MAX_SIZE, pool, ops) *)
Definition cache_flat (case : Z * Z * Z * list (Z * bytes * bytes * list (Z * bytes)) * list cop)
  : list Z :=
  let '(newkey, cpy, cap, pool0, ops) := case in
  let pool := map dec_atom pool0 in
  let key := fun a : sig * Z => if newkey =? 0 then key_old (fst a) else key_new (fst a) in
  let outs := snd (mrun (sig * Z) bytes Z Z key beqb F_flat (negb (cpy =? 0))
                        (m_init bytes Z cap) (map (dec_cop pool) ops)) in
  flat_map (fun p => enc_mout (cop_fv (fst p)) (snd p)) (combine ops outs).

(* the bytes fed to md5 for the first call of a case (compared with the bytes
   the implementation feeds to hashlib.md5) *)
Definition key_flat (case : Z * Z * Z * list (Z * bytes * bytes * list (Z * bytes)) * list cop)
  : list Z :=
  let '(newkey, cpy, cap, pool0, ops) := case in
  match ops with
  | (_, c, _) :: _ =>
      let sg := fst (dec_sig (map dec_atom pool0) c) in
      if newkey =? 0 then key_old sg else key_new sg
  | [] => []
  end.

(* --- F2: hashfile -------------------------------------------------------- *)
(* content = (content id, size); fresh = content id * 1000 + args code, or an
   exception when the args code is negative *)
Definition hf_fresh (c : Z * Z) (x : Z) : Z + Z :=
  if x <? 0 then inr x else inl (fst c * 1000 + x).

(* op: (0, p, cid, size, mtime) write; (1, p, ...) delete; (2, p, args, ...) hash *)
Definition dec_fop (t : Z * Z * Z * Z * Z) : fop (Z * Z) Z :=
  let '(tag, p, a, b, c) := t in
  if tag =? 0 then FWrite p (a, b) c
  else if tag =? 1 then FDelete p
  else FHash p a.

Definition enc_fout (o : fout Z Z) : list Z :=
  match o with
  | FVal hit v => [0; if hit then 1 else 0; v]
  | FExc e => [3; 0; e]
  | FMissing => [4; 0; 0]
  | FNone => []
  end.

Definition hashfile_flat (case : Z * list (Z * Z * Z * Z * Z)) : list Z :=
  let '(maxsize, ops) := case in
  flat_map enc_fout
    (snd (frun (Z * Z) Z Z Z Z.eqb snd hf_fresh maxsize
               {| f_fs := []; f_lru := [] |} (map dec_fop ops))).

(* --- F3: LazyContourList -------------------------------------------------- *)
(* contour_of idx = idx (value id) or exception for idx listed in [bad] *)
Definition lcl_contour (n : Z) (bad : list Z) (idx : Z) : Z + Z :=
  let i := if idx <? 0 then idx + n else idx in
  if existsb (Z.eqb i) bad then inr 1 else inl i.

Definition dec_lop (t : Z * Z) : lop Z :=
  let '(tag, a) := t in
  if tag =? 0 then LGet a else LMut (Z.to_nat a) (fun v => -1 - v).

Definition enc_lout (n : Z) (o : lout Z Z) : list Z :=
  match o with
  | LVal hit (Some v) => [0; if hit then 1 else 0; v]
  | LVal hit None => [7; 0; 0]
  | LExc e => [3; 0; e]
  | LIndexError => [6; 0; 0]
  | LMutR ok => [5; if ok then 1 else 0; 0]
  end.

(* case = (ro, maxlen (<= 0: unbounded), n, bad, ops) *)
Definition lcl_flat (case : Z * Z * Z * list Z * list (Z * Z)) : list Z :=
  let '(ro, ml, n, bad, ops) := case in
  let maxlen := if ml <=? 0 then None else Some ml in
  flat_map (enc_lout n)
    (snd (lrun Z Z (lcl_contour n bad) maxlen (negb (ro =? 0))
               (l_init Z) (map dec_lop ops))).

(* --- F4: per-object array caches ------------------------------------------ *)
(* op: (0, kind, lo, hi, idx) read; (1, j, delta, _, _) modify *)
Definition dec_oop (t : Z * Z * Z * Z * list Z) : oop :=
  let '(tag, a, b, c, idx) := t in
  if tag =? 0 then
    ORead (if a =? 0 then RdAll else if a =? 1 then RdSlice b c
           else if a =? 2 then RdFancy idx else if a =? 3 then RdCopy
           else if a =? 4 then RdConv b c else if a =? 5 then RdItem b
           else if a =? 7 then RdAttr b else RdNop)
  else OMut (Z.to_nat a) b.

Definition enc_oout (o : oout) : list Z :=
  match o with
  | OVal dt (Some l) => 0 :: dt :: Z.of_nat (length l) :: l
  | OVal _ None => [7]
  | ONone => []
  | OMutR ok => [5; if ok then 1 else 0]
  end.

(* case = (ro, reuse, native dtype, data, ops) *)
Definition obj_flat (case : Z * Z * Z * list Z * list (Z * Z * Z * Z * list Z)) : list Z :=
  let '(ro, reuse, nat_dt, data, ops) := case in
  flat_map enc_oout
    (snd (orun data (negb (ro =? 0)) nat_dt (negb (reuse =? 0)) o_init (map dec_oop ops))).

(* ====================================================================== *)
(* Part G: util.obj2bytes / hashobj (ancillary-feature hashes, hierarchy   *)
(* parent hashes, polygon-filter hashes, basin keys)                       *)
(* ====================================================================== *)
Inductive pobj :=
| PStr (b : bytes)                 (* str / Path: utf-8 *)
| PNum (repr : bytes)              (* bool, numbers: str(obj) *)
| PNone                            (* b"none" *)
| PArr (dt sh data : bytes)        (* ndarray: obj.tobytes() *)
| PSeq (l : list pobj).            (* list / tuple / sorted dict items: joined *)

Definition t_none : bytes := [110; 111; 110; 101].

Fixpoint obj2bytes (o : pobj) : bytes :=
  match o with
  | PStr b => b
  | PNum r => r
  | PNone => t_none
  | PArr _ _ d => d
  | PSeq l => flat_map obj2bytes l
  end.

(* the layout of a value: nesting, kinds of the leaves, dtype and shape of
   arrays, byte lengths of the leaves -- everything except the leaf bytes *)
Inductive lay :=
| LStr (n : nat) | LNum (n : nat) | LNone
| LArr (dt sh : bytes) (n : nat)
| LSeq (l : list lay).

Fixpoint layout (o : pobj) : lay :=
  match o with
  | PStr b => LStr (length b)
  | PNum r => LNum (length r)
  | PNone => LNone
  | PArr dt sh d => LArr dt sh (length d)
  | PSeq l => LSeq (map layout l)
  end.

(* AncillaryFeature.hash: hasher.update(obj2bytes(x)) for the required
   features, the "sec:key=val" strings and the requirement-function value:
   md5 of the concatenation, i.e. of obj2bytes (PSeq items) *)
Definition anc_key (items : list pobj) : bytes := obj2bytes (PSeq items).

(* LazyContourList.identifier before e54bde9: the bytes of the first mask only
   (documents the repaired defect; the repaired identifier is md5 of all masks
   and falls under obj2bytes of a string) *)
Definition lcl_ident_old (masks : list bytes) : bytes := hd [] masks.
(* RTDCBase._ancillaries[feat] = (hash, data): one entry per feature; the
   cached data are used when the hash equals the stored one. This is the
   memo table of part B with capacity 1. *)

(* --- per-object ufunc caches (H5ScalarEvent / ChildScalar._ufunc_attrs) --- *)
Section Ufunc.
  Variable D W : Type.
  Variable ufunc : Z -> D -> W.        (* 0 max, 1 mean, 2 min applied to the data *)

  (* the feature object of a hierarchy child: created on first access after
     a refresh, keeps _array and _ufunc_attrs for its lifetime *)
  Record ustate := {
    u_parent : D;                      (* what the parent currently passes on *)
    u_obj : option (D * list (Z * W))  (* child._events[feat]: (_array, _ufunc_attrs) *)
  }.

  Inductive uop :=
  | UParent (d : D)                    (* parent filter / temporary feature changes *)
  | URejuvenate                        (* child.rejuvenate(): _events.clear() *)
  | UAttr (k : Z).                     (* child[feat].max() / .mean() / .min() *)

  Fixpoint attr_get (k : Z) (l : list (Z * W)) : option W :=
    match l with
    | [] => None
    | (k', w) :: l' => if k =? k' then Some w else attr_get k l'
    end.

  Definition ustep (s : ustate) (o : uop) : ustate * option W :=
    match o with
    | UParent d => ({| u_parent := d; u_obj := u_obj s |}, None)
    | URejuvenate => ({| u_parent := u_parent s; u_obj := None |}, None)
    | UAttr k =>
        let '(arr, attrs) := match u_obj s with
                             | Some x => x
                             | None => (u_parent s, [])
                             end in
        match attr_get k attrs with
        | Some w => ({| u_parent := u_parent s; u_obj := Some (arr, attrs) |}, Some w)
        | None => let w := ufunc k arr in
                  ({| u_parent := u_parent s; u_obj := Some (arr, (k, w) :: attrs) |}, Some w)
        end
    end.

  Fixpoint urun (s : ustate) (ops : list uop) : list (option W) :=
    match ops with
    | [] => []
    | o :: ops' => let '(s1, r) := ustep s o in r :: urun s1 ops'
    end.

  (* specification: the ufunc of the data passed on at the last rejuvenate
     (or at first access) *)
  Fixpoint uspec (parent : D) (seen : option D) (ops : list uop) : list (option W) :=
    match ops with
    | [] => []
    | UParent d :: r => None :: uspec d seen r
    | URejuvenate :: r => None :: uspec parent None r
    | UAttr k :: r =>
        let d := match seen with Some d => d | None => parent end in
        Some (ufunc k d) :: uspec parent (Some d) r
    end.
End Ufunc.

Arguments u_parent {D W} _.
Arguments u_obj {D W} _.
Arguments UParent {D} d.
Arguments URejuvenate {D}.
Arguments UAttr {D} k.

(* --- F5: ufunc caches (harness kind "ufunc": the child's scalar feature) ----- *)
Definition dec_uop (t : Z * Z) : uop Z :=
  let '(tag, a) := t in
  if tag =? 0 then UParent a else if tag =? 1 then URejuvenate else UAttr a.

(* case = (initial data version, ops); result: for every summary request the
   code 10 * (version of the data it reflects) + (which summary) *)
Definition ufunc_flat (case : Z * list (Z * Z)) : list Z :=
  let '(v0, ops) := case in
  flat_map (fun o => match o with Some w => [w] | None => [] end)
           (urun Z Z (fun k d => d * 10 + k) {| u_parent := v0; u_obj := None |}
                 (map dec_uop ops)).
