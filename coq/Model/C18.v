(* C18 — contour-, image- and fluorescence-derived features.
   Executable definitions only; proofs are in Proofs/C18*.v.

   Modelled (exact arithmetic, floats are the rationals they denote):
     features/contour.py        remove_duplicates, get_contour (rounding,
                                longest contour)
     external/skimage           iterate_and_store (_find_contours_cy.pyx) for
                                binary arrays at level 0.9999,
                                _assemble_contours (_find_contours.py)
     features/inert_ratio.py    cont_moments_cv, get_inert_ratio_raw (squared)
     features/volume.py         vol_revolve, get_volume (pi/3 is a symbolic
                                factor: the model returns its coefficient)
     features/bright*.py        get_bright, get_bright_bc, get_bright_perc
     features/fl_crosstalk.py   get_compensation_matrix, correct_crosstalk
   Not modelled: binary64 rounding, sqrt, arctan2/cos/sin (principal inertia
   ratio), qhull (convex hull), scipy binary_fill_holes. *)
From Coq Require Import ZArith QArith Qabs List Bool.
Import ListNotations.
Open Scope Z_scope.

Definition pt := (Z * Z)%type.

Definition pt_eqb (a b : pt) : bool :=
  (fst a =? fst b) && (snd a =? snd b).

Definition zlen {A} (l : list A) : Z := Z.of_nat (length l).

(* ======================================================================
   features/contour.py : remove_duplicates
     x = np.resize(cont, (len(cont) + 1, 2))        -> cont ++ [cont[0]]
     selection[0] = True; selection[i] = x[i] != x[i-1]
     return x[selection][:-1]
   ====================================================================== *)
Fixpoint keep_changes (prev : pt) (l : list pt) : list pt :=
  match l with
  | [] => []
  | a :: t => if pt_eqb a prev then keep_changes a t
              else a :: keep_changes a t
  end.

Definition remove_duplicates (c : list pt) : list pt :=
  match c with
  | [] => []
  | a :: t => removelast (a :: keep_changes a (t ++ [a]))
  end.

(* ======================================================================
   Sums over the closed polygon  p0 -> p1 -> ... -> pn-1 -> p0
   (np.roll(x, -1) pairs every point with its cyclic successor)
   ====================================================================== *)
(* sum of e over the consecutive pairs of  a :: l ++ [z] *)
Fixpoint psum (e : pt -> pt -> Z) (a : pt) (l : list pt) (z : pt) : Z :=
  match l with
  | [] => e a z
  | b :: t => e a b + psum e b t z
  end.

Definition csum (e : pt -> pt -> Z) (c : list pt) : Z :=
  match c with
  | [] => 0
  | a :: t => psum e a t a
  end.

(* ======================================================================
   features/inert_ratio.py : cont_moments_cv   (p = (xi, yi), q = (xi_1, yi_1))
   ====================================================================== *)
Definition dxy (p q : pt) : Z := fst q * snd p - fst p * snd q.
Definition e00 (p q : pt) := dxy p q.
Definition e10 (p q : pt) := dxy p q * (fst q + fst p).
Definition e01 (p q : pt) := dxy p q * (snd q + snd p).
Definition e20 (p q : pt) :=
  dxy p q * (fst q * (fst q + fst p) + fst p * fst p).
Definition e11 (p q : pt) :=
  dxy p q * (fst q * ((snd q + snd p) + snd q)
             + fst p * ((snd q + snd p) + snd p)).
Definition e02 (p q : pt) :=
  dxy p q * (snd q * (snd q + snd p) + snd p * snd p).
Definition e30 (p q : pt) :=
  dxy p q * (fst q + fst p) * (fst q * fst q + fst p * fst p).
Definition e03 (p q : pt) :=
  dxy p q * (snd q + snd p) * (snd q * snd q + snd p * snd p).
Definition e21 (p q : pt) :=
  dxy p q * (fst q * fst q * (3 * snd q + snd p)
             + 2 * fst p * fst q * (snd q + snd p)
             + fst p * fst p * (snd q + 3 * snd p)).
Definition e12 (p q : pt) :=
  dxy p q * (snd q * snd q * (3 * fst q + fst p)
             + 2 * snd p * snd q * (fst q + fst p)
             + snd p * snd p * (fst q + 3 * fst p)).

Definition a00 c := csum e00 c.
Definition a10 c := csum e10 c.
Definition a01 c := csum e01 c.
Definition a20 c := csum e20 c.
Definition a11 c := csum e11 c.
Definition a02 c := csum e02 c.
Definition a30 c := csum e30 c.
Definition a03 c := csum e03 c.
Definition a21 c := csum e21 c.
Definition a12 c := csum e12 c.

(* numerators of the central second moments: mu20 = N20/(36 |a00|) etc. *)
Definition N20 c := 3 * a00 c * a20 c - 2 * a10 c * a10 c.
Definition N02 c := 3 * a00 c * a02 c - 2 * a01 c * a01 c.
Definition N11 c := 3 * a00 c * a11 c - 4 * a10 c * a01 c.

Definition swap_xy (c : list pt) : list pt := map (fun p => (snd p, fst p)) c.
Definition translate (tx ty : Z) (c : list pt) : list pt :=
  map (fun p => (fst p + tx, snd p + ty)) c.

(* invariants of the second-moment matrix (mu20 = N20/(36|a00|),
   mu11 = N11/(72|a00|)): trace and discriminant.  The principal inertia
   ratio squared is (T + sqrt D)/(T - sqrt D). *)
Definition T_N (c : list pt) : Z := N20 c + N02 c.
Definition Disc_N (c : list pt) : Z :=
  (N20 c - N02 c) * (N20 c - N02 c) + N11 c * N11 c.

(* the second-moment matrix is positive definite: mu20, mu02 > 0 and
   mu20 * mu02 > mu11^2, in integers *)
Definition pd_contour (c : list pt) : bool :=
  (0 <? N20 c) && (0 <? N02 c) && (N11 c * N11 c <? 4 * (N20 c * N02 c)).

(* rotation by the angle of (p, q) combined with the scaling sqrt(p^2+q^2):
   for integer p, q the angles atan2(q, p) are dense *)
Definition simmap (p q : Z) (c : list pt) : list pt :=
  map (fun v => (p * fst v - q * snd v, q * fst v + p * snd v)) c.
Definition reflect_x (c : list pt) : list pt :=
  map (fun v => (- fst v, snd v)) c.

Open Scope Q_scope.

Definition dbl_epsilon : Q := 1 # 4503599627370496.   (* 2^-52 *)

Definition zq (z : Z) : Q := inject_Z z.

Record moments_t := {
  m00 : Q; m10 : Q; m01 : Q; m20 : Q; m11 : Q; m02 : Q;
  m30 : Q; m21 : Q; m12 : Q; m03 : Q;
  mu20 : Q; mu11 : Q; mu02 : Q; mu30 : Q; mu21 : Q; mu12 : Q; mu03 : Q }.

(* for an integer contour  abs(a00) > flt_epsilon  iff  a00 <> 0 *)
Definition cont_moments_cv (c : list pt) : option moments_t :=
  let A00 := a00 c in
  if (0 <? Z.abs A00)%Z then
    let s : Q := if (A00 <? 0)%Z then (-1 # 1) else 1 in
    let db1_2 := s * (1 # 2) in
    let db1_6 := s * (1 # 6) in
    let db1_12 := s * (1 # 12) in
    let db1_24 := s * (1 # 24) in
    let db1_20 := s * (1 # 20) in
    let db1_60 := s * (1 # 60) in
    let M00 := zq A00 * db1_2 in
    let M10 := zq (a10 c) * db1_6 in
    let M01 := zq (a01 c) * db1_6 in
    let M20 := zq (a20 c) * db1_12 in
    let M11 := zq (a11 c) * db1_24 in
    let M02 := zq (a02 c) * db1_12 in
    let M30 := zq (a30 c) * db1_20 in
    let M21 := zq (a21 c) * db1_60 in
    let M12 := zq (a12 c) * db1_60 in
    let M03 := zq (a03 c) * db1_20 in
    let cx := if Qle_bool M00 dbl_epsilon then 0 else M10 / M00 in
    let cy := if Qle_bool M00 dbl_epsilon then 0 else M01 / M00 in
    let MU20 := M20 - M10 * cx in
    let MU11 := M11 - M10 * cy in
    let MU02 := M02 - M01 * cy in
    Some {| m00 := M00; m10 := M10; m01 := M01; m20 := M20; m11 := M11;
            m02 := M02; m30 := M30; m21 := M21; m12 := M12; m03 := M03;
            mu20 := MU20; mu11 := MU11; mu02 := MU02;
            mu30 := M30 - cx * ((3 # 1) * MU20 + cx * M10);
            mu21 := M21 - cx * ((2 # 1) * MU11 + cx * M01) - cy * MU20;
            mu12 := M12 - cy * ((2 # 1) * MU11 + cy * M10) - cx * MU02;
            mu03 := M03 - cy * ((3 # 1) * MU02 + cy * M01) |}
  else None.

(* get_inert_ratio_raw squared: mu20/mu02; None = moments are None (nan) *)
Definition inert_ratio_sq (c : list pt) : option Q :=
  match cont_moments_cv c with
  | Some m => Some (mu20 m / mu02 m)
  | None => None
  end.

Close Scope Q_scope.

(* ======================================================================
   features/volume.py : vol_revolve, get_volume.  Points are (r, z).
   The model returns the coefficient of pi/3.
   ====================================================================== *)
(* dz * |a1 + a2 + a3| with rp = r0, dr = r1 - r0 *)
Definition seg (p q : pt) : Z :=
  (snd q - snd p) *
  Z.abs (3 * (fst p * fst p) + 3 * (fst p * (fst q - fst p))
         + (fst q - fst p) * (fst q - fst p)).

Fixpoint vpath (a : pt) (l : list pt) : Z :=
  match l with
  | [] => 0
  | b :: t => seg a b + vpath b t
  end.

(* "make sure we have a closed contour" *)
Definition vclose (c : list pt) : list pt :=
  match c with
  | [] => []
  | a :: _ => if pt_eqb (last c a) a then c else c ++ [a]
  end.

Definition vsum (c : list pt) : Z :=
  match vclose c with
  | [] => 0
  | a :: t => vpath a t
  end.

(* vol_revolve(r, z, point_scale) / (pi/3); None = AssertionError *)
Definition vol_revolve (r z : list Z) (ps : Z) : option Z :=
  if (length r =? length z)%nat && (3 <=? zlen r)
     && forallb (fun x => 0 <=? x) r
  then Some (vsum (combine r z) * (ps * ps * ps))
  else None.

(* contour (x, y) already centred: contour_right/contour_left of get_volume *)
Definition right_half (c : list pt) : list pt :=
  map (fun p => (Z.max 0 (snd p), fst p)) c.
Definition left_half (c : list pt) : list pt :=
  rev (map (fun p => (- Z.min (snd p) 0, fst p)) c).

(* (vol_right + vol_left), i.e. get_volume * 2 / (pi/3) / pix^3;
   None = nan (fewer than four contour points) *)
Definition get_volume_c (c : list pt) : option Z :=
  if 4 <=? zlen c then Some (vsum (right_half c) + vsum (left_half c))
  else None.

(* coordinates in units of 1/k pixel: centre (cx, cy) = k * pos / pix *)
Definition centre (k cx cy : Z) (c : list pt) : list pt :=
  map (fun p => (k * fst p - cx, k * snd p - cy)) c.
Definition get_volume (k cx cy : Z) (c : list pt) : option Z :=
  get_volume_c (centre k cx cy c).

(* get_volume(cont, pos_x, pos_y, pix) / pi with pos = (cx, cy)/k * pix:
   v_avg = (vol_right + vol_left) / 2, each pi/3 * sum * pix^3 *)
Definition get_volume_pi (k cx cy : Z) (c : list pt) (pix : Q) : option Q :=
  match get_volume k cx cy c with
  | Some v => Some ((inject_Z v / inject_Z (6 * (k * k * k)))
                    * (pix * pix * pix))%Q
  | None => None
  end.

(* ======================================================================
   external/skimage/_find_contours_cy.pyx : iterate_and_store on a binary
   array at level 0.9999; coordinates scaled by 10000.
   ====================================================================== *)
Inductive edge := ET | EB | EL | ER.

Definition edge_eqb (a b : edge) : bool :=
  match a, b with
  | ET, ET | EB, EB | EL, EL | ER, ER => true
  | _, _ => false
  end.

Definition b2z (b : bool) : Z := if b then 1 else 0.

Definition square_case (ul ur ll lr : bool) : Z :=
  b2z ul + 2 * b2z ur + 4 * b2z ll + 8 * b2z lr.

(* (from, to) pairs appended to arc_list *)
Definition segs (case : Z) (vch : bool) : list (edge * edge) :=
  match case with
  | 1 => [(ET, EL)]
  | 2 => [(ER, ET)]
  | 3 => [(ER, EL)]
  | 4 => [(EL, EB)]
  | 5 => [(ET, EB)]
  | 6 => if vch then [(EL, ET); (ER, EB)] else [(ER, ET); (EL, EB)]
  | 7 => [(ER, EB)]
  | 8 => [(EB, ER)]
  | 9 => if vch then [(ET, ER); (EB, EL)] else [(ET, EL); (EB, ER)]
  | 10 => [(EB, ET)]
  | 11 => [(EB, EL)]
  | 12 => [(EL, ER)]
  | 13 => [(ET, ER)]
  | 14 => [(EL, ET)]
  | _ => []
  end.

Definition SC : Z := 10000.

(* _get_fraction(from, to, 0.9999) * 10000 for from, to in {0, 1} *)
Definition frac (from to : bool) : Z :=
  if eqb from to then 0 else if from then 1 else 9999.

Definition edge_point (r0 c0 : Z) (ul ur ll lr : bool) (e : edge) : pt :=
  match e with
  | ET => (r0 * SC, c0 * SC + frac ul ur)
  | EB => ((r0 + 1) * SC, c0 * SC + frac ll lr)
  | EL => (r0 * SC + frac ul ll, c0 * SC)
  | ER => (r0 * SC + frac ur lr, (c0 + 1) * SC)
  end.

Definition image := list (list bool).

Definition px (img : image) (r c : nat) : bool := nth c (nth r img []) false.

Definition nrows (img : image) : nat := length img.
Definition ncols (img : image) : nat :=
  match img with [] => 0%nat | row :: _ => length row end.

Definition cell_segments (img : image) (vch : bool) (r c : nat)
  : list (pt * pt) :=
  let ul := px img r c in let ur := px img r (S c) in
  let ll := px img (S r) c in let lr := px img (S r) (S c) in
  let P := edge_point (Z.of_nat r) (Z.of_nat c) ul ur ll lr in
  map (fun s => (P (fst s), P (snd s))) (segs (square_case ul ur ll lr) vch).

(* None = ValueError("Input array must be at least 2x2.") *)
Definition iterate_and_store (img : image) (vch : bool)
  : option (list (pt * pt)) :=
  if (nrows img <? 2)%nat || (ncols img <? 2)%nat then None
  else Some (flat_map (fun r =>
               flat_map (fun c => cell_segments img vch r c)
                        (seq 0 (ncols img - 1)))
             (seq 0 (nrows img - 1))).

(* ======================================================================
   external/skimage/_find_contours.py : _assemble_contours
   contours: num -> deque; starts/ends: point -> num  (the dicts hold
   (deque, num); the deque is the one registered under num)
   ====================================================================== *)
Definition pmap := list (pt * Z).

Fixpoint pget (k : pt) (m : pmap) : option Z :=
  match m with
  | [] => None
  | (k', v) :: t => if pt_eqb k k' then Some v else pget k t
  end.

Fixpoint pdel (k : pt) (m : pmap) : pmap :=
  match m with
  | [] => []
  | (k', v) :: t => if pt_eqb k k' then pdel k t else (k', v) :: pdel k t
  end.

Definition pset (k : pt) (v : Z) (m : pmap) : pmap := (k, v) :: pdel k m.

Definition cmap := list (Z * list pt).

Fixpoint cget (n : Z) (m : cmap) : list pt :=
  match m with
  | [] => []
  | (n', v) :: t => if n =? n' then v else cget n t
  end.

Fixpoint cdel (n : Z) (m : cmap) : cmap :=
  match m with
  | [] => []
  | (n', v) :: t => if n =? n' then cdel n t else (n', v) :: cdel n t
  end.

(* keeps the list sorted by num (new numbers are larger than all old ones,
   replacing keeps the position) *)
Fixpoint cset (n : Z) (v : list pt) (m : cmap) : cmap :=
  match m with
  | [] => [(n, v)]
  | (n', v') :: t => if n =? n' then (n, v) :: t else (n', v') :: cset n v t
  end.

Record astate := {
  cur : Z; conts : cmap; starts : pmap; ends : pmap }.

Definition pt0 : pt := (0, 0).

Definition assemble_step (st : astate) (sg : pt * pt) : astate :=
  let (from_point, to_point) := sg in
  if pt_eqb from_point to_point then st else
  match pget to_point (starts st), pget from_point (ends st) with
  | Some tail_num, Some head_num =>
      let tail := cget tail_num (conts st) in
      let head := cget head_num (conts st) in
      if tail_num =? head_num then
        (* close the contour *)
        {| cur := cur st;
           conts := cset head_num (head ++ [to_point]) (conts st);
           starts := pdel to_point (starts st);
           ends := pdel from_point (ends st) |}
      else if head_num <? tail_num then
        (* append tail to head *)
        let head' := head ++ tail in
        {| cur := cur st;
           conts := cdel tail_num (cset head_num head' (conts st));
           starts := pdel to_point (starts st);
           ends := pset (last head' pt0) head_num
                     (pdel from_point (pdel (last tail pt0) (ends st))) |}
      else
        (* prepend head to tail *)
        let tail' := head ++ tail in
        {| cur := cur st;
           conts := cdel head_num (cset tail_num tail' (conts st));
           starts := pset (hd pt0 tail') tail_num
                       (pdel to_point (pdel (hd pt0 head) (starts st)));
           ends := pdel from_point (ends st) |}
  | None, None =>
      let n := cur st + 1 in
      {| cur := n;
         conts := cset n [from_point; to_point] (conts st);
         starts := pset from_point n (starts st);
         ends := pset to_point n (ends st) |}
  | Some tail_num, None =>
      let tail := cget tail_num (conts st) in
      {| cur := cur st;
         conts := cset tail_num (from_point :: tail) (conts st);
         starts := pset from_point tail_num (pdel to_point (starts st));
         ends := ends st |}
  | None, Some head_num =>
      let head := cget head_num (conts st) in
      {| cur := cur st;
         conts := cset head_num (head ++ [to_point]) (conts st);
         starts := starts st;
         ends := pset to_point head_num (pdel from_point (ends st)) |}
  end.

Definition assemble_contours (sgs : list (pt * pt)) : list (list pt) :=
  map snd (conts (fold_left assemble_step sgs
                    {| cur := 0; conts := []; starts := []; ends := [] |})).

(* ======================================================================
   features/contour.py : get_contour for one mask (given transposed);
   positive_orientation="low": no reversal, fully_connected="high".
   [get_contour_unpadded] is the code before commit 726e2fa (contours of
   border-touching masks were left open), kept for the refutation example;
   [get_contour] further down is the current code.
   ====================================================================== *)
(* sorted(conts, key=len)[-1]: the last one among the longest *)
Fixpoint longest (best : list pt) (l : list (list pt)) : list pt :=
  match l with
  | [] => best
  | c :: t => if (length best <=? length c)%nat then longest c t
              else longest best t
  end.

(* np.round of v/10000 (never a tie for binary input) *)
Definition round_sc (v : Z) : Z := (v + 5000) / SC.
Definition round_pt (p : pt) : pt := (round_sc (fst p), round_sc (snd p)).

Inductive contour_result :=
| CtOk (c : list pt)
| CtNoContour         (* NoValidContourFoundError *)
| CtIndexError        (* no contour at all: sorted([])[-1] *)
| CtValueError.       (* array smaller than 2x2 *)

Definition get_contour_unpadded (img_t : image) : contour_result :=
  match iterate_and_store img_t true with
  | None => CtValueError
  | Some sgs =>
      match assemble_contours sgs with
      | [] => CtIndexError
      | c :: t =>
          let c0 := longest c t in
          let c2 := remove_duplicates (map round_pt c0) in
          match c2 with [] => CtNoContour | _ => CtOk c2 end
      end
  end.

(* get_contour (current code, commit 726e2fa): the transposed mask is padded
   with one pixel of background so that the contours of border-touching
   events are closed; coordinates are shifted back; no contour at all
   raises NoValidContourFoundError *)
Definition pad_image (img : image) : image :=
  let w := ncols img in
  let blank := repeat false (w + 2) in
  blank :: map (fun row => false :: row ++ [false]) img ++ [blank].

Definition get_contour (img_t : image) : contour_result :=
  match iterate_and_store (pad_image img_t) true with
  | None => CtValueError
  | Some sgs =>
      match assemble_contours sgs with
      | [] => CtNoContour
      | c :: t =>
          let c0 := longest c t in
          let c2 := remove_duplicates
                      (map (fun p => let q := round_pt p in
                                     (fst q - 1, snd q - 1)) c0) in
          match c2 with [] => CtNoContour | _ => CtOk c2 end
      end
  end.

(* ======================================================================
   features/bright.py, bright_bc.py, bright_perc.py (one event; images are
   flattened row-major)
   ====================================================================== *)
Fixpoint sel (mask : list bool) (img : list Z) : list Z :=
  match mask, img with
  | b :: m, x :: t => if b then x :: sel m t else sel m t
  | _, _ => []
  end.

Fixpoint zsub (a b : list Z) : list Z :=
  match a, b with
  | x :: a', y :: b' => (x - y) :: zsub a' b'
  | _, _ => []
  end.

Definition zsum (l : list Z) : Z := fold_right Z.add 0 l.

Fixpoint insert (x : Z) (l : list Z) : list Z :=
  match l with
  | [] => [x]
  | y :: t => if x <=? y then x :: l else y :: insert x t
  end.

Fixpoint isort (l : list Z) : list Z :=
  match l with
  | [] => []
  | x :: t => insert x (isort t)
  end.

Open Scope Q_scope.

Definition qsum (l : list Q) : Q := fold_right Qplus 0 l.

(* np.mean; the empty selection gives nan: modelled by 0 # 1 together with
   the length test of the callers *)
Definition mean (l : list Z) : Q := zq (zsum l) / zq (zlen l).

(* np.std squared: mean(|x - mean|^2) *)
Definition variance (l : list Z) : Q :=
  let m := mean l in
  qsum (map (fun x => (zq x - m) * (zq x - m)) l) / zq (zlen l).

(* np.percentile(l, q), method "linear", q an integer in 0..100 *)
Definition percentile (q : Z) (l : list Z) : Q :=
  let s := isort l in
  let k := (q * (zlen l - 1))%Z in
  let lo := (k / 100)%Z in
  let g := (k mod 100)%Z in
  let a := nth (Z.to_nat lo) s 0%Z in
  let b := nth (Z.to_nat (lo + 1)) s a in
  zq a + (g # 100) * (zq b - zq a).

(* get_bright: (avg, sd^2); None = empty selection (nan) *)
Definition get_bright (mask : list bool) (img : list Z) : option (Q * Q) :=
  let v := sel mask img in
  match v with [] => None | _ => Some (mean v, variance v) end.

(* get_bright_bc with bg_off (None = no offset) *)
Definition get_bright_bc (mask : list bool) (img bg : list Z)
           (off : option Q) : option (Q * Q) :=
  let v := sel mask (zsub img bg) in
  match v with
  | [] => None
  | _ => Some (match off with Some o => mean v - o | None => mean v end,
               variance v)
  end.

(* get_bright_perc (current code, commit 3735645: `if bg_off is not None`);
   None = np.percentile of an empty selection (nan) *)
Definition get_bright_perc (mask : list bool) (img bg : list Z)
           (off : option Q) : option (Q * Q) :=
  let v := sel mask (zsub img bg) in
  match v with
  | [] => None
  | _ =>
      let p10 := percentile 10 v in
      let p90 := percentile 90 v in
      Some (match off with
            | Some o => (p10 - o, p90 - o)
            | None => (p10, p90)
            end)
  end.

(* several events; bg_off as the caller passes it:
   None, a scalar, or a sequence (numpy broadcasting of `avg -= bg_off`:
   one element per event, or a single element for all) *)
Inductive offspec :=
| OffNone
| OffScalar (o : Q)
| OffSeq (l : list Q).

Record bevent := { bmask : list bool; bimg : list Z; bbg : list Z }.

Inductive batch_result :=
| BrOk (l : list (option (Q * Q)))
| BrBroadcastError.       (* ValueError: operands could not be broadcast *)

Definition off_at (off : offspec) (n i : nat) : option (option Q) :=
  match off with
  | OffNone => Some None
  | OffScalar o => Some (Some o)
  | OffSeq l =>
      if (length l =? n)%nat then Some (Some (nth i l 0))
      else if (length l =? 1)%nat then Some (Some (nth 0 l 0))
      else None
  end.

Definition batch (f : list bool -> list Z -> list Z -> option Q
                      -> option (Q * Q))
           (evs : list bevent) (off : offspec) : batch_result :=
  let n := length evs in
  match off_at off n 0 with
  | None => BrBroadcastError
  | Some _ =>
      BrOk (map (fun ie =>
                   match off_at off n (fst ie) with
                   | Some o => f (bmask (snd ie)) (bimg (snd ie))
                                 (bbg (snd ie)) o
                   | None => None
                   end)
                (combine (seq 0 n) evs))
  end.

Definition get_bright_bc_batch := batch get_bright_bc.
Definition get_bright_perc_batch := batch get_bright_perc.

(* ======================================================================
   features/fl_crosstalk.py
   ====================================================================== *)
Record mat3 := {
  x11 : Q; x12 : Q; x13 : Q;
  x21 : Q; x22 : Q; x23 : Q;
  x31 : Q; x32 : Q; x33 : Q }.

Definition det3 (m : mat3) : Q :=
  x11 m * (x22 m * x33 m - x23 m * x32 m)
  - x12 m * (x21 m * x33 m - x23 m * x31 m)
  + x13 m * (x21 m * x32 m - x22 m * x31 m).

(* np.linalg.inv, modelled as adjugate / determinant *)
Definition inv3 (m : mat3) : mat3 :=
  let d := det3 m in
  {| x11 := (x22 m * x33 m - x23 m * x32 m) / d;
     x12 := (x13 m * x32 m - x12 m * x33 m) / d;
     x13 := (x12 m * x23 m - x13 m * x22 m) / d;
     x21 := (x23 m * x31 m - x21 m * x33 m) / d;
     x22 := (x11 m * x33 m - x13 m * x31 m) / d;
     x23 := (x13 m * x21 m - x11 m * x23 m) / d;
     x31 := (x21 m * x32 m - x22 m * x31 m) / d;
     x32 := (x12 m * x31 m - x11 m * x32 m) / d;
     x33 := (x11 m * x22 m - x12 m * x21 m) / d |}.

Definition mul3 (a b : mat3) : mat3 :=
  {| x11 := x11 a * x11 b + x12 a * x21 b + x13 a * x31 b;
     x12 := x11 a * x12 b + x12 a * x22 b + x13 a * x32 b;
     x13 := x11 a * x13 b + x12 a * x23 b + x13 a * x33 b;
     x21 := x21 a * x11 b + x22 a * x21 b + x23 a * x31 b;
     x22 := x21 a * x12 b + x22 a * x22 b + x23 a * x32 b;
     x23 := x21 a * x13 b + x22 a * x23 b + x23 a * x33 b;
     x31 := x31 a * x11 b + x32 a * x21 b + x33 a * x31 b;
     x32 := x31 a * x12 b + x32 a * x22 b + x33 a * x32 b;
     x33 := x31 a * x13 b + x32 a * x23 b + x33 a * x33 b |}.

Definition id3 : mat3 :=
  {| x11 := 1; x12 := 0; x13 := 0;
     x21 := 0; x22 := 1; x23 := 0;
     x31 := 0; x32 := 0; x33 := 1 |}.

Definition mat_eq (a b : mat3) : Prop :=
  x11 a == x11 b /\ x12 a == x12 b /\ x13 a == x13 b /\
  x21 a == x21 b /\ x22 a == x22 b /\ x23 a == x23 b /\
  x31 a == x31 b /\ x32 a == x32 b /\ x33 a == x33 b.

Definition crosstalk_matrix (ct21 ct31 ct12 ct32 ct13 ct23 : Q) : mat3 :=
  {| x11 := 1; x12 := ct12; x13 := ct13;
     x21 := ct21; x22 := 1; x23 := ct23;
     x31 := ct31; x32 := ct32; x33 := 1 |}.

Definition qneg (q : Q) : bool := negb (Qle_bool 0 q).

Inductive ct_result (A : Type) :=
| CtVal (a : A)
| CtNegative      (* ValueError: matrix element must not be negative *)
| CtSingular.     (* numpy.linalg.LinAlgError *)
Arguments CtVal {A} a.
Arguments CtNegative {A}.
Arguments CtSingular {A}.

Definition get_compensation_matrix (ct21 ct31 ct12 ct32 ct13 ct23 : Q)
  : ct_result mat3 :=
  if qneg ct21 || qneg ct31 || qneg ct12 || qneg ct32 || qneg ct13
     || qneg ct23 then CtNegative
  else
    let m := crosstalk_matrix ct21 ct31 ct12 ct32 ct13 ct23 in
    if Qeq_bool (det3 m) 0 then CtSingular else CtVal (inv3 m).

(* col = minv[:, ch-1]; flout = col[0]*fl1 + col[1]*fl2 + col[2]*fl3 *)
Definition apply_col (minv : mat3) (ch : Z) (fl1 fl2 fl3 : Q) : Q :=
  if (ch =? 1)%Z then x11 minv * fl1 + x21 minv * fl2 + x31 minv * fl3
  else if (ch =? 2)%Z then x12 minv * fl1 + x22 minv * fl2 + x32 minv * fl3
  else x13 minv * fl1 + x23 minv * fl2 + x33 minv * fl3.

Definition correct_crosstalk (fl1 fl2 fl3 : Q) (ch : Z)
           (ct21 ct31 ct12 ct32 ct13 ct23 : Q) : ct_result Q :=
  match get_compensation_matrix ct21 ct31 ct12 ct32 ct13 ct23 with
  | CtVal minv => CtVal (apply_col minv ch fl1 fl2 fl3)
  | CtNegative => CtNegative
  | CtSingular => CtSingular
  end.

(* what the instrument measures for true signals t: every channel i spills
   ct_ij * t_i into channel j *)
Definition spill (m : mat3) (t1 t2 t3 : Q) : Q * Q * Q :=
  (x11 m * t1 + x21 m * t2 + x31 m * t3,
   x12 m * t1 + x22 m * t2 + x32 m * t3,
   x13 m * t1 + x23 m * t2 + x33 m * t3).

Close Scope Q_scope.

(* ======================================================================
   flat encodings for the correspondence check
   ====================================================================== *)
Definition encq (q : Q) : list Z :=
  let r := Qred q in [Qnum r; Zpos (Qden r)].

Definition enc_pts (l : list pt) : list Z :=
  flat_map (fun p => [fst p; snd p]) l.

Definition run_remove_duplicates (c : list pt) : list Z :=
  enc_pts (remove_duplicates c).

Definition run_moments (c : list pt) : list Z :=
  match cont_moments_cv c with
  | None => [0]
  | Some m =>
      1 :: flat_map encq [m00 m; m10 m; m01 m; m20 m; m11 m; m02 m; m30 m;
                          m21 m; m12 m; m03 m; mu20 m; mu11 m; mu02 m;
                          mu30 m; mu21 m; mu12 m; mu03 m]
           ++ [N20 c; N02 c; N11 c; a00 c; T_N c; Disc_N c]
  end.

(* (p, q, contour): invariants of the rotated-and-scaled contour *)
Definition run_simmap (x : Z * Z * list pt) : list Z :=
  let '(p, q, c) := x in
  let c' := simmap p q c in
  [a00 c'; T_N c'; Disc_N c'; a00 c; T_N c; Disc_N c].

(* (r, z, point_scale) *)
Definition run_vol_revolve (x : list Z * list Z * Z) : list Z :=
  let '(r, z, ps) := x in
  match vol_revolve r z ps with Some v => [1; v] | None => [0] end.

(* (k, cx, cy, contour) *)
Definition run_get_volume (x : Z * Z * Z * list pt) : list Z :=
  let '(k, cx, cy, c) := x in
  match get_volume k cx cy c with Some v => [1; v] | None => [0] end.

(* (k, cx, cy, contour, pix numerator, pix denominator) -> coefficient of pi *)
Definition run_get_volume_pi (x : Z * Z * Z * list pt * Z * positive)
  : list Z :=
  let '(k, cx, cy, c, pn, pd) := x in
  match get_volume_pi k cx cy c (Qmake pn pd) with
  | Some v => 1 :: encq v
  | None => [0]
  end.

Definition enc_segs (l : list (pt * pt)) : list Z :=
  flat_map (fun s => [fst (fst s); snd (fst s); fst (snd s); snd (snd s)]) l.

Definition run_iterate (x : image * bool) : list Z :=
  match iterate_and_store (fst x) (snd x) with
  | None => [0]
  | Some s => 1 :: enc_segs s
  end.

Definition run_find_contours (x : image * bool) : list (list Z) :=
  match iterate_and_store (fst x) (snd x) with
  | None => [[0]]
  | Some s => map enc_pts (assemble_contours s)
  end.

Definition enc_contour_result (r : contour_result) : list Z :=
  match r with
  | CtOk c => 1 :: enc_pts c
  | CtNoContour => [2]
  | CtIndexError => [3]
  | CtValueError => [4]
  end.

Definition run_get_contour (img_t : image) : list Z :=
  enc_contour_result (get_contour img_t).

Definition run_get_contour_unpadded (img_t : image) : list Z :=
  enc_contour_result (get_contour_unpadded img_t).

Definition dq (n : Z) : Q := n # 8.   (* offsets are multiples of 1/8 *)

Definition enc_pair (r : option (Q * Q)) : list Z :=
  match r with
  | None => [0]
  | Some (a, b) => 1 :: encq a ++ encq b
  end.

(* (kind, mask, image, background, has_offset, offset*8):
   kind 0 get_bright, 1 get_bright_bc, 2 get_bright_perc *)
Definition run_bright
  (x : Z * list bool * list Z * list Z * bool * Z) : list Z :=
  let '(kind, mask, img, bg, has, o8) := x in
  let off := if has then Some (dq o8) else None in
  if kind =? 0 then enc_pair (get_bright mask img)
  else if kind =? 1 then enc_pair (get_bright_bc mask img bg off)
  else enc_pair (get_bright_perc mask img bg off).

(* ([ct21; ct31; ct12; ct32; ct13; ct23] * 64, [fl1; fl2; fl3] * 8, channel);
   channel 0: the matrix *)
Definition run_crosstalk (x : list Z * list Z * Z) : list Z :=
  let '(cts, fls, ch) := x in
  let c i := Qmake (nth i cts 0) 64 in
  let f i := dq (nth i fls 0) in
  if ch =? 0 then
    match get_compensation_matrix (c 0%nat) (c 1%nat) (c 2%nat) (c 3%nat)
                                  (c 4%nat) (c 5%nat) with
    | CtVal m => 1 :: flat_map encq [x11 m; x12 m; x13 m; x21 m; x22 m; x23 m;
                                     x31 m; x32 m; x33 m]
    | CtNegative => [2]
    | CtSingular => [3]
    end
  else
    match correct_crosstalk (f 0%nat) (f 1%nat) (f 2%nat) ch
            (c 0%nat) (c 1%nat) (c 2%nat) (c 3%nat) (c 4%nat) (c 5%nat) with
    | CtVal q => 1 :: encq q
    | CtNegative => [2]
    | CtSingular => [3]
    end.

(* np.percentile(l, q) for any integer q in 0..100 *)
Definition run_percentile (x : Z * list Z) : list Z :=
  encq (percentile (fst x) (snd x)).

(* (kind 1|2, events (mask, image, background), offset kind 0 none /
   1 scalar / 2 sequence, offsets * 8) *)
Definition run_bright_batch
  (x : Z * list (list bool * list Z * list Z) * Z * list Z) : list Z :=
  let '(kind, evs, ok, o8) := x in
  let evs' := map (fun e => let '(m, i, b) := e in
                            {| bmask := m; bimg := i; bbg := b |}) evs in
  let off := if ok =? 0 then OffNone
             else if ok =? 1 then OffScalar (dq (nth 0 o8 0))
             else OffSeq (map dq o8) in
  match (if kind =? 1 then get_bright_bc_batch evs' off
         else get_bright_perc_batch evs' off) with
  | BrBroadcastError => [9]
  | BrOk l => 1 :: flat_map enc_pair l
  end.

(* true signals * 8 and spill coefficients * 64 -> what is measured *)
Definition run_spill (x : list Z * list Z) : list Z :=
  let '(cts, ts) := x in
  let c i := Qmake (nth i cts 0) 64 in
  let t i := dq (nth i ts 0) in
  let m := crosstalk_matrix (c 0%nat) (c 1%nat) (c 2%nat) (c 3%nat)
                            (c 4%nat) (c 5%nat) in
  let '(f1, f2, f3) := spill m (t 0%nat) (t 1%nat) (t 2%nat) in
  encq f1 ++ encq f2 ++ encq f3.

(* the closed form of the principal inertia ratio squared evaluated with the
   integer bracket  s <= sqrt D < s + 1  of the square root:
   [pd; lower; upper] with  lower <= (T + sqrt D)/(T - sqrt D) < upper *)
Definition run_prnc_bracket (c : list pt) : list Z :=
  let T := T_N c in
  let s := Z.sqrt (Disc_N c) in
  if pd_contour c && (s + 1 <? T) then
    1 :: encq (Qmake (T + s) 1 / Qmake (T - s) 1)%Q
      ++ encq (Qmake (T + s + 1) 1 / Qmake (T - s - 1) 1)%Q
  else [0].
