(* Model of dclab/http_utils.py:HTTPFile (chunk-cached range reads).
   Executable definitions only; proofs are in Proofs/C19.v.

   Follows the code line by line:
     get_cache_chunk  -> get_chunk
     read_range_cached-> rrc / rrc_loop
     read/seek/tell   -> step
   The remote server is an oracle: for a valid range (0 <= a < b <= len) it
   returns exactly res[a:b]; for any other range it returns [junk a b], an
   arbitrary function (a real server answers an unsatisfiable or malformed
   Range header with the whole body or an error page). *)
From Coq Require Import ZArith List Bool.
From Verif Require Import Common.ListIdx.
Import ListNotations.
Open Scope Z_scope.



Definition cache := list (Z * list Z).

Fixpoint lookup (k : Z) (c : cache) : option (list Z) :=
  match c with
  | [] => None
  | (k', v) :: c' => if k =? k' then Some v else lookup k c'
  end.

(* remove the first entry (insertion order) whose key satisfies [p] *)
Fixpoint remove_first (p : Z -> bool) (c : cache) : option cache :=
  match c with
  | [] => None
  | (k, v) :: c' =>
      if p k then Some c'
      else match remove_first p c' with
           | Some c'' => Some ((k, v) :: c'')
           | None => None
           end
  end.

Section HTTP.
  Variable res : list Z.
  Variable junk : Z -> Z -> list Z.
  Variable cs keep : Z.

  Definition len : Z := Z.of_nat (length res).

  Definition download (a b : Z) : list Z :=
    if (0 <=? a) && (a <? b) && (b <=? len) then slice res a b else junk a b.

  (* eviction: prefer the oldest chunk that is neither chunk 0 nor the
     requested one; otherwise the oldest chunk that is not the requested one *)
  Definition evict (idx : Z) (c : cache) : cache :=
    match remove_first (fun k => negb (k =? 0) && negb (k =? idx)) c with
    | Some c' => c'
    | None => match remove_first (fun k => negb (k =? idx)) c with
              | Some c' => c'
              | None => c
              end
    end.

  Definition get_chunk (idx : Z) (c : cache) : cache * option (list Z) :=
    let c1 := match lookup idx c with
              | Some _ => c
              | None => c ++ [(idx, download (idx * cs) (Z.min ((idx + 1) * cs) len))]
              end in
    let c2 := if keep <? Z.of_nat (length c1) then evict idx c1 else c1 in
    (c2, lookup idx c2).

  (* for chunk_index in range(chunk_start, chunk_stop): n iterations *)
  Fixpoint rrc_loop (n : nat) (k pos toread stop : Z) (c : cache) (acc : list Z)
    : cache * option (list Z) :=
    match n with
    | O => (c, Some acc)
    | S n' =>
        match get_chunk k c with
        | (c', None) => (c', None)                       (* KeyError *)
        | (c', Some chunk) =>
            let cst := pos mod cs in
            if toread =? 0 then (c', Some acc)
            else if cs <=? cst + toread then
              rrc_loop n' (k + 1) (pos + (cs - cst)) (toread - (cs - cst)) stop c'
                       (acc ++ skipn (Z.to_nat cst) chunk)
            else
              let ce := stop mod cs in
              rrc_loop n' (k + 1) (pos + (ce - cst)) (toread - (ce - cst)) stop c'
                       (acc ++ slice chunk cst ce)
        end
    end.

  (* read_range_cached(start, stop) *)
  Definition rrc (start stop0 : Z) (c : cache) : cache * option (list Z) :=
    let stop := Z.min stop0 len in
    let toread := stop - start in
    if toread <=? 0 then (c, Some [])
    else
      let k0 := start / cs in
      let k1 := stop / cs + 1 in
      rrc_loop (Z.to_nat (k1 - k0)) k0 start toread stop c [].

  Inductive op :=
  | Seek (whence : Z) (off : Z)    (* 0 SEEK_SET, 1 SEEK_CUR, 2 SEEK_END *)
  | Tell
  | Read (n : Z).                  (* n < 0: read to the end *)

  Inductive out :=
  | ONone
  | OPos (p : Z)
  | OData (d : list Z)
  | OKeyError.

  Record state := { pos : Z; chunks : cache }.

  Definition init : state := {| pos := 0; chunks := [] |}.

  Definition step (s : state) (o : op) : state * out :=
    match o with
    | Seek w off =>
        let p := if w =? 0 then off
                 else if w =? 1 then pos s + off
                 else if w =? 2 then len + off
                 else pos s in
        ({| pos := p; chunks := chunks s |}, ONone)
    | Tell => (s, OPos (pos s))
    | Read n =>
        let size := if n <? 0 then Z.max (len - pos s) 0 else n in
        match rrc (pos s) (pos s + size) (chunks s) with
        | (c', Some d) =>
            ({| pos := pos s + Z.of_nat (length d); chunks := c' |}, OData d)
        | (c', None) => ({| pos := pos s; chunks := c' |}, OKeyError)
        end
    end.

  Fixpoint run (s : state) (ops : list op) : state * list out :=
    match ops with
    | [] => (s, [])
    | o :: ops' =>
        let '(s', r) := step s o in
        let '(s'', rs) := run s' ops' in
        (s'', r :: rs)
    end.

  (* the largest number of chunks held after any operation of the run *)
  Fixpoint run_maxheld (s : state) (ops : list op) : Z :=
    match ops with
    | [] => Z.of_nat (length (chunks s))
    | o :: ops' =>
        Z.max (Z.of_nat (length (chunks s))) (run_maxheld (fst (step s o)) ops')
    end.
End HTTP.

(* ---- specification: an ordinary in-memory file ------------------------- *)
Section Spec.
  Variable res : list Z.
  Definition slen : Z := Z.of_nat (length res).

  Definition spec_step (p : Z) (o : op) : Z * out :=
    match o with
    | Seek w off =>
        ((if w =? 0 then off else if w =? 1 then p + off
          else if w =? 2 then slen + off else p), ONone)
    | Tell => (p, OPos p)
    | Read n =>
        let size := if n <? 0 then Z.max (slen - p) 0 else n in
        let d := slice res p (Z.min (p + size) slen) in
        (p + Z.of_nat (length d), OData d)
    end.

  Fixpoint spec_run (p : Z) (ops : list op) : list out :=
    match ops with
    | [] => []
    | o :: ops' => let '(p', r) := spec_step p o in r :: spec_run p' ops'
    end.

  (* positions stay non-negative along the run (a real file object raises
     on a negative seek; the generator and the theorem exclude it) *)
  Fixpoint pos_ok (p : Z) (ops : list op) : bool :=
    match ops with
    | [] => true
    | o :: ops' => let p' := fst (spec_step p o) in (0 <=? p') && pos_ok p' ops'
    end.
End Spec.

(* ---- interface used by the correspondence check (harness/c19.py) -------- *)
Definition mk_junk (mode : Z) (res : list Z) : Z -> Z -> list Z :=
  fun _ _ => if mode =? 0 then [] else if mode =? 1 then res
             else [255; 254; 253; 252; 251].

Definition decode_op (t : Z * Z * Z) : op :=
  let '(tag, a, b) := t in
  if tag =? 0 then Seek a b else if tag =? 1 then Tell else Read a.

Definition enc_out (o : out) : list Z :=
  match o with
  | ONone => [0]
  | OPos p => [1; p]
  | OData d => 2 :: Z.of_nat (length d) :: d
  | OKeyError => [3]
  end.

(* case = (resource, junk mode, chunk size, keep_chunks, ops);
   result = encoded outputs ++ [9; largest number of chunks held] *)
Definition run_flat (case : list Z * Z * Z * Z * list (Z * Z * Z)) : list Z :=
  let '(res, mode, cs, keep, tops) := case in
  let ops := map decode_op tops in
  let j := mk_junk mode res in
  flat_map enc_out (snd (run res j cs keep init ops))
  ++ [9; run_maxheld res j cs keep init ops].

(* ---- the code before the repairs 96f1c8a / d7d4e3b, kept for the refutation
   witnesses in Props/C19.v (not used by the correspondence) ---------------- *)
Section HTTP_old.
  Variable res : list Z.
  Variable junk : Z -> Z -> list Z.
  Variable cs keep : Z.

  (* old eviction: the oldest chunk that is not chunk 0 -- possibly the
     requested one *)
  Definition evict_old (c : cache) : cache :=
    match remove_first (fun k => negb (k =? 0)) c with
    | Some c' => c'
    | None => c
    end.

  Definition get_chunk_old (idx : Z) (c : cache) : cache * option (list Z) :=
    let c1 := match lookup idx c with
              | Some _ => c
              | None => c ++ [(idx, download res junk (idx * cs)
                                      (Z.min ((idx + 1) * cs) (len res)))]
              end in
    let c2 := if keep <? Z.of_nat (length c1) then evict_old c1 else c1 in
    (c2, lookup idx c2).

  Fixpoint rrc_loop_old (n : nat) (k pos toread stop : Z) (c : cache)
           (acc : list Z) : cache * option (list Z) :=
    match n with
    | O => (c, Some acc)
    | S n' =>
        match get_chunk_old k c with
        | (c', None) => (c', None)
        | (c', Some chunk) =>
            let cst := pos mod cs in
            if toread =? 0 then (c', Some acc)
            else if cs <=? cst + toread then
              rrc_loop_old n' (k + 1) (pos + (cs - cst)) (toread - (cs - cst))
                           stop c' (acc ++ skipn (Z.to_nat cst) chunk)
            else
              let ce := stop mod cs in
              rrc_loop_old n' (k + 1) (pos + (ce - cst)) (toread - (ce - cst))
                           stop c' (acc ++ slice chunk cst ce)
        end
    end.

  (* old read_range_cached: no clipping to the length, no early return *)
  Definition rrc_old (start stop : Z) (c : cache) : cache * option (list Z) :=
    let toread := stop - start in
    let k0 := start / cs in
    let k1 := stop / cs + 1 in
    rrc_loop_old (Z.to_nat (k1 - k0)) k0 start toread stop c [].

  (* old read(size): position advanced by size, or set to the length *)
  Definition step_old (s : state) (o : op) : state * out :=
    match o with
    | Read n =>
        match rrc_old (pos s) (pos s + n) (chunks s) with
        | (c', Some d) =>
            ({| pos := if 0 <? n then pos s + n else len res; chunks := c' |},
             OData d)
        | (c', None) => ({| pos := pos s; chunks := c' |}, OKeyError)
        end
    | _ => step res junk cs keep s o
    end.

  Fixpoint run_old (s : state) (ops : list op) : list out :=
    match ops with
    | [] => []
    | o :: ops' => let '(s', r) := step_old s o in r :: run_old s' ops'
    end.
End HTTP_old.
