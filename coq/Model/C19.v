(* Model of dclab/http_utils.py:HTTPFile (chunk-cached range reads).
   Executable definitions only; proofs are in Proofs/C19.v.

   Follows the code line by line:
     get_cache_chunk  -> get_chunk
     read_range_cached-> rrc / rrc_loop
     read/seek/tell   -> step
   The remote server is an oracle: for a valid range (0 <= a < b <= len) it
   returns exactly res[a:b]; for any other range it returns [junk a b], an
   arbitrary function (a real server answers an unsatisfiable or malformed
   Range header with the whole body or an error page). *)
From Coq Require Import ZArith List Bool.
From Verif Require Import Common.ListIdx.
Import ListNotations.
Open Scope Z_scope.



Definition cache := list (Z * list Z).

Fixpoint lookup (k : Z) (c : cache) : option (list Z) :=
  match c with
  | [] => None
  | (k', v) :: c' => if k =? k' then Some v else lookup k c'
  end.

(* remove the first entry (insertion order) whose key satisfies [p] *)
Fixpoint remove_first (p : Z -> bool) (c : cache) : option cache :=
  match c with
  | [] => None
  | (k, v) :: c' =>
      if p k then Some c'
      else match remove_first p c' with
           | Some c'' => Some ((k, v) :: c'')
           | None => None
           end
  end.

(* eviction as coded in get_cache_chunk: prefer the oldest chunk that is
   neither chunk 0 nor the requested one; otherwise the oldest chunk that is
   not the requested one *)
Definition evict (idx : Z) (c : cache) : cache :=
  match remove_first (fun k => negb (k =? 0) && negb (k =? idx)) c with
  | Some c' => c'
  | None => match remove_first (fun k => negb (k =? idx)) c with
            | Some c' => c'
            | None => c
            end
  end.

Section HTTP.
  Variable res : list Z.
  Variable junk : Z -> Z -> list Z.
  Variable cs keep : Z.
  (* the eviction policy is a parameter: the theorems hold for every policy
     that meets [policy_ok] (Proofs/C19.v); the code's policy is [evict] *)
  Variable ev : Z -> cache -> cache.

  Definition len : Z := Z.of_nat (length res).

  Definition download (a b : Z) : list Z :=
    if (0 <=? a) && (a <? b) && (b <=? len) then slice res a b else junk a b.

  (* self.cache[index] = self.download_range(start, stop) when missing *)
  Definition insert_chunk (idx : Z) (c : cache) : cache :=
    match lookup idx c with
    | Some _ => c
    | None => c ++ [(idx, download (idx * cs) (Z.min ((idx + 1) * cs) len))]
    end.

  Definition get_chunk (idx : Z) (c : cache) : cache * option (list Z) :=
    let c1 := insert_chunk idx c in
    let c2 := if keep <? Z.of_nat (length c1) then ev idx c1 else c1 in
    (c2, lookup idx c2).

  (* for chunk_index in range(chunk_start, chunk_stop): n iterations *)
  Fixpoint rrc_loop (n : nat) (k pos toread stop : Z) (c : cache) (acc : list Z)
    : cache * option (list Z) :=
    match n with
    | O => (c, Some acc)
    | S n' =>
        match get_chunk k c with
        | (c', None) => (c', None)                       (* KeyError *)
        | (c', Some chunk) =>
            let cst := pos mod cs in
            if toread =? 0 then (c', Some acc)
            else if cs <=? cst + toread then
              rrc_loop n' (k + 1) (pos + (cs - cst)) (toread - (cs - cst)) stop c'
                       (acc ++ skipn (Z.to_nat cst) chunk)
            else
              let ce := stop mod cs in
              rrc_loop n' (k + 1) (pos + (ce - cst)) (toread - (ce - cst)) stop c'
                       (acc ++ slice chunk cst ce)
        end
    end.

  (* read_range_cached(start, stop) *)
  Definition rrc (start stop0 : Z) (c : cache) : cache * option (list Z) :=
    let stop := Z.min stop0 len in
    let toread := stop - start in
    if toread <=? 0 then (c, Some [])
    else
      let k0 := start / cs in
      let k1 := stop / cs + 1 in
      rrc_loop (Z.to_nat (k1 - k0)) k0 start toread stop c [].

  Inductive op :=
  | Seek (whence : Z) (off : Z)    (* 0 SEEK_SET, 1 SEEK_CUR, 2 SEEK_END *)
  | Tell
  | Read (n : Z).                  (* n < 0: read to the end *)

  Inductive out :=
  | ONone
  | OPos (p : Z)
  | OData (d : list Z)
  | OKeyError.

  Record state := { pos : Z; chunks : cache }.

  Definition init : state := {| pos := 0; chunks := [] |}.

  Definition step (s : state) (o : op) : state * out :=
    match o with
    | Seek w off =>
        let p := if w =? 0 then off
                 else if w =? 1 then pos s + off
                 else if w =? 2 then len + off
                 else pos s in
        ({| pos := p; chunks := chunks s |}, ONone)
    | Tell => (s, OPos (pos s))
    | Read n =>
        let size := if n <? 0 then Z.max (len - pos s) 0 else n in
        match rrc (pos s) (pos s + size) (chunks s) with
        | (c', Some d) =>
            ({| pos := pos s + Z.of_nat (length d); chunks := c' |}, OData d)
        | (c', None) => ({| pos := pos s; chunks := c' |}, OKeyError)
        end
    end.

  Fixpoint run (s : state) (ops : list op) : state * list out :=
    match ops with
    | [] => (s, [])
    | o :: ops' =>
        let '(s', r) := step s o in
        let '(s'', rs) := run s' ops' in
        (s'', r :: rs)
    end.

  (* the largest number of chunks held after any operation of the run *)
  Fixpoint run_maxheld (s : state) (ops : list op) : Z :=
    match ops with
    | [] => Z.of_nat (length (chunks s))
    | o :: ops' =>
        Z.max (Z.of_nat (length (chunks s))) (run_maxheld (fst (step s o)) ops')
    end.

  (* ---- the transient: between the insertion and the eviction inside
     get_cache_chunk the dict holds one more chunk. [*_peak] is the largest
     number of chunks the dict ever holds, including these moments. *)
  Fixpoint rrc_loop_peak (n : nat) (k pos toread stop : Z) (c : cache) : Z :=
    match n with
    | O => Z.of_nat (length c)
    | S n' =>
        let here := Z.of_nat (length (insert_chunk k c)) in
        match get_chunk k c with
        | (c', None) => here
        | (c', Some chunk) =>
            let cst := pos mod cs in
            if toread =? 0 then here
            else if cs <=? cst + toread then
              Z.max here (rrc_loop_peak n' (k + 1) (pos + (cs - cst))
                                        (toread - (cs - cst)) stop c')
            else
              let ce := stop mod cs in
              Z.max here (rrc_loop_peak n' (k + 1) (pos + (ce - cst))
                                        (toread - (ce - cst)) stop c')
        end
    end.

  Definition rrc_peak (start stop0 : Z) (c : cache) : Z :=
    let stop := Z.min stop0 len in
    let toread := stop - start in
    if toread <=? 0 then Z.of_nat (length c)
    else rrc_loop_peak (Z.to_nat (stop / cs + 1 - start / cs)) (start / cs)
                       start toread stop c.

  Definition step_peak (s : state) (o : op) : Z :=
    match o with
    | Read n =>
        let size := if n <? 0 then Z.max (len - pos s) 0 else n in
        rrc_peak (pos s) (pos s + size) (chunks s)
    | _ => Z.of_nat (length (chunks s))
    end.

  Fixpoint run_peak (s : state) (ops : list op) : Z :=
    match ops with
    | [] => Z.of_nat (length (chunks s))
    | o :: ops' => Z.max (step_peak s o) (run_peak (fst (step s o)) ops')
    end.

  (* ---- an adaptive client (h5py): the next operation is a function of the
     answers received so far; [None] = finished. The transcript is everything
     the client has seen. *)
  Definition reader := list out -> option op.

  Fixpoint interact (fuel : nat) (rd : reader) (s : state) (hist : list out)
    : list out :=
    match fuel with
    | O => hist
    | S f =>
        match rd hist with
        | None => hist
        | Some o => let '(s', r) := step s o in interact f rd s' (hist ++ [r])
        end
    end.
End HTTP.

(* ---- specification: an ordinary in-memory file ------------------------- *)
Section Spec.
  Variable res : list Z.
  Definition slen : Z := Z.of_nat (length res).

  Definition spec_step (p : Z) (o : op) : Z * out :=
    match o with
    | Seek w off =>
        ((if w =? 0 then off else if w =? 1 then p + off
          else if w =? 2 then slen + off else p), ONone)
    | Tell => (p, OPos p)
    | Read n =>
        let size := if n <? 0 then Z.max (slen - p) 0 else n in
        let d := slice res p (Z.min (p + size) slen) in
        (p + Z.of_nat (length d), OData d)
    end.

  Fixpoint spec_run (p : Z) (ops : list op) : list out :=
    match ops with
    | [] => []
    | o :: ops' => let '(p', r) := spec_step p o in r :: spec_run p' ops'
    end.

  (* positions stay non-negative along the run (a real file object raises
     on a negative seek; the generator and the theorem exclude it) *)
  Fixpoint pos_ok (p : Z) (ops : list op) : bool :=
    match ops with
    | [] => true
    | o :: ops' => let p' := fst (spec_step p o) in (0 <=? p') && pos_ok p' ops'
    end.

  Fixpoint spec_interact (fuel : nat) (rd : list out -> option op) (p : Z)
           (hist : list out) : list out :=
    match fuel with
    | O => hist
    | S f =>
        match rd hist with
        | None => hist
        | Some o => let '(p', r) := spec_step p o in
                    spec_interact f rd p' (hist ++ [r])
        end
    end.

  (* the client never seeks to a negative position of the plain file *)
  Fixpoint reader_pos_ok (fuel : nat) (rd : list out -> option op) (p : Z)
           (hist : list out) : bool :=
    match fuel with
    | O => true
    | S f =>
        match rd hist with
        | None => true
        | Some o => let '(p', r) := spec_step p o in
                    (0 <=? p') && reader_pos_ok f rd p' (hist ++ [r])
        end
    end.
End Spec.

(* ---- interface used by the correspondence check (harness/c19.py) -------- *)
Definition mk_junk (mode : Z) (res : list Z) : Z -> Z -> list Z :=
  fun a b => if mode =? 0 then [] else if mode =? 1 then res
             else if mode =? 2 then [255; 254; 253; 252; 251]
             else (* RFC 7233: a range end beyond the length is clipped *)
               if (0 <=? a) && (a <? Z.of_nat (length res)) && (a <? b)
               then slice res a (Z.of_nat (length res)) else [].

Definition decode_op (t : Z * Z * Z) : op :=
  let '(tag, a, b) := t in
  if tag =? 0 then Seek a b else if tag =? 1 then Tell
  else if tag =? 2 then Read a else Read (-1).   (* 3: read(None), 4: read() *)

Definition enc_out (o : out) : list Z :=
  match o with
  | ONone => [0]
  | OPos p => [1; p]
  | OData d => 2 :: Z.of_nat (length d) :: d
  | OKeyError => [3]
  end.

(* case = (resource, junk mode, chunk size, keep_chunks, ops);
   result = encoded outputs ++ [9; largest number of chunks held between
   operations; largest number held at any moment] *)
Definition run_flat (case : list Z * Z * Z * Z * list (Z * Z * Z)) : list Z :=
  let '(res, mode, cs, keep, tops) := case in
  let ops := map decode_op tops in
  let j := mk_junk mode res in
  flat_map enc_out (snd (run res j cs keep evict init ops))
  ++ [9; run_maxheld res j cs keep evict init ops;
      run_peak res j cs keep evict init ops].

(* ---- the code before the repairs 96f1c8a / d7d4e3b, kept for the refutation
   witnesses in Props/C19.v (not used by the correspondence) ---------------- *)
Section HTTP_old.
  Variable res : list Z.
  Variable junk : Z -> Z -> list Z.
  Variable cs keep : Z.

  (* old eviction: the oldest chunk that is not chunk 0 -- possibly the
     requested one *)
  Definition evict_old (c : cache) : cache :=
    match remove_first (fun k => negb (k =? 0)) c with
    | Some c' => c'
    | None => c
    end.

  (* the old get_cache_chunk and loop are the generic ones under the old
     policy, which does not meet [policy_ok] (it may evict the requested
     chunk) *)
  Definition get_chunk_old : Z -> cache -> cache * option (list Z) :=
    get_chunk res junk cs keep (fun _ c => evict_old c).

  Definition rrc_loop_old : nat -> Z -> Z -> Z -> Z -> cache -> list Z
                            -> cache * option (list Z) :=
    rrc_loop res junk cs keep (fun _ c => evict_old c).

  (* old read_range_cached: no clipping to the length, no early return *)
  Definition rrc_old (start stop : Z) (c : cache) : cache * option (list Z) :=
    let toread := stop - start in
    let k0 := start / cs in
    let k1 := stop / cs + 1 in
    rrc_loop_old (Z.to_nat (k1 - k0)) k0 start toread stop c [].

  (* old read(size): position advanced by size, or set to the length *)
  Definition step_old (s : state) (o : op) : state * out :=
    match o with
    | Read n =>
        match rrc_old (pos s) (pos s + n) (chunks s) with
        | (c', Some d) =>
            ({| pos := if 0 <? n then pos s + n else len res; chunks := c' |},
             OData d)
        | (c', None) => ({| pos := pos s; chunks := c' |}, OKeyError)
        end
    | _ => step res junk cs keep evict s o
    end.

  Fixpoint run_old (s : state) (ops : list op) : list out :=
    match ops with
    | [] => []
    | o :: ops' => let '(s', r) := step_old s o in r :: run_old s' ops'
    end.
End HTTP_old.

(* ---- interface for replaying the operations h5py issued on a real .rtdc
   file (harness/c19.py: h5py traces). The resource is passed packed, 64 bytes
   per number (little endian), and answers are reduced to a checksum so that
   the printed result stays small. *)
Fixpoint unpack (n : nat) (w : Z) : list Z :=
  match n with
  | O => []
  | S n' => (w mod 256) :: unpack n' (w / 256)
  end.

Definition unpack_res (words : list Z) (total : Z) : list Z :=
  firstn (Z.to_nat total) (flat_map (unpack 64) words).

Definition checksum (d : list Z) : Z :=
  fold_left (fun acc x => (acc * 31 + x + 1) mod 1000000007) d 7.

Definition digest_out (o : out) : list Z :=
  match o with
  | ONone => [0]
  | OPos p => [1; p]
  | OData d => [2; Z.of_nat (length d); checksum d]
  | OKeyError => [3]
  end.

(* case = (packed resource, length, chunk size, keep_chunks, ops) *)
Definition run_digest (case : list Z * Z * Z * Z * list (Z * Z * Z)) : list Z :=
  let '(words, total, cs, keep, tops) := case in
  let res := unpack_res words total in
  let ops := map decode_op tops in
  let j := mk_junk 3 res in
  flat_map digest_out (snd (run res j cs keep evict init ops))
  ++ [9; run_maxheld res j cs keep evict init ops;
      run_peak res j cs keep evict init ops].
