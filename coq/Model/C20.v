(* Model of the min/max/mean summaries of scalar features:
     dclab/rtdc_dataset/writer.py:RTDCWriter.write_ndarray (1-d branch: the
       incremental update of the "min", "max", "mean" attributes from the values
       as stored; the mean is weighted with the number of non-NaN values, kept
       per writer instance in _valid_counts together with the dataset size
       and counted from the dataset when unknown or when the size differs),
     dclab/rtdc_dataset/copier.py:rtdc_copy (missing summaries are completed),
     fmt_hdf5/events.py:H5ScalarEvent._fetch_ufunc_attr (stored attributes are
       preferred, otherwise computed),
     fmt_hierarchy/events.py:ChildScalar (computed from the filtered values).
   Executable definitions only; proofs are in Proofs/C20.v.

   The values written are those of Model/C01.v (write_scalar appends, shown
   there); here one scalar dataset is followed through its history.
   A value is Fin k (the number k/8), NaN, +inf or -inf.  A mean is an exact
   fraction p/q (in units of 1/8) or NaN/+inf/-inf; rounding is not modelled. *)
From Coq Require Import ZArith List Bool.
Import ListNotations.
Open Scope Z_scope.

Inductive fv := Fin (k : Z) | NaN | PInf | NInf.
Inductive mv := MFin (p q : Z) | MNaN | MPInf | MNInf.

Definition isnan (v : fv) : bool := match v with NaN => true | _ => false end.

(* IEEE a <= b for non-NaN values *)
Definition fle (a b : fv) : bool :=
  match a, b with
  | NInf, _ => true
  | _, PInf => true
  | Fin x, Fin y => x <=? y
  | _, _ => false
  end.

(* numpy.nanmin / nanmax of two values; of an array (NaN when all are NaN) *)
Definition nanmin2 (a b : fv) : fv :=
  if isnan a then b else if isnan b then a else if fle a b then a else b.
Definition nanmax2 (a b : fv) : fv :=
  if isnan a then b else if isnan b then a else if fle a b then b else a.
Definition nanmin_l (l : list fv) : fv := fold_right nanmin2 NaN l.
Definition nanmax_l (l : list fv) : fv := fold_right nanmax2 NaN l.

(* numpy.nanmean of an array: sum of the finite values, number of non-NaN
   values, presence of +inf / -inf *)
Definition fsum (l : list fv) : Z :=
  fold_right (fun v s => match v with Fin k => k + s | _ => s end) 0 l.
Definition count_valid (l : list fv) : Z :=
  fold_right (fun v n => if isnan v then n else n + 1) 0 l.
Definition has_pinf (l : list fv) : bool := existsb (fun v => match v with PInf => true | _ => false end) l.
Definition has_ninf (l : list fv) : bool := existsb (fun v => match v with NInf => true | _ => false end) l.

Definition nanmean_l (l : list fv) : mv :=
  if count_valid l =? 0 then MNaN
  else if has_pinf l then (if has_ninf l then MNaN else MPInf)
  else if has_ninf l then MNInf
  else MFin (fsum l) (count_valid l).

(* binary64 arithmetic on means, exact on finite values:  m * n  (n > 0),
   a + b,  a / n  (n > 0) *)
Definition mscale (m : mv) (n : Z) : mv :=
  match m with MFin p q => MFin (p * n) q | o => o end.
Definition madd (a b : mv) : mv :=
  match a, b with
  | MNaN, _ | _, MNaN => MNaN
  | MPInf, MNInf | MNInf, MPInf => MNaN
  | MPInf, _ | _, MPInf => MPInf
  | MNInf, _ | _, MNInf => MNInf
  | MFin p q, MFin r s => MFin (p * s + r * q) (q * s)
  end.
Definition mdiv (m : mv) (n : Z) : mv :=
  match m with MFin p q => MFin p (q * n) | o => o end.

(* ---- the dataset and its attributes ----------------------------------------- *)
(* stored dtype: float64, or an integer type with its range; HDF5 converts
   what is assigned: truncation towards zero, saturation, NaN -> lowest *)
Inductive dtk := DF | DI (lo hi : Z).
Definition clampZ (lo hi v : Z) : Z := Z.max lo (Z.min hi v).
Definition cast (dt : dtk) (v : fv) : fv :=
  match dt with
  | DF => v
  | DI lo hi =>
      match v with
      | Fin k => Fin (8 * clampZ lo hi (Z.quot k 8))
      | PInf => Fin (8 * hi)
      | _ => Fin (8 * lo)
      end
  end.
Definition DI64 : dtk := DI (- 2 ^ 63) (2 ^ 63 - 1).

Record sdset := {
  d_dt : dtk;
  d_vals : list fv;            (* the values as stored *)
  a_min : option fv;
  a_max : option fv;
  a_mean : option mv
}.

(* live writer instances: id -> (mode: 0 append, 1 replace, 2 reset; the
   instance's _valid_counts entry for this dataset: (dataset size, number of
   non-NaN values) after its last write). Several instances may be open on one
   h5py.File. *)
Definition winst := (Z * option (Z * Z))%type.
Record state := { insts : list (Z * winst); ds : option sdset }.
Definition init : state := {| insts := []; ds := None |}.

Fixpoint inst_of (i : Z) (l : list (Z * winst)) : winst :=
  match l with
  | [] => (0, None)
  | (j, w) :: r => if i =? j then w else inst_of i r
  end.
Definition mode_of (i : Z) (l : list (Z * winst)) : Z := fst (inst_of i l).
Definition zlen {A} (l : list A) : Z := Z.of_nat (length l).

(* the update of one extremum attribute *)
Definition upd_ext (op2 : fv -> fv -> fv) (opl : list fv -> fv)
           (old : option fv) (data all : list fv) : fv :=
  match old with
  | Some a => op2 a (opl data)      (* ufunc([val_a, ufunc(dset[offset:])]) *)
  | None => opl all                 (* ufunc(dset) *)
  end.

(* write_ndarray, 1-d branch, on an existing (Some) or new (None) dataset whose
   dtype would be [dt0], by an instance whose _valid_counts entry is [cache];
   the summaries are computed from the values as stored; the cached count is
   reused only if the dataset still has the size the instance left it with.
   Returns the dataset and the instance's new entry. *)
Definition write (old : option sdset) (dt0 : dtk) (cache : option (Z * Z)) (data : list fv)
  : sdset * (Z * Z) :=
  match old with
  | None =>
      let st := map (cast dt0) data in
      ({| d_dt := dt0; d_vals := st; a_min := Some (nanmin_l st); a_max := Some (nanmax_l st);
          a_mean := Some (nanmean_l st) |}, (zlen st, 0 + count_valid st))
  | Some d =>
      let st := map (cast (d_dt d)) data in
      let all := d_vals d ++ st in
      let mn := upd_ext nanmin2 nanmin_l (a_min d) st all in
      let mx := upd_ext nanmax2 nanmax_l (a_max d) st all in
      let '(mean, num) :=
        match a_mean d with
        | Some mean_a =>
            let num_a := match cache with
                         | Some (sz, c) => if sz =? zlen (d_vals d) then c
                                           else count_valid (d_vals d)
                         | None => count_valid (d_vals d)
                         end in
            let num_b := count_valid st in
            (if num_b =? 0 then mean_a
             else if num_a =? 0 then nanmean_l st
             else mdiv (madd (mscale mean_a num_a) (mscale (nanmean_l st) num_b))
                       (num_a + num_b),
             num_a + num_b)
        | None => (nanmean_l all, 0 + count_valid all)
        end in
      ({| d_dt := d_dt d; d_vals := all; a_min := Some mn; a_max := Some mx;
          a_mean := Some mean |}, (zlen all, num))
  end.

(* the update as it was before the repair 0e55a66 (weights: offset and
   data.size); documents that defect, tied to nothing: Proofs/C20.v:old_mean_refuted *)
Definition old_mean_update (mean_a : mv) (old data : list fv) : mv :=
  mdiv (madd (mscale mean_a (Z.of_nat (length old)))
             (mscale (nanmean_l data) (Z.of_nat (length data))))
       (Z.of_nat (length old) + Z.of_nat (length data)).

Inductive op :=
| OOpen (i m : Z)                (* a new RTDCWriter (instance i) on the file, mode m *)
| OWrite (i : Z) (isint : bool) (data : list fv)
                                 (* instance i: store_feature(feat, data); isint: integer array *)
| OCopy                          (* rtdc_copy into a new file (compress, repack, ...) *)
| ODrop (mn mx me : bool)        (* a file whose dataset lacks some summary attributes *)
| OClose                         (* every writer instance is closed *)
| ORaw (dt : dtk) (data : list fv).
                                 (* a new file whose dataset was written without the writer
                                    (recording software, plain h5py): no summaries *)

(* rtdc_copy: attributes are copied, missing summaries computed from the data
   (nothing is completed for a dataset without events) *)
Definition copy (d : sdset) : sdset :=
  match d_vals d with
  | [] => d
  | _ =>
    {| d_dt := d_dt d; d_vals := d_vals d;
       a_min := Some (match a_min d with Some v => v | None => nanmin_l (d_vals d) end);
       a_max := Some (match a_max d with Some v => v | None => nanmax_l (d_vals d) end);
       a_mean := Some (match a_mean d with Some v => v | None => nanmean_l (d_vals d) end) |}
  end.

Fixpoint set_inst (i : Z) (w : winst) (l : list (Z * winst)) : list (Z * winst) :=
  match l with
  | [] => [(i, w)]
  | (j, n) :: r => if i =? j then (i, w) :: r else (j, n) :: set_inst i w r
  end.

(* [forced]: the dtype store_feature imposes on the feature (FEATURES_UINT32/64).
   Copies, attribute removal and raw files happen while no writer is open. *)
Definition step (forced : option dtk) (s : state) (o : op) : state :=
  match o with
  | OOpen i m =>
      if m =? 2 then {| insts := [(i, (m, None))]; ds := None |}
      else {| insts := set_inst i (m, None) (insts s); ds := ds s |}
  | OWrite i isint data =>
      let '(m, cache) := inst_of i (insts s) in
      let old := if m =? 1 then None else ds s in    (* replace: del events[feat] *)
      match data with
      | [] => {| insts := insts s; ds := old |}      (* raises after the delete *)
      | _ =>
          let dt0 := match forced with Some t => t | None => if isint then DI64 else DF end in
          let '(d, e) := write old dt0 cache data in
          {| insts := set_inst i (m, Some e) (insts s); ds := Some d |}
      end
  | OClose => {| insts := []; ds := ds s |}
  | OCopy => {| insts := []; ds := option_map copy (ds s) |}
  | ODrop mn mx me =>
      {| insts := [];
         ds := option_map (fun d => {| d_dt := d_dt d; d_vals := d_vals d;
                                       a_min := if mn then None else a_min d;
                                       a_max := if mx then None else a_max d;
                                       a_mean := if me then None else a_mean d |}) (ds s) |}
  | ORaw dt data =>
      {| insts := [];
         ds := Some {| d_dt := dt; d_vals := map (cast dt) data; a_min := None; a_max := None;
                       a_mean := None |} |}
  end.

Definition run (forced : option dtk) (s : state) (ops : list op) : state :=
  fold_left (step forced) ops s.

(* the guard of the partial theorem (known finding C20-two-writers-replace-
   same-size): a writer in replace mode writes only while no live writer that
   is not in replace mode holds a count for the dataset *)
Definition replace_ok (s : state) (o : op) : bool :=
  match o with
  | OWrite i _ _ =>
      if mode_of i (insts s) =? 1
      then forallb (fun e : Z * winst =>
                      (fst (snd e) =? 1)
                      || match snd (snd e) with None => true | Some _ => false end)
                   (insts s)
      else true
  | _ => true
  end.
Fixpoint hist_ok (forced : option dtk) (s : state) (ops : list op) : bool :=
  match ops with
  | [] => true
  | o :: r => replace_ok s o && hist_ok forced (step forced s o) r
  end.

(* ---- what the feature object reports (H5ScalarEvent) --------------------------- *)
Definition rep_min (d : sdset) : fv :=
  match a_min d with Some v => v | None => nanmin_l (d_vals d) end.
Definition rep_max (d : sdset) : fv :=
  match a_max d with Some v => v | None => nanmax_l (d_vals d) end.
Definition rep_mean (d : sdset) : mv :=
  match a_mean d with Some v => v | None => nanmean_l (d_vals d) end.

(* ChildScalar: computed from the parent's values selected by the filter *)
Fixpoint select {A} (filt : list bool) (l : list A) : list A :=
  match filt, l with
  | b :: fr, x :: lr => if b then x :: select fr lr else select fr lr
  | _, _ => []
  end.
Definition child_min (filt : list bool) (d : sdset) : fv := nanmin_l (select filt (d_vals d)).
Definition child_max (filt : list bool) (d : sdset) : fv := nanmax_l (select filt (d_vals d)).
Definition child_mean (filt : list bool) (d : sdset) : mv := nanmean_l (select filt (d_vals d)).

(* ---- scalar features that are plain numpy arrays ------------------------------------ *)
(* ancillary and temporary features and the features of dict/tdms datasets are
   numpy.ndarray objects: their .min()/.max()/.mean() are numpy's NaN-
   propagating methods (known finding C20-ndarray-summaries-propagate-nan) *)
Definition npmin2 (a b : fv) : fv :=
  if isnan a || isnan b then NaN else if fle a b then a else b.
Definition npmax2 (a b : fv) : fv :=
  if isnan a || isnan b then NaN else if fle a b then b else a.
Definition npmin_l (l : list fv) : fv :=
  match l with [] => NaN | x :: r => fold_left npmin2 r x end.
Definition npmax_l (l : list fv) : fv :=
  match l with [] => NaN | x :: r => fold_left npmax2 r x end.

(* ---- chunk-wise reduction -------------------------------------------------------- *)
(* a reader that walks over the HDF5 chunks of a dataset instead of loading
   it: extrema of the chunk extrema; for the mean the chunk means must be
   weighted with the chunks' numbers of non-NaN values. (H5ScalarEvent loads
   the array; these definitions state what a chunk-wise variant has to
   compute, and that the unweighted mean of chunk means is not it.) *)
Definition chunk_min (chunks : list (list fv)) : fv := nanmin_l (map nanmin_l chunks).
Definition chunk_max (chunks : list (list fv)) : fv := nanmax_l (map nanmax_l chunks).

Definition wmean_step (acc : mv * Z) (c : list fv) : mv * Z :=
  let '(m, n) := acc in
  let nb := count_valid c in
  if nb =? 0 then (m, n)
  else if n =? 0 then (nanmean_l c, nb)
  else (mdiv (madd (mscale m n) (mscale (nanmean_l c) nb)) (n + nb), n + nb).
Definition chunk_mean_weighted (chunks : list (list fv)) : mv :=
  fst (fold_left wmean_step chunks (MNaN, 0)).

(* numpy.nanmean of the list of chunk means *)
Definition chunk_mean_unweighted (chunks : list (list fv)) : mv :=
  let ms := filter (fun m => match m with MNaN => false | _ => true end)
                   (map nanmean_l chunks) in
  match ms with
  | [] => MNaN
  | m0 :: r => mdiv (fold_left madd r m0) (Z.of_nat (length ms))
  end.

(* ---- the feature object of a hierarchy child across refreshes -------------------- *)
(* ChildScalar keeps its array (_array) and its summaries (_ufunc_attrs) for
   its whole life; the child's _events dict keeps the object until the child
   is refreshed (apply_filter clears _events). The array is taken from the
   parent with the parent's filter as applied at the first access. *)
Record cobj := { o_arr : option (list fv); o_min : option fv; o_max : option fv;
                 o_mean : option mv }.
Record hstate := {
  h_vals : list fv;          (* the parent's feature values *)
  h_filt : list bool;        (* the parent's filter, as applied *)
  h_obj : option cobj;       (* child._events[feat] *)
  h_changed : bool           (* the parent's filter changed since the last refresh *)
}.
Definition hinit (vals : list fv) : hstate :=
  {| h_vals := vals; h_filt := map (fun _ => true) vals; h_obj := None; h_changed := false |}.

Inductive qres := QF (v : fv) | QM (m : mv).
Inductive hop :=
| HFilter (filt : list bool)    (* parent: new filter, apply_filter() *)
| HRefresh                      (* child.rejuvenate() *)
| HQuery (which : Z)            (* child[feat].min() / .max() / .mean() *)
| HRead                         (* child[feat][:]: the data are loaded and kept *)
| HData (vals : list fv).       (* the parent's feature data change (a temporary feature
                                   is set again, an ancillary feature is recomputed) *)

Definition new_cobj : cobj := {| o_arr := None; o_min := None; o_max := None; o_mean := None |}.

(* child[feat].<which>(): the result and the object left in _events *)
Definition hquery (s : hstate) (which : Z) : qres * cobj :=
  let o := match h_obj s with Some o => o | None => new_cobj end in
  let arr := match o_arr o with Some a => a | None => select (h_filt s) (h_vals s) end in
  if which =? 0 then
    match o_min o with
    | Some v => (QF v, o)
    | None => (QF (nanmin_l arr),
               {| o_arr := Some arr; o_min := Some (nanmin_l arr); o_max := o_max o;
                  o_mean := o_mean o |})
    end
  else if which =? 1 then
    match o_max o with
    | Some v => (QF v, o)
    | None => (QF (nanmax_l arr),
               {| o_arr := Some arr; o_min := o_min o; o_max := Some (nanmax_l arr);
                  o_mean := o_mean o |})
    end
  else
    match o_mean o with
    | Some m => (QM m, o)
    | None => (QM (nanmean_l arr),
               {| o_arr := Some arr; o_min := o_min o; o_max := o_max o;
                  o_mean := Some (nanmean_l arr) |})
    end.

Definition hstep (s : hstate) (o : hop) : hstate :=
  match o with
  | HFilter f => {| h_vals := h_vals s; h_filt := f; h_obj := h_obj s; h_changed := true |}
  | HRefresh => {| h_vals := h_vals s; h_filt := h_filt s; h_obj := None; h_changed := false |}
  | HQuery w => {| h_vals := h_vals s; h_filt := h_filt s; h_obj := Some (snd (hquery s w));
                   h_changed := h_changed s |}
  | HData v => {| h_vals := v; h_filt := h_filt s; h_obj := h_obj s; h_changed := true |}
  | HRead =>
      let o := match h_obj s with Some o => o | None => new_cobj end in
      let arr := match o_arr o with Some a => a | None => select (h_filt s) (h_vals s) end in
      {| h_vals := h_vals s; h_filt := h_filt s;
         h_obj := Some {| o_arr := Some arr; o_min := o_min o; o_max := o_max o;
                          o_mean := o_mean o |};
         h_changed := h_changed s |}
  end.
Definition hrun (s : hstate) (ops : list hop) : hstate := fold_left hstep ops s.

(* what the summaries of the child should be *)
Definition spec_q (filt : list bool) (vals : list fv) (which : Z) : qres :=
  let sel := select filt vals in
  if which =? 0 then QF (nanmin_l sel) else if which =? 1 then QF (nanmax_l sel)
  else QM (nanmean_l sel).

(* the queries of a history with a flag: made while the child was up to date *)
Fixpoint hrun_out (s : hstate) (ops : list hop) : list (bool * qres) :=
  match ops with
  | [] => []
  | HQuery w :: r => (negb (h_changed s), fst (hquery s w)) :: hrun_out (hstep s (HQuery w)) r
  | o :: r => hrun_out (hstep s o) r
  end.

(* ---- features of mapped basins (BasinProxyFeature) --------------------------------- *)
(* the events of the basin selected by the basinmap; the summaries are
   computed from them (the attributes stored in the basin file describe all
   of its events and are not used) *)
Definition mapped (bm : list Z) (vals : list fv) : list fv :=
  map (fun i => nth (Z.to_nat i) vals NaN) bm.
(* BasinProxyFeature keeps the mapped data (_cache) once they were read and
   its summaries (_ufunc_attrs); the basin map never changes. Its history is
   that of a feature object over the mapped events with reads and queries
   in any order: [hrun (binit bm vals)] with HRead / HQuery only. *)
Definition binit (bm : list Z) (vals : list fv) : hstate := hinit (mapped bm vals).
Definition is_rq (o : hop) : bool :=
  match o with HQuery _ | HRead => true | _ => false end.
Definition spec_b (bm : list Z) (vals : list fv) (which : Z) : qres :=
  let sel := mapped bm vals in
  if which =? 0 then QF (nanmin_l sel) else if which =? 1 then QF (nanmax_l sel)
  else QM (nanmean_l sel).

Definition basin_q (bm : list Z) (d : sdset) (which : Z) : qres :=
  let sel := mapped bm (d_vals d) in
  if which =? 0 then QF (nanmin_l sel) else if which =? 1 then QF (nanmax_l sel)
  else QM (nanmean_l sel).

(* ---- specification --------------------------------------------------------------- *)
(* the feature's stored values (and dtype) after a history: what was written
   since the last replace/reset, converted to the dtype fixed at creation *)
Fixpoint set_mode (i m : Z) (l : list (Z * Z)) : list (Z * Z) :=
  match l with
  | [] => [(i, m)]
  | (j, n) :: r => if i =? j then (i, m) :: r else (j, n) :: set_mode i m r
  end.
Fixpoint smode_of (i : Z) (l : list (Z * Z)) : Z :=
  match l with
  | [] => 0
  | (j, m) :: r => if i =? j then m else smode_of i r
  end.

Definition spec_step (forced : option dtk) (st : list (Z * Z) * option (dtk * list fv)) (o : op)
  : list (Z * Z) * option (dtk * list fv) :=
  let '(ins, acc) := st in
  match o with
  | OOpen i m => if m =? 2 then ([(i, m)], None) else (set_mode i m ins, acc)
  | OWrite i isint data =>
      let old := if smode_of i ins =? 1 then None else acc in
      match data with
      | [] => (ins, old)
      | _ =>
          match old with
          | Some (dt, vals) => (set_mode i (smode_of i ins) ins, Some (dt, vals ++ map (cast dt) data))
          | None =>
              let dt := match forced with Some t => t | None => if isint then DI64 else DF end in
              (set_mode i (smode_of i ins) ins, Some (dt, map (cast dt) data))
          end
      end
  | ORaw dt data => ([], Some (dt, map (cast dt) data))
  | OClose | OCopy | ODrop _ _ _ => ([], acc)
  end.
Definition spec_vals (forced : option dtk) (ops : list op) : option (dtk * list fv) :=
  snd (fold_left (spec_step forced) ops ([], None)).

(* equality of means: fractions are compared by cross-multiplication *)
Definition mv_eq (a b : mv) : Prop :=
  match a, b with
  | MFin p q, MFin r s => q <> 0 /\ s <> 0 /\ p * s = r * q
  | MNaN, MNaN | MPInf, MPInf | MNInf, MNInf => True
  | _, _ => False
  end.

(* ---- interface used by the correspondence check (harness/c20.py) ---------------- *)
Definition dec (t : Z * Z) : fv :=
  let '(tag, k) := t in
  if tag =? 0 then Fin k else if tag =? 1 then NaN else if tag =? 2 then PInf else NInf.

Definition dt_of (c : Z) : dtk :=
  if c =? 1 then DI 0 (2 ^ 32 - 1) else if c =? 2 then DI 0 (2 ^ 64 - 1)
  else if c =? 3 then DI64 else if c =? 4 then DI (- 2 ^ 31) (2 ^ 31 - 1)
  else if c =? 5 then DI 0 65535 else DF.

(* (tag, a, b, data): 0 open (instance a, mode b); 1 write (instance a, b=1:
   integer array); 2 copy; 3 drop (a: bits min, max, mean); 4 raw
   (a: dtype code); 5 close all writers *)
Definition dec_op (t : Z * Z * Z * list (Z * Z)) : op :=
  let '(tag, a, b, data) := t in
  if tag =? 0 then OOpen a b
  else if tag =? 1 then OWrite a (b =? 1) (map dec data)
  else if tag =? 2 then OCopy
  else if tag =? 4 then ORaw (dt_of a) (map dec data)
  else if tag =? 5 then OClose
  else ODrop (Z.odd a) (Z.odd (a / 2)) (Z.odd (a / 4)).

Definition enc_fv (v : fv) : list Z :=
  match v with Fin k => [0; k] | NaN => [1; 0] | PInf => [2; 0] | NInf => [3; 0] end.
Definition enc_mv (m : mv) : list Z :=
  match m with MFin p q => [0; p; q] | MNaN => [1; 0; 0] | MPInf => [2; 0; 0] | MNInf => [3; 0; 0] end.

Definition enc_q (q : qres) : list Z :=
  match q with QF v => enc_fv v | QM m => enc_mv m end.

(* the basin map used by the check: events i with i mod 3 <> 1 *)
Definition basin_map_of (n : nat) : list Z :=
  filter (fun i => negb (i mod 3 =? 1)) (map Z.of_nat (seq 0 n)).

(* reported min, max, mean of the final dataset, of a hierarchy child that
   keeps every second event, and of the feature seen through a mapped basin *)
Definition enc_o {A} (enc : A -> list Z) (o : option A) : list Z :=
  match o with Some a => 1 :: enc a | None => [0] end.

(* case: forced dtype code of the feature (0 none) and the history.
   result: the guard hist_ok, length, the stored values, reported min/max/mean, the stored attributes themselves,
   the summaries of a child keeping every second event and of the feature
   seen through a mapped basin *)
Definition run_flat (case : Z * list (Z * Z * Z * list (Z * Z))) : list Z :=
  let '(fc, tops) := case in
  let forced := if fc =? 0 then None else Some (dt_of fc) in
  let ops := map dec_op tops in
  (if hist_ok forced init ops then 1 else 0) ::
  match ds (run forced init ops) with
  | None => [-1]
  | Some d =>
      let filt := map (fun i => Nat.even i) (seq 0 (length (d_vals d))) in
      Z.of_nat (length (d_vals d)) :: flat_map enc_fv (d_vals d) ++ enc_fv (rep_min d) ++ enc_fv (rep_max d) ++ enc_mv (rep_mean d)
      ++ enc_o enc_fv (a_min d) ++ enc_o enc_fv (a_max d) ++ enc_o enc_mv (a_mean d)
      ++ enc_fv (child_min filt d) ++ enc_fv (child_max filt d) ++ enc_mv (child_mean filt d)
      ++ flat_map (fun w => enc_q (basin_q (basin_map_of (length (d_vals d))) d w)) [0; 1; 2]
  end.

Fixpoint dec_flat (p : list Z) : list fv :=
  match p with
  | t :: k :: r => dec (t, k) :: dec_flat r
  | _ => []
  end.

(* child histories: (tag, payload): 0 filter (payload: 0/1 per event),
   1 refresh, 2 query (payload: [which]) *)
Definition dec_hop (t : Z * list Z) : hop :=
  let '(tag, p) := t in
  if tag =? 0 then HFilter (map (fun b => negb (b =? 0)) p)
  else if tag =? 1 then HRefresh else if tag =? 2 then HQuery (hd 0 p)
  else if tag =? 3 then HRead else HData (dec_flat p).

Definition child_flat (case : list (Z * Z) * list (Z * list Z)) : list Z :=
  let '(vals, tops) := case in
  flat_map (fun r : bool * qres => (if fst r then 1 else 0) :: enc_q (snd r))
           (hrun_out (hinit (map dec vals)) (map dec_hop tops)).

(* mapped-basin histories: values of the basin, basin map, ops (0..2 query
   min/max/mean, 3 read the data); the results of the queries in order *)
Definition basin_flat (case : list (Z * Z) * list Z * list Z) : list Z :=
  let '(vals, bm, tops) := case in
  flat_map (fun r : bool * qres => enc_q (snd r))
           (hrun_out (binit bm (map dec vals))
                     (map (fun t => if t =? 3 then HRead else HQuery t) tops)).

(* ndarray-valued scalar features: min and max of the values, NaN-propagating *)
Definition ndarray_flat (vals : list (Z * Z)) : list Z :=
  enc_fv (npmin_l (map dec vals)) ++ enc_fv (npmax_l (map dec vals)).
