(* Model of the min/max/mean summaries of scalar features:
     dclab/rtdc_dataset/writer.py:RTDCWriter.write_ndarray (1-d branch: the
       incremental update of the "min", "max", "mean" attributes; the mean is
       weighted with the number of non-NaN values, kept per writer instance in
       _valid_counts and counted from the dataset when unknown),
     dclab/rtdc_dataset/copier.py:rtdc_copy (missing summaries are completed),
     fmt_hdf5/events.py:H5ScalarEvent._fetch_ufunc_attr (stored attributes are
       preferred, otherwise computed),
     fmt_hierarchy/events.py:ChildScalar (computed from the filtered values).
   Executable definitions only; proofs are in Proofs/C20.v.

   The values written are those of Model/C01.v (write_scalar appends, shown
   there); here one scalar dataset is followed through its history.
   A value is Fin k (the number k/8), NaN, +inf or -inf.  A mean is an exact
   fraction p/q (in units of 1/8) or NaN/+inf/-inf; rounding is not modelled. *)
From Coq Require Import ZArith List Bool.
Import ListNotations.
Open Scope Z_scope.

Inductive fv := Fin (k : Z) | NaN | PInf | NInf.
Inductive mv := MFin (p q : Z) | MNaN | MPInf | MNInf.

Definition isnan (v : fv) : bool := match v with NaN => true | _ => false end.

(* IEEE a <= b for non-NaN values *)
Definition fle (a b : fv) : bool :=
  match a, b with
  | NInf, _ => true
  | _, PInf => true
  | Fin x, Fin y => x <=? y
  | _, _ => false
  end.

(* numpy.nanmin / nanmax of two values; of an array (NaN when all are NaN) *)
Definition nanmin2 (a b : fv) : fv :=
  if isnan a then b else if isnan b then a else if fle a b then a else b.
Definition nanmax2 (a b : fv) : fv :=
  if isnan a then b else if isnan b then a else if fle a b then b else a.
Definition nanmin_l (l : list fv) : fv := fold_right nanmin2 NaN l.
Definition nanmax_l (l : list fv) : fv := fold_right nanmax2 NaN l.

(* numpy.nanmean of an array: sum of the finite values, number of non-NaN
   values, presence of +inf / -inf *)
Definition fsum (l : list fv) : Z :=
  fold_right (fun v s => match v with Fin k => k + s | _ => s end) 0 l.
Definition count_valid (l : list fv) : Z :=
  fold_right (fun v n => if isnan v then n else n + 1) 0 l.
Definition has_pinf (l : list fv) : bool := existsb (fun v => match v with PInf => true | _ => false end) l.
Definition has_ninf (l : list fv) : bool := existsb (fun v => match v with NInf => true | _ => false end) l.

Definition nanmean_l (l : list fv) : mv :=
  if count_valid l =? 0 then MNaN
  else if has_pinf l then (if has_ninf l then MNaN else MPInf)
  else if has_ninf l then MNInf
  else MFin (fsum l) (count_valid l).

(* binary64 arithmetic on means, exact on finite values:  m * n  (n > 0),
   a + b,  a / n  (n > 0) *)
Definition mscale (m : mv) (n : Z) : mv :=
  match m with MFin p q => MFin (p * n) q | o => o end.
Definition madd (a b : mv) : mv :=
  match a, b with
  | MNaN, _ | _, MNaN => MNaN
  | MPInf, MNInf | MNInf, MPInf => MNaN
  | MPInf, _ | _, MPInf => MPInf
  | MNInf, _ | _, MNInf => MNInf
  | MFin p q, MFin r s => MFin (p * s + r * q) (q * s)
  end.
Definition mdiv (m : mv) (n : Z) : mv :=
  match m with MFin p q => MFin p (q * n) | o => o end.

(* ---- the dataset and its attributes ----------------------------------------- *)
Record sdset := {
  d_vals : list fv;
  a_min : option fv;
  a_max : option fv;
  a_mean : option mv
}.

(* writer instance: mode (0 append, 1 replace, 2 reset) and its
   _valid_counts entry for this dataset *)
Record state := { mode : Z; cnt : option Z; ds : option sdset }.
Definition init : state := {| mode := 0; cnt := None; ds := None |}.

(* the update of one extremum attribute *)
Definition upd_ext (op2 : fv -> fv -> fv) (opl : list fv -> fv)
           (old : option fv) (data all : list fv) : fv :=
  match old with
  | Some a => op2 a (opl data)      (* ufunc([val_a, ufunc(data)]) *)
  | None => opl all                 (* ufunc(dset) *)
  end.

(* write_ndarray, 1-d branch, on an existing (Some) or new (None) dataset;
   returns the dataset and the new _valid_counts entry *)
Definition write (c : option Z) (old : option sdset) (data : list fv) : sdset * Z :=
  match old with
  | None =>
      ({| d_vals := data; a_min := Some (nanmin_l data); a_max := Some (nanmax_l data);
          a_mean := Some (nanmean_l data) |}, 0 + count_valid data)
  | Some d =>
      let all := d_vals d ++ data in
      let mn := upd_ext nanmin2 nanmin_l (a_min d) data all in
      let mx := upd_ext nanmax2 nanmax_l (a_max d) data all in
      let '(mean, num) :=
        match a_mean d with
        | Some mean_a =>
            let num_a := match c with Some n => n | None => count_valid (d_vals d) end in
            let num_b := count_valid data in
            (if num_b =? 0 then mean_a
             else if num_a =? 0 then nanmean_l data
             else mdiv (madd (mscale mean_a num_a) (mscale (nanmean_l data) num_b))
                       (num_a + num_b),
             num_a + num_b)
        | None => (nanmean_l all, 0 + count_valid all)
        end in
      ({| d_vals := all; a_min := Some mn; a_max := Some mx; a_mean := Some mean |}, num)
  end.

(* the update as it was before the repair (weights: offset and data.size),
   kept to document the defect: see Proofs/C20.v:old_mean_refuted *)
Definition old_mean_update (mean_a : mv) (old data : list fv) : mv :=
  mdiv (madd (mscale mean_a (Z.of_nat (length old)))
             (mscale (nanmean_l data) (Z.of_nat (length data))))
       (Z.of_nat (length old) + Z.of_nat (length data)).

Inductive op :=
| OOpen (m : Z)                  (* a new RTDCWriter on the file *)
| OWrite (data : list fv)        (* store_feature(feat, data), data non-empty *)
| OCopy                          (* rtdc_copy into a new file (compress, repack, ...) *)
| ODrop (mn mx me : bool)        (* a file whose dataset lacks some summaries *)
| ORaw (data : list fv).         (* a new file whose dataset was written without the
                                    writer (recording software, plain h5py): no summaries;
                                    the stored dtype (float/int/uint) plays no role below *)

(* rtdc_copy: attributes are copied, missing ones computed from the data *)
Definition copy (d : sdset) : sdset :=
  {| d_vals := d_vals d;
     a_min := Some (match a_min d with Some v => v | None => nanmin_l (d_vals d) end);
     a_max := Some (match a_max d with Some v => v | None => nanmax_l (d_vals d) end);
     a_mean := Some (match a_mean d with Some v => v | None => nanmean_l (d_vals d) end) |}.

Definition step (s : state) (o : op) : state :=
  match o with
  | OOpen m => {| mode := m; cnt := None; ds := if m =? 2 then None else ds s |}
  | OWrite data =>
      match data with
      | [] => {| mode := mode s; cnt := cnt s;
                 ds := if mode s =? 1 then None else ds s |}   (* raises after the delete *)
      | _ =>
          let old := if mode s =? 1 then None else ds s in
          let '(d, c) := write (cnt s) old data in
          {| mode := mode s; cnt := Some c; ds := Some d |}
      end
  | OCopy => {| mode := mode s; cnt := None; ds := option_map copy (ds s) |}
  | ODrop mn mx me =>
      {| mode := mode s; cnt := None;
         ds := option_map (fun d => {| d_vals := d_vals d;
                                       a_min := if mn then None else a_min d;
                                       a_max := if mx then None else a_max d;
                                       a_mean := if me then None else a_mean d |}) (ds s) |}
  | ORaw data =>
      {| mode := mode s; cnt := None;
         ds := Some {| d_vals := data; a_min := None; a_max := None; a_mean := None |} |}
  end.

Definition run (s : state) (ops : list op) : state := fold_left step ops s.

(* ---- what the feature object reports (H5ScalarEvent) --------------------------- *)
Definition rep_min (d : sdset) : fv :=
  match a_min d with Some v => v | None => nanmin_l (d_vals d) end.
Definition rep_max (d : sdset) : fv :=
  match a_max d with Some v => v | None => nanmax_l (d_vals d) end.
Definition rep_mean (d : sdset) : mv :=
  match a_mean d with Some v => v | None => nanmean_l (d_vals d) end.

(* ChildScalar: computed from the parent's values selected by the filter *)
Fixpoint select {A} (filt : list bool) (l : list A) : list A :=
  match filt, l with
  | b :: fr, x :: lr => if b then x :: select fr lr else select fr lr
  | _, _ => []
  end.
Definition child_min (filt : list bool) (d : sdset) : fv := nanmin_l (select filt (d_vals d)).
Definition child_max (filt : list bool) (d : sdset) : fv := nanmax_l (select filt (d_vals d)).
Definition child_mean (filt : list bool) (d : sdset) : mv := nanmean_l (select filt (d_vals d)).

(* ---- chunk-wise reduction -------------------------------------------------------- *)
(* a reader that walks over the HDF5 chunks of a dataset instead of loading
   it: extrema of the chunk extrema; for the mean the chunk means must be
   weighted with the chunks' numbers of non-NaN values. (H5ScalarEvent loads
   the array; these definitions state what a chunk-wise variant has to
   compute, and that the unweighted mean of chunk means is not it.) *)
Definition chunk_min (chunks : list (list fv)) : fv := nanmin_l (map nanmin_l chunks).
Definition chunk_max (chunks : list (list fv)) : fv := nanmax_l (map nanmax_l chunks).

Definition wmean_step (acc : mv * Z) (c : list fv) : mv * Z :=
  let '(m, n) := acc in
  let nb := count_valid c in
  if nb =? 0 then (m, n)
  else if n =? 0 then (nanmean_l c, nb)
  else (mdiv (madd (mscale m n) (mscale (nanmean_l c) nb)) (n + nb), n + nb).
Definition chunk_mean_weighted (chunks : list (list fv)) : mv :=
  fst (fold_left wmean_step chunks (MNaN, 0)).

(* numpy.nanmean of the list of chunk means *)
Definition chunk_mean_unweighted (chunks : list (list fv)) : mv :=
  let ms := filter (fun m => match m with MNaN => false | _ => true end)
                   (map nanmean_l chunks) in
  match ms with
  | [] => MNaN
  | m0 :: r => mdiv (fold_left madd r m0) (Z.of_nat (length ms))
  end.

(* ---- the feature object of a hierarchy child across refreshes -------------------- *)
(* ChildScalar keeps its array (_array) and its summaries (_ufunc_attrs) for
   its whole life; the child's _events dict keeps the object until the child
   is refreshed (apply_filter clears _events). The array is taken from the
   parent with the parent's filter as applied at the first access. *)
Record cobj := { o_arr : option (list fv); o_min : option fv; o_max : option fv;
                 o_mean : option mv }.
Record hstate := {
  h_vals : list fv;          (* the parent's feature values *)
  h_filt : list bool;        (* the parent's filter, as applied *)
  h_obj : option cobj;       (* child._events[feat] *)
  h_changed : bool           (* the parent's filter changed since the last refresh *)
}.
Definition hinit (vals : list fv) : hstate :=
  {| h_vals := vals; h_filt := map (fun _ => true) vals; h_obj := None; h_changed := false |}.

Inductive qres := QF (v : fv) | QM (m : mv).
Inductive hop :=
| HFilter (filt : list bool)    (* parent: new filter, apply_filter() *)
| HRefresh                      (* child.rejuvenate() *)
| HQuery (which : Z)            (* child[feat].min() / .max() / .mean() *)
| HRead.                        (* child[feat][:]: the data are loaded and kept *)

Definition new_cobj : cobj := {| o_arr := None; o_min := None; o_max := None; o_mean := None |}.

(* child[feat].<which>(): the result and the object left in _events *)
Definition hquery (s : hstate) (which : Z) : qres * cobj :=
  let o := match h_obj s with Some o => o | None => new_cobj end in
  let arr := match o_arr o with Some a => a | None => select (h_filt s) (h_vals s) end in
  if which =? 0 then
    match o_min o with
    | Some v => (QF v, o)
    | None => (QF (nanmin_l arr),
               {| o_arr := Some arr; o_min := Some (nanmin_l arr); o_max := o_max o;
                  o_mean := o_mean o |})
    end
  else if which =? 1 then
    match o_max o with
    | Some v => (QF v, o)
    | None => (QF (nanmax_l arr),
               {| o_arr := Some arr; o_min := o_min o; o_max := Some (nanmax_l arr);
                  o_mean := o_mean o |})
    end
  else
    match o_mean o with
    | Some m => (QM m, o)
    | None => (QM (nanmean_l arr),
               {| o_arr := Some arr; o_min := o_min o; o_max := o_max o;
                  o_mean := Some (nanmean_l arr) |})
    end.

Definition hstep (s : hstate) (o : hop) : hstate :=
  match o with
  | HFilter f => {| h_vals := h_vals s; h_filt := f; h_obj := h_obj s; h_changed := true |}
  | HRefresh => {| h_vals := h_vals s; h_filt := h_filt s; h_obj := None; h_changed := false |}
  | HQuery w => {| h_vals := h_vals s; h_filt := h_filt s; h_obj := Some (snd (hquery s w));
                   h_changed := h_changed s |}
  | HRead =>
      let o := match h_obj s with Some o => o | None => new_cobj end in
      let arr := match o_arr o with Some a => a | None => select (h_filt s) (h_vals s) end in
      {| h_vals := h_vals s; h_filt := h_filt s;
         h_obj := Some {| o_arr := Some arr; o_min := o_min o; o_max := o_max o;
                          o_mean := o_mean o |};
         h_changed := h_changed s |}
  end.
Definition hrun (s : hstate) (ops : list hop) : hstate := fold_left hstep ops s.

(* what the summaries of the child should be *)
Definition spec_q (filt : list bool) (vals : list fv) (which : Z) : qres :=
  let sel := select filt vals in
  if which =? 0 then QF (nanmin_l sel) else if which =? 1 then QF (nanmax_l sel)
  else QM (nanmean_l sel).

(* the queries of a history with a flag: made while the child was up to date *)
Fixpoint hrun_out (s : hstate) (ops : list hop) : list (bool * qres) :=
  match ops with
  | [] => []
  | HQuery w :: r => (negb (h_changed s), fst (hquery s w)) :: hrun_out (hstep s (HQuery w)) r
  | o :: r => hrun_out (hstep s o) r
  end.

(* ---- features of mapped basins (BasinProxyFeature) --------------------------------- *)
(* the events of the basin selected by the basinmap; the summaries are
   computed from them (the attributes stored in the basin file describe all
   of its events and are not used) *)
Definition mapped (bm : list Z) (vals : list fv) : list fv :=
  map (fun i => nth (Z.to_nat i) vals NaN) bm.
(* BasinProxyFeature keeps the mapped data (_cache) once they were read and
   its summaries (_ufunc_attrs); the basin map never changes. Its history is
   that of a feature object over the mapped events with reads and queries
   in any order: [hrun (binit bm vals)] with HRead / HQuery only. *)
Definition binit (bm : list Z) (vals : list fv) : hstate := hinit (mapped bm vals).
Definition is_rq (o : hop) : bool :=
  match o with HQuery _ | HRead => true | _ => false end.
Definition spec_b (bm : list Z) (vals : list fv) (which : Z) : qres :=
  let sel := mapped bm vals in
  if which =? 0 then QF (nanmin_l sel) else if which =? 1 then QF (nanmax_l sel)
  else QM (nanmean_l sel).

Definition basin_q (bm : list Z) (d : sdset) (which : Z) : qres :=
  let sel := mapped bm (d_vals d) in
  if which =? 0 then QF (nanmin_l sel) else if which =? 1 then QF (nanmax_l sel)
  else QM (nanmean_l sel).

(* ---- specification --------------------------------------------------------------- *)
(* the values of the feature after a history *)
Fixpoint spec_vals (m : Z) (acc : list fv) (ops : list op) : list fv :=
  match ops with
  | [] => acc
  | OOpen m' :: r => spec_vals m' (if m' =? 2 then [] else acc) r
  | OWrite data :: r => spec_vals m (if m =? 1 then data else acc ++ data) r
  | ORaw data :: r => spec_vals m data r
  | _ :: r => spec_vals m acc r
  end.

(* equality of means: fractions are compared by cross-multiplication *)
Definition mv_eq (a b : mv) : Prop :=
  match a, b with
  | MFin p q, MFin r s => q <> 0 /\ s <> 0 /\ p * s = r * q
  | MNaN, MNaN | MPInf, MPInf | MNInf, MNInf => True
  | _, _ => False
  end.

(* ---- interface used by the correspondence check (harness/c20.py) ---------------- *)
Definition dec (t : Z * Z) : fv :=
  let '(tag, k) := t in
  if tag =? 0 then Fin k else if tag =? 1 then NaN else if tag =? 2 then PInf else NInf.

Definition dec_op (t : Z * Z * list (Z * Z)) : op :=
  let '(tag, a, data) := t in
  if tag =? 0 then OOpen a
  else if tag =? 1 then OWrite (map dec data)
  else if tag =? 2 then OCopy
  else if tag =? 4 then ORaw (map dec data)
  else ODrop (Z.odd a) (Z.odd (a / 2)) (Z.odd (a / 4)).

Definition enc_fv (v : fv) : list Z :=
  match v with Fin k => [0; k] | NaN => [1; 0] | PInf => [2; 0] | NInf => [3; 0] end.
Definition enc_mv (m : mv) : list Z :=
  match m with MFin p q => [0; p; q] | MNaN => [1; 0; 0] | MPInf => [2; 0; 0] | MNInf => [3; 0; 0] end.

Definition enc_q (q : qres) : list Z :=
  match q with QF v => enc_fv v | QM m => enc_mv m end.

(* the basin map used by the check: events i with i mod 3 <> 1 *)
Definition basin_map_of (n : nat) : list Z :=
  filter (fun i => negb (i mod 3 =? 1)) (map Z.of_nat (seq 0 n)).

(* reported min, max, mean of the final dataset, of a hierarchy child that
   keeps every second event, and of the feature seen through a mapped basin *)
Definition run_flat (tops : list (Z * Z * list (Z * Z))) : list Z :=
  match ds (run init (map dec_op tops)) with
  | None => [-1]
  | Some d =>
      let filt := map (fun i => Nat.even i) (seq 0 (length (d_vals d))) in
      Z.of_nat (length (d_vals d)) :: enc_fv (rep_min d) ++ enc_fv (rep_max d) ++ enc_mv (rep_mean d)
      ++ enc_fv (child_min filt d) ++ enc_fv (child_max filt d) ++ enc_mv (child_mean filt d)
      ++ flat_map (fun w => enc_q (basin_q (basin_map_of (length (d_vals d))) d w)) [0; 1; 2]
  end.

(* child histories: (tag, payload): 0 filter (payload: 0/1 per event),
   1 refresh, 2 query (payload: [which]) *)
Definition dec_hop (t : Z * list Z) : hop :=
  let '(tag, p) := t in
  if tag =? 0 then HFilter (map (fun b => negb (b =? 0)) p)
  else if tag =? 1 then HRefresh else if tag =? 2 then HQuery (hd 0 p) else HRead.

Definition child_flat (case : list (Z * Z) * list (Z * list Z)) : list Z :=
  let '(vals, tops) := case in
  flat_map (fun r : bool * qres => (if fst r then 1 else 0) :: enc_q (snd r))
           (hrun_out (hinit (map dec vals)) (map dec_hop tops)).

(* mapped-basin histories: values of the basin, basin map, ops (0..2 query
   min/max/mean, 3 read the data); the results of the queries in order *)
Definition basin_flat (case : list (Z * Z) * list Z * list Z) : list Z :=
  let '(vals, bm, tops) := case in
  flat_map (fun r : bool * qres => enc_q (snd r))
           (hrun_out (binit bm (map dec vals))
                     (map (fun t => if t =? 3 then HRead else HQuery t) tops)).
