(* Proofs about the RTDCWriter model (Model/C01.v). *)
From Coq Require Import ZArith List Bool Lia ZifyBool ZifyNat.
From Verif Require Import Common.ListIdx Model.C01.
Import ListNotations.
Open Scope Z_scope.


(* ---- association lists ------------------------------------------------------ *)
Lemma alookup_app {A} k (l1 l2 : list (Z * A)) :
  alookup k (l1 ++ l2) = match alookup k l1 with Some v => Some v | None => alookup k l2 end.
Proof.
  induction l1 as [|[k' v] l1 IH]; simpl; [reflexivity|].
  destruct (k =? k'); [reflexivity|exact IH].
Qed.

Lemma alookup_adel {A} k k' (l : list (Z * A)) :
  alookup k' (adel k l) = if k' =? k then None else alookup k' l.
Proof.
  induction l as [|[k0 v] l IH]; simpl.
  - now destruct (k' =? k).
  - destruct (k =? k0) eqn:E.
    + rewrite IH. destruct (k' =? k) eqn:E1; [reflexivity|].
      replace (k' =? k0) with false by lia. reflexivity.
    + simpl. rewrite IH. destruct (k' =? k0) eqn:E2; [|reflexivity].
      replace (k' =? k) with false by lia. reflexivity.
Qed.

Lemma alookup_aset {A} k k' (v : A) l :
  alookup k' (aset k v l) = if k' =? k then Some v else alookup k' l.
Proof.
  unfold aset. rewrite alookup_app, alookup_adel. simpl.
  destruct (k' =? k); [reflexivity|]. now destruct (alookup k' l).
Qed.

Lemma amem_aset {A} k k' (v : A) l :
  amem k' (aset k v l) = (k' =? k) || amem k' l.
Proof. unfold amem. rewrite alookup_aset. now destruct (k' =? k). Qed.

(* ---- list helpers -------------------------------------------------------------- *)
Lemma skipn_repeat {A} (x : A) c n : skipn c (repeat x n) = repeat x (n - c).
Proof.
  revert c; induction n as [|n IH]; intros [|c]; simpl; auto.
Qed.

Lemma zlen_app {A} (a b : list A) : zlen (a ++ b) = zlen a + zlen b.
Proof. unfold zlen. rewrite app_length. lia. Qed.

Lemma zlen_nonneg {A} (a : list A) : 0 <= zlen a.
Proof. unfold zlen. lia. Qed.

Lemma resize_grow {A} (fill : A) (l : list A) (m : Z) :
  0 <= m -> resize fill l (zlen l + m) = l ++ repeat fill (Z.to_nat m).
Proof.
  intros Hm. unfold resize, zlen.
  rewrite firstn_all2 by lia. f_equal. f_equal. lia.
Qed.

(* the state of the dataset while it is being populated: the old events, the
   first k new events, fill values for the rest *)
Definition partial {A} (fill : A) (old data : list A) (k : nat) : list A :=
  old ++ firstn k data ++ repeat fill (length data - k).

Lemma partial_full {A} (fill : A) old data k :
  (length data <= k)%nat -> partial fill old data k = old ++ data.
Proof.
  intros H. unfold partial. rewrite firstn_all2 by lia.
  replace (length data - k)%nat with 0%nat by lia. simpl. now rewrite app_nil_r.
Qed.

Lemma set_slice_step {A} (fill : A) (old data : list A) (k c : nat) :
  (k + c <= length data)%nat ->
  set_slice (partial fill old data k) (zlen old + Z.of_nat k) (zlen old + Z.of_nat k + Z.of_nat c)
            (slice data (Z.of_nat k) (Z.of_nat k + Z.of_nat c))
  = partial fill old data (k + c).
Proof.
  intros H. unfold set_slice, slice, partial, zlen.
  replace (Z.to_nat (Z.of_nat (length old) + Z.of_nat k)) with (length old + k)%nat by lia.
  replace (Z.to_nat (Z.of_nat (length old) + Z.of_nat k + Z.of_nat c))
    with (length old + (k + c))%nat by lia.
  replace (Z.to_nat (Z.of_nat k + Z.of_nat c - Z.of_nat k)) with c by lia.
  replace (Z.to_nat (Z.of_nat k)) with k by lia.
  rewrite firstn_app_2.
  assert (Hk : length (firstn k data) = k) by (rewrite firstn_length; lia).
  rewrite firstn_app, Hk, Nat.sub_diag, firstn_all2 by lia. simpl. rewrite app_nil_r.
  rewrite <- app_assoc. f_equal.
  rewrite skipn_app.
  rewrite (skipn_all2 old) by lia. simpl.
  rewrite skipn_app, Hk.
  rewrite (skipn_all2 (firstn k data)) by lia. simpl.
  rewrite skipn_repeat.
  rewrite <- firstn_skipn_app, <- app_assoc. f_equal. f_equal. f_equal. lia.
Qed.

Lemma set_slice_stepZ {A} (fill : A) (old data : list A) (k c a b : Z) :
  0 <= k -> 0 <= c -> k + c <= zlen data ->
  a = zlen old + k -> b = zlen old + (k + c) ->
  set_slice (partial fill old data (Z.to_nat k)) a b (slice data k (k + c))
  = partial fill old data (Z.to_nat (k + c)).
Proof.
  intros Hk Hc Hl -> ->.
  pose proof (set_slice_step fill old data (Z.to_nat k) (Z.to_nat c)) as H.
  unfold zlen in *.
  replace (Z.of_nat (Z.to_nat k)) with k in H by lia.
  replace (Z.of_nat (Z.to_nat c)) with c in H by lia.
  replace (Z.to_nat (k + c)) with (Z.to_nat k + Z.to_nat c)%nat by lia.
  rewrite <- H by lia. f_equal. lia.
Qed.

(* ---- write_ndarray, n-d branch: every new event is written exactly once ------ *)
Lemma chunk_loop_spec (old data : list row) (cs : Z) (n : nat) :
  0 < cs -> forall ii,
  0 <= ii -> (ii + Z.of_nat n) * cs <= zlen data ->
  chunk_loop n ii cs (zlen old) data (partial [] old data (Z.to_nat (ii * cs)))
  = partial [] old data (Z.to_nat ((ii + Z.of_nat n) * cs)).
Proof.
  intros Hcs. induction n as [|n IH]; intros ii Hii Hle; cbn [chunk_loop].
  - f_equal. f_equal. lia.
  - assert (H1 : (ii + 1 + Z.of_nat n) * cs <= zlen data).
    { replace (ii + 1 + Z.of_nat n) with (ii + Z.of_nat (S n)) by lia. exact Hle. }
    assert (H2 : ii * cs + cs <= zlen data) by nia.
    assert (H3 : 0 <= ii * cs) by nia.
    rewrite (set_slice_stepZ [] old data (ii * cs) cs); [|exact H3|lia|exact H2|reflexivity|reflexivity].
    replace (ii * cs + cs) with ((ii + 1) * cs) by lia.
    rewrite IH by lia. f_equal. f_equal. lia.
Qed.

Lemma write_nd_finish (old data : list row) (cs : Z) :
  0 < cs ->
  (let rows1 := chunk_loop (Z.to_nat (zlen data / cs)) 0 cs (zlen old) data
                           (partial [] old data 0) in
   if zlen data mod cs =? 0 then rows1
   else set_slice rows1 (zlen old + zlen data / cs * cs)
                  (zlen old + (zlen data / cs * cs + zlen data mod cs))
                  (slice data (zlen data / cs * cs) (zlen data / cs * cs + zlen data mod cs)))
  = old ++ data.
Proof.
  intros Hcs. pose proof (zlen_nonneg data) as Hd. cbv zeta.
  assert (Hq : 0 <= zlen data / cs) by (apply Z.div_pos; lia).
  assert (Hm : 0 <= zlen data mod cs < cs) by (apply Z.mod_pos_bound; lia).
  assert (Hdm : zlen data = cs * (zlen data / cs) + zlen data mod cs) by (apply Z.div_mod; lia).
  pose proof (chunk_loop_spec old data cs (Z.to_nat (zlen data / cs)) Hcs 0 (Z.le_refl 0)) as HL.
  replace (Z.to_nat (0 * cs)) with 0%nat in HL by lia.
  rewrite Z2Nat.id in HL by exact Hq.
  rewrite HL by nia. clear HL.
  replace (0 + zlen data / cs) with (zlen data / cs) by lia.
  destruct (zlen data mod cs =? 0) eqn:Er.
  - apply partial_full. unfold zlen in *. nia.
  - rewrite (set_slice_stepZ [] old data (zlen data / cs * cs) (zlen data mod cs)); [|apply Z.mul_nonneg_nonneg; [exact Hq|apply Z.lt_le_incl, Hcs]|apply Hm|rewrite Z.mul_comm, <- Hdm; apply Z.le_refl|reflexivity|reflexivity].

    apply partial_full. unfold zlen in *. nia.
Qed.

Theorem write_nd_appends csb old shape isz dt0 data :
  match old with Some d => 0 < nd_chunk d | None => True end ->
  nd_rows (write_nd csb old shape isz dt0 data)
  = match old with Some d => nd_rows d | None => [] end ++ data.
Proof.
  intros Hc. pose proof (zlen_nonneg data) as Hd. unfold write_nd. destruct old as [d|].
  - cbn [nd_rows]. rewrite resize_grow by exact Hd.
    replace (Z.to_nat (zlen data)) with (length data) by (unfold zlen; apply eq_sym, Nat2Z.id).
    pose proof (write_nd_finish (nd_rows d) data (nd_chunk d) Hc) as H.
    unfold partial in H. simpl in H. rewrite Nat.sub_0_r in H. exact H.
  - cbn [nd_rows].
    assert (Hcs : 0 < best_chunk csb shape isz) by (unfold best_chunk; lia).
    pose proof (write_nd_finish [] data (best_chunk csb shape isz) Hcs) as H.
    unfold partial in H. simpl in H. rewrite Nat.sub_0_r in H. exact H.
Qed.

(* ---- one step: what every operation leaves alone ----------------------------------- *)
Lemma run_cons s o r : run s (o :: r) = run (fst (step s o)) r.
Proof. reflexivity. Qed.

Lemma mode_step s o :
  w_mode (st_w (fst (step s o))) = match o with OOpen m => m | _ => w_mode (st_w s) end.
Proof.
  destruct o; try reflexivity.
  cbn [step]. unfold store_contour.
  destruct (f_contour (st_f s)); [destruct (w_mode (st_w s) =? 1)|]; reflexivity.
Qed.

Lemma rectify_fields s :
  f_scal (rectify_metadata s) = f_scal s /\ f_nd (rectify_metadata s) = f_nd s
  /\ f_contour (rectify_metadata s) = f_contour s /\ f_trace (rectify_metadata s) = f_trace s
  /\ f_logs (rectify_metadata s) = f_logs s /\ f_tables (rectify_metadata s) = f_tables s.
Proof.
  unfold rectify_metadata. destruct (feats_sorted s) as [|[f0 n0] r]; cbn; auto 10.
Qed.

Lemma close_fields s :
  let f' := match feats_sorted s with [] => s | _ => rectify_metadata s end in
  f_scal f' = f_scal s /\ f_nd f' = f_nd s /\ f_contour f' = f_contour s
  /\ f_trace f' = f_trace s /\ f_logs f' = f_logs s /\ f_tables f' = f_tables s.
Proof.
  cbv zeta. destruct (feats_sorted s); [auto 10|apply rectify_fields].
Qed.

(* ---- 1-d features -------------------------------------------------------------------- *)
Lemma fits_cast dt v : fits dt v = true -> cast dt v = v.
Proof.
  unfold fits. destruct (cast dt v) as [a b], v as [c d]; simpl. intros H. f_equal; lia.
Qed.

Lemma map_cast_fits dt data : forallb (fits dt) data = true -> map (cast dt) data = data.
Proof.
  induction data as [|v r IH]; simpl; [reflexivity|].
  intros H. apply andb_prop in H as [H1 H2]. now rewrite fits_cast, IH.
Qed.

Definition sds_vals (o : option sds) : list fval := match o with Some (_, v) => v | None => [] end.
Definition sds_dt (o : option sds) (forced : option sdtype) (isint : bool) : sdtype :=
  match o with
  | Some (dt, _) => dt
  | None => match forced with Some t => t | None => if isint then I64 else F64 end
  end.

Lemma write_scalar_spec old forced isint data :
  write_scalar old forced isint data
  = (sds_dt old forced isint, sds_vals old ++ map (cast (sds_dt old forced isint)) data).
Proof.
  unfold write_scalar, set_slice. destruct old as [[dt vals]|]; cbn [sds_dt sds_vals].
  - rewrite resize_grow by apply zlen_nonneg. f_equal.
    unfold zlen at 1. rewrite Nat2Z.id, firstn_app, Nat.sub_diag, firstn_all. simpl.
    rewrite app_nil_r. f_equal.
    unfold zlen. rewrite Nat2Z.id, skipn_all. now rewrite app_nil_r.
  - f_equal. simpl. unfold zlen. rewrite Nat2Z.id, skipn_all. now rewrite app_nil_r.
Qed.

Lemma rd_scalar_with s x f : rd_scalar (with_scal s x) f = sds_vals (alookup f x).
Proof. unfold rd_scalar, sds_vals. cbn. destruct (alookup f x) as [[? ?]|]; reflexivity. Qed.

Lemma rd_scalar_alt s f : rd_scalar s f = sds_vals (alookup f (f_scal s)).
Proof. unfold rd_scalar, sds_vals. destruct (alookup f (f_scal s)) as [[? ?]|]; reflexivity. Qed.

(* operations other than OOpen/OScalar do not touch 1-d datasets *)
Lemma scal_frame s o :
  match o with OOpen _ | OScalar _ _ _ => True
          | _ => f_scal (st_f (fst (step s o))) = f_scal (st_f s) end.
Proof.
  destruct o; try exact I; cbn [step fst st_f set_file]; try reflexivity.
  - apply close_fields.
  - unfold store_image. destruct (nonempty data); reflexivity.
  - unfold store_contour.
    destruct (f_contour (st_f s)); [destruct (w_mode (st_w s) =? 1)|]; reflexivity.
  - unfold store_trace. destruct (trace_loop _ _ _ _ _); reflexivity.
  - unfold store_table. destruct (amem name (f_tables (st_f s))); reflexivity.
  - unfold store_image. destruct (nonempty _); reflexivity.
Qed.

Lemma scalar_step s f g isint data :
  f <> F_INDEX -> (g = f -> scalar_ok s g isint data = true) ->
  rd_scalar (st_f (fst (step s (OScalar g isint data)))) f
  = if g =? f then upd (w_mode (st_w s)) (rd_scalar (st_f s) f) data else rd_scalar (st_f s) f.
Proof.
  intros Hf Hok. cbn [step fst st_f set_file]. unfold store_scalar, scalar_ok, upd in *.
  set (sc := if w_mode (st_w s) =? 1 then adel g (f_scal (st_f s)) else f_scal (st_f s)) in *.
  assert (Hsc : forall h, alookup h sc
                = if (w_mode (st_w s) =? 1) && (h =? g) then None else alookup h (f_scal (st_f s))).
  { intros h. subst sc. destruct (w_mode (st_w s) =? 1); [|reflexivity].
    rewrite alookup_adel. now destruct (h =? g). }
  rewrite (rd_scalar_alt (st_f s)).
  destruct (g =? F_INDEX) eqn:Eg.
  - assert (g =? f = false) by lia.
    replace (g =? f) with false by lia.
    destruct (zlen data =? 0); cbn [fst]; rewrite rd_scalar_with.
    + rewrite Hsc. replace (f =? g) with false by lia. now rewrite andb_false_r.
    + rewrite alookup_aset. replace (f =? g) with false by lia.
      rewrite Hsc. replace (f =? g) with false by lia. now rewrite andb_false_r.
  - destruct (nonempty data) eqn:En; cbn [fst]; rewrite rd_scalar_with.
    + rewrite alookup_aset. destruct (g =? f) eqn:Egf.
      * assert (g = f) by lia; subst g. rewrite Z.eqb_refl.
        rewrite write_scalar_spec. cbn [sds_vals].
        specialize (Hok eq_refl). rewrite ?Eg in Hok.
        fold (sds_dt (alookup f sc) (forced_dtype f) isint) in Hok.
        rewrite map_cast_fits by exact Hok.
        rewrite Hsc, Z.eqb_refl, andb_true_r.
        destruct (w_mode (st_w s) =? 1); reflexivity.
      * replace (f =? g) with false by lia. rewrite Hsc.
        replace (f =? g) with false by lia. now rewrite andb_false_r.
    + destruct data; [|discriminate]. rewrite Hsc. destruct (g =? f) eqn:Egf.
      * replace (f =? g) with true by lia. rewrite andb_true_r.
        destruct (w_mode (st_w s) =? 1); [reflexivity|now rewrite app_nil_r].
      * replace (f =? g) with false by lia. now rewrite andb_false_r.
Qed.

Theorem scalar_history f : f <> F_INDEX ->
  forall ops s, hist_ok_scalar f s ops = true ->
  rd_scalar (st_f (run s ops)) f
  = spec_scalar f (w_mode (st_w s)) (rd_scalar (st_f s) f) ops.
Proof.
  intros Hf. induction ops as [|o r IH]; intros s Hok; [reflexivity|].
  rewrite run_cons. unfold hist_ok_scalar in *. cbn [hist_ok_by] in Hok.
  apply andb_prop in Hok as [Ho Hr].
  rewrite IH by exact Hr. rewrite mode_step.
  pose proof (scal_frame s o) as Hfr.
  destruct o; cbn [spec_scalar]; try (rewrite !rd_scalar_alt, Hfr; reflexivity).
  - (* OOpen *) cbn [step fst st_f]. destruct (mode =? 2); reflexivity.
  - (* OScalar *)
    assert (Ho' : f0 = f -> scalar_ok s f0 isint data = true).
    { intros ->. cbn [op_ok_scalar] in Ho. now rewrite Z.eqb_refl in Ho. }
    rewrite (scalar_step s f f0 isint data Hf Ho').
    replace (f =? F_INDEX) with false by lia. rewrite andb_true_r.
    destruct (f0 =? f); reflexivity.
Qed.

Corollary scalar_history_init f ops : f <> F_INDEX -> hist_ok_scalar f init ops = true ->
  rd_scalar (st_f (run init ops)) f = spec_scalar f 0 [] ops.
Proof. intros Hf Hok. exact (scalar_history f Hf ops init Hok). Qed.

(* ---- the index feature ---------------------------------------------------------------- *)
(* the enumeration stays within uint32 *)
Fixpoint index_ok (mode : Z) (acc : Z) (ops : list op) : bool :=
  match ops with
  | [] => true
  | OOpen m :: r => index_ok m (if m =? 2 then 0 else acc) r
  | OScalar g _ data :: r =>
      if g =? F_INDEX
      then let acc' := if mode =? 1 then zlen data else acc + zlen data in
           (acc' <? 2 ^ 32) && index_ok mode acc' r
      else index_ok mode acc r
  | _ :: r => index_ok mode acc r
  end.

Definition IdxInv (s : state) (n : Z) : Prop :=
  0 <= n /\
  match alookup F_INDEX (f_scal (st_f s)) with
  | None => n = 0
  | Some (dt, v) => dt = U32 /\ v = enumerate_from_1 n
  end.

Lemma IdxInv_rd s n : IdxInv s n -> rd_scalar (st_f s) F_INDEX = enumerate_from_1 n.
Proof.
  intros [H0 H]. unfold rd_scalar. destruct (alookup F_INDEX (f_scal (st_f s))) as [[dt v]|].
  - apply H.
  - subst n. reflexivity.
Qed.

Lemma seq_plus a k : seq a k = map (fun i => (a + i)%nat) (seq 0 k).
Proof.
  revert a; induction k as [|k IH]; intros a; simpl; [reflexivity|].
  f_equal; [lia|]. rewrite (IH (S a)), (IH 1%nat), map_map. apply map_ext; intros; lia.
Qed.

Lemma enumerate_app n k :
  0 <= n -> n + Z.of_nat k < 2 ^ 32 ->
  enumerate_from_1 n
  ++ map (cast U32) (map (fun i => (0, 8 * (n + 1 + Z.of_nat i))) (seq 0 k))
  = enumerate_from_1 (n + Z.of_nat k).
Proof.
  intros Hn Hb. unfold enumerate_from_1.
  replace (Z.to_nat (n + Z.of_nat k)) with (Z.to_nat n + k)%nat by lia.
  rewrite seq_app, map_app. f_equal.
  rewrite (seq_plus (0 + Z.to_nat n) k), !map_map.
  apply map_ext_in. intros i Hi. apply in_seq in Hi.
  unfold cast, cast_int. cbn [Z.eqb].
  replace (8 * (n + 1 + Z.of_nat i)) with ((n + 1 + Z.of_nat i) * 8) by lia.
  rewrite Z.quot_mul by lia. unfold clampZ. f_equal. lia.
Qed.

Lemma zlen_enumerate n : 0 <= n -> zlen (enumerate_from_1 n) = n.
Proof. intros H. unfold enumerate_from_1, zlen. rewrite map_length, seq_length. lia. Qed.

Lemma index_step s n g isint data :
  IdxInv s n ->
  let n' := if g =? F_INDEX
            then (if w_mode (st_w s) =? 1 then zlen data else n + zlen data) else n in
  (g = F_INDEX -> n' < 2 ^ 32) ->
  IdxInv (fst (step s (OScalar g isint data))) n'.
Proof.
  intros [Hn HI] n' Hb. pose proof (zlen_nonneg data) as Hd.
  cbn [step fst st_f set_file]. unfold store_scalar.
  set (sc := if w_mode (st_w s) =? 1 then adel g (f_scal (st_f s)) else f_scal (st_f s)) in *.
  assert (Hsc : alookup F_INDEX sc
                = if (w_mode (st_w s) =? 1) && (g =? F_INDEX) then None
                  else alookup F_INDEX (f_scal (st_f s))).
  { subst sc. destruct (w_mode (st_w s) =? 1); [|reflexivity].
    rewrite alookup_adel. rewrite (Z.eqb_sym F_INDEX g). now destruct (g =? F_INDEX). }
  destruct (g =? F_INDEX) eqn:Eg.
  - assert (g = F_INDEX) by lia. subst g. rewrite andb_true_r in Hsc.
    specialize (Hb eq_refl).
    destruct (zlen data =? 0) eqn:E0; cbn [fst]; unfold IdxInv; cbn [st_f f_scal with_scal].
    + rewrite Hsc. subst n'. destruct (w_mode (st_w s) =? 1); [lia|].
      replace (n + zlen data) with n by lia. auto.
    + rewrite alookup_aset, Z.eqb_refl, write_scalar_spec.
      subst n'. split; [destruct (w_mode (st_w s) =? 1); lia|].
      rewrite Hsc.
      destruct (w_mode (st_w s) =? 1).
      * cbn [sds_dt sds_vals forced_dtype]. split; [reflexivity|].
        pose proof (enumerate_app 0 (length data) (Z.le_refl 0)) as HE.
        unfold zlen in *. cbn [zlen] in HE. simpl "++" in HE. apply HE. lia.
      * destruct (alookup F_INDEX (f_scal (st_f s))) as [[dt v]|]; cbn [sds_dt sds_vals].
        -- destruct HI as [-> ->]. split; [reflexivity|].
           rewrite zlen_enumerate by exact Hn.
           apply (enumerate_app n (length data) Hn). unfold zlen in *. lia.
        -- subst n. split; [reflexivity|].
           pose proof (enumerate_app 0 (length data) (Z.le_refl 0)) as HE.
           simpl "++" in HE. apply HE. unfold zlen in *. lia.
  - rewrite andb_false_r in Hsc. subst n'.
    destruct (nonempty data); cbn [fst]; unfold IdxInv; cbn [st_f f_scal with_scal];
      (split; [exact Hn|]).
    + rewrite alookup_aset. replace (F_INDEX =? g) with false by lia. now rewrite Hsc.
    + now rewrite Hsc.
Qed.

Theorem index_history : forall ops s n,
  IdxInv s n -> index_ok (w_mode (st_w s)) n ops = true ->
  rd_scalar (st_f (run s ops)) F_INDEX
  = enumerate_from_1 (spec_index_len (w_mode (st_w s)) n ops).
Proof.
  induction ops as [|o r IH]; intros s n HI Hok; [now apply IdxInv_rd|].
  rewrite run_cons.
  pose proof (scal_frame s o) as Hfr. pose proof (mode_step s o) as Hm.
  pose proof (fun n' => IH (fst (step s o)) n') as Hgen. rewrite Hm in Hgen. clear IH Hm.
  destruct o; cbn [spec_index_len index_ok] in *;
    try (apply Hgen; [|exact Hok];
         destruct HI as [Hn HI]; split; [exact Hn|rewrite Hfr; exact HI]).
  - (* OOpen *) apply Hgen; [|exact Hok].
    cbn [step fst st_f]. destruct (mode =? 2).
    + split; [lia|reflexivity].
    + exact HI.
  - (* OScalar *)
    pose proof (index_step s n f isint data HI) as HS. cbv zeta in HS.
    destruct (f =? F_INDEX) eqn:Ef.
    + apply andb_prop in Hok as [Hb Hok]. apply Hgen; [apply HS; lia|exact Hok].
    + apply Hgen; [apply HS; lia|exact Hok].
Qed.

(* ---- image-like features and traces ----------------------------------------------------- *)
Definition ChunksPos (l : list (Z * nd)) : Prop :=
  forall k d, alookup k l = Some d -> 0 < nd_chunk d.

Definition NdInv (s : file) : Prop :=
  ChunksPos (f_nd s) /\ match f_trace s with Some g => ChunksPos g | None => True end.

Lemma ChunksPos_adel k l : ChunksPos l -> ChunksPos (adel k l).
Proof.
  intros H k' d. rewrite alookup_adel. destruct (k' =? k); [discriminate|apply H].
Qed.

Lemma write_nd_chunk csb old shape isz dt0 data :
  match old with Some d => 0 < nd_chunk d | None => True end ->
  0 < nd_chunk (write_nd csb old shape isz dt0 data).
Proof.
  unfold write_nd. destruct old as [d|]; cbn [nd_chunk]; intros H; [exact H|].
  unfold best_chunk. lia.
Qed.

Lemma ChunksPos_write csb k l shape isz dt0 data :
  ChunksPos l -> ChunksPos (aset k (write_nd csb (alookup k l) shape isz dt0 data) l).
Proof.
  intros H k' d. rewrite alookup_aset. destruct (k' =? k); [|apply H].
  intros [= <-]. apply write_nd_chunk.
  destruct (alookup k l) as [d0|] eqn:E; [eapply H; eauto|exact I].
Qed.

Lemma ChunksPos_lookup l k :
  ChunksPos l -> match alookup k l with Some d => 0 < nd_chunk d | None => True end.
Proof. intros H. destruct (alookup k l) eqn:E; [eapply H; eauto|exact I]. Qed.

Definition grp_rows (g : option (list (Z * nd))) (tr : Z) : list row :=
  match g with
  | Some g => match alookup tr g with Some d => nd_rows d | None => [] end
  | None => []
  end.

Definition optPos (g : option (list (Z * nd))) : Prop :=
  match g with Some g => ChunksPos g | None => True end.

Lemma fits_cast_nd t v : fits_nd t v = true -> cast_nd t v = v.
Proof. destruct t; simpl; intros H; [reflexivity|lia|lia]. Qed.

Lemma rows_fit_cast t rows : rows_fit t rows = true -> map (map (cast_nd t)) rows = rows.
Proof.
  unfold rows_fit. induction rows as [|r rs IH]; simpl; [reflexivity|].
  intros H. apply andb_prop in H as [H1 H2]. rewrite IH by exact H2. f_equal.
  induction r as [|v r IHr]; simpl in *; [reflexivity|].
  apply andb_prop in H1 as [Hv Hr]. now rewrite fits_cast_nd, IHr.
Qed.

Lemma trace_loop_spec csb shape ddt tr : forall data grp,
  optPos grp ->
  optPos (fst (trace_loop csb shape ddt data grp))
  /\ (trace_ok tr csb shape ddt data grp = true ->
      grp_rows (fst (trace_loop csb shape ddt data grp)) tr
      = spec_trace_call tr (grp_rows grp tr) (effective data)).
Proof.
  induction data as [|[t rows] r IH]; intros grp HP;
    cbn [trace_loop trace_ok effective spec_trace_call].
  - auto.
  - set (g := match grp with Some g => g | None => [] end).
    assert (HPg : ChunksPos g).
    { subst g. destruct grp; [exact HP|]. intros k d; discriminate. }
    assert (Hg : grp_rows grp tr = grp_rows (Some g) tr) by (subst g; now destruct grp).
    destruct (nonempty rows) eqn:En; cbn [spec_trace_call].
    + set (dt := trace_dt (alookup t g) ddt).
      destruct (IH (Some (aset t (write_nd csb (alookup t g) shape (ndt_size ddt) dt
                                          (map (map (cast_nd dt)) rows)) g))) as [I1 I2].
      { now apply ChunksPos_write. }
      split; [exact I1|]. intros Hok. apply andb_prop in Hok as [Hfit Hrest].
      rewrite (I2 Hrest). f_equal.
      cbn [grp_rows]. rewrite alookup_aset, (Z.eqb_sym tr t). destruct (t =? tr) eqn:E.
      * assert (t = tr) by lia; subst t. try rewrite Z.eqb_refl in Hfit.
        rewrite write_nd_appends by (apply ChunksPos_lookup, HPg).
        rewrite (rows_fit_cast dt rows Hfit).
        rewrite Hg. cbn [grp_rows]. now destruct (alookup tr g).
      * now rewrite Hg.
    + cbn [fst]. split; [exact HPg|]. intros _. now rewrite Hg.
Qed.

Lemma fold_adel_rows names : forall g tr,
  grp_rows (Some (fold_left (fun g' t => adel t g') names g)) tr
  = if existsb (Z.eqb tr) names then [] else grp_rows (Some g) tr.
Proof.
  induction names as [|t r IH]; intros g tr; cbn [fold_left existsb]; [reflexivity|].
  rewrite IH. destruct (existsb (Z.eqb tr) r); [now rewrite orb_true_r|].
  rewrite orb_false_r. cbn [grp_rows]. rewrite alookup_adel. now destruct (tr =? t).
Qed.

Lemma fold_adel_pos names : forall g, ChunksPos g ->
  ChunksPos (fold_left (fun g' t => adel t g') names g).
Proof.
  induction names as [|t r IH]; intros g H; cbn [fold_left]; [exact H|].
  apply IH, ChunksPos_adel, H.
Qed.

Lemma nd_frame s o :
  match o with OOpen _ | OImage _ _ _ _ _ | OArr _ _ _ _ _ _ => True
          | _ => f_nd (st_f (fst (step s o))) = f_nd (st_f s) end.
Proof.
  destruct o; try exact I; cbn [step fst st_f set_file]; try reflexivity.
  - apply close_fields.
  - unfold store_scalar.
    destruct (f =? F_INDEX); [destruct (zlen data =? 0)|destruct (nonempty data)]; reflexivity.
  - unfold store_contour.
    destruct (f_contour (st_f s)); [destruct (w_mode (st_w s) =? 1)|]; reflexivity.
  - unfold store_trace. destruct (trace_loop _ _ _ _ _); reflexivity.
  - unfold store_table. destruct (amem name (f_tables (st_f s))); reflexivity.
Qed.

Lemma trace_frame s o :
  match o with OOpen _ | OTrace _ _ _ => True
          | _ => f_trace (st_f (fst (step s o))) = f_trace (st_f s) end.
Proof.
  destruct o; try exact I; cbn [step fst st_f set_file]; try reflexivity.
  - apply close_fields.
  - unfold store_scalar.
    destruct (f =? F_INDEX); [destruct (zlen data =? 0)|destruct (nonempty data)]; reflexivity.
  - unfold store_image. destruct (nonempty data); reflexivity.
  - unfold store_contour.
    destruct (f_contour (st_f s)); [destruct (w_mode (st_w s) =? 1)|]; reflexivity.
  - unfold store_table. destruct (amem name (f_tables (st_f s))); reflexivity.
  - unfold store_image. destruct (nonempty _); reflexivity.
Qed.

Lemma store_trace_spec s shape ddt data tr :
  NdInv (st_f s) ->
  let f' := fst (store_trace (st_w s) (st_f s) shape ddt data) in
  optPos (f_trace f') /\ f_nd f' = f_nd (st_f s)
  /\ (trace_ok tr (w_csb (st_w s)) shape ddt data (trace_grp0 s data) = true ->
      grp_rows (f_trace f') tr
      = spec_trace_call tr
          (if (w_mode (st_w s) =? 1) && existsb (Z.eqb tr) (map fst data) then []
           else grp_rows (f_trace (st_f s)) tr) (effective data)).
Proof.
  intros [HN HT]. cbv zeta. unfold store_trace. fold (trace_grp0 s data).
  set (grp0 := trace_grp0 s data).
  assert (H0 : optPos grp0 /\ grp_rows grp0 tr
               = if (w_mode (st_w s) =? 1) && existsb (Z.eqb tr) (map fst data) then []
                 else grp_rows (f_trace (st_f s)) tr).
  { subst grp0. unfold trace_grp0. destruct (f_trace (st_f s)) as [g|].
    - destruct (w_mode (st_w s) =? 1); cbn [andb].
      + split; [now apply fold_adel_pos|apply fold_adel_rows].
      + split; [exact HT|reflexivity].
    - split; [exact I|]. now destruct (_ && _). }
  destruct H0 as [HP0 HR0].
  destruct (trace_loop_spec (w_csb (st_w s)) shape ddt tr data grp0 HP0) as [L1 L2].
  destruct (trace_loop (w_csb (st_w s)) shape ddt data grp0) as [grp err]; cbn [fst] in *.
  cbn [f_trace f_nd with_trace]. split; [exact L1|]. split; [reflexivity|].
  intros Hok. now rewrite (L2 Hok), HR0.
Qed.

Lemma NdInv_step s o : NdInv (st_f s) -> NdInv (st_f (fst (step s o))).
Proof.
  intros HI. pose proof (nd_frame s o) as Hn. pose proof (trace_frame s o) as Ht.
  destruct HI as [H1 H2].
  destruct o; try (split; [rewrite Hn; exact H1|rewrite Ht; exact H2]).
  - cbn [step fst st_f]. destruct (mode =? 2); [|split; assumption].
    split; [intros k d; discriminate|exact I].
  - split; [|rewrite Ht; exact H2].
    cbn [step fst st_f set_file]. unfold store_image.
    destruct (nonempty data); cbn [fst f_nd with_nd].
    + apply ChunksPos_write. destruct (w_mode (st_w s) =? 1); [now apply ChunksPos_adel|exact H1].
    + destruct (w_mode (st_w s) =? 1); [now apply ChunksPos_adel|exact H1].
  - cbn [step fst st_f set_file].
    destruct (store_trace_spec s shape ddt data 0 (conj H1 H2)) as (A & B & _).
    split; [rewrite B; exact H1|exact A].
  - split; [|rewrite Ht; exact H2].
    cbn [step fst st_f set_file]. unfold store_image.
    destruct (nonempty _); cbn [fst f_nd with_nd].
    + apply ChunksPos_write. destruct (w_mode (st_w s) =? 1); [now apply ChunksPos_adel|exact H1].
    + destruct (w_mode (st_w s) =? 1); [now apply ChunksPos_adel|exact H1].
Qed.

Lemma map_as_bool_255 (data : list row) :
  map (map (fun v => if v =? 0 then 0 else 1)) (map (map (fun b => b * 255)) data) = as_bool data.
Proof.
  unfold as_bool. rewrite map_map. apply map_ext. intros r. rewrite map_map.
  apply map_ext. intros b. destruct (b =? 0) eqn:E.
  - replace (b * 255 =? 0) with true by lia. reflexivity.
  - replace (b * 255 =? 0) with false by lia. reflexivity.
Qed.

Lemma image_step s f g isbool shape ddt data :
  NdInv (st_f s) -> (g = f -> image_ok s g isbool ddt data = true) ->
  rd_nd (st_f (fst (step s (OImage g isbool shape ddt data)))) f
  = if g =? f then upd (w_mode (st_w s)) (rd_nd (st_f s) f)
                       (if f =? F_MASK then as_bool data else data)
    else rd_nd (st_f s) f.
Proof.
  intros [HN _] Hok. cbn [step fst st_f set_file]. unfold store_image, upd, rd_nd.
  unfold image_ok in Hok.
  set (ndl := if w_mode (st_w s) =? 1 then adel g (f_nd (st_f s)) else f_nd (st_f s)) in *.
  destruct (Z.eq_dec g f) as [Hgf|Hgf].
  2:{ (* another feature: whatever is stored under g, f is untouched *)
      replace (g =? f) with false by lia.
      assert (Hl' : alookup f ndl = alookup f (f_nd (st_f s))).
      { subst ndl. destruct (w_mode (st_w s) =? 1); [|reflexivity].
        rewrite alookup_adel. now replace (f =? g) with false by lia. }
      destruct (nonempty data); cbn [fst f_nd with_nd];
        [rewrite alookup_aset; replace (f =? g) with false by lia|]; now rewrite Hl'. }
  specialize (Hok Hgf).
  rewrite (rows_fit_cast _ _ Hok). unfold image_data.
  assert (HP : ChunksPos ndl).
  { subst ndl. destruct (w_mode (st_w s) =? 1); [now apply ChunksPos_adel|exact HN]. }
  assert (Hl : forall h, alookup h ndl
               = if (w_mode (st_w s) =? 1) && (h =? g) then None else alookup h (f_nd (st_f s))).
  { intros h. subst ndl. destruct (w_mode (st_w s) =? 1); [|reflexivity].
    rewrite alookup_adel. now destruct (h =? g). }
  destruct (nonempty data) eqn:En; cbn [fst f_nd with_nd].
  - rewrite alookup_aset, (Z.eqb_sym f g). destruct (g =? f) eqn:E.
    + assert (g = f) by lia; subst g.
      rewrite write_nd_appends by (apply ChunksPos_lookup, HP).
      rewrite Hl, Z.eqb_refl, andb_true_r.
      destruct (f =? F_MASK) eqn:Em; cbn [andb].
      * rewrite map_app.
        assert (Hd : map (map (fun v => if v =? 0 then 0 else 1))
                         (if isbool then map (map (fun b => b * 255)) data else data)
                     = as_bool data).
        { destruct isbool; [apply map_as_bool_255|reflexivity]. }
        destruct (w_mode (st_w s) =? 1); [exact Hd|].
        f_equal; [now destruct (alookup f (f_nd (st_f s)))|exact Hd].
      * destruct (w_mode (st_w s) =? 1); [reflexivity|].
        now destruct (alookup f (f_nd (st_f s))).
    + rewrite Hl, (Z.eqb_sym f g), E. now rewrite andb_false_r.
  - destruct data; [|discriminate]. rewrite Hl, (Z.eqb_sym f g).
    destruct (g =? f) eqn:E.
    + rewrite andb_true_r. destruct (w_mode (st_w s) =? 1).
      * now destruct (f =? F_MASK).
      * destruct (f =? F_MASK); cbn [as_bool map]; now rewrite app_nil_r.
    + now rewrite andb_false_r.
Qed.

Theorem nd_history f : forall ops s, NdInv (st_f s) -> hist_ok_nd f s ops = true ->
  rd_nd (st_f (run s ops)) f = spec_nd f (w_mode (st_w s)) (rd_nd (st_f s) f) ops.
Proof.
  induction ops as [|o r IH]; intros s HI Hok; [reflexivity|].
  unfold hist_ok_nd, hist_ok_trace in *. cbn [hist_ok_by] in Hok.
  apply andb_prop in Hok as [Ho Hr].
  rewrite run_cons, IH by first [now apply NdInv_step | exact Hr]. rewrite mode_step.
  pose proof (nd_frame s o) as Hfr.
  destruct o; cbn [spec_nd]; try (unfold rd_nd; rewrite Hfr; reflexivity).
  - cbn [step fst st_f]. destruct (mode =? 2); reflexivity.
  - assert (Ho' : f0 = f -> image_ok s f0 isbool ddt data = true).
    { intros ->. cbn [op_ok_nd] in Ho. now rewrite Z.eqb_refl in Ho. }
    rewrite (image_step s f f0 isbool shape ddt data HI Ho'). destruct (f0 =? f); reflexivity.
  - change (step s (OArr f0 isbool shape dshape ddt flat))
      with (step s (OImage f0 isbool (arr_shape f0 shape dshape) ddt
                           (arr_events f0 shape dshape flat))).
    assert (Ho' : f0 = f -> image_ok s f0 isbool ddt (arr_events f0 shape dshape flat) = true).
    { intros ->. cbn [op_ok_nd] in Ho. now rewrite Z.eqb_refl in Ho. }
    rewrite (image_step s f f0 isbool _ ddt _ HI Ho'). destruct (f0 =? f); reflexivity.
Qed.

Theorem trace_history tr : forall ops s, NdInv (st_f s) -> hist_ok_trace tr s ops = true ->
  rd_trace (st_f (run s ops)) tr = spec_trace tr (w_mode (st_w s)) (rd_trace (st_f s) tr) ops.
Proof.
  induction ops as [|o r IH]; intros s HI Hok; [reflexivity|].
  unfold hist_ok_nd, hist_ok_trace in *. cbn [hist_ok_by] in Hok.
  apply andb_prop in Hok as [Ho Hr].
  rewrite run_cons, IH by first [now apply NdInv_step | exact Hr]. rewrite mode_step.
  pose proof (trace_frame s o) as Hfr.
  change rd_trace with (fun s tr => grp_rows (f_trace s) tr) in *. cbv beta.
  destruct o; cbn [spec_trace]; try (rewrite Hfr; reflexivity).
  - cbn [step fst st_f]. destruct (mode =? 2); reflexivity.
  - cbn [step fst st_f set_file].
    destruct (store_trace_spec s shape ddt data tr HI) as (_ & _ & C). now rewrite (C Ho).
Qed.

(* ---- contours (ragged data, group size cache) ---------------------------------------------- *)
Definition CInv (s : state) : Prop :=
  match f_contour (st_f s) with
  | None => True
  | Some g => map fst g = zrange (length g)
              /\ (w_gs (st_w s) = None \/ w_gs (st_w s) = Some (zlen g))
  end.

Definition cvals (f : file) : list row :=
  match f_contour f with Some g => map snd g | None => [] end.

Lemma zrange_S n : zrange (S n) = zrange n ++ [Z.of_nat n].
Proof. unfold zrange. rewrite seq_S, map_app. reflexivity. Qed.

Lemma ragged_loop_spec : forall data c (g : list (Z * row)),
  map fst g = zrange (length g) -> c = zlen g ->
  map fst (ragged_loop c data g) = zrange (length (ragged_loop c data g))
  /\ map snd (ragged_loop c data g) = map snd g ++ data
  /\ zlen (ragged_loop c data g) = zlen g + zlen data.
Proof.
  induction data as [|cc r IH]; intros c g Hg Hc; cbn [ragged_loop].
  - rewrite app_nil_r. unfold zlen; simpl. repeat split; [exact Hg|lia].
  - destruct (IH (c + 1) (g ++ [(c, cc)])) as (A & B & C).
    + rewrite map_app, app_length. simpl. rewrite Nat.add_1_r, zrange_S, Hg. f_equal.
      subst c. reflexivity.
    + rewrite zlen_app. subst c. unfold zlen. simpl. lia.
    + split; [exact A|]. split.
      * rewrite B, map_app, <- app_assoc. reflexivity.
      * rewrite C, zlen_app. unfold zlen. simpl. lia.
Qed.

Lemma lookup_enumerated : forall (g : list (Z * row)) a,
  map fst g = map Z.of_nat (seq a (length g)) ->
  map (fun k => alookup k g) (map Z.of_nat (seq a (length g))) = map Some (map snd g).
Proof.
  induction g as [|[k v] g IH]; intros a H; [reflexivity|].
  simpl in H. injection H as Hk Ht. simpl. subst k. rewrite Z.eqb_refl. f_equal.
  rewrite <- (IH (S a) Ht). apply map_ext_in. intros k0 Hin.
  apply in_map_iff in Hin as (i & <- & Hi). apply in_seq in Hi.
  replace (Z.of_nat i =? Z.of_nat a) with false by lia. reflexivity.
Qed.

Lemma rd_contour_spec s : CInv s -> rd_contour (st_f s) = map Some (cvals (st_f s)).
Proof.
  unfold CInv, rd_contour, cvals. destruct (f_contour (st_f s)) as [g|]; [|reflexivity].
  intros [H _]. apply (lookup_enumerated g 0). exact H.
Qed.

Lemma contour_frame s o :
  match o with OOpen _ | OContour _ => True
          | _ => f_contour (st_f (fst (step s o))) = f_contour (st_f s)
                 /\ w_gs (st_w (fst (step s o))) = w_gs (st_w s) end.
Proof.
  destruct o; try exact I; cbn [step fst st_f st_w set_file w_gs]; try (split; reflexivity).
  - split; [apply close_fields|reflexivity].
  - split; [|reflexivity]. unfold store_scalar.
    destruct (f =? F_INDEX); [destruct (zlen data =? 0)|destruct (nonempty data)]; reflexivity.
  - split; [|reflexivity]. unfold store_image. destruct (nonempty data); reflexivity.
  - split; [|reflexivity]. unfold store_trace. destruct (trace_loop _ _ _ _ _); reflexivity.
  - split; [|reflexivity]. unfold store_table.
    destruct (amem name (f_tables (st_f s))); reflexivity.
  - split; [|reflexivity]. unfold store_image. destruct (nonempty _); reflexivity.
Qed.

Lemma contour_step s data :
  CInv s ->
  CInv (fst (step s (OContour data)))
  /\ cvals (st_f (fst (step s (OContour data))))
     = upd (w_mode (st_w s)) (cvals (st_f s)) data.
Proof.
  intros HI. unfold CInv, cvals, upd in *. cbn [step]. unfold store_contour, write_ragged.
  destruct (f_contour (st_f s)) as [g|] eqn:Eg.
  - destruct HI as [Hk Hgs]. destruct (w_mode (st_w s) =? 1) eqn:Em.
    + destruct (ragged_loop_spec data (zlen (@nil (Z * row))) [] eq_refl eq_refl) as (A & B & C).
      cbn [fst st_f st_w f_contour with_contour w_gs]. split; [split; [exact A|]|exact B].
      right. f_equal. rewrite C. reflexivity.
    + assert (Hc : match w_gs (st_w s) with Some n => n | None => zlen g end = zlen g).
      { destruct Hgs as [-> | ->]; reflexivity. }
      rewrite Hc.
      destruct (ragged_loop_spec data (zlen g) g Hk eq_refl) as (A & B & C).
      cbn [fst st_f st_w f_contour with_contour w_gs]. split; [split; [exact A|]|exact B].
      right. f_equal. rewrite C. reflexivity.
  - destruct (ragged_loop_spec data (zlen (@nil (Z * row))) [] eq_refl eq_refl) as (A & B & C).
    cbn [fst st_f st_w f_contour with_contour w_gs]. split; [split; [exact A|]|].
    + right. f_equal. rewrite C. reflexivity.
    + rewrite B. now destruct (w_mode (st_w s) =? 1).
Qed.

Theorem contour_history : forall ops s, CInv s ->
  CInv (run s ops)
  /\ cvals (st_f (run s ops)) = spec_contour (w_mode (st_w s)) (cvals (st_f s)) ops.
Proof.
  induction ops as [|o r IH]; intros s HI; [split; [exact HI|reflexivity]|].
  rewrite run_cons. pose proof (contour_frame s o) as Hfr. pose proof (mode_step s o) as Hm.
  assert (Hgen : CInv (fst (step s o)) ->
                 CInv (run (fst (step s o)) r)
                 /\ cvals (st_f (run (fst (step s o)) r))
                    = spec_contour (match o with OOpen m => m | _ => w_mode (st_w s) end)
                                   (cvals (st_f (fst (step s o)))) r).
  { intros H. rewrite <- Hm. now apply IH. }
  clear IH Hm.
  destruct o; cbn [spec_contour];
    try (destruct Hfr as [F1 F2];
         assert (HC : CInv (fst (step s _))) by (unfold CInv in *; rewrite F1, F2; exact HI);
         destruct (Hgen HC) as [G1 G2]; split; [exact G1|];
         rewrite G2; unfold cvals; rewrite F1; reflexivity).
  - (* OOpen *)
    assert (HC : CInv (fst (step s (OOpen mode)))).
    { unfold CInv in *. cbn [step fst st_f st_w w_gs]. destruct (mode =? 2); [exact I|].
      destruct (f_contour (st_f s)); [|exact I]. split; [apply HI|now left]. }
    destruct (Hgen HC) as [G1 G2]. split; [exact G1|]. rewrite G2.
    cbn [step fst st_f]. destruct (mode =? 2); reflexivity.
  - (* OContour *)
    destruct (contour_step s data HI) as [S1 S2].
    destruct (Hgen S1) as [G1 G2]. split; [exact G1|]. now rewrite G2, S2.
Qed.

Corollary contour_history_init ops :
  rd_contour (st_f (run init ops)) = map Some (spec_contour 0 [] ops).
Proof.
  destruct (contour_history ops init I) as [H1 H2].
  rewrite rd_contour_spec by exact H1. now rewrite H2.
Qed.

(* ---- logs ---------------------------------------------------------------------------------------- *)
Lemma fold_max_ge (lines : list row) : forall m,
  m <= fold_left (fun m l => Z.max m (zlen l)) lines m
  /\ forall l, In l lines -> zlen l <= fold_left (fun m l => Z.max m (zlen l)) lines m.
Proof.
  induction lines as [|x r IH]; intros m; simpl; [split; [lia|tauto]|].
  destruct (IH (Z.max m (zlen x))) as [A B]. split; [lia|].
  intros l [<-|Hin]; [lia|auto].
Qed.

Lemma store_line_id w l : zlen l <= w -> store_line w l = l.
Proof. intros H. unfold store_line. apply firstn_all2. unfold zlen in H. lia. Qed.

Lemma map_store_line w lines :
  (forall l, In l lines -> zlen l <= w) -> map (store_line w) lines = lines.
Proof.
  intros H. rewrite <- (map_id lines) at 2. apply map_ext_in. intros l Hl.
  now apply store_line_id, H.
Qed.

Lemma logs_frame s o :
  match o with OOpen _ | OLog _ _ => True
          | _ => f_logs (st_f (fst (step s o))) = f_logs (st_f s) end.
Proof.
  destruct o; try exact I; cbn [step fst st_f set_file]; try reflexivity.
  - apply close_fields.
  - unfold store_scalar.
    destruct (f =? F_INDEX); [destruct (zlen data =? 0)|destruct (nonempty data)]; reflexivity.
  - unfold store_image. destruct (nonempty data); reflexivity.
  - unfold store_contour.
    destruct (f_contour (st_f s)); [destruct (w_mode (st_w s) =? 1)|]; reflexivity.
  - unfold store_trace. destruct (trace_loop _ _ _ _ _); reflexivity.
  - unfold store_table. destruct (amem name (f_tables (st_f s))); reflexivity.
  - unfold store_image. destruct (nonempty _); reflexivity.
Qed.

Lemma log_step s name g lines :
  (g = name -> log_ok s g lines = true) ->
  rd_log (st_f (fst (step s (OLog g lines)))) name
  = if g =? name then upd (w_mode (st_w s)) (rd_log (st_f s) name) lines
    else rd_log (st_f s) name.
Proof.
  intros Hok. cbn [step fst st_f]. unfold rd_log, upd. cbn [f_logs with_logs].
  rewrite alookup_aset, (Z.eqb_sym name g). destruct (g =? name) eqn:E; [|reflexivity].
  assert (g = name) by lia; subst g. specialize (Hok eq_refl).
  unfold write_text, log_ok in *.
  destruct (w_mode (st_w s) =? 1).
  - cbn [lg_lines]. apply map_store_line. intros l Hl.
    apply (proj2 (fold_max_ge lines 100)), Hl.
  - destruct (alookup name (f_logs (st_f s))) as [d|]; cbn [lg_lines].
    + f_equal. apply map_store_line. intros l Hl.
      rewrite forallb_forall in Hok. specialize (Hok l Hl). lia.
    + apply map_store_line. intros l Hl. apply (proj2 (fold_max_ge lines 100)), Hl.
Qed.

Theorem log_history name : forall ops s, hist_ok_log name s ops = true ->
  rd_log (st_f (run s ops)) name = spec_log name (w_mode (st_w s)) (rd_log (st_f s) name) ops.
Proof.
  induction ops as [|o r IH]; intros s Hok; [reflexivity|].
  rewrite run_cons. unfold hist_ok_log in *. cbn [hist_ok_by] in Hok.
  apply andb_prop in Hok as [Ho Hr].
  rewrite IH by exact Hr. rewrite mode_step.
  pose proof (logs_frame s o) as Hfr.
  destruct o; cbn [spec_log]; try (unfold rd_log; rewrite Hfr; reflexivity).
  - cbn [step fst st_f]. destruct (mode =? 2); reflexivity.
  - assert (Ho' : name0 = name -> log_ok s name0 lines = true).
    { intros ->. cbn [op_ok_log] in Ho. now rewrite Z.eqb_refl in Ho. }
    rewrite (log_step s name name0 lines Ho'). destruct (name0 =? name); reflexivity.
Qed.

(* ---- tables --------------------------------------------------------------------------------------- *)
Lemma tables_frame s o :
  match o with OOpen _ | OTable _ _ _ => True
          | _ => f_tables (st_f (fst (step s o))) = f_tables (st_f s) end.
Proof.
  destruct o; try exact I; cbn [step fst st_f set_file]; try reflexivity.
  - apply close_fields.
  - unfold store_scalar.
    destruct (f =? F_INDEX); [destruct (zlen data =? 0)|destruct (nonempty data)]; reflexivity.
  - unfold store_image. destruct (nonempty data); reflexivity.
  - unfold store_contour.
    destruct (f_contour (st_f s)); [destruct (w_mode (st_w s) =? 1)|]; reflexivity.
  - unfold store_trace. destruct (trace_loop _ _ _ _ _); reflexivity.
  - unfold store_image. destruct (nonempty _); reflexivity.
Qed.

Theorem table_history name : forall ops s,
  rd_table (st_f (run s ops)) name = spec_table name (rd_table (st_f s) name) ops.
Proof.
  induction ops as [|o r IH]; intros s; [reflexivity|].
  rewrite run_cons, IH. pose proof (tables_frame s o) as Hfr.
  destruct o; cbn [spec_table]; try (unfold rd_table; rewrite Hfr; reflexivity).
  - cbn [step fst st_f]. destruct (mode =? 2); reflexivity.
  - cbn [step fst st_f set_file]. unfold store_table, rd_table, amem.
    destruct (name0 =? name) eqn:E.
    + assert (name0 = name) by lia; subst name0.
      destruct (alookup name (f_tables (st_f s))) as [t|] eqn:El; cbn [fst f_tables with_tables].
      * now rewrite El.
      * now rewrite alookup_aset, Z.eqb_refl.
    + destruct (alookup name0 (f_tables (st_f s))); cbn [fst f_tables with_tables];
        [reflexivity|].
      rewrite alookup_aset. replace (name =? name0) with false by lia. reflexivity.
Qed.

(* ---- the event count written on exit ------------------------------------------------------------ *)
(* balanced file: every stored feature has n events (for the trace group:
   every trace; the writer only accepts the NTRACE known trace names) *)
Definition Balanced (s : file) (n : Z) : Prop :=
  (forall f len, f <> F_TRACE -> feat_len s f = Some len -> len = n)
  /\ (forall g, f_trace s = Some g ->
        (g = [] -> n = 0)       (* an empty trace group is a feature without events *)
        /\ forall t d, In (t, d) g -> 0 <= t < Z.of_nat NTRACE /\ zlen (nd_rows d) = n).

Lemma alookup_In {A} k (l : list (Z * A)) v : alookup k l = Some v -> In (k, v) l.
Proof.
  induction l as [|[k' v'] l IH]; simpl; [discriminate|].
  destruct (k =? k') eqn:E; [|auto]. intros [= ->]. left. f_equal. lia.
Qed.

Lemma first_trace_In g d : first_trace g = Some d -> exists t, In (t, d) g.
Proof.
  unfold first_trace.
  destruct (flat_map _ (zrange NTRACE)) as [|d0 r] eqn:E; [discriminate|].
  intros [= <-].
  assert (Hin : In d0 (flat_map (fun t => match alookup t g with Some d => [d] | None => [] end)
                                (zrange NTRACE))) by (rewrite E; now left).
  apply in_flat_map in Hin as (t & _ & Ht).
  destruct (alookup t g) as [d1|] eqn:El; [|contradiction].
  destruct Ht as [->|[]]. exists t. now apply alookup_In.
Qed.

Lemma first_trace_some g :
  g <> [] -> (forall t d, In (t, d) g -> 0 <= t < Z.of_nat NTRACE) ->
  exists d, first_trace g = Some d.
Proof.
  intros Hne Hr. destruct g as [|[t d] g]; [congruence|].
  unfold first_trace.
  destruct (flat_map _ (zrange NTRACE)) as [|d0 r] eqn:E; [|eauto].
  exfalso.
  assert (Hin : In d (flat_map (fun t0 => match alookup t0 ((t, d) :: g) with
                                          | Some d1 => [d1] | None => [] end) (zrange NTRACE))).
  { apply in_flat_map. exists t. split.
    - specialize (Hr t d (or_introl eq_refl)). unfold zrange. apply in_map_iff.
      exists (Z.to_nat t). split; [lia|]. apply in_seq. lia.
    - simpl. rewrite Z.eqb_refl. now left. }
  rewrite E in Hin. exact Hin.
Qed.

Theorem event_count_matches s n :
  Balanced s n -> feats_sorted s <> [] ->
  rd_attr (rectify_metadata s) M_EVENT_COUNT = Some n.
Proof.
  intros [HB HT] Hne. unfold rectify_metadata.
  destruct (feats_sorted s) as [|[f0 n0] r] eqn:E; [congruence|].
  assert (Hf0 : feat_len s f0 = Some n0).
  { assert (Hin : In (f0, n0) (feats_sorted s)) by (rewrite E; now left).
    unfold feats_sorted in Hin. apply in_flat_map in Hin as (f & _ & Hf).
    destruct (feat_len s f) as [len|] eqn:El; [|contradiction].
    destruct Hf as [[= <- <-]|[]]. exact El. }
  assert (Hec : event_count_of s f0 n0 = n).
  { unfold event_count_of. destruct (f0 =? F_TRACE) eqn:Et; cbn [andb].
    - assert (f0 = F_TRACE) by lia. subst f0.
      unfold feat_len in Hf0. cbn in Hf0.
      destruct (f_trace s) as [g|] eqn:Eg; [|discriminate]. cbn in Hf0.
      injection Hf0 as <-. destruct (zlen g =? 0) eqn:Ez; cbn [negb].
      + (* an empty trace group counts 0 events *)
        destruct g; [|unfold zlen in Ez; simpl in Ez; lia].
        symmetry. now apply (proj1 (HT [] eq_refl)).
      + destruct (first_trace_some g) as [d Hd].
        * intros ->. unfold zlen in Ez. simpl in Ez. lia.
        * intros t d Hin. apply (proj2 (HT g eq_refl) t d Hin).
        * rewrite Hd. destruct (first_trace_In g d Hd) as [t Hin].
          apply (proj2 (HT g eq_refl) t d Hin).
    - apply (HB f0 n0); [lia|exact Hf0]. }
  rewrite Hec. unfold rd_attr. cbn [f_attrs with_attrs].
  set (a1 := aset M_EVENT_COUNT n (f_attrs s)).
  assert (H1 : alookup M_EVENT_COUNT a1 = Some n) by (subst a1; now rewrite alookup_aset).
  repeat match goal with
         | |- context [if ?b then _ else _] => destruct b
         | |- context [match ?x with Some _ => _ | None => _ end] => destruct x
         end;
    rewrite ?alookup_aset; cbn; exact H1.
Qed.

Lemma run_app ops1 : forall s ops2, run s (ops1 ++ ops2) = run (run s ops1) ops2.
Proof. induction ops1 as [|o r IH]; intros s ops2; [reflexivity|]. simpl. apply IH. Qed.

(* for every history that leaves a balanced file with n events per feature,
   closing the writer stores the event count n *)
Theorem event_count_history ops n :
  Balanced (st_f (run init ops)) n -> feats_sorted (st_f (run init ops)) <> [] ->
  rd_attr (st_f (run init (ops ++ [OClose]))) M_EVENT_COUNT = Some n.
Proof.
  intros HB Hne. rewrite run_app. cbn [run step fst st_f].
  destruct (feats_sorted (st_f (run init ops))) eqn:E; [congruence|].
  apply event_count_matches; [exact HB|]. rewrite E. discriminate.
Qed.

(* ---- refutations: what the code does not keep (known findings) ------------------------------------ *)
(* C01-log-truncated: a line appended to an existing log is cut to the width
   chosen when the log was created *)
Theorem log_history_refuted :
  exists ops name, rd_log (st_f (run init ops)) name <> spec_log name 0 [] ops.
Proof.
  exists [OOpen 2; OLog 0 [[115; 104; 111; 114; 116]]; OLog 0 [repeat 120 150]], 0.
  intros H. apply (f_equal (fun l => length (nth 1 l []))) in H. vm_compute in H. discriminate.
Qed.

(* C01-dtype-frozen: the dtype of a 1-d dataset is that of the first array *)
Theorem scalar_history_refuted :
  exists ops f, f <> F_INDEX /\ rd_scalar (st_f (run init ops)) f <> spec_scalar f 0 [] ops.
Proof.
  exists [OOpen 2; OScalar 4 true [(0, 8); (0, 16)]; OScalar 4 false [(0, 4)]], 4.
  split; [discriminate|]. vm_compute. congruence.
Qed.

(* ---- non-vacuity ------------------------------------------------------------------------------------ *)
Definition demo_ops : list op :=
  [OConfig 512; OOpen 2; OMeta [(1, 9); (2, 6)];
   OScalar 4 false [(0, 4); (1, 0)]; OScalar 12 true [(0, 56); (0, 56)];
   OImage 13 true [1; 2] (ndt_of 1) (gen_rows 1 3 0 2 2); OContour [[1; 2; 3; 4]; [5; 6]];
   OTrace [3] (ndt_of 2) [(1, gen_rows 2 5 0 2 3)]; OLog 0 [[104; 105]]; OTable 0 [0] [[8]];
   OImage 10 false [1; 2] (ndt_of 1) (gen_rows 0 7 0 12 2);
   OScalar 4 false [(2, 0)]; OScalar 12 true [(0, 0)];
   OImage 13 true [1; 2] (ndt_of 1) (gen_rows 1 3 2 3 2); OContour [[7; 8]];
   OImage 10 false [1; 2] (ndt_of 1) (gen_rows 0 7 12 25 2);
   OTrace [3] (ndt_of 2) [(1, gen_rows 2 5 2 3 3)]; OLog 0 [repeat 65 100]; OClose;
   OOpen 1; OScalar 4 false [(0, 8); (0, 16); (0, 24)]; OLog 0 [repeat 66 130]; OClose].

Example c01_nonvacuous :
  hist_ok_scalar 4 init demo_ops = true /\ hist_ok_nd F_IMAGE init demo_ops = true
  /\ hist_ok_trace 1 init demo_ops = true /\ hist_ok_log 0 init demo_ops = true
  /\ index_ok 0 0 demo_ops = true
  /\ rd_scalar (st_f (run init demo_ops)) 4 = [(0, 8); (0, 16); (0, 24)]
  /\ rd_scalar (st_f (run init demo_ops)) F_INDEX = [(0, 8); (0, 16); (0, 24)]
  /\ zlen (rd_nd (st_f (run init demo_ops)) F_IMAGE) = 25
  /\ rd_nd (st_f (run init demo_ops)) F_IMAGE = gen_rows 0 7 0 25 2
  /\ rd_contour (st_f (run init demo_ops)) = [Some [1; 2; 3; 4]; Some [5; 6]; Some [7; 8]]
  /\ rd_trace (st_f (run init demo_ops)) 1 = gen_rows 2 5 0 3 3
  /\ rd_log (st_f (run init demo_ops)) 0 = [repeat 66 130]
  /\ rd_attr (st_f (run init demo_ops)) M_EVENT_COUNT = Some 3.
Proof. vm_compute. repeat split. Qed.

Example c01_balanced_nonvacuous :
  let s := st_f (run init [OOpen 2; OScalar 4 false [(0, 4); (1, 0)];
                           OImage 10 false [1; 2] (ndt_of 1) (gen_rows 0 7 0 2 2);
                           OContour [[1; 2]; [3; 4]];
                           OTrace [3] (ndt_of 2) [(1, gen_rows 2 5 0 2 3); (0, gen_rows 2 6 0 2 3)]]) in
  Balanced s 2 /\ feats_sorted s <> [].
Proof.
  split; [|vm_compute; discriminate]. split.
  - intros f len Hf. unfold feat_len. vm_compute f_contour. vm_compute f_scal.
    vm_compute f_nd. unfold F_CONTOUR, F_TRACE in *.
    destruct (f =? 3); [intros [= <-]; reflexivity|].
    destruct (f =? 19) eqn:E; [lia|]. cbn [alookup].
    destruct (f =? 4); [intros [= <-]; reflexivity|].
    destruct (f =? 10); [intros [= <-]; reflexivity|discriminate].
  - vm_compute f_trace. intros g [= <-]. split; [discriminate|].
    intros t d [H|[H|[]]]; injection H as <- <-; (split; [unfold NTRACE; simpl; lia|reflexivity]).
Qed.

(* ---- statements from the empty file ------------------------------------------------------------------ *)
Lemma NdInv_init : NdInv (st_f init).
Proof. split; [intros k d; discriminate|exact I]. Qed.

Corollary nd_history_init f ops : hist_ok_nd f init ops = true ->
  rd_nd (st_f (run init ops)) f = spec_nd f 0 [] ops.
Proof. exact (nd_history f ops init NdInv_init). Qed.

Corollary trace_history_init tr ops : hist_ok_trace tr init ops = true ->
  rd_trace (st_f (run init ops)) tr = spec_trace tr 0 [] ops.
Proof. exact (trace_history tr ops init NdInv_init). Qed.

(* C01-nd-dtype-frozen: the dtype of a trace (or user-shaped) dataset is that
   of the first array: int16 traces, then an int32 array with 40000 and -70000 *)
Theorem trace_history_refuted :
  exists ops tr, rd_trace (st_f (run init ops)) tr <> spec_trace tr 0 [] ops.
Proof.
  exists [OOpen 2; OTrace [2] (ndt_of 2) [(1, [[5; 6]])];
          OTrace [2] (ndt_of 3) [(1, [[40000; -70000]])]], 1.
  vm_compute. congruence.
Qed.

Theorem nd_history_refuted :
  exists ops f, rd_nd (st_f (run init ops)) f <> spec_nd f 0 [] ops.
Proof.
  exists [OOpen 2; OArr 22 false [2] [1; 2] (ndt_of 6) [8; 16];
          OArr 22 false [2] [1; 2] (ndt_of 0) [4; 21]], 22.
  vm_compute. congruence.
Qed.

Corollary index_history_init ops : index_ok 0 0 ops = true ->
  rd_scalar (st_f (run init ops)) F_INDEX = enumerate_from_1 (spec_index_len 0 0 ops).
Proof. exact (index_history ops init 0 (conj (Z.le_refl 0) eq_refl)). Qed.

Corollary log_history_init name ops : hist_ok_log name init ops = true ->
  rd_log (st_f (run init ops)) name = spec_log name 0 [] ops.
Proof. exact (log_history name ops init). Qed.

Corollary table_history_init name ops :
  rd_table (st_f (run init ops)) name = spec_table name None ops.
Proof. exact (table_history name ops init). Qed.

(* the single-event forms: a user-shaped array with shape == data.shape, a 2-d
   array for an image-like feature; several events; a bad shape *)
Example c01_arr_nonvacuous :
  arr_events 22 [2; 3] [2; 3] [1; 2; 3; 4; 5; 6] = [[1; 2; 3; 4; 5; 6]]
  /\ arr_events 22 [2; 3] [2; 2; 3] [1; 2; 3; 4; 5; 6; 7; 8; 9; 10; 11; 12]
     = [[1; 2; 3; 4; 5; 6]; [7; 8; 9; 10; 11; 12]]
  /\ arr_events F_QPI_AMP [] [2; 3] [1; 2; 3; 4; 5; 6] = [[1; 2; 3; 4; 5; 6]]
  /\ arr_events F_IMAGE [] [2; 1; 3] [1; 2; 3; 4; 5; 6] = [[1; 2; 3]; [4; 5; 6]]
  /\ arr_events 22 [2; 3] [3; 2] [1; 2; 3; 4; 5; 6] = []
  /\ rd_nd (st_f (run init [OOpen 2; OArr 22 false [2; 3] [2; 3] (ndt_of 0) [1; 2; 3; 4; 5; 6];
                            OArr 22 false [2; 3] [1; 2; 3] (ndt_of 0) [7; 8; 9; 10; 11; 12]])) 22
     = [[1; 2; 3; 4; 5; 6]; [7; 8; 9; 10; 11; 12]].
Proof. vm_compute. repeat split. Qed.

(* ---- metadata written by the caller -------------------------------------------------------------------- *)
(* keys that rectify_metadata never touches keep the last value given to
   store_metadata since the last reset (the conversion of a value to its
   documented type is C11's subject; here values are already normalised) *)
Definition auto_key (k : Z) : bool :=
  (k =? M_EVENT_COUNT) || (k =? M_ROI_X) || (k =? M_ROI_Y) || (k =? M_SAMPLES) || (k =? M_CHANNELS).

Fixpoint spec_meta (k : Z) (acc : option Z) (ops : list op) : option Z :=
  match ops with
  | [] => acc
  | OOpen m :: r => spec_meta k (if m =? 2 then None else acc) r
  | OMeta kvs :: r =>
      spec_meta k (fold_left (fun (a : option Z) (kv : Z * Z) => if fst kv =? k then Some (snd kv) else a) kvs acc) r
  | _ :: r => spec_meta k acc r
  end.

Lemma store_meta_lookup k kvs : forall a,
  alookup k (fold_left (fun a kv => aset (fst kv) (snd kv) a) kvs a)
  = fold_left (fun (o : option Z) (kv : Z * Z) => if fst kv =? k then Some (snd kv) else o) kvs (alookup k a).
Proof.
  induction kvs as [|[k' v] r IH]; intros a; cbn [fold_left fst snd]; [reflexivity|].
  rewrite IH, alookup_aset, (Z.eqb_sym k k'). reflexivity.
Qed.

Lemma rectify_attr_frame s k : auto_key k = false ->
  alookup k (f_attrs (rectify_metadata s)) = alookup k (f_attrs s).
Proof.
  unfold auto_key. intros Hk. unfold rectify_metadata.
  destruct (feats_sorted s) as [|[f0 n0] r]; [reflexivity|].
  cbn [f_attrs with_attrs].
  repeat match goal with
         | |- context [if ?b then _ else _] => destruct b
         | |- context [match ?x with Some _ => _ | None => _ end] => destruct x
         end;
    rewrite ?alookup_aset;
    repeat match goal with
           | |- context [k =? ?c] => replace (k =? c) with false by lia
           end; reflexivity.
Qed.

Lemma attrs_frame s o :
  match o with OOpen _ | OClose | OMeta _ => True
          | _ => f_attrs (st_f (fst (step s o))) = f_attrs (st_f s) end.
Proof.
  destruct o; try exact I; cbn [step fst st_f set_file]; try reflexivity.
  - unfold store_scalar.
    destruct (f =? F_INDEX); [destruct (zlen data =? 0)|destruct (nonempty data)]; reflexivity.
  - unfold store_image. destruct (nonempty data); reflexivity.
  - unfold store_contour.
    destruct (f_contour (st_f s)); [destruct (w_mode (st_w s) =? 1)|]; reflexivity.
  - unfold store_trace. destruct (trace_loop _ _ _ _ _); reflexivity.
  - unfold store_table. destruct (amem name (f_tables (st_f s))); reflexivity.
  - unfold store_image. destruct (nonempty _); reflexivity.
Qed.

Theorem meta_history k : auto_key k = false -> forall ops s,
  rd_attr (st_f (run s ops)) k = spec_meta k (rd_attr (st_f s) k) ops.
Proof.
  intros Hk. induction ops as [|o r IH]; intros s; [reflexivity|].
  rewrite run_cons, IH. pose proof (attrs_frame s o) as Hfr. unfold rd_attr in *.
  destruct o; cbn [spec_meta]; try (rewrite Hfr; reflexivity).
  - cbn [step fst st_f]. destruct (mode =? 2); reflexivity.
  - cbn [step fst st_f]. destruct (feats_sorted (st_f s)); [reflexivity|].
    now rewrite rectify_attr_frame.
  - cbn [step fst st_f]. unfold store_meta. cbn [f_attrs with_attrs].
    now rewrite store_meta_lookup.
Qed.

Corollary meta_history_init k ops : auto_key k = false ->
  rd_attr (st_f (run init ops)) k = spec_meta k None ops.
Proof. intros Hk. exact (meta_history k Hk ops init). Qed.

(* float32: 24 significant bits, ties to even (entries in units of 1/8) *)
Example c01_f32_nonvacuous :
  round_f32 (2 ^ 24 + 1) = 2 ^ 24 /\ round_f32 (2 ^ 24 + 3) = 2 ^ 24 + 4
  /\ round_f32 (- (2 ^ 25 + 2)) = - 2 ^ 25 /\ round_f32 (2 ^ 25 + 6) = 2 ^ 25 + 8
  /\ round_f32 12345 = 12345 /\ fits_nd (NDF32 8) (2 ^ 24 + 1) = false
  /\ fits_nd (NDF32 8) (3 * 2 ^ 30) = true
  /\ hist_ok_nd F_QPI_AMP init [OOpen 2; OArr F_QPI_AMP false [] [1; 2] (ndt_of 0) [2 ^ 24 + 1; 5]] = false
  /\ rd_nd (st_f (run init [OOpen 2; OArr F_QPI_AMP false [] [1; 2] (ndt_of 0) [2 ^ 24 + 1; 5]])) F_QPI_AMP
     = [[2 ^ 24; 5]].
Proof. vm_compute. repeat split. Qed.

(* ---- from what the readers return to the event count ------------------------------------------------ *)
(* every stored feature reads back n events (the reader lengths are those of
   spec_scalar / spec_nd / spec_contour / spec_trace by the history theorems) *)
Definition ReadersBalanced (s : file) (n : Z) : Prop :=
  (forall f, amem f (f_scal s) = true -> zlen (rd_scalar s f) = n)
  /\ (forall f, amem f (f_nd s) = true -> zlen (rd_nd s f) = n)
  /\ (f_contour s <> None -> zlen (rd_contour s) = n)
  /\ (forall g, f_trace s = Some g ->
        (g = [] -> n = 0)
        /\ forall t d, In (t, d) g -> 0 <= t < Z.of_nat NTRACE /\ zlen (nd_rows d) = n).

Lemma ReadersBalanced_Balanced s n : ReadersBalanced s n -> Balanced s n.
Proof.
  intros (HS & HN & HC & HT). split; [|exact HT].
  intros f len Hf. unfold feat_len.
  destruct (f =? F_CONTOUR) eqn:Ec.
  - assert (HL : forall g, f_contour s = Some g -> zlen (rd_contour s) = zlen g).
    { intros g Eg. unfold rd_contour, zlen, zrange. rewrite Eg.
      now rewrite !map_length, seq_length. }
    destruct (f_contour s) as [g|] eqn:Eg; [|discriminate]. cbn. intros [= <-].
    rewrite <- (HL g eq_refl). apply HC. discriminate.
  - destruct (f =? F_TRACE) eqn:Et; [lia|].
    destruct (alookup f (f_scal s)) as [[dt v]|] eqn:El.
    + intros [= <-]. rewrite <- (HS f) by (unfold amem; now rewrite El).
      unfold rd_scalar. now rewrite El.
    + destruct (alookup f (f_nd s)) as [d|] eqn:En; [|discriminate].
      intros [= <-]. rewrite <- (HN f) by (unfold amem; now rewrite En).
      unfold rd_nd. rewrite En. destruct (f =? F_MASK); [|reflexivity].
      unfold zlen. now rewrite map_length.
Qed.

Theorem event_count_readers ops n :
  ReadersBalanced (st_f (run init ops)) n -> feats_sorted (st_f (run init ops)) <> [] ->
  rd_attr (st_f (run init (ops ++ [OClose]))) M_EVENT_COUNT = Some n.
Proof. intros H. apply event_count_history. now apply ReadersBalanced_Balanced. Qed.
