(* Proofs about Model/C02.v (export: selection, stacks, tsv). *)
From Coq Require Import ZArith List Bool Lia ZifyBool ZifyNat.
From Verif Require Import Common.ListIdx Model.C02.
Import ListNotations.
Open Scope Z_scope.
Ltac Zify.zify_post_hook ::= Z.div_mod_to_equations.

Lemma best_chunk_ge10 cfg e : 10 <= best_chunk cfg e.
Proof. unfold best_chunk; lia. Qed.

Lemma len_app {A} (a b : list A) : len (a ++ b) = len a + len b.
Proof. unfold len; rewrite app_length; lia. Qed.

Lemma len_nonneg {A} (a : list A) : 0 <= len a.
Proof. unfold len; lia. Qed.

(* ---------------------------------------------------------------------- *)
(* stacks                                                                   *)
(* ---------------------------------------------------------------------- *)
Section StackProofs.
  Context {A : Type}.
  Variables (d z : A) (c : Z) (data : list A).
  Hypothesis Hc : 0 < c.

  Notation take := (take d data).

  Lemma take_app (a b : list Z) : take (a ++ b) = take a ++ take b.
  Proof. apply map_app. Qed.

  Lemma take_length (a : list Z) : length (take a) = length a.
  Proof. apply map_length. Qed.

  Lemma slice_0 (l : list Z) b : slice l 0 b = firstn (Z.to_nat b) l.
  Proof. unfold slice; simpl. now rewrite Z.sub_0_r. Qed.

  Lemma fast_loop_spec (idx : list Z) :
    forall (n : nat) (kk stop : Z), 0 <= kk ->
      concat (fst (fast_loop d c data n kk stop idx))
      = take (slice idx (c * kk) (c * (kk + Z.of_nat n)))
      /\ snd (fast_loop d c data n kk stop idx)
         = (if Nat.eqb n 0 then stop else c * (kk + Z.of_nat n)).
  Proof.
    induction n as [|n IH]; intros kk stop Hk.
    - simpl. rewrite slice_empty by lia. split; reflexivity.
    - cbn [fast_loop].
      destruct (IH (kk + 1) (c * (kk + 1)) ltac:(lia)) as [IH1 IH2].
      destruct (fast_loop d c data n (kk + 1) (c * (kk + 1)) idx) as [r s] eqn:E.
      cbn [fst snd] in *. split.
      + cbn [concat]. rewrite IH1, <- take_app.
        rewrite slice_app by nia. f_equal. f_equal. lia.
      + rewrite IH2. destruct n; cbn [Nat.eqb]; f_equal; lia.
  Qed.

  (* the sliceable route returns the selected events, in order, each once *)
  Lemma stacks_fast_concat (idx : list Z) :
    concat (stacks_fast d c data idx) = take idx.
  Proof.
    unfold stacks_fast.
    pose proof (len_nonneg idx) as HL. set (L := len idx) in *.
    destruct (fast_loop_spec idx (Z.to_nat (L / c)) 0 0 ltac:(lia)) as [H1 H2].
    destruct (fast_loop d c data (Z.to_nat (L / c)) 0 0 idx) as [r stop] eqn:E.
    cbn [fst snd] in *.
    assert (Hq : 0 <= L / c) by (apply Z.div_pos; lia).
    assert (Hstop : stop = c * (L / c)).
    { rewrite H2. destruct (Nat.eqb (Z.to_nat (L / c)) 0) eqn:En.
      - apply Nat.eqb_eq in En. nia.
      - rewrite Z2Nat.id by lia. f_equal; lia. }
    rewrite concat_app, H1.
    replace (c * (0 + Z.of_nat (Z.to_nat (L / c)))) with stop
      by (rewrite Hstop, Z2Nat.id by lia; f_equal; lia).
    replace (c * 0) with 0 by lia. rewrite slice_0.
    assert (Hle : stop <= L) by (rewrite Hstop; apply Z.mul_div_le; lia).
    destruct (stop <? L) eqn:Elt.
    - cbn [concat]. rewrite app_nil_r, <- take_app, firstn_skipn. reflexivity.
    - cbn [concat]. rewrite app_nil_r. rewrite firstn_all2; [reflexivity|].
      unfold L, len in *. lia.
  Qed.

  Lemma slice_length_in (l : list Z) a b :
    0 <= a -> a <= b -> b <= len l -> len (slice l a b) = b - a.
  Proof. intros; unfold len in *; now apply slice_length_le. Qed.

  Lemma fast_loop_chunks (idx : list Z) :
    forall (n : nat) (kk stop : Z), 0 <= kk ->
      c * (kk + Z.of_nat n) <= len idx ->
      Forall (fun ch => len ch = c) (fst (fast_loop d c data n kk stop idx)).
  Proof.
    induction n as [|n IH]; intros kk stop Hk Hle.
    - constructor.
    - cbn [fast_loop].
      specialize (IH (kk + 1) (c * (kk + 1)) ltac:(lia) ltac:(lia)).
      destruct (fast_loop d c data n (kk + 1) (c * (kk + 1)) idx) as [r s].
      cbn [fst] in *. constructor; [|exact IH].
      unfold len at 1. rewrite take_length. fold (len (slice idx (c * kk) (c * (kk + 1)))).
      rewrite slice_length_in; nia.
  Qed.

  (* every stack of the sliceable route is non-empty and at most c long *)
  Lemma stacks_fast_chunks (idx : list Z) :
    Forall (fun ch => 0 < len ch <= c) (stacks_fast d c data idx).
  Proof.
    unfold stacks_fast.
    pose proof (len_nonneg idx) as HL. set (L := len idx) in *.
    assert (Hq : 0 <= L / c) by (apply Z.div_pos; lia).
    assert (Hm : c * (L / c) <= L) by (apply Z.mul_div_le; lia).
    pose proof (fast_loop_chunks idx (Z.to_nat (L / c)) 0 0 ltac:(lia)
                  ltac:(rewrite Z2Nat.id by lia; fold L; lia)) as HF.
    destruct (fast_loop_spec idx (Z.to_nat (L / c)) 0 0 ltac:(lia)) as [_ H2].
    destruct (fast_loop d c data (Z.to_nat (L / c)) 0 0 idx) as [r stop] eqn:E.
    cbn [fst snd] in *.
    assert (Hstop : stop = c * (L / c)).
    { rewrite H2. destruct (Nat.eqb (Z.to_nat (L / c)) 0) eqn:En.
      - apply Nat.eqb_eq in En. nia.
      - rewrite Z2Nat.id by lia. f_equal; lia. }
    apply Forall_app. split.
    - eapply Forall_impl; [|exact HF]. cbv beta. intros ch Hch. lia.
    - destruct (stop <? L) eqn:Elt; [|constructor].
      constructor; [|constructor].
      assert (L - stop < c).
      { rewrite Hstop. pose proof (Z.mod_pos_bound L c Hc).
        rewrite Z.mod_eq in H by lia. lia. }
      assert (0 <= stop) by (rewrite Hstop; nia).
      apply Z.ltb_lt in Elt. clear H2 Hstop E HF Hm Hq.
      unfold len at 1 2. rewrite take_length, skipn_length.
      unfold L, len in *. lia.
  Qed.

  (* --- event-wise route -------------------------------------------------- *)
  Lemma upd_length (l : list A) n x : length (upd l n x) = length l.
  Proof.
    revert n; induction l as [|h t IH]; intros [|n]; simpl; auto.
  Qed.

  Lemma firstn_upd_S (l : list A) n x :
    (n < length l)%nat -> firstn (S n) (upd l n x) = firstn n l ++ [x].
  Proof.
    revert n; induction l as [|h t IH]; intros [|n] Hn; simpl in *; try lia.
    - reflexivity.
    - f_equal. apply IH. lia.
  Qed.

  Lemma mod_wrap jj : 0 <= jj < c -> ((jj + 1) mod c =? 0) = true -> jj + 1 = c.
  Proof.
    intros Hj Hm. apply Z.eqb_eq in Hm.
    destruct (Z.eq_dec (jj + 1) c) as [|Hne]; [assumption|].
    rewrite Z.mod_small in Hm by lia. lia.
  Qed.

  Lemma mod_nowrap jj : 0 <= jj < c -> ((jj + 1) mod c =? 0) = false -> jj + 1 < c.
  Proof.
    intros Hj Hm. apply Z.eqb_neq in Hm.
    destruct (Z.eq_dec (jj + 1) c) as [He|Hne]; [|lia].
    rewrite He, Z.mod_same in Hm by lia. lia.
  Qed.

  Lemma slow_all_spec (idx : list Z) :
    forall (buf : list A) (jj : Z), 0 <= jj < c -> len buf = c ->
      concat (slow_all d c data idx buf jj)
      = firstn (Z.to_nat jj) buf ++ take idx.
  Proof.
    induction idx as [|ii rest IH]; intros buf jj Hj Hb.
    - unfold slow_all; cbn [slow_loop app].
      destruct (jj =? 0) eqn:E.
      + apply Z.eqb_eq in E; subst. reflexivity.
      + simpl. reflexivity.
    - unfold slow_all; cbn [slow_loop].
      set (buf' := upd buf (Z.to_nat jj) (getev d data ii)).
      assert (Hb' : len buf' = c) by (unfold len, buf' in *; now rewrite upd_length).
      assert (Hf : firstn (S (Z.to_nat jj)) buf'
                   = firstn (Z.to_nat jj) buf ++ [getev d data ii]).
      { apply firstn_upd_S. unfold len in Hb. lia. }
      destruct ((jj + 1) mod c =? 0) eqn:Em.
      + pose proof (mod_wrap jj Hj Em) as Hw.
        specialize (IH buf' 0 ltac:(lia) Hb'). unfold slow_all in IH.
        destruct (slow_loop d c data rest buf' 0) as [r [b j]] eqn:E.
        cbn [app concat].
        rewrite IH. cbn [Z.to_nat firstn app].
        rewrite <- (firstn_all buf') at 1.
        replace (length buf') with (S (Z.to_nat jj)) by (unfold len in Hb'; lia).
        rewrite Hf, <- app_assoc. reflexivity.
      + pose proof (mod_nowrap jj Hj Em) as Hw.
        specialize (IH buf' (jj + 1) ltac:(lia) Hb'). unfold slow_all in IH.
        rewrite IH. replace (Z.to_nat (jj + 1)) with (S (Z.to_nat jj)) by lia.
        rewrite Hf, <- app_assoc. reflexivity.
  Qed.

  (* the event-wise route returns the selected events, in order, each once,
     although it reuses one buffer *)
  Lemma stacks_slow_concat (idx : list Z) :
    concat (stacks_slow d z c data idx) = take idx.
  Proof.
    unfold stacks_slow. rewrite slow_all_spec; [reflexivity|lia|].
    unfold len. rewrite repeat_length. lia.
  Qed.

  Lemma slow_all_chunks (idx : list Z) :
    forall (buf : list A) (jj : Z), 0 <= jj < c -> len buf = c ->
      Forall (fun ch => 0 < len ch <= c) (slow_all d c data idx buf jj).
  Proof.
    induction idx as [|ii rest IH]; intros buf jj Hj Hb.
    - unfold slow_all; cbn [slow_loop app].
      destruct (jj =? 0) eqn:E; [constructor|].
      constructor; [|constructor].
      unfold len in *. rewrite firstn_length. lia.
    - unfold slow_all; cbn [slow_loop].
      set (buf' := upd buf (Z.to_nat jj) (getev d data ii)).
      assert (Hb' : len buf' = c) by (unfold len, buf' in *; now rewrite upd_length).
      destruct ((jj + 1) mod c =? 0) eqn:Em.
      + specialize (IH buf' 0 ltac:(lia) Hb'). unfold slow_all in IH.
        destruct (slow_loop d c data rest buf' 0) as [r [b j]] eqn:E.
        rewrite <- app_comm_cons. constructor; [lia|exact IH].
      + pose proof (mod_nowrap jj Hj Em) as Hw.
        exact (IH buf' (jj + 1) ltac:(lia) Hb').
  Qed.

  Lemma stacks_slow_chunks (idx : list Z) :
    Forall (fun ch => 0 < len ch <= c) (stacks_slow d z c data idx).
  Proof.
    unfold stacks_slow. apply slow_all_chunks; [lia|].
    unfold len. rewrite repeat_length. lia.
  Qed.
End StackProofs.

(* ---------------------------------------------------------------------- *)
(* np.where, boolean indexing, truncation                                   *)
(* ---------------------------------------------------------------------- *)
Lemma where_from_bounds f : forall i j, In j (where_from i f) -> i <= j < i + len f.
Proof.
  induction f as [|b t IH]; intros i j H; [destruct H|].
  unfold len in *; cbn [where_from length] in *.
  destruct b; [destruct H as [<-|H]|]; try lia; apply IH in H; lia.
Qed.

Lemma where_from_nth f : forall i j,
  In j (where_from i f) <-> i <= j /\ nth (Z.to_nat (j - i)) f false = true.
Proof.
  induction f as [|b t IH]; intros i j; cbn [where_from].
  - split; [intros []|]. intros [_ H]. destruct (Z.to_nat (j - i)); discriminate.
  - destruct (Z.eq_dec j i) as [->|Hne].
    + replace (i - i) with 0 by lia. cbn [Z.to_nat nth].
      destruct b; cbn [In]; split; intros H.
      * split; [lia|reflexivity].
      * now left.
      * apply where_from_bounds in H. lia.
      * destruct H; discriminate.
    + assert (Hn : i + 1 <= j -> nth (Z.to_nat (j - i)) (b :: t) false
                   = nth (Z.to_nat (j - (i + 1))) t false).
      { intros. replace (Z.to_nat (j - i)) with (S (Z.to_nat (j - (i + 1)))) by lia.
        reflexivity. }
      destruct b; cbn [In]; rewrite IH; split.
      * intros [H|[H1 H2]]; [lia|]. split; [lia|]. now rewrite Hn.
      * intros [H1 H2]. right. split; [lia|]. now rewrite <- Hn by lia.
      * intros [H1 H2]. split; [lia|]. now rewrite Hn.
      * intros [H1 H2]. split; [lia|]. now rewrite <- Hn by lia.
Qed.

(* np.where(f)[0] lists exactly the positions holding True ... *)
Lemma where_spec f j :
  In j (where_ f) <-> 0 <= j /\ nth (Z.to_nat j) f false = true.
Proof. unfold where_. rewrite where_from_nth. now rewrite Z.sub_0_r. Qed.

Fixpoint increasing (l : list Z) : Prop :=
  match l with
  | [] => True
  | x :: t => (forall y, In y t -> x < y) /\ increasing t
  end.

Lemma where_from_increasing f : forall i, increasing (where_from i f).
Proof.
  induction f as [|b t IH]; intros i; cbn [where_from]; [exact I|].
  destruct b; [|apply IH]. split; [|apply IH].
  intros y Hy. apply where_from_bounds in Hy. lia.
Qed.

(* ... in strictly increasing order (so: each once, original order) *)
Lemma where_increasing f : increasing (where_ f).
Proof. apply where_from_increasing. Qed.

Lemma increasing_NoDup l : increasing l -> NoDup l.
Proof.
  induction l as [|x t IH]; intros H; constructor.
  - intros Hin. destruct H as [H _]. specialize (H x Hin). lia.
  - apply IH, H.
Qed.

Lemma where_from_length f : forall i, len (where_from i f) = count_true f.
Proof.
  induction f as [|b t IH]; intros i; [reflexivity|].
  cbn [where_from count_true]. destruct b.
  - unfold len in *. cbn [length]. rewrite Nat2Z.inj_succ, (IH (i + 1)). lia.
  - rewrite IH. lia.
Qed.

Lemma where_length f : len (where_ f) = count_true f.
Proof. apply where_from_length. Qed.

Lemma where_in_range f j : In j (where_ f) -> 0 <= j < len f.
Proof. intros H. apply where_from_bounds in H. lia. Qed.

Lemma where_from_app a : forall b i,
  where_from i (a ++ b) = where_from i a ++ where_from (i + len a) b.
Proof.
  induction a as [|x t IH]; intros b i.
  - unfold len; simpl. now rewrite Z.add_0_r.
  - cbn [app where_from]. rewrite IH.
    replace (i + 1 + len t) with (i + len (x :: t))
      by (unfold len; cbn [length]; lia).
    destruct x; reflexivity.
Qed.

Lemma where_from_false n : forall i, where_from i (repeat false n) = [].
Proof. induction n; intros i; simpl; auto. Qed.

Lemma where_from_firstn f : forall n i,
  where_from i (firstn n f)
  = filter (fun j => j <? i + Z.of_nat n) (where_from i f).
Proof.
  induction f as [|b t IH]; intros n i.
  - now rewrite firstn_nil.
  - destruct n as [|n].
    + cbn [firstn where_from]. symmetry.
      rewrite <- (filter_ext_in (fun _ => false)).
      * cbn [firstn where_from].
        generalize (if b then i :: where_from (i + 1) t else where_from (i + 1) t).
        intros l. induction l; simpl; auto.
      * intros j Hj. apply (where_from_bounds (b :: t)) in Hj. lia.
    + cbn [firstn where_from]. destruct b; cbn [filter].
      * replace (i <? i + Z.of_nat (S n)) with true by lia.
        f_equal. rewrite IH. apply filter_ext. intros j. lia.
      * rewrite IH. apply filter_ext. intros j. lia.
Qed.

(* filter_arr[l_min:] = False keeps exactly the selected events below l_min *)
Lemma where_trunc lmin f : 0 <= lmin ->
  where_ (trunc lmin f) = filter (fun j => j <? lmin) (where_ f).
Proof.
  intros H. unfold where_, trunc.
  rewrite where_from_app, where_from_false, app_nil_r, where_from_firstn.
  apply filter_ext. intros j. lia.
Qed.

Lemma trunc_length lmin f : length (trunc lmin f) = length f.
Proof.
  unfold trunc. rewrite app_length, firstn_length, repeat_length. lia.
Qed.

Section Select.
  Context {A : Type}.
  Variable d : A.

  Lemma take_shift (x : A) (xs : list A) (l : list Z) :
    (forall j, In j l -> 1 <= j) ->
    take d (x :: xs) l = take d xs (map (fun j => j - 1) l).
  Proof.
    intros H. unfold take. rewrite map_map. apply map_ext_in.
    intros j Hj. specialize (H j Hj). unfold getev.
    replace (Z.to_nat j) with (S (Z.to_nat (j - 1))) by lia. reflexivity.
  Qed.

  Lemma where_from_shift f : forall i,
    map (fun j => j - 1) (where_from (i + 1) f) = where_from i f.
  Proof.
    induction f as [|b t IH]; intros i; [reflexivity|].
    cbn [where_from]. destruct b; cbn [map]; rewrite IH; [f_equal; lia|reflexivity].
  Qed.

  (* data[filtarr] (boolean mask) = data[np.where(filtarr)[0]] *)
  Lemma mask_select_take : forall (data : list A) (f : list bool),
    (length f <= length data)%nat ->
    mask_select data f = take d data (where_ f).
  Proof.
    induction data as [|x xs IH]; intros f Hl.
    - destruct f; [reflexivity|simpl in Hl; lia].
    - destruct f as [|b bs]; [reflexivity|].
      cbn [mask_select]. unfold where_. cbn [where_from].
      simpl in Hl. specialize (IH bs ltac:(lia)). unfold where_ in IH.
      assert (Hs : take d (x :: xs) (where_from (0 + 1) bs)
                   = take d xs (where_from 0 bs)).
      { rewrite take_shift.
        - now rewrite where_from_shift.
        - intros j Hj. apply where_from_bounds in Hj. lia. }
      destruct b.
      + cbn [take map]. unfold take in *. rewrite Hs. f_equal. now rewrite IH.
      + rewrite Hs. exact IH.
  Qed.

  Lemma take_zrange (data : list A) :
    take d data (zrange 0 (length data)) = data.
  Proof.
    induction data as [|x xs IH]; [reflexivity|].
    cbn [length zrange]. cbn [take map]. unfold take in *.
    f_equal. change (map (getev d (x :: xs)) (zrange (0 + 1) (length xs)))
      with (take d (x :: xs) (zrange (0 + 1) (length xs))).
    rewrite take_shift.
    - assert (Hz : forall n i, map (fun j => j - 1) (zrange (i + 1) n) = zrange i n).
      { induction n; intros i; cbn [zrange map]; [reflexivity|].
        rewrite IHn. f_equal. lia. }
      rewrite Hz. exact IH.
    - assert (Hz : forall n i j, In j (zrange i n) -> i <= j).
      { induction n; intros i j Hj; cbn [zrange In] in Hj; [destruct Hj|].
        destruct Hj as [<-|Hj]; [lia|]. apply IHn in Hj. lia. }
      intros j Hj. apply Hz in Hj. lia.
  Qed.
End Select.

(* ---------------------------------------------------------------------- *)
(* sorted(set(features))                                                    *)
(* ---------------------------------------------------------------------- *)
Lemma ins_In x l y : In y (ins x l) <-> y = x \/ In y l.
Proof.
  induction l as [|h t IH]; cbn [ins].
  - simpl. intuition.
  - destruct (x <? h) eqn:E1; [simpl; intuition|].
    destruct (x =? h) eqn:E2.
    + apply Z.eqb_eq in E2. subst. simpl. intuition.
    + simpl. rewrite IH. intuition.
Qed.

Lemma ins_increasing x l : increasing l -> increasing (ins x l).
Proof.
  induction l as [|h t IH]; intros H; cbn [ins].
  - simpl. intuition.
  - destruct H as [H1 H2].
    destruct (x <? h) eqn:E1.
    + split; [|split; assumption].
      intros y [<-|Hy]; [lia|]. specialize (H1 y Hy). lia.
    + destruct (x =? h) eqn:E2; [split; assumption|].
      split; [|apply IH, H2].
      intros y Hy. apply ins_In in Hy. destruct Hy as [->|Hy]; [lia|auto].
Qed.

Lemma sortset_In l x : In x (sortset l) <-> In x l.
Proof.
  induction l as [|h t IH]; [reflexivity|].
  cbn [sortset fold_right]. rewrite ins_In. fold (sortset t). rewrite IH.
  simpl. intuition.
Qed.

Lemma sortset_increasing l : increasing (sortset l).
Proof.
  induction l as [|h t IH]; [exact I|].
  cbn [sortset fold_right]. apply ins_increasing, IH.
Qed.

(* duplicates and the order of the requested features do not matter *)
Lemma sortset_spec l :
  increasing (sortset l) /\ NoDup (sortset l)
  /\ forall x, In x (sortset l) <-> In x l.
Proof.
  split; [apply sortset_increasing|].
  split; [apply increasing_NoDup, sortset_increasing|apply sortset_In].
Qed.

(* ---- packaged statements used by Props/C02.v --------------------------- *)
Lemma stacks_chunks (A : Type) (d z : A) (c : Z) (data : list A) :
  0 < c -> forall idx : list Z,
    Forall (fun ch => 0 < len ch <= c) (stacks_fast d c data idx)
    /\ Forall (fun ch => 0 < len ch <= c) (stacks_slow d z c data idx).
Proof.
  intros Hc idx. split; [now apply stacks_fast_chunks|now apply stacks_slow_chunks].
Qed.

Lemma where_full_spec (f : list bool) :
  (forall j, In j (where_ f) <-> 0 <= j /\ nth (Z.to_nat j) f false = true)
  /\ increasing (where_ f)
  /\ len (where_ f) = count_true f
  /\ (forall j, In j (where_ f) -> 0 <= j < len f).
Proof.
  split; [apply where_spec|]. split; [apply where_increasing|].
  split; [apply where_length|apply where_in_range].
Qed.

Lemma trunc_spec (lmin : Z) (f : list bool) : 0 <= lmin ->
  where_ (trunc lmin f) = filter (fun j => j <? lmin) (where_ f)
  /\ length (trunc lmin f) = length f.
Proof. intros H; split; [now apply where_trunc|apply trunc_length]. Qed.

(* non-vacuity *)
Example ex_stacks_fast :
  stacks_fast 0 3 [10; 11; 12; 13; 14; 15; 16; 17] [7; 0; 0; 2; 5; 6; 1]
  = [[17; 10; 10]; [12; 15; 16]; [11]].
Proof. vm_compute. reflexivity. Qed.
Example ex_stacks_slow :
  stacks_slow 0 (-1) 3 [10; 11; 12; 13; 14; 15; 16; 17] [7; 0; 0; 2; 5; 6; 1]
  = [[17; 10; 10]; [12; 15; 16]; [11]].
Proof. vm_compute. reflexivity. Qed.
Example ex_where_trunc :
  where_ (trunc 3 [true; false; true; true; true]) = [0; 2]
  /\ mask_select [5; 6; 7; 8; 9] [true; false; true; true; true] = [5; 7; 8; 9].
Proof. vm_compute. split; reflexivity. Qed.
Example ex_sortset : sortset [4; 1; 4; 3; 1] = [1; 3; 4].
Proof. vm_compute. reflexivity. Qed.
