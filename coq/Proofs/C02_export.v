(* Proofs about Export.hdf5 / store_filtered_feature / Export.tsv of
   Model/C02.v. *)
From Coq Require Import ZArith List Bool Lia ZifyBool ZifyNat.
From Verif Require Import Common.ListIdx Model.C02 Proofs.C02.
Import ListNotations.
Open Scope Z_scope.

(* ---- small list facts -------------------------------------------------- *)
Lemma zrange_bounds n : forall i j, In j (zrange i n) -> i <= j < i + Z.of_nat n.
Proof.
  induction n as [|n IH]; intros i j H; cbn [zrange In] in H; [destruct H|].
  destruct H as [<-|H]; [lia|]. apply IH in H. lia.
Qed.

Lemma zrange_length n : forall i, length (zrange i n) = n.
Proof. induction n; intros i; simpl; auto. Qed.

Lemma filter_true {T} (p : T -> bool) l :
  (forall x, In x l -> p x = true) -> filter p l = l.
Proof.
  induction l as [|h t IH]; intros H; [reflexivity|].
  simpl. rewrite (H h (or_introl eq_refl)). f_equal. apply IH.
  intros x Hx. apply H. now right.
Qed.

Lemma filter_lt_zrange m : forall i l, i <= l <= i + Z.of_nat m ->
  filter (fun j => j <? l) (zrange i m) = zrange i (Z.to_nat (l - i)).
Proof.
  induction m as [|m IH]; intros i l H.
  - replace (Z.to_nat (l - i)) with 0%nat by lia. reflexivity.
  - cbn [zrange filter]. destruct (i <? l) eqn:E.
    + rewrite IH by lia.
      replace (Z.to_nat (l - i)) with (S (Z.to_nat (l - (i + 1)))) by lia.
      reflexivity.
    + replace (Z.to_nat (l - i)) with 0%nat by lia.
      rewrite (filter_ext_in (fun j => j <? l) (fun _ => false))
        by (intros j Hj; apply zrange_bounds in Hj; lia).
      clear. induction (zrange (i + 1) m); simpl; auto.
Qed.

Lemma where_from_all_true f : forall i,
  forallb (fun b => b) f = true -> where_from i f = zrange i (length f).
Proof.
  induction f as [|b t IH]; intros i H; [reflexivity|].
  cbn [forallb] in H. apply andb_prop in H. destruct H as [-> H].
  cbn [where_from length zrange]. f_equal. now apply IH.
Qed.

Lemma forallb_repeat_true n : forallb (fun b : bool => b) (repeat true n) = true.
Proof. induction n; simpl; auto. Qed.

Lemma forallb_trunc_false lmin f : 0 <= lmin -> lmin < len f ->
  forallb (fun b => b) (trunc lmin f) = false.
Proof.
  intros H0 H. unfold trunc. rewrite forallb_app.
  unfold len in H.
  destruct (length f - Z.to_nat lmin)%nat as [|k] eqn:E; [lia|].
  cbn [repeat forallb]. apply andb_false_r.
Qed.

Lemma zmin_le h t x : In x (h :: t) -> zmin_list h t <= x.
Proof.
  unfold zmin_list. induction t as [|y t IH]; intros H; cbn [fold_right].
  - destruct H as [->|[]]; lia.
  - destruct H as [->|[->|H]]; [specialize (IH (or_introl eq_refl))| |
      specialize (IH (or_intror H))]; lia.
Qed.

Lemma zmax_ge h t x : In x (h :: t) -> x <= zmax_list h t.
Proof.
  unfold zmax_list. induction t as [|y t IH]; intros H; cbn [fold_right].
  - destruct H as [->|[]]; lia.
  - destruct H as [->|[->|H]]; [specialize (IH (or_introl eq_refl))| |
      specialize (IH (or_intror H))]; lia.
Qed.

Lemma zmin_in h t : In (zmin_list h t) (h :: t).
Proof.
  unfold zmin_list. induction t as [|y t IH]; cbn [fold_right]; [now left|].
  destruct (Z.min_spec y (fold_right Z.min h t)) as [[_ ->]|[_ ->]].
  - right. now left.
  - destruct IH as [IH|IH]; [now left|right; now right].
Qed.

Lemma zmax_in h t : In (zmax_list h t) (h :: t).
Proof.
  unfold zmax_list. induction t as [|y t IH]; cbn [fold_right]; [now left|].
  destruct (Z.max_spec y (fold_right Z.max h t)) as [[_ ->]|[_ ->]].
  - destruct IH as [IH|IH]; [now left|right; now right].
  - right. now left.
Qed.

Lemma Forall2_In_l {X Y} (R : X -> Y -> Prop) xs ys x :
  Forall2 R xs ys -> In x xs -> exists y, In y ys /\ R x y.
Proof.
  induction 1 as [|a b xs ys Hab H IH]; intros Hin; [destruct Hin|].
  destruct Hin as [->|Hin]; [exists b; split; [now left|assumption]|].
  destruct (IH Hin) as (y & Hy & HR). exists y. split; [now right|assumption].
Qed.

Section ExportProofs.
  Variable A : Type.
  Variables (d z : A) (enum : Z -> A).

  Notation call := (call A).
  Notation content := (content A).

  (* ---- bind_all ---------------------------------------------------------- *)
  Lemma bind_all_ok {T} (f : T -> res (list call)) l r :
    bind_all A f l = Ok r ->
    exists rs, Forall2 (fun x cs => f x = Ok cs) l rs /\ r = concat rs.
  Proof.
    revert r; induction l as [|x t IH]; intros r H; cbn [bind_all] in H.
    - inversion H. exists []. split; [constructor|reflexivity].
    - destruct (f x) as [a|c] eqn:Ex; cbn [bind] in H; [|discriminate].
      destruct (bind_all A f t) as [b|c] eqn:Et; cbn [bind] in H; [|discriminate].
      inversion H; subst. destruct (IH b eq_refl) as (rs & HF & ->).
      exists (a :: rs). split; [constructor; assumption|reflexivity].
  Qed.

  Lemma bind_all_total {T} (f : T -> res (list call)) l :
    (forall x, In x l -> exists r, f x = Ok r) -> exists r, bind_all A f l = Ok r.
  Proof.
    induction l as [|x t IH]; intros H; cbn [bind_all]; [eauto|].
    destruct (H x (or_introl eq_refl)) as (a & ->).
    destruct IH as (b & ->); [intros y Hy; apply H; now right|].
    cbn [bind]. eauto.
  Qed.

  (* ---- content ----------------------------------------------------------- *)
  Lemma content_app a b n k : content (a ++ b) n k = content a n k ++ content b n k.
  Proof. unfold C02.content. apply flat_map_app. Qed.

  Definition tagged (n k : Z) (cs : list call) : Prop :=
    Forall (fun cl : call => fst (fst cl) = n /\ snd (fst cl) = k) cs.

  Lemma content_other cs n k n' k' :
    tagged n' k' cs -> n' <> n \/ k' <> k -> content cs n k = [].
  Proof.
    intros Ht Hne. induction Ht as [|[[a b] ev] cs [Ha Hb] _ IH]; [reflexivity|].
    cbn [fst snd] in *. subst. unfold C02.content in *. cbn [flat_map].
    rewrite IH. replace ((n' =? n) && (k' =? k)) with false by lia. reflexivity.
  Qed.

  Lemma content_single n k ev : content [(n, k, ev)] n k = ev.
  Proof.
    unfold C02.content. cbn [flat_map]. rewrite !Z.eqb_refl. cbn [andb].
    apply app_nil_r.
  Qed.

  Lemma content_chunks n k (chunks : list (list A)) :
    content (map (fun ch => (n, k, ch)) chunks) n k = concat chunks.
  Proof.
    induction chunks as [|c t IH]; [reflexivity|].
    cbn [map]. change ((n, k, c) :: map (fun ch => (n, k, ch)) t)
      with ([(n, k, c)] ++ map (fun ch => (n, k, ch)) t).
    rewrite content_app, content_single, IH. reflexivity.
  Qed.

  Lemma tagged_chunks n k (chunks : list (list A)) :
    tagged n k (map (fun ch => (n, k, ch)) chunks).
  Proof. induction chunks; constructor; auto. Qed.

  Lemma tagged_app n k a b : tagged n k a -> tagged n k b -> tagged n k (a ++ b).
  Proof. intros; now apply Forall_app. Qed.

  Lemma bind_all_none {X} (f : X -> res (list call)) (tag : X -> Z) n k t xs r :
    bind_all A f xs = Ok r ->
    (forall x cs, f x = Ok cs -> tag x <> t -> content cs n k = []) ->
    ~ In t (map tag xs) -> content r n k = [].
  Proof.
    intros Hb Hoth. apply bind_all_ok in Hb. destruct Hb as (rs & HF & ->).
    induction HF as [|x cs xs rs Hx HF IH]; intros Hn; [reflexivity|].
    cbn [concat]. rewrite content_app, IH.
    - rewrite (Hoth x cs Hx); [reflexivity|]. intros E. apply Hn. now left.
    - intros Hin. apply Hn. now right.
  Qed.

  Lemma bind_all_pick {X} (f : X -> res (list call)) (tag : X -> Z) n k t xs r :
    bind_all A f xs = Ok r ->
    (forall x cs, f x = Ok cs -> tag x <> t -> content cs n k = []) ->
    NoDup (map tag xs) ->
    forall x, In x xs -> tag x = t ->
      exists cs, f x = Ok cs /\ content r n k = content cs n k.
  Proof.
    intros Hb Hoth. revert r Hb.
    induction xs as [|y xs IH]; intros r Hb Hnd x Hin Ht; [destruct Hin|].
    cbn [bind_all] in Hb.
    destruct (f y) as [a|c] eqn:Ey; cbn [bind] in Hb; [|discriminate].
    destruct (bind_all A f xs) as [b|c] eqn:Et; cbn [bind] in Hb; [|discriminate].
    inversion Hb; subst r. cbn [map] in Hnd. inversion Hnd as [|? ? Hni Hnd']; subst.
    rewrite content_app. destruct Hin as [->|Hin].
    - exists a. split; [assumption|].
      rewrite (bind_all_none f tag n k (tag x) xs b Et Hoth Hni). apply app_nil_r.
    - destruct (IH b eq_refl Hnd' x Hin eq_refl) as (cs & Hcs & Hc).
      exists cs. split; [assumption|]. rewrite Hc.
      rewrite (Hoth y a Ey); [reflexivity|].
      intros E. apply Hni. rewrite E. now apply in_map.
  Qed.

  (* ---- one array of a feature --------------------------------------------- *)
  Lemma part_whole_tagged n k p cs :
    part_whole A enum n k p = Ok cs -> tagged n (p_key p) cs.
  Proof.
    unfold part_whole. intros H.
    destruct k; try destruct (p_fancy p); inversion H; subst;
      repeat constructor.
  Qed.

  Lemma part_whole_content n k p cs :
    part_whole A enum n k p = Ok cs ->
    content cs n (p_key p)
    = match k with
      | KIndex => map enum (zrange 1 (length (p_data p)))
      | _ => p_data p
      end.
  Proof.
    unfold part_whole. intros H.
    destruct k; try destruct (p_fancy p); inversion H; subst;
      apply content_single.
  Qed.

  Lemma in_range_spec n idx :
    in_range n idx = true -> forall j, In j idx -> 0 <= j < n.
  Proof.
    unfold in_range. rewrite forallb_forall. intros H j Hj.
    specialize (H j Hj). lia.
  Qed.

  Lemma part_stacks_ok cfg p idx chunks :
    part_stacks A d z cfg p idx = Ok chunks ->
    concat chunks = take d (p_data p) idx
    /\ (forall j, In j idx -> 0 <= j < len (p_data p)).
  Proof.
    unfold part_stacks. pose proof (best_chunk_ge10 cfg (p_esize p)) as Hc.
    destruct (p_slice p).
    - destruct (negb (p_fancy p)); [discriminate|].
      destruct (in_range (len (p_data p)) idx) eqn:Er; [|discriminate].
      intros H; inversion H; subst. split.
      + apply stacks_fast_concat. lia.
      + now apply in_range_spec.
    - destruct (in_range (len (p_data p)) idx) eqn:Er; [|discriminate].
      intros H; inversion H; subst. split.
      + apply stacks_slow_concat. lia.
      + now apply in_range_spec.
  Qed.

  Definition filtered_spec (k : kind) (filt : list bool) (data : list A) : list A :=
    match k with
    | KIndex => map enum (zrange 1 (Z.to_nat (count_true filt)))
    | _ => take d data (where_ filt)
    end.

  Lemma mask_select_length (data : list A) filt :
    len filt = len data ->
    length (mask_select data filt) = Z.to_nat (count_true filt).
  Proof.
    intros H. rewrite (mask_select_take d) by (unfold len in H; lia).
    unfold take. rewrite map_length. pose proof (where_length filt) as Hw.
    unfold len in Hw. lia.
  Qed.

  Lemma part_filtered_tagged cfg n k filt p cs :
    part_filtered A d z enum cfg n k filt p = Ok cs -> tagged n (p_key p) cs.
  Proof.
    unfold part_filtered. intros H.
    destruct k.
    - destruct (len filt =? len (p_data p)); inversion H; repeat constructor.
    - destruct (len filt =? len (p_data p)); inversion H; repeat constructor.
    - destruct (in_range (len (p_data p)) (where_ filt)); inversion H.
      clear. induction (where_ filt); constructor; auto.
    - destruct (part_stacks A d z cfg p (where_ filt)); inversion H.
      apply tagged_chunks.
    - destruct (part_stacks A d z cfg p (where_ filt)); inversion H.
      apply tagged_chunks.
    - destruct (part_stacks A d z cfg p (where_ filt)); inversion H.
      apply tagged_chunks.
  Qed.

  Lemma part_filtered_content cfg n k filt p cs :
    part_filtered A d z enum cfg n k filt p = Ok cs ->
    content cs n (p_key p) = filtered_spec k filt (p_data p)
    /\ (forall j, In j (where_ filt) -> 0 <= j < len (p_data p)).
  Proof.
    unfold part_filtered, filtered_spec. intros H.
    assert (Hstk : forall cs', bind (part_stacks A d z cfg p (where_ filt))
                     (fun chunks => Ok (map (fun ch => (n, p_key p, ch)) chunks))
                   = Ok cs' ->
                   content cs' n (p_key p) = take d (p_data p) (where_ filt)
                   /\ (forall j, In j (where_ filt) -> 0 <= j < len (p_data p))).
    { intros cs' H'.
      destruct (part_stacks A d z cfg p (where_ filt)) as [chunks|c] eqn:E;
        cbn [bind] in H'; [|discriminate].
      inversion H'; subst. apply part_stacks_ok in E. destruct E as [E1 E2].
      split; [|assumption]. now rewrite content_chunks. }
    destruct k; try (now apply Hstk).
    - (* scalar *)
      destruct (len filt =? len (p_data p)) eqn:E; [|discriminate].
      apply Z.eqb_eq in E. inversion H; subst. split.
      + rewrite content_single. apply mask_select_take. unfold len in E. lia.
      + intros j Hj. apply where_in_range in Hj. lia.
    - (* index *)
      destruct (len filt =? len (p_data p)) eqn:E; [|discriminate].
      apply Z.eqb_eq in E. inversion H; subst. split.
      + rewrite content_single, mask_select_length by assumption. reflexivity.
      + intros j Hj. apply where_in_range in Hj. lia.
    - (* contour *)
      destruct (in_range (len (p_data p)) (where_ filt)) eqn:E; [|discriminate].
      inversion H; subst. split; [|now apply in_range_spec].
      clear. induction (where_ filt) as [|i t IH]; [reflexivity|].
      cbn [map]. change ((n, p_key p, [getev d (p_data p) i]) :: ?r)
        with ([(n, p_key p, [getev d (p_data p) i])] ++ r).
      rewrite content_app, content_single, IH. reflexivity.
  Qed.

  (* ---- store_filtered_feature ----------------------------------------------- *)
  Lemma filtered_spec_nil k filt data :
    where_ filt = [] -> filtered_spec k filt data = [].
  Proof.
    intros H. unfold filtered_spec. pose proof (where_length filt) as Hl.
    rewrite H in Hl. unfold len in Hl. cbn [length] in Hl.
    destruct k; rewrite ?H, <- ?Hl; reflexivity.
  Qed.

  Lemma store_filtered_content cfg f filt cs :
    NoDup (map p_key (f_parts f)) ->
    store_filtered A d z enum cfg f filt = Ok cs ->
    forall p, In p (f_parts f) ->
      content cs (f_name f) (p_key p) = filtered_spec (f_kind f) filt (p_data p)
      /\ (forall j, In j (where_ filt) -> 0 <= j < len (p_data p)).
  Proof.
    intros Hnd H p Hp. unfold store_filtered in H.
    destruct (where_ filt) as [|i0 t0] eqn:Ew.
    - inversion H; subst. split; [|intros j []].
      now rewrite filtered_spec_nil.
    - rewrite <- Ew in *.
      destruct (bind_all_pick (part_filtered A d z enum cfg (f_name f) (f_kind f) filt)
                  p_key (f_name f) (p_key p) (p_key p) (f_parts f) cs H)
          with (x := p) as (cp & Hcp & Hc); auto.
      + intros x cx Hx Hne. apply part_filtered_tagged in Hx.
        eapply content_other; [exact Hx|now right].
      + rewrite Hc. now apply part_filtered_content in Hcp.
  Qed.

  Lemma store_filtered_selects cfg (f : feat A) filt (calls : list call) :
    NoDup (map p_key (f_parts f)) ->
    store_filtered A d z enum cfg f filt = Ok calls ->
    forall p, In p (f_parts f) ->
      content calls (f_name f) (p_key p)
      = match f_kind f with
        | KIndex => map enum (zrange 1 (Z.to_nat (count_true filt)))
        | _ => take d (p_data p) (where_ filt)
        end.
  Proof.
    intros Hnd H p Hp.
    destruct (store_filtered_content cfg f filt calls Hnd H p Hp) as [Hc _].
    rewrite Hc. unfold filtered_spec. destruct (f_kind f); reflexivity.
  Qed.
End ExportProofs.

Arguments tagged {A}.
Arguments filtered_spec {A}.

Section ExportProofs2.
  Variable A : Type.
  Variables (d z : A) (enum : Z -> A).

  Notation call := (call A).
  Notation content := (content A).

  Definition sel_fast (fa : option (list bool)) (h5 : bool) : bool :=
    match fa with None => true | Some fl => forallb (fun b => b) fl && h5 end.

  Definition whole_spec (k : kind) (data : list A) : list A :=
    match k with
    | KIndex => map enum (zrange 1 (length data))
    | _ => data
    end.

  Definition of_feature (f : feat A) (cl : call) : Prop :=
    fst (fst cl) = f_name f
    /\ exists p, In p (f_parts f) /\ snd (fst cl) = p_key p.

  Lemma bind_all_tagged (g : part A -> res (list call)) (f : feat A) parts cs :
    (forall p c, g p = Ok c -> tagged (f_name f) (p_key p) c) ->
    bind_all A g parts = Ok cs ->
    Forall (fun cl : call => fst (fst cl) = f_name f
                             /\ exists p, In p parts /\ snd (fst cl) = p_key p) cs.
  Proof.
    intros Hg Hb. apply bind_all_ok in Hb. destruct Hb as (rs & HF & ->).
    induction HF as [|p c ps rs Hp HF IH]; [constructor|].
    cbn [concat]. apply Forall_app. split.
    - specialize (Hg p c Hp). eapply Forall_impl; [|exact Hg].
      cbv beta. intros cl [H1 H2]. split; [assumption|].
      exists p. split; [now left|assumption].
    - eapply Forall_impl; [|exact IH]. cbv beta.
      intros cl [H1 (q & Hq & H2)]. split; [assumption|].
      exists q. split; [now right|assumption].
  Qed.

  Lemma feat_calls_tagged cfg ds fa f cs :
    feat_calls A d z enum cfg ds fa f = Ok cs -> Forall (of_feature f) cs.
  Proof.
    unfold feat_calls, of_feature. intros H.
    assert (Hw : forall cs', bind_all A (part_whole A enum (f_name f) (f_kind f))
                               (f_parts f) = Ok cs' ->
                 Forall (fun cl : call => fst (fst cl) = f_name f /\
                     exists p, In p (f_parts f) /\ snd (fst cl) = p_key p) cs').
    { intros cs'. apply bind_all_tagged. intros p c. apply part_whole_tagged. }
    destruct fa as [fl|]; [|now apply Hw].
    destruct (forallb (fun b => b) fl && ds_hdf5 ds); [now apply Hw|].
    unfold store_filtered in H. destruct (where_ fl).
    - inversion H. constructor.
    - revert H. apply bind_all_tagged. intros p c. apply part_filtered_tagged.
  Qed.

  Lemma content_other_feature f cs n k :
    Forall (of_feature f) cs -> f_name f <> n -> content cs n k = [].
  Proof.
    intros HF Hne. induction HF as [|[[a b] ev] cs [Ha _] _ IH]; [reflexivity|].
    cbn [fst snd] in Ha. unfold C02.content in *. cbn [flat_map]. rewrite IH.
    replace ((a =? n) && (b =? k)) with false by lia. reflexivity.
  Qed.

  Lemma feat_calls_content cfg ds fa f cs :
    NoDup (map p_key (f_parts f)) ->
    feat_calls A d z enum cfg ds fa f = Ok cs ->
    forall p, In p (f_parts f) ->
      if sel_fast fa (ds_hdf5 ds)
      then content cs (f_name f) (p_key p) = whole_spec (f_kind f) (p_data p)
      else exists fl, fa = Some fl
             /\ content cs (f_name f) (p_key p)
                = filtered_spec d enum (f_kind f) fl (p_data p)
             /\ (forall j, In j (where_ fl) -> 0 <= j < len (p_data p)).
  Proof.
    intros Hnd H p Hp. unfold feat_calls in H. unfold sel_fast.
    assert (Hw : bind_all A (part_whole A enum (f_name f) (f_kind f)) (f_parts f)
                 = Ok cs ->
                 content cs (f_name f) (p_key p) = whole_spec (f_kind f) (p_data p)).
    { intros Hb.
      destruct (bind_all_pick A (part_whole A enum (f_name f) (f_kind f))
                  p_key (f_name f) (p_key p) (p_key p) (f_parts f) cs Hb)
        with (x := p) as (cp & Hcp & Hc); auto.
      - intros x cx Hx Hne. apply part_whole_tagged in Hx.
        apply (content_other A enum cx _ _ _ _ Hx). now right.
      - rewrite Hc. now apply part_whole_content in Hcp. }
    destruct fa as [fl|]; [|now apply Hw].
    destruct (forallb (fun b => b) fl && ds_hdf5 ds); [now apply Hw|].
    exists fl. split; [reflexivity|].
    now apply (store_filtered_content A d z enum cfg f fl cs Hnd H p Hp).
  Qed.

  (* ---- lookups -------------------------------------------------------------- *)
  Lemma lookup_some n fs f : lookup A n fs = Some f -> f_name f = n /\ In f fs.
  Proof.
    induction fs as [|g t IH]; cbn [lookup]; [discriminate|].
    destruct (f_name g =? n) eqn:E.
    - intros [= <-]. split; [lia|now left].
    - intros H. destruct (IH H). split; [assumption|now right].
  Qed.

  Lemma lookup_all_ok ds names fs :
    lookup_all A ds names = Ok fs ->
    map f_name fs = names /\ Forall (fun f => In f (ds_feats ds)) fs.
  Proof.
    revert fs; induction names as [|n t IH]; intros fs H; cbn [lookup_all] in H.
    - inversion H. split; [reflexivity|constructor].
    - destruct (lookup A n (ds_feats ds)) as [f|] eqn:El; [|discriminate].
      destruct (lookup_all A ds t) as [r|c]; cbn [bind] in H; [|discriminate].
      inversion H; subst. destruct (IH r eq_refl) as [H1 H2].
      apply lookup_some in El. destruct El as [E1 E2].
      split; [cbn [map]; now rewrite E1, H1|constructor; assumption].
  Qed.

  Lemma in_lengths fs f p :
    In f fs -> In p (f_parts f) -> In (len (p_data p)) (lengths A fs).
  Proof.
    intros Hf Hp. unfold lengths. apply in_flat_map. exists f. split; [assumption|].
    apply in_map_iff. exists p. split; [reflexivity|assumption].
  Qed.

  Lemma lengths_inv fs x :
    In x (lengths A fs) ->
    exists f p, In f fs /\ In p (f_parts f) /\ x = len (p_data p).
  Proof.
    unfold lengths. intros H. apply in_flat_map in H. destruct H as (f & Hf & H).
    apply in_map_iff in H. destruct H as (p & <- & Hp). eauto.
  Qed.

  (* ---- the filter array in use selects what the specification says -------------- *)
  Lemma spec_idx_lim_eq filtered filt l (data : list A) :
    l = len data ->
    spec_idx A filtered filt (Some l) data = spec_idx A filtered filt None data.
  Proof.
    intros ->. unfold spec_idx. apply filter_ext. intros i. lia.
  Qed.

  Lemma sel_spec_plain (h5 : bool) (filt : list bool) (filtered : bool) (data : list A) :
    len data <= len filt ->
    let fa := if filtered return option (list bool) then Some filt else None in
    if sel_fast fa h5
    then spec_idx A filtered filt None data = zrange 0 (length data)
    else forall fl, fa = Some fl ->
           (forall j, In j (where_ fl) -> 0 <= j < len data) ->
           spec_idx A filtered filt None data = where_ fl.
  Proof.
    intros Hle. destruct filtered; cbn [sel_fast].
    - destruct (forallb (fun b => b) filt && h5) eqn:Ef.
      + apply andb_prop in Ef. destruct Ef as [Ef _].
        unfold spec_idx, where_. rewrite where_from_all_true by assumption.
        rewrite (filter_ext _ (fun j => j <? len data)) by (intros i; lia).
        rewrite filter_lt_zrange by (unfold len in *; lia).
        f_equal. unfold len. lia.
      + intros fl [= <-] Hr. unfold spec_idx. apply filter_true.
        intros j Hj. specialize (Hr j Hj). lia.
    - unfold spec_idx. apply filter_true. intros j Hj.
      apply zrange_bounds in Hj. unfold len. lia.
  Qed.

  Lemma sel_spec ds filt filtered skip fs f p :
    len filt = ds_len ds ->
    (forall f' p', In f' fs -> In p' (f_parts f') ->
                   len (p_data p') <= ds_len ds) ->
    In f fs -> In p (f_parts f) ->
    if sel_fast (filter_arr A ds filt filtered skip fs) (ds_hdf5 ds)
    then spec_idx A filtered filt (spec_lim A skip fs) (p_data p)
         = zrange 0 (length (p_data p))
    else forall fl, filter_arr A ds filt filtered skip fs = Some fl ->
           (forall j, In j (where_ fl) -> 0 <= j < len (p_data p)) ->
           spec_idx A filtered filt (spec_lim A skip fs) (p_data p) = where_ fl.
  Proof.
    intros Hlen Hle Hf Hp.
    pose proof (Hle f p Hf Hp) as Hdata.
    pose proof (sel_spec_plain (ds_hdf5 ds) filt filtered (p_data p)
                  ltac:(lia)) as Hplain. cbv zeta in Hplain.
    unfold filter_arr, spec_lim. destruct skip; [exact Hplain|].
    pose proof (in_lengths fs f p Hf Hp) as Hin.
    destruct (lengths A fs) as [|h t] eqn:El; [exact Hplain|].
    set (lmin := zmin_list h t). set (lmax := zmax_list h t).
    pose proof (zmin_le h t _ Hin) as Hmin. fold lmin in Hmin.
    pose proof (zmax_ge h t _ Hin) as Hmax. fold lmax in Hmax.
    destruct (lmin =? lmax) eqn:Eq.
    - rewrite spec_idx_lim_eq by lia. exact Hplain.
    - assert (H0 : 0 <= lmin).
      { pose proof (zmin_in h t) as Hi. fold lmin in Hi. rewrite <- El in Hi.
        apply lengths_inv in Hi. destruct Hi as (f' & p' & _ & _ & ->).
        apply len_nonneg. }
      assert (Hmaxle : lmax <= ds_len ds).
      { pose proof (zmax_in h t) as Hi. fold lmax in Hi. rewrite <- El in Hi.
        apply lengths_inv in Hi. destruct Hi as (f' & p' & Hf' & Hp' & ->).
        now apply (Hle f' p'). }
      set (base := match (if filtered then Some filt else None) with
                   | Some f0 => f0
                   | None => repeat true (Z.to_nat (ds_len ds))
                   end).
      assert (Hbase : len base = ds_len ds).
      { unfold base. destruct filtered; [assumption|].
        unfold len. rewrite repeat_length.
        pose proof (len_nonneg filt). lia. }
      cbn [sel_fast].
      destruct (forallb (fun b => b) (trunc lmin base) && ds_hdf5 ds) eqn:Ef.
      + exfalso. apply andb_prop in Ef. destruct Ef as [Ef _].
        destruct (Z_lt_ge_dec lmin (len base)) as [Hlt|Hge].
        * rewrite forallb_trunc_false in Ef by assumption. discriminate.
        * lia.
      + intros fl [= <-] Hr. rewrite where_trunc by assumption.
        unfold spec_idx, base. destruct filtered.
        * apply filter_ext. intros i. lia.
        * unfold where_ at 1.
          rewrite where_from_all_true by apply forallb_repeat_true.
          rewrite repeat_length.
          rewrite (filter_ext _ (fun j => j <? lmin)) by (intros i; lia).
          rewrite !filter_lt_zrange; [reflexivity| |unfold len in *; lia].
          pose proof (len_nonneg filt). lia.
  Qed.

  (* ---- Export.hdf5 --------------------------------------------------------------- *)
  Lemma first_call_in (t : list call) : forall best,
    first_call A best t = best
    \/ exists ev, In (fst (first_call A best t), snd (first_call A best t), ev) t.
  Proof.
    induction t as [|[[n k] ev] t IH]; intros best; cbn [first_call]; [now left|].
    destruct best as [bn bk].
    destruct ((n <? bn) || ((n =? bn) && (k <? bk))).
    - destruct (IH (n, k)) as [E|(ev' & H)].
      + right. exists ev. rewrite E. now left.
      + right. exists ev'. now right.
    - destruct (IH (bn, bk)) as [E|(ev' & H)]; [now left|].
      right. exists ev'. now right.
  Qed.

  Lemma calls_of_features cfg ds fa fs cs :
    bind_all A (feat_calls A d z enum cfg ds fa) fs = Ok cs ->
    Forall (fun cl : call => exists f p, In f fs /\ In p (f_parts f)
              /\ fst (fst cl) = f_name f /\ snd (fst cl) = p_key p) cs.
  Proof.
    intros Eb. apply bind_all_ok in Eb. destruct Eb as (rs & HF & ->).
    induction HF as [|f c gs rs Hf HF IH]; [constructor|].
    cbn [concat]. apply Forall_app. split.
    - apply feat_calls_tagged in Hf. eapply Forall_impl; [|exact Hf].
      cbv beta. intros cl [H1 (p & Hp & H2)]. exists f, p.
      repeat split; auto. now left.
    - eapply Forall_impl; [|exact IH]. cbv beta.
      intros cl (f' & p & Hf' & Hp & H1 & H2). exists f', p.
      repeat split; auto. now right.
  Qed.

  Lemma export_selects cfg ds filt filtered skip req (calls : list call) cnt :
    wf_ds A ds -> len filt = ds_len ds ->
    export A d z enum cfg ds filt filtered skip req = Ok (calls, cnt) ->
    exists fs,
      lookup_all A ds (sortset req) = Ok fs
      /\ map f_name fs = sortset req
      /\ (forall f p, In f fs -> In p (f_parts f) ->
            content calls (f_name f) (p_key p)
            = spec_content A d enum filtered filt (spec_lim A skip fs)
                           (f_kind f) (p_data p))
      /\ (forall n k, ~ In n (sortset req) -> content calls n k = [])
      /\ (calls <> [] -> exists f p, In f fs /\ In p (f_parts f)
            /\ cnt = len (content calls (f_name f) (p_key p)))
      /\ (calls = [] ->
            cnt = match filter_arr A ds filt filtered skip fs with
                  | Some fl => count_true fl
                  | None => ds_count ds
                  end).
  Proof.
    intros Hwf Hlen H. unfold export in H.
    destruct (lookup_all A ds (sortset req)) as [fs|c] eqn:El; cbn [bind] in H;
      [|discriminate].
    set (fa := filter_arr A ds filt filtered skip fs) in *.
    destruct (bind_all A (feat_calls A d z enum cfg ds fa) fs) as [cs|c] eqn:Eb;
      cbn [bind] in H; [|discriminate].
    inversion H; subst calls cnt. clear H.
    destruct (lookup_all_ok ds _ fs El) as [Hnames Hin].
    rewrite Forall_forall in Hin. unfold wf_ds in Hwf. rewrite Forall_forall in Hwf.
    assert (Hnd : NoDup (map f_name fs)).
    { rewrite Hnames. apply sortset_spec. }
    assert (Hoth : forall n k x cx, feat_calls A d z enum cfg ds fa x = Ok cx ->
                     f_name x <> n -> content cx n k = []).
    { intros n k x cx Hx Hne. apply feat_calls_tagged in Hx.
      now apply content_other_feature with (f := x). }
    exists fs. split; [reflexivity|]. split; [assumption|].
    split; [|split; [|split]].
    - intros f p Hf Hp.
      destruct (bind_all_pick A (feat_calls A d z enum cfg ds fa) f_name
                  (f_name f) (p_key p) (f_name f) fs cs Eb (Hoth _ _) Hnd f Hf eq_refl)
        as (cf & Hcf & ->).
      destruct (Hwf f (Hin f Hf)) as [Hkeys _].
      pose proof (feat_calls_content cfg ds fa f cf Hkeys Hcf p Hp) as Hc.
      pose proof (sel_spec ds filt filtered skip fs f p Hlen) as Hs.
      fold fa in Hs. specialize (Hs ltac:(
        intros f' p' Hf' Hp'; destruct (Hwf f' (Hin f' Hf')) as [_ Hl];
        rewrite Forall_forall in Hl; now apply Hl) Hf Hp).
      unfold spec_content. destruct (sel_fast fa (ds_hdf5 ds)).
      + rewrite Hc, Hs. unfold whole_spec.
        rewrite zrange_length, (take_zrange d). destruct (f_kind f); reflexivity.
      + destruct Hc as (fl & Efa & Hc & Hr). rewrite Hc, (Hs fl Efa Hr).
        unfold filtered_spec. pose proof (where_length fl) as Hw. unfold len in Hw.
        replace (Z.to_nat (count_true fl)) with (length (where_ fl)) by lia.
        destruct (f_kind f); reflexivity.
    - intros n k Hn.
      apply (bind_all_none A (feat_calls A d z enum cfg ds fa) f_name n k n fs cs Eb
               (Hoth n k)).
      now rewrite Hnames.
    - intros Hne. unfold event_count.
      pose proof (calls_of_features cfg ds fa fs cs Eb) as Hall.
      rewrite Forall_forall in Hall.
      destruct cs as [|[[n0 k0] ev0] t]; [congruence|].
      destruct (first_call A (n0, k0) t) as [bn bk] eqn:Efc.
      assert (Hinc : exists ev, In (bn, bk, ev) ((n0, k0, ev0) :: t)).
      { destruct (first_call_in t (n0, k0)) as [E|(ev & Hev)].
        - rewrite Efc in E. inversion E; subst. exists ev0. now left.
        - rewrite Efc in Hev. cbn [fst snd] in Hev. exists ev. now right. }
      destruct Hinc as (ev & Hev).
      destruct (Hall _ Hev) as (f & p & Hf & Hp & H1 & H2).
      cbn [fst snd] in H1, H2. subst bn bk. exists f, p. auto.
    - intros ->. reflexivity.
  Qed.
End ExportProofs2.

(* ---- the export is not total: the two known failure classes ------------------- *)
Definition ex_ds_nonsliceable : dset Z :=
  mkDs Z false 2 2 [mkFeat Z 0 KImage [mkPart Z 0 true false 1 [5; 6]]].
Definition ex_ds_short : dset Z :=
  mkDs Z false 3 3 [mkFeat Z 0 KContour [mkPart Z 0 false false 8 [5]]].

Lemma export_total_refuted :
  (exists (ds : dset Z) filt req,
      wf_ds Z ds /\ len filt = ds_len ds /\
      export Z 0 0 (fun k => k) 1 ds filt true false req = Err 1)
  /\ (exists (ds : dset Z) filt req,
      wf_ds Z ds /\ len filt = ds_len ds /\
      export Z 0 0 (fun k => k) 1 ds filt true false req = Err 2).
Proof.
  split.
  - exists ex_ds_nonsliceable, [true; false], [0].
    split; [|split; [reflexivity|vm_compute; reflexivity]].
    unfold wf_ds, ex_ds_nonsliceable; cbn.
    repeat constructor; auto; cbv; discriminate.
  - exists ex_ds_short, [true; true; true], [0].
    split; [|split; [reflexivity|vm_compute; reflexivity]].
    unfold wf_ds, ex_ds_short; cbn.
    repeat constructor; auto; cbv; discriminate.
Qed.

(* non-vacuity of export_selects: a hierarchy-like source, chunked image *)
Example ex_export_ok :
  let ds := mkDs Z false 4 4
              [mkFeat Z 0 KScalar [mkPart Z 0 true true 8 [10; 11; 12; 13]];
               mkFeat Z 1 KImage [mkPart Z 0 false false 54 [20; 21; 22; 23]]] in
  wf_ds Z ds
  /\ export Z 0 0 (fun k => k) 1 ds [true; false; true; true] true false [1; 0; 1]
     = Ok ([(0, 0, [10; 12; 13]); (1, 0, [20; 22; 23])], 3).
Proof.
  split; [|vm_compute; reflexivity].
  unfold wf_ds; cbn. repeat constructor; auto; cbv; discriminate.
Qed.

(* ---- Export.tsv ------------------------------------------------------------------ *)
Section Tsv.
  Variable A : Type.
  Variable d : A.

  Definition tsv_col_ok (ds : dset A) (filt : list bool) (filtered : bool)
             (n : Z) (col : list A) : Prop :=
    exists f p, lookup A n (ds_feats ds) = Some f /\ f_parts f = [p]
      /\ (f_kind f = KScalar \/ f_kind f = KIndex)
      /\ col = if filtered then take d (p_data p) (where_ filt) else p_data p.

  Lemma tsv_cols_spec ds filt filtered req cols :
    tsv_cols A ds filt filtered req = Ok cols ->
    Forall2 (tsv_col_ok ds filt filtered) (sortset req) cols.
  Proof.
    unfold tsv_cols. generalize (sortset req) as names. intros names. revert cols.
    induction names as [|n t IH]; intros cols H.
    - inversion H. constructor.
    - lazy beta iota in H.
      destruct (lookup A n (ds_feats ds)) as [[nm k ps]|] eqn:El; [|discriminate].
      destruct k; destruct ps as [|p [|q ps]]; try discriminate;
        (destruct (filtered && negb (len filt =? len (p_data p))) eqn:Ec;
           [discriminate|];
         match type of H with bind ?g _ = _ => destruct g as [r|c] eqn:Eg end;
         cbn [bind] in H; [|discriminate];
         inversion H; subst; constructor; [|now apply IH];
         eexists (mkFeat A nm _ [p]), p; cbn [f_parts f_kind];
         split; [exact El|]; split; [reflexivity|]; split; [auto|];
         destruct filtered; [|reflexivity];
         apply mask_select_take; unfold len in Ec; lia).
  Qed.

  Lemma transpose_nth (cols : list (list A)) r j :
    (r < length (nth 0 cols []))%nat -> (j < length cols)%nat ->
    nth j (nth r (transpose A d cols) []) d = nth r (nth j cols []) d.
  Proof.
    intros Hr Hj. unfold transpose. destruct cols as [|c0 cs]; [simpl in Hj; lia|].
    cbn [nth] in Hr.
    set (f := fun r0 => map (fun col : list A => nth r0 col d) (c0 :: cs)).
    rewrite (nth_indep _ [] (f 0%nat)) by (now rewrite map_length, seq_length).
    rewrite map_nth. rewrite seq_nth by assumption. cbn [Nat.add]. unfold f.
    rewrite (nth_indep _ d ((fun col : list A => nth r col d) []))
      by (now rewrite map_length).
    apply (map_nth (fun col : list A => nth r col d)).
  Qed.

  Lemma tsv_rows_spec ds filt filtered req rows :
    tsv_rows A d ds filt filtered req = Ok rows ->
    exists cols,
      tsv_cols A ds filt filtered req = Ok cols
      /\ rows = transpose A d cols
      /\ Forall2 (tsv_col_ok ds filt filtered) (sortset req) cols
      /\ (forall r j, (r < length (nth 0 cols []))%nat -> (j < length cols)%nat ->
            nth j (nth r rows []) d = nth r (nth j cols []) d).
  Proof.
    unfold tsv_rows. intros H.
    destruct (tsv_cols A ds filt filtered req) as [cols|c] eqn:E; cbn [bind] in H;
      [|discriminate].
    inversion H; subst. exists cols. split; [reflexivity|]. split; [reflexivity|].
    split; [now apply tsv_cols_spec|]. intros r j. apply transpose_nth.
  Qed.
End Tsv.

Example ex_tsv :
  tsv_rows Z 0 (mkDs Z false 3 3
                  [mkFeat Z 0 KScalar [mkPart Z 0 true true 8 [10; 11; 12]];
                   mkFeat Z 1 KScalar [mkPart Z 0 true true 8 [20; 21; 22]]])
           [true; false; true] true [1; 0; 1]
  = Ok [[10; 20]; [12; 22]].
Proof. vm_compute. reflexivity. Qed.

(* ---- outside the failure classes the export returns ---------------------------- *)
Section Total.
  Variable A : Type.
  Variables (d z : A) (enum : Z -> A).

  Definition feat_guard (ds : dset A) (filtered : bool) (f : feat A) : bool :=
    forallb (part_guard A ds filtered (f_kind f)) (f_parts f).

  Lemma lookup_all_total ds filtered names :
    forallb (fun n => match lookup A n (ds_feats ds) with
                      | None => false
                      | Some f => feat_guard ds filtered f
                      end) names = true ->
    exists fs, lookup_all A ds names = Ok fs
               /\ Forall (fun f => feat_guard ds filtered f = true) fs.
  Proof.
    induction names as [|n t IH]; intros H; cbn [lookup_all].
    - exists []. split; [reflexivity|constructor].
    - cbn [forallb] in H. apply andb_prop in H. destruct H as [H1 H2].
      destruct (lookup A n (ds_feats ds)) as [f|]; [|discriminate].
      destruct (IH H2) as (fs & -> & HF). cbn [bind].
      exists (f :: fs). split; [reflexivity|constructor; assumption].
  Qed.

  Definition nd (k : kind) : bool :=
    match k with KImage | KTrace | KOther => true | _ => false end.

  Lemma whole_total n k parts :
    (forall p, In p parts -> nd k = true -> p_fancy p = true) ->
    exists cs, bind_all A (part_whole A enum n k) parts = Ok cs.
  Proof.
    intros H. apply bind_all_total. intros p Hp. unfold part_whole.
    destruct k; eauto; rewrite (H p Hp eq_refl); eauto.
  Qed.

  Lemma filtered_total cfg f fl :
    (forall p, In p (f_parts f) ->
       in_range (len (p_data p)) (where_ fl) = true
       /\ (nd (f_kind f) = false -> f_kind f <> KContour ->
           len fl = len (p_data p))
       /\ (nd (f_kind f) = true -> p_slice p = true -> p_fancy p = true)) ->
    exists cs, store_filtered A d z enum cfg f fl = Ok cs.
  Proof.
    intros H. unfold store_filtered.
    destruct (where_ fl) eqn:Ew; [eauto|]. rewrite <- Ew in H. clear Ew.
    apply bind_all_total. intros p Hp. destruct (H p Hp) as (Hr & Hs & Hf).
    unfold part_filtered, part_stacks.
    destruct (f_kind f) eqn:Ek; cbn [nd] in Hs, Hf; rewrite ?Hr.
    - rewrite (Hs eq_refl ltac:(discriminate)), Z.eqb_refl. eauto.
    - rewrite (Hs eq_refl ltac:(discriminate)), Z.eqb_refl. eauto.
    - eauto.
    - destruct (p_slice p); [rewrite (Hf eq_refl eq_refl)|]; cbn [negb bind]; eauto.
    - destruct (p_slice p); [rewrite (Hf eq_refl eq_refl)|]; cbn [negb bind]; eauto.
    - destruct (p_slice p); [rewrite (Hf eq_refl eq_refl)|]; cbn [negb bind]; eauto.
  Qed.

  Lemma in_range_where n f : len f <= n -> in_range n (where_ f) = true.
  Proof.
    intros H. unfold in_range. apply forallb_forall. intros j Hj.
    apply where_in_range in Hj. lia.
  Qed.

  (* facts a guarded array provides *)
  Lemma part_guard_facts ds filtered k p :
    part_guard A ds filtered k p = true ->
    len (p_data p) <= ds_len ds
    /\ (nd k = false -> k <> KContour -> len (p_data p) = ds_len ds)
    /\ (nd k = true -> p_fancy p = true
        \/ (p_slice p = false /\ filtered = true /\ ds_hdf5 ds = false)).
  Proof.
    unfold part_guard. intros H. destruct k; cbn [nd].
    - split; [lia|]. split; [intros; lia|discriminate].
    - split; [lia|]. split; [intros; lia|discriminate].
    - split; [lia|]. split; [congruence|discriminate].
    - apply andb_prop in H. destruct H as [H1 H2]. split; [lia|].
      split; [discriminate|]. intros _.
      destruct (p_fancy p); [now left|right].
      destruct (p_slice p), filtered, (ds_hdf5 ds); cbn in H2; try discriminate; auto.
    - apply andb_prop in H. destruct H as [H1 H2]. split; [lia|].
      split; [discriminate|]. intros _.
      destruct (p_fancy p); [now left|right].
      destruct (p_slice p), filtered, (ds_hdf5 ds); cbn in H2; try discriminate; auto.
    - apply andb_prop in H. destruct H as [H1 H2]. split; [lia|].
      split; [discriminate|]. intros _.
      destruct (p_fancy p); [now left|right].
      destruct (p_slice p), filtered, (ds_hdf5 ds); cbn in H2; try discriminate; auto.
  Qed.

  (* no clipping of the filter: every array spans the dataset *)
  Lemma feat_total_plain cfg ds filt filtered f :
    len filt = ds_len ds -> feat_guard ds filtered f = true ->
    (forall p, In p (f_parts f) -> len (p_data p) = ds_len ds) ->
    exists cs, feat_calls A d z enum cfg ds
                 (if filtered then Some filt else None) f = Ok cs.
  Proof.
    intros Hlen Hg Hall. unfold feat_guard in Hg. rewrite forallb_forall in Hg.
    assert (Hwhole : ds_hdf5 ds = true \/ filtered = false ->
              exists cs, bind_all A (part_whole A enum (f_name f) (f_kind f))
                           (f_parts f) = Ok cs).
    { intros Hfast. apply whole_total. intros p Hp Hnd.
      destruct (part_guard_facts _ _ _ _ (Hg p Hp)) as (_ & _ & Hf).
      destruct (Hf Hnd) as [Hy|(_ & H2 & H3)]; [assumption|].
      destruct Hfast; congruence. }
    unfold feat_calls. destruct filtered; [|apply Hwhole; now right].
    destruct (forallb (fun b => b) filt && ds_hdf5 ds) eqn:Ef.
    - apply Hwhole. left. apply andb_prop in Ef. tauto.
    - apply filtered_total. intros p Hp.
      destruct (part_guard_facts _ _ _ _ (Hg p Hp)) as (_ & _ & Hf).
      pose proof (Hall p Hp) as Hl.
      split; [apply in_range_where; lia|]. split; [intros; lia|].
      intros Hnd Hs. destruct (Hf Hnd) as [Hy|(H1 & _)]; congruence.
  Qed.

  Lemma export_total_partial cfg ds filt filtered skip req :
    len filt = ds_len ds ->
    export_guard A ds filtered skip req = true ->
    exists calls cnt,
      export A d z enum cfg ds filt filtered skip req = Ok (calls, cnt).
  Proof.
    intros Hlen Hg. unfold export_guard in Hg. apply andb_prop in Hg.
    destruct Hg as [Hg Hl].
    destruct (lookup_all_total ds filtered (sortset req) Hg) as (fs & El & HF).
    rewrite El in Hl. unfold export. rewrite El. cbn [bind].
    rewrite Forall_forall in HF.
    enough (Hfeat : forall f, In f fs -> exists cs,
              feat_calls A d z enum cfg ds
                (filter_arr A ds filt filtered skip fs) f = Ok cs).
    { destruct (bind_all_total A _ fs Hfeat) as (calls & ->). cbn [bind]. eauto. }
    assert (Hpg : forall f p, In f fs -> In p (f_parts f) ->
              part_guard A ds filtered (f_kind f) p = true).
    { intros f p Hf Hp. specialize (HF f Hf). unfold feat_guard in HF.
      rewrite forallb_forall in HF. now apply HF. }
    assert (Hle : forall x, In x (lengths A fs) -> x <= ds_len ds).
    { intros x Hx. apply lengths_inv in Hx. destruct Hx as (f & p & Hf & Hp & ->).
      now destruct (part_guard_facts _ _ _ _ (Hpg f p Hf Hp)). }
    unfold filter_arr, lens_guard in *.
    assert (Hplain : (forall x, In x (lengths A fs) -> x = ds_len ds) ->
              forall f, In f fs -> exists cs, feat_calls A d z enum cfg ds
                (if filtered then Some filt else None) f = Ok cs).
    { intros Hall f Hf. apply feat_total_plain; auto.
      intros p Hp. apply Hall. now apply in_lengths with (f := f). }
    destruct skip.
    - apply Hplain. intros x Hx. rewrite forallb_forall in Hl.
      specialize (Hl x Hx). lia.
    - destruct (lengths A fs) as [|h t] eqn:Els.
      + apply Hplain. intros x [].
      + set (lmin := zmin_list h t) in *. set (lmax := zmax_list h t) in *.
        apply existsb_exists in Hl. destruct Hl as (x0 & Hx0 & Ex0).
        assert (Ex : x0 = ds_len ds) by lia. subst x0. clear Ex0.
        pose proof (zmin_le h t _ Hx0) as H1. fold lmin in H1.
        pose proof (zmax_ge h t _ Hx0) as H2. fold lmax in H2.
        pose proof (Hle _ (zmax_in h t)) as H3. fold lmax in H3.
        destruct (lmin =? lmax) eqn:Eq.
        * apply Hplain. intros x Hx.
          pose proof (zmin_le h t _ Hx). pose proof (zmax_ge h t _ Hx).
          fold lmin in H. fold lmax in H0. lia.
        * assert (H0 : 0 <= lmin).
          { pose proof (zmin_in h t) as Hi. fold lmin in Hi. rewrite <- Els in Hi.
            apply lengths_inv in Hi. destruct Hi as (f' & p' & _ & _ & ->).
            apply len_nonneg. }
          set (base := match (if filtered then Some filt else None) with
                       | Some f0 => f0
                       | None => repeat true (Z.to_nat (ds_len ds))
                       end).
          assert (Hbase : len base = ds_len ds).
          { unfold base. destruct filtered; [assumption|].
            unfold len. rewrite repeat_length.
            pose proof (len_nonneg filt). lia. }
          intros f Hf. unfold feat_calls.
          rewrite forallb_trunc_false by lia. cbn [andb].
          apply filtered_total. intros p Hp.
          destruct (part_guard_facts _ _ _ _ (Hpg f p Hf Hp)) as (Ha & Hb & Hc).
          assert (Hin : In (len (p_data p)) (h :: t)).
          { rewrite <- Els. now apply in_lengths with (f := f). }
          pose proof (zmin_le h t _ Hin) as Hm. fold lmin in Hm.
          split; [|split].
          -- unfold in_range. apply forallb_forall. intros j Hj.
             rewrite where_trunc in Hj by assumption.
             apply filter_In in Hj. destruct Hj as [Hj1 Hj2].
             apply where_in_range in Hj1. lia.
          -- intros Hn Hk. rewrite (Hb Hn Hk). unfold len in *.
             rewrite trunc_length. lia.
          -- intros Hn Hs. destruct (Hc Hn) as [Hy|(Hy & _)]; congruence.
  Qed.
End Total.

Example ex_guard :
  export_guard Z (mkDs Z false 4 4
      [mkFeat Z 0 KScalar [mkPart Z 0 true true 8 [10; 11; 12; 13]];
       mkFeat Z 1 KImage [mkPart Z 0 false false 54 [20; 21; 22]]])
    true false [1; 0; 1] = true.
Proof. vm_compute. reflexivity. Qed.

(* ---- uniform event count, metadata ------------------------------------------- *)
Section Uniform.
  Variable A : Type.
  Variables (d z : A) (enum : Z -> A).

  Lemma spec_content_len filtered filt fs f p :
    In f fs -> In p (f_parts f) ->
    len (spec_content A d enum filtered filt (spec_lim A false fs)
                      (f_kind f) (p_data p))
    = spec_count filtered filt (spec_lim A false fs).
  Proof.
    intros Hf Hp. pose proof (in_lengths A fs f p Hf Hp) as Hin.
    unfold spec_lim. destruct (lengths A fs) as [|h t] eqn:El; [destruct Hin|].
    pose proof (zmin_le h t _ Hin) as Hmin.
    assert (H0 : 0 <= zmin_list h t).
    { pose proof (zmin_in h t) as Hi. rewrite <- El in Hi.
      apply lengths_inv in Hi. destruct Hi as (f' & p' & _ & _ & ->).
      apply len_nonneg. }
    set (lmin := zmin_list h t) in *.
    assert (Hl : len (spec_content A d enum filtered filt (Some lmin)
                        (f_kind f) (p_data p))
                 = len (spec_idx A filtered filt (Some lmin) (p_data p))).
    { unfold spec_content, len, take.
      destruct (f_kind f); rewrite map_length, ?zrange_length; reflexivity. }
    rewrite Hl. unfold spec_idx, spec_count.
    rewrite (filter_ext _ (fun j => j <? lmin)) by (intros i; lia).
    destruct filtered; [reflexivity|].
    rewrite filter_lt_zrange by (unfold len in *; lia).
    unfold len. rewrite zrange_length. lia.
  Qed.

  Lemma export_uniform cfg ds filt filtered req (calls : list (call A)) cnt :
    wf_ds A ds -> len filt = ds_len ds ->
    export A d z enum cfg ds filt filtered false req = Ok (calls, cnt) ->
    exists fs,
      lookup_all A ds (sortset req) = Ok fs
      /\ (forall f p, In f fs -> In p (f_parts f) ->
            len (content A calls (f_name f) (p_key p))
            = spec_count filtered filt (spec_lim A false fs))
      /\ (calls <> [] -> cnt = spec_count filtered filt (spec_lim A false fs)).
  Proof.
    intros Hwf Hlen H.
    destruct (export_selects A d z enum cfg ds filt filtered false req calls cnt
                Hwf Hlen H) as (fs & El & _ & Hc & _ & Hcnt & _).
    exists fs. split; [assumption|]. split.
    - intros f p Hf Hp. rewrite (Hc f p Hf Hp). now apply spec_content_len.
    - intros Hne. destruct (Hcnt Hne) as (f & p & Hf & Hp & ->).
      rewrite (Hc f p Hf Hp). now apply spec_content_len.
  Qed.

  Lemma export_meta_spec rnd cfg pre f0 ds innate sm filt filtered skip logs tables
        basins features (calls : list (call A)) om :
    wf_ds A ds -> len filt = ds_len ds ->
    export_full A d z enum rnd cfg pre f0 ds innate sm filt filtered skip logs
                tables basins features = Ok (calls, om) ->
    exists cnt,
      export A d z enum cfg ds filt filtered skip (req_features features innate)
      = Ok (calls, cnt)
      /\ om_count om = cnt
      /\ (filtered = true -> om_runid om = Some (meas_id sm, Some rnd))
      /\ (filtered = false ->
            om_runid om = match sm_runid sm with
                          | Some r => Some (Some r, None)
                          | None => None
                          end)
      /\ om_sample om = sm_sample sm
      /\ (features = None -> forall n k, ~ In n innate -> content A calls n k = [])
      /\ (features = Some [] ->
            calls = [] /\ cnt = if filtered then count_true filt else ds_count ds).
  Proof.
    intros Hwf Hlen H. unfold export_full in H.
    destruct (export A d z enum cfg ds filt filtered skip
                (req_features features innate)) as [[cs cnt]|c] eqn:E;
      cbn [bind] in H; [|discriminate].
    cbn [fst snd] in H. inversion H; subst calls om. clear H.
    exists cnt. split; [reflexivity|]. split; [reflexivity|].
    cbn [om_runid om_sample export_meta].
    split; [intros ->; reflexivity|]. split; [intros ->; reflexivity|].
    split; [reflexivity|]. split.
    - intros -> n k Hn. cbn [req_features] in E.
      destruct (export_selects A d z enum cfg ds filt filtered skip innate cs cnt
                  Hwf Hlen E) as (fs & _ & _ & _ & Hno & _).
      apply Hno. now rewrite sortset_In.
    - intros ->. cbn [req_features] in E. unfold export in E.
      cbn [sortset fold_right lookup_all bind bind_all] in E.
      unfold filter_arr, event_count in E. cbn [lengths flat_map] in E.
      destruct skip, filtered; inversion E; split; reflexivity.
  Qed.
End Uniform.

(* ---- logs and tables: contents under the prefixed names ------------------------- *)
Lemma text_miss pre (src : list text) m :
  (forall n, In n (map fst src) -> pre n <> m) ->
  text_content (text_calls true pre src) m = [].
Proof.
  induction src as [|[n0 l0] t IH]; intros H; [reflexivity|].
  cbn [text_calls map text_content flat_map fst snd] in *.
  replace (pre n0 =? m) with false by (specialize (H n0 (or_introl eq_refl)); lia).
  cbn [app]. apply IH. intros n Hn. apply H. now right.
Qed.

Lemma text_calls_spec (pre : Z -> Z) (src : list text) :
  NoDup (map fst src) -> (forall a b, pre a = pre b -> a = b) ->
  (forall n l, In (n, l) src ->
     text_content (text_calls true pre src) (pre n) = l)
  /\ (forall m, (forall n, In n (map fst src) -> pre n <> m) ->
        text_content (text_calls true pre src) m = [])
  /\ (forall m, text_content (text_calls false pre src) m = []).
Proof.
  intros Hnd Hinj. split; [|split; [intros m; apply text_miss|reflexivity]].
  induction src as [|[n0 l0] t IH]; intros n l Hin; [destruct Hin|].
  cbn [map fst] in Hnd. inversion Hnd as [|? ? Hni Hnd']; subst.
  cbn [text_calls map text_content flat_map fst snd].
  destruct Hin as [E|Hin].
  - inversion E; subst. rewrite Z.eqb_refl.
    change (flat_map _ (map _ t))
      with (text_content (text_calls true pre t) (pre n)).
    rewrite text_miss; [apply app_nil_r|].
    intros n' Hn' Epre. apply Hinj in Epre. subst. contradiction.
  - assert (Hne : n0 <> n).
    { intros ->. apply Hni. apply in_map_iff. exists (n, l). split; auto. }
    replace (pre n0 =? pre n) with false
      by (destruct (Z.eqb_spec (pre n0) (pre n)) as [E|]; [apply Hinj in E; contradiction|reflexivity]).
    cbn [app]. now apply IH.
Qed.

(* write_text *)
Lemma width_ge (lines : list line) l : In l lines -> len l <= width_of lines.
Proof.
  unfold width_of. induction lines as [|h t IH]; intros H; [destruct H|].
  cbn [fold_right]. destruct H as [->|H]; [lia|]. specialize (IH H). lia.
Qed.

Lemma fit_id w (l : line) : len l <= w -> fit w l = l.
Proof. intros H. unfold fit. apply firstn_all2. unfold len in H. lia. Qed.

Lemma fit_all (lines : list line) : map (fit (width_of lines)) lines = lines.
Proof.
  transitivity (map (fun x : line => x) lines); [|apply map_id].
  apply map_ext_in. intros l Hl. apply fit_id. now apply width_ge.
Qed.

Definition tnames (f : tfile) : list Z := map fst f.

Lemma write_text_other f name lines m :
  m <> name -> text_lookup (write_text f name lines) m = text_lookup f m.
Proof.
  intros Hne. induction f as [|[n [w old]] t IH]; cbn [write_text text_lookup].
  - replace (name =? m) with false by lia. reflexivity.
  - destruct (n =? name) eqn:E; cbn [text_lookup].
    + replace (n =? m) with false by lia. reflexivity.
    + now rewrite IH.
Qed.

(* a new name gets a width that fits every line: nothing is cut *)
Lemma write_text_fresh f name lines :
  ~ In name (tnames f) -> text_lookup (write_text f name lines) name = lines.
Proof.
  induction f as [|[n [w old]] t IH]; intros Hn; cbn [write_text text_lookup].
  - rewrite Z.eqb_refl. apply fit_all.
  - cbn [tnames map fst In] in Hn.
    replace (n =? name) with false by (destruct (Z.eqb_spec n name); tauto).
    cbn [text_lookup].
    replace (n =? name) with false by (destruct (Z.eqb_spec n name); tauto).
    apply IH. intros H. apply Hn. now right.
Qed.

Lemma write_text_names f name lines x :
  In x (tnames (write_text f name lines)) <-> x = name \/ In x (tnames f).
Proof.
  induction f as [|[n [w old]] t IH]; cbn [write_text].
  - cbn. intuition.
  - destruct (n =? name) eqn:E; cbn [tnames map fst In] in *.
    + apply Z.eqb_eq in E. subst. intuition.
    + rewrite IH. intuition.
Qed.

Lemma store_logs_spec (pre : Z -> Z) (src : list (Z * list line)) :
  NoDup (map fst src) -> (forall a b, pre a = pre b -> a = b) ->
  forall f0, (forall n, In n (map fst src) -> ~ In (pre n) (tnames f0)) ->
    (forall n l, In (n, l) src ->
       text_lookup (store_logs true pre src f0) (pre n) = l)
    /\ (forall m, (forall n, In n (map fst src) -> pre n <> m) ->
          text_lookup (store_logs true pre src f0) m = text_lookup f0 m).
Proof.
  unfold store_logs. intros Hnd Hinj.
  induction src as [|[n0 l0] t IH]; intros f0 Hfresh.
  - split; [intros n l []|reflexivity].
  - cbn [map fst] in Hnd. inversion Hnd as [|? ? Hni Hnd']; subst.
    cbn [fold_left fst snd].
    assert (Hf1 : forall n, In n (map fst t) ->
              ~ In (pre n) (tnames (write_text f0 (pre n0) l0))).
    { intros n Hn Hin. apply write_text_names in Hin. destruct Hin as [E|Hin].
      - apply Hinj in E. subst. contradiction.
      - apply (Hfresh n); [now right|assumption]. }
    destruct (IH Hnd' (write_text f0 (pre n0) l0) Hf1) as [IH1 IH2].
    split.
    + intros n l [E|Hin].
      * inversion E; subst. rewrite IH2.
        -- apply write_text_fresh. apply Hfresh. now left.
        -- intros n' Hn' E'. apply Hinj in E'. subst. contradiction.
      * now apply IH1.
    + intros m Hm. rewrite IH2 by (intros n Hn; apply Hm; now right).
      apply write_text_other. intros ->. apply (Hm n0); [now left|reflexivity].
Qed.

Lemma export_texts_spec (A : Type) (d z : A) (enum : Z -> A) rnd cfg pre f0 ds
      innate sm filt filtered skip logs tables basins features
      (calls : list (call A)) om :
  export_full A d z enum rnd cfg pre f0 ds innate sm filt filtered skip logs
              tables basins features = Ok (calls, om) ->
  (forall a b, pre a = pre b -> a = b) ->
  (NoDup (map fst (sm_logs sm)) ->
   (forall n, In n (map fst (sm_logs sm)) -> ~ In (pre n) (tnames f0)) ->
     (logs = true -> forall n l, In (n, l) (sm_logs sm) ->
        text_lookup (om_logs om) (pre n) = l)
     /\ (logs = true -> forall m, (forall n, In n (map fst (sm_logs sm)) ->
                                   pre n <> m) ->
        text_lookup (om_logs om) m = text_lookup f0 m)
     /\ (logs = false -> om_logs om = f0))
  /\ (NoDup (map fst (sm_tables sm)) ->
     (tables = true -> forall n l, In (n, l) (sm_tables sm) ->
        text_content (om_tables om) (pre n) = l)
     /\ (tables = true -> forall m, (forall n, In n (map fst (sm_tables sm)) ->
                                     pre n <> m) ->
        text_content (om_tables om) m = [])
     /\ (tables = false -> forall m, text_content (om_tables om) m = [])).
Proof.
  intros H Hinj. unfold export_full in H.
  destruct (export A d z enum cfg ds filt filtered skip
              (req_features features innate)) as [[cs cnt]|c];
    cbn [bind] in H; [|discriminate].
  inversion H; subst. cbn [om_logs om_tables export_meta].
  split.
  - intros Hnd Hfresh.
    destruct (store_logs_spec pre (sm_logs sm) Hnd Hinj f0 Hfresh) as (H1 & H2).
    repeat split; intros ->; auto.
  - intros Hnd.
    destruct (text_calls_spec pre (sm_tables sm) Hnd Hinj) as (H1 & H2 & H3).
    repeat split; intros ->; auto.
Qed.

(* non-vacuity, and the truncation the export never runs into: appending a
   longer line to an EXISTING log cuts it (C01's finding) *)
Example ex_write_text :
  text_lookup (write_text (write_text [] 5 [[1; 2]]) 5 [repeat 7 101]) 5
  = [[1; 2]; repeat 7 100]
  /\ text_lookup (write_text [] 5 [repeat 7 101; [1]]) 5 = [repeat 7 101; [1]].
Proof. vm_compute. split; reflexivity. Qed.

Example ex_export_full :
  export_full Z 0 0 (fun k => k) 7 1 (fun k => k + 1000) [(-1, (100, [[3]]))]
    (mkDs Z true 3 3 [mkFeat Z 0 KScalar [mkPart Z 0 true true 8 [10; 11; 12]];
                      mkFeat Z 1 KScalar [mkPart Z 0 true true 8 [20; 21; 22]]])
    [0] (mkSmeta None (Some 99) 5 [(1, [[41]; [42]]); (2, [[43]])] [(3, [44])])
    [true; false; true] true false true false true None
  = Ok ([(0, 0, [10; 12])],
        mkOmeta (Some (Some 99, Some 7)) 5 2
                [(-1, (100, [[3]])); (1001, (100, [[41]; [42]]));
                 (1002, (100, [[43]]))] []).
Proof. vm_compute. reflexivity. Qed.

(* ---- channel count -------------------------------------------------------------- *)
Lemma chcount_spec (src : option Z) (nfl : Z) :
  (forall c, src = Some c -> rectify_chcount src nfl = Some c)
  /\ (src = None -> 0 < nfl -> rectify_chcount src nfl = Some nfl)
  /\ (src = None -> nfl <= 0 -> rectify_chcount src nfl = None).
Proof.
  unfold rectify_chcount. repeat split.
  - intros c ->. reflexivity.
  - intros -> H. replace (0 <? nfl) with true by lia. reflexivity.
  - intros -> H. replace (0 <? nfl) with false by lia. reflexivity.
Qed.

Example ex_chcount :
  rectify_chcount (Some 3) (count_fl [5; 6; 7] [(6, 0, [1; 2])]) = Some 3
  /\ rectify_chcount None (count_fl [5; 6; 7] [(6, 0, [1; 2]); (2, 0, [4])]) = Some 1.
Proof. vm_compute. split; reflexivity. Qed.

(* finding C02-short-scalar-indexerror: a scalar shorter than the dataset is
   indexed with the boolean array of len(ds) entries although the filter was
   clipped to the common length *)
Lemma export_short_scalar_refuted :
  exists (ds : dset Z) filt req,
    wf_ds Z ds /\ len filt = ds_len ds /\
    export Z 0 0 (fun k => k) 1 ds filt true false req = Err 2.
Proof.
  exists (mkDs Z true 3 3
            [mkFeat Z 0 KScalar [mkPart Z 0 true true 8 [5; 6]];
             mkFeat Z 1 KScalar [mkPart Z 0 true true 8 [1; 2; 3]]]),
         [true; true; true], [0; 1].
  split; [|split; [reflexivity|vm_compute; reflexivity]].
  unfold wf_ds; cbn. repeat constructor; auto; cbv; discriminate.
Qed.

(* ---- images are stored as uint8 ---------------------------------------------------- *)
Lemma sat8_partial (v : Z) : 0 <= v <= 255 -> sat8 (8 * v) = v.
Proof.
  intros H. unfold sat8. rewrite Z.mul_comm, Z.quot_mul by lia. lia.
Qed.

Lemma sat8_refuted :
  (exists v, 255 < v /\ sat8 (8 * v) <> v)
  /\ (exists v, v < 0 /\ sat8 (8 * v) <> v)
  /\ (exists k, k mod 8 <> 0 /\ 8 * sat8 k <> k).
Proof.
  split; [exists 2261; split; [lia|vm_compute; discriminate]|].
  split; [exists (-3); split; [lia|vm_compute; discriminate]|].
  exists 20. split; vm_compute; discriminate.
Qed.
