(* Proofs about Model/C03.v (dclab event filter). *)
From Coq Require Import ZArith List Bool Lia ZifyBool ZifyNat.
From Verif Require Import Model.C03.
Import ListNotations.
Open Scope Z_scope.

(* ---- float comparisons -------------------------------------------------- *)
Lemma feq_true a b : feq a b = true -> a = b.
Proof.
  destruct a, b; cbn; try discriminate; try reflexivity.
  intros H; f_equal; lia.
Qed.

Lemma fle_nan_l x : fle FNaN x = false.
Proof. reflexivity. Qed.

Lemma fle_nan_r x : fle x FNaN = false.
Proof. destruct x; reflexivity. Qed.

Lemma fisnan_inside a b x : fisnan x = true -> fle a x && fle x b = false.
Proof. destruct x; try discriminate. intros _. now rewrite fle_nan_r. Qed.

(* ---- association lists --------------------------------------------------- *)
Lemma memZ_In k l : memZ k l = true <-> In k l.
Proof.
  unfold memZ. rewrite existsb_exists. split.
  - intros [x [Hx He]]. apply Z.eqb_eq in He. now subst.
  - intros H. exists k. split; [assumption|apply Z.eqb_refl].
Qed.

Lemma memZ_false k l : memZ k l = false <-> ~ In k l.
Proof.
  rewrite <- memZ_In. destruct (memZ k l); split; intros H; congruence.
Qed.

Lemma has_key_In {A} k (d : list (Z * A)) :
  has_key k d = true <-> In k (map fst d).
Proof.
  unfold has_key. rewrite existsb_exists, in_map_iff. split.
  - intros [e [He Hk]]. apply Z.eqb_eq in Hk. exists e. now split.
  - intros [e [Hk He]]. exists e. split; [assumption|]. subst. apply Z.eqb_refl.
Qed.

Lemma lookup_In {A} k (d : list (Z * A)) v : lookup k d = Some v -> In (k, v) d.
Proof.
  induction d as [|[k' v'] d IH]; cbn; [discriminate|].
  destruct (k =? k') eqn:E.
  - intros H; injection H as ->. apply Z.eqb_eq in E. subst. now left.
  - intros H. right. now apply IH.
Qed.

Lemma lookup_None {A} k (d : list (Z * A)) :
  lookup k d = None <-> ~ In k (map fst d).
Proof.
  induction d as [|[k' v'] d IH]; cbn.
  - split; [intros _ []|reflexivity].
  - destruct (k =? k') eqn:E.
    + split; [discriminate|]. intros H. exfalso. apply H. left.
      apply Z.eqb_eq in E. now subst.
    + rewrite IH. apply Z.eqb_neq in E. split.
      * intros H [H'|H']; [now subst|now apply H].
      * intros H H'. apply H. now right.
Qed.

Lemma lookup_NoDup {A} k (d : list (Z * A)) v :
  NoDup (map fst d) -> In (k, v) d -> lookup k d = Some v.
Proof.
  induction d as [|[k' v'] d IH]; cbn; [intros _ []|].
  intros Hnd [He|Hin].
  - injection He as -> ->. now rewrite Z.eqb_refl.
  - inversion Hnd as [|? ? Hni Hnd']; subst.
    destruct (k =? k') eqn:E.
    + apply Z.eqb_eq in E. subst. exfalso. apply Hni.
      apply in_map_iff. now exists (k', v).
    + now apply IH.
Qed.

Lemma In_dict_set {A} k (v : A) d k' v' :
  In (k', v') (dict_set k v d) ->
  (k' = k /\ v' = v) \/ (k' <> k /\ In (k', v') d).
Proof.
  unfold dict_set. destruct (has_key k d) eqn:Hk.
  - rewrite in_map_iff. intros [[k0 v0] [He Hin]]. cbn in He.
    destruct (k =? k0) eqn:E.
    + injection He as <- <-. now left.
    + injection He as <- <-. apply Z.eqb_neq in E. right. split; [congruence|assumption].
  - rewrite in_app_iff. intros [Hin|[He|[]]].
    + right. split; [|assumption]. intros ->.
      assert (has_key k d = true) as Hk'.
      { apply has_key_In. apply in_map_iff. now exists (k, v'). }
      congruence.
    + injection He as <- <-. now left.
Qed.

Lemma keys_dict_set {A} k (v : A) d :
  map fst (dict_set k v d) = if has_key k d then map fst d else map fst d ++ [k].
Proof.
  unfold dict_set. destruct (has_key k d).
  - rewrite map_map. apply map_ext. intros [k0 v0]. cbn.
    destruct (k =? k0) eqn:E; [apply Z.eqb_eq in E; now subst|reflexivity].
  - now rewrite map_app.
Qed.

Lemma has_key_dict_set {A} k (v : A) d k' :
  has_key k' (dict_set k v d) = has_key k' d || (k' =? k).
Proof.
  apply eq_iff_eq_true. rewrite orb_true_iff, !has_key_In, keys_dict_set, Z.eqb_eq.
  destruct (has_key k d) eqn:Hk.
  - split; [now left|]. intros [H | ->]; [assumption|now apply has_key_In].
  - rewrite in_app_iff. cbn. intuition.
Qed.

Lemma NoDup_snoc (l : list Z) k : NoDup l -> ~ In k l -> NoDup (l ++ [k]).
Proof.
  induction l as [|x l IH]; cbn; intros H Hni.
  - constructor; [intros []|constructor].
  - inversion H as [|? ? Hx Hl]; subst. constructor.
    + rewrite in_app_iff. cbn. intros [Hx'|[Hx'|[]]]; [contradiction|].
      apply Hni. now left.
    + apply IH; [assumption|]. intros Hin. apply Hni. now right.
Qed.

Lemma NoDup_dict_set {A} k (v : A) d :
  NoDup (map fst d) -> NoDup (map fst (dict_set k v d)).
Proof.
  intros H. rewrite keys_dict_set. destruct (has_key k d) eqn:Hk; [assumption|].
  apply NoDup_snoc; [assumption|].
  intros Hin. apply has_key_In in Hin. congruence.
Qed.

Lemma NoDup_keys_filter {A} (p : Z * A -> bool) d :
  NoDup (map fst d) -> NoDup (map fst (filter p d)).
Proof.
  induction d as [|e d IH]; cbn; [trivial|].
  intros H. inversion H as [|? ? Hni Hnd]; subst.
  destruct (p e); cbn; [|now apply IH].
  constructor; [|now apply IH].
  intros Hin. apply Hni. apply in_map_iff in Hin. destruct Hin as [e' [He Hin]].
  apply filter_In in Hin. apply in_map_iff. exists e'. now split.
Qed.

(* ---- boolean arrays ------------------------------------------------------ *)
Lemma band_map {A} (f g : A -> bool) l :
  band (map f l) (map g l) = map (fun x => f x && g x) l.
Proof. unfold band. induction l as [|x l IH]; cbn; [reflexivity|now rewrite IH]. Qed.

Lemma band_repeat_true l : band (repeat true (length l)) l = l.
Proof. unfold band. induction l as [|x l IH]; cbn; [reflexivity|now rewrite IH]. Qed.

Lemma forallb_subset (p : Z -> bool) l1 l2 :
  (forall x, In x l1 -> In x l2) ->
  (forall x, In x l2 -> ~ In x l1 -> p x = true) ->
  forallb p l1 = forallb p l2.
Proof.
  intros H1 H2. apply eq_iff_eq_true. rewrite !forallb_forall. split.
  - intros H x Hx. destruct (in_dec Z.eq_dec x l1) as [Hi|Hi]; [now apply H|now apply H2].
  - intros H x Hx. apply H. now apply H1.
Qed.

Lemma forallb_ext' {A} (p q : A -> bool) l :
  (forall x, p x = q x) -> forallb p l = forallb q l.
Proof. intros H. induction l as [|x l IH]; cbn; [reflexivity|now rewrite H, IH]. Qed.

Lemma count_true_nonneg a : 0 <= count_true a.
Proof. induction a as [|[] a IH]; cbn [count_true]; lia. Qed.

Lemma scatter_all_true a n : scatter a (repeat true n) = a.
Proof.
  revert n. induction a as [|[] a IH]; intros n; cbn; [reflexivity| |].
  - destruct n; cbn.
    + f_equal. apply (IH 0%nat).
    + f_equal. apply IH.
  - f_equal. apply IH.
Qed.

Lemma zrange_length from n : length (zrange from n) = n.
Proof. revert from. induction n as [|n IH]; intros from; cbn; [reflexivity|now rewrite IH]. Qed.

Section Proofs.
  Variable hashf : Z -> Z -> bool -> Z.
  Variable choice : Z -> Z -> list Z.
  Variable rows : list row.
  Variable vax : list (Z * list Z).

  Hypothesis hash_inj :
    forall id v b v' b', hashf id v b = hashf id v' b' -> v = v' /\ b = b'.

  Notation ones := (ones rows).
  Notation col := (col rows).

  (* AND of per-key masks that are all of the form [map (g k) rows] *)
  Lemma fold_band_keys {K} (g : K -> row -> bool) keys (q : row -> bool) :
    fold_left band (map (fun k => map (g k) rows) keys) (map q rows)
    = map (fun r => q r && forallb (fun k => g k r) keys) rows.
  Proof.
    revert q. induction keys as [|k keys IH]; intros q; cbn.
    - apply map_ext. intros r. now rewrite andb_true_r.
    - rewrite band_map, IH. apply map_ext. intros r. now rewrite andb_assoc.
  Qed.

  Lemma fold_band_cols (h : fval -> bool) (cf : Z -> Z) fs (q : row -> bool) :
    fold_left (fun acc f => band acc (map h (col (cf f)))) fs (map q rows)
    = map (fun r => q r && forallb (fun f => h (val r (cf f))) fs) rows.
  Proof.
    revert q. induction fs as [|f fs IH]; intros q; cbn.
    - apply map_ext. intros r. now rewrite andb_true_r.
    - unfold C03.col. rewrite map_map, band_map, IH.
      apply map_ext. intros r. now rewrite andb_assoc.
  Qed.

  (* ---- invalid events ---------------------------------------------------- *)
  Lemma invalid_arr_spec feats fc rm :
    invalid_arr rows feats fc rm = map (spec_invalid_row feats fc rm) rows.
  Proof.
    unfold invalid_arr, spec_invalid_row. destruct rm; [|reflexivity].
    unfold C03.ones. rewrite (fold_band_cols _ (colof fc)). apply map_ext. intros r. cbn.
    apply forallb_ext'. intros f. now rewrite orb_comm.
  Qed.

  (* ---- one range --------------------------------------------------------- *)
  Lemma box_mask_spec lo hi data :
    box_mask lo hi data = map (in_range lo hi) data.
  Proof.
    unfold box_mask, in_range. destruct (if fgt lo hi then (hi, lo) else (lo, hi)) as [a b].
    destruct (existsb fisnan data); [|reflexivity].
    apply map_ext. intros x. destruct (fisnan x) eqn:E; [|reflexivity].
    symmetry. now apply fisnan_inside.
  Qed.

  Definition fmask (fc : list (Z * Z)) (rg : ranges) (f : Z) : list bool :=
    map (spec_feat fc rg f) rows.

  Lemma box_one_spec feats fc cur bf f :
    box_one rows feats fc cur bf f
    = if memZ f feats then dict_set f (fmask fc cur f) bf else bf.
  Proof.
    unfold box_one, fmask, spec_feat. destruct (memZ f feats); [|reflexivity].
    destruct (rget cur f) as [[lo|] [hi|]]; try reflexivity.
    destruct (fne lo hi); [|reflexivity].
    rewrite box_mask_spec. unfold C03.col. now rewrite map_map.
  Qed.

  (* ---- which features are refiltered (repaired code) -------------------- *)
  Lemma In_changed_keys cur old f :
    In f (changed_keys cur old) <->
    exists mn mx, In (f, (mn, mx)) cur /\
                  key_changed mn (fst (rget old f))
                  || key_changed mx (snd (rget old f)) = true.
  Proof.
    unfold changed_keys. rewrite in_flat_map. split.
    - intros [[f' [mn mx]] [Hin Hf]].
      destruct (key_changed mn (fst (rget old f'))
                || key_changed mx (snd (rget old f'))) eqn:E; [|destruct Hf].
      destruct Hf as [<-|[]]. exists mn, mx. now split.
    - intros [mn [mx [Hin Hm]]]. exists (f, (mn, mx)). split; [assumption|].
      rewrite Hm. now left.
  Qed.

  Lemma In_removed_keys cur old f :
    In f (removed_keys cur old) <->
    exists mn mx, In (f, (mn, mx)) old /\
                  key_removed mn (fst (rget cur f))
                  || key_removed mx (snd (rget cur f)) = true.
  Proof.
    unfold removed_keys. rewrite in_flat_map. split.
    - intros [[f' [mn mx]] [Hin Hf]].
      destruct (key_removed mn (fst (rget cur f'))
                || key_removed mx (snd (rget cur f'))) eqn:E; [|destruct Hf].
      destruct Hf as [<-|[]]. exists mn, mx. now split.
    - intros [mn [mx [Hin Hm]]]. exists (f, (mn, mx)). split; [assumption|].
      rewrite Hm. now left.
  Qed.

  Lemma In_feat2filter kwn fs bf cur old force f :
    In f (feat2filter true true kwn fs bf cur old force) <->
    (In f kwn /\ (In f (changed_keys cur old) \/ In f (removed_keys cur old)))
    \/ In f force \/ In f (late_keys fs cur bf).
  Proof.
    unfold feat2filter. rewrite nodup_In, !in_app_iff, filter_In, in_app_iff, memZ_In.
    tauto.
  Qed.

  Lemma rget_In rg f : rget rg f = (None, None) \/ In (f, rget rg f) rg.
  Proof.
    unfold rget. destruct (lookup f rg) as [p|] eqn:E; [right|now left].
    now apply lookup_In.
  Qed.

  Lemma key_same c o :
    key_changed c o = false -> key_removed o c = false ->
    c = o \/ (exists a b, c = Some a /\ o = Some b /\ feq a b = true).
  Proof.
    destruct c as [a|], o as [b|]; cbn; try discriminate; auto.
    unfold fne. intros H _. apply negb_false_iff in H. right. eauto.
  Qed.

  (* a feature that is not refiltered has the same keys as at the previous
     application, hence the same mask *)
  Lemma unchanged_rget cur old f :
    ~ In f (changed_keys cur old) -> ~ In f (removed_keys cur old) ->
    rget cur f = rget old f.
  Proof.
    intros Hc Hr.
    assert (key_changed (fst (rget cur f)) (fst (rget old f))
            || key_changed (snd (rget cur f)) (snd (rget old f)) = false) as H1.
    { destruct (rget_In cur f) as [E|Hin]; [now rewrite E|].
      destruct (key_changed (fst (rget cur f)) (fst (rget old f))
                || key_changed (snd (rget cur f)) (snd (rget old f))) eqn:E;
        [|reflexivity]. exfalso. apply Hc.
      apply In_changed_keys. destruct (rget cur f) as [mn mx]. now exists mn, mx. }
    assert (key_removed (fst (rget old f)) (fst (rget cur f))
            || key_removed (snd (rget old f)) (snd (rget cur f)) = false) as H2.
    { destruct (rget_In old f) as [E|Hin]; [now rewrite E|].
      destruct (key_removed (fst (rget old f)) (fst (rget cur f))
                || key_removed (snd (rget old f)) (snd (rget cur f))) eqn:E;
        [|reflexivity]. exfalso. apply Hr.
      apply In_removed_keys. destruct (rget old f) as [mn mx]. now exists mn, mx. }
    apply orb_false_iff in H1, H2. destruct H1 as [H1a H1b], H2 as [H2a H2b].
    destruct (rget cur f) as [mn mx], (rget old f) as [omn omx]. cbn in *.
    f_equal.
    - destruct (key_same _ _ H1a H2a) as [E|[a [b [-> [-> E]]]]]; [assumption|].
      apply feq_true in E. now subst.
    - destruct (key_same _ _ H1b H2b) as [E|[a [b [-> [-> E]]]]]; [assumption|].
      apply feq_true in E. now subst.
  Qed.

  Lemma unchanged_spec_feat fc cur old f :
    ~ In f (changed_keys cur old) -> ~ In f (removed_keys cur old) ->
    forall r, spec_feat fc cur f r = spec_feat fc old f r.
  Proof.
    intros Hc Hr r. unfold spec_feat. now rewrite (unchanged_rget cur old f Hc Hr).
  Qed.

  (* a half-set range is always noticed: at the previous (successful)
     application no range was half-set *)
  Lemma half_set_changed cur old f :
    half_set old f = false -> half_set cur f = true ->
    In f (changed_keys cur old) \/ In f (removed_keys cur old).
  Proof.
    intros Ho Hh.
    destruct (in_dec Z.eq_dec f (changed_keys cur old)) as [H|Hc]; [now left|].
    destruct (in_dec Z.eq_dec f (removed_keys cur old)) as [H|Hr]; [now right|].
    exfalso. unfold half_set in *. rewrite (unchanged_rget cur old f Hc Hr) in Hh.
    congruence.
  Qed.

  (* ---- the box cache ------------------------------------------------------ *)
  (* every cached mask of a feature whose data were not replaced since is the
     one of the settings of the last successful application *)
  Definition BoxInv (bf : list (Z * list bool)) (fc : list (Z * Z)) (rg : ranges)
             (st : list Z) : Prop :=
    forall f m, In (f, m) bf -> ~ In f st -> m = fmask fc rg f.

  Lemma fold_box_In feats fc cur F : forall bf0 f m,
    (forall f m, In (f, m) bf0 -> In f feats) ->
    In (f, m) (fold_left (box_one rows feats fc cur) F bf0) ->
    (In f feats /\ m = fmask fc cur f) \/ (~ In f F /\ In (f, m) bf0).
  Proof.
    induction F as [|f0 F IH]; intros bf0 f m Hk Hin; cbn in Hin.
    - right. split; [intros []|assumption].
    - rewrite box_one_spec in Hin. destruct (memZ f0 feats) eqn:Hf0.
      + apply IH in Hin.
        * destruct Hin as [Hg|[Hni Hin]]; [now left|].
          apply In_dict_set in Hin. destruct Hin as [[-> ->]|[Hne Hin]].
          -- left. split; [now apply memZ_In|reflexivity].
          -- right. split; [|assumption]. cbn. intros [He|Hi]; [congruence|contradiction].
        * intros f' m' Hin'. apply In_dict_set in Hin'.
          destruct Hin' as [[-> _]|[_ Hin']]; [now apply memZ_In|now apply Hk in Hin'].
      + apply IH in Hin; [|assumption].
        destruct Hin as [Hg|[Hni Hin]]; [now left|].
        right. split; [|assumption]. cbn. intros [He|Hi]; [|contradiction].
        subst f0. apply Hk in Hin. apply memZ_In in Hin. congruence.
  Qed.

  Lemma fold_box_keys feats fc cur F : forall bf0 f,
    has_key f (fold_left (box_one rows feats fc cur) F bf0)
    = has_key f bf0 || (memZ f F && memZ f feats).
  Proof.
    induction F as [|f0 F IH]; intros bf0 f; cbn [fold_left].
    - cbn. now rewrite orb_false_r.
    - rewrite IH, box_one_spec. cbn [memZ existsb]. fold (memZ f F).
      destruct (memZ f0 feats) eqn:Hf0.
      + rewrite has_key_dict_set. destruct (f =? f0) eqn:E.
        * apply Z.eqb_eq in E. subst f0. rewrite Hf0. cbn.
          now rewrite !orb_true_r.
        * cbn. now rewrite orb_false_r.
      + destruct (f =? f0) eqn:E; [|reflexivity].
        apply Z.eqb_eq in E. subst f0. rewrite Hf0. cbn.
        now rewrite !andb_false_r.
  Qed.

  (* after pruning (_init_rtdc_ds) and the refiltering loop: every cached mask
     belongs to a feature of the dataset; it belongs to the current settings
     unless the feature is still stale; a feature without cached mask has no
     range key at all *)
  Lemma box_update_inv kwn feats fc bf_old cur old st force :
    (forall f, In f feats -> In f kwn) ->
    BoxInv bf_old fc old st ->
    let bf0 := prune_box feats bf_old in
    let F := feat2filter true true kwn feats bf0 cur old force in
    let bf := fold_left (box_one rows feats fc cur) F bf0 in
    let st' := filter (fun f => negb (memZ f F) && has_key f bf0) st in
    (forall f m, In (f, m) bf -> In f feats /\ (~ In f st' -> m = fmask fc cur f)) /\
    (forall f, In f feats -> has_key f bf = false ->
               forall r, spec_feat fc cur f r = true).
  Proof.
    intros Hkn HI bf0 F bf st'.
    assert (forall f m, In (f, m) bf0 -> In f feats) as Hk0.
    { intros f m Hin. apply filter_In in Hin. destruct Hin as [_ Hm].
      now apply memZ_In in Hm. }
    split.
    - intros f m Hin. apply fold_box_In in Hin; [|assumption].
      destruct Hin as [[Hf Hm]|[Hni Hin]]; [now split|].
      split; [now apply Hk0 in Hin|]. intros Hst.
      assert (~ In f st) as Hst0.
      { intros Hs. apply Hst. unfold st'. apply filter_In. split; [assumption|].
        apply memZ_false in Hni. rewrite Hni. cbn.
        apply has_key_In. apply in_map_iff. now exists (f, m). }
      pose proof (Hkn f (Hk0 f m Hin)) as Hfk.
      apply filter_In in Hin. destruct Hin as [Hin _].
      rewrite (HI _ _ Hin Hst0).
      unfold F in Hni. rewrite In_feat2filter in Hni. unfold fmask. apply map_ext.
      intros r. symmetry. apply unchanged_spec_feat; intuition.
    - intros f Hf Hk r. unfold bf in Hk. rewrite fold_box_keys in Hk.
      apply orb_false_iff in Hk. destruct Hk as [Hk0' Hk1].
      pose proof Hf as Hf'. apply memZ_In in Hf'. rewrite Hf', andb_true_r in Hk1.
      apply memZ_false in Hk1. unfold F in Hk1. rewrite In_feat2filter in Hk1.
      assert (has_any_key cur f = false) as Hany.
      { destruct (has_any_key cur f) eqn:E; [|reflexivity]. exfalso.
        apply Hk1. right. right. unfold late_keys. apply filter_In.
        split; [assumption|]. now rewrite Hk0', E. }
      unfold has_any_key in Hany. unfold spec_feat.
      destruct (rget cur f) as [[lo|] [hi|]]; try discriminate. reflexivity.
  Qed.

  Lemma masks_of_keys {V} (d : list (Z * V)) (get : V -> list bool)
        (g : Z -> row -> bool) :
    (forall k v, In (k, v) d -> get v = map (g k) rows) ->
    map (fun e => get (snd e)) d = map (fun k => map (g k) rows) (map fst d).
  Proof.
    intros H. rewrite map_map. apply map_ext_in. intros [k v] Hin. cbn.
    now apply H.
  Qed.

  Lemma box_array_spec feats fc bf cur :
    (forall f m, In (f, m) bf -> In f feats /\ m = fmask fc cur f) ->
    (forall f, In f feats -> has_key f bf = false ->
               forall r, spec_feat fc cur f r = true) ->
    fold_left band (map snd bf) ones = map (spec_box_row feats fc cur) rows.
  Proof.
    intros HI HC.
    assert (map snd bf = map (fun k => map (spec_feat fc cur k) rows) (map fst bf)) as ->.
    { apply (masks_of_keys bf (fun m => m) (spec_feat fc cur)).
      intros k v Hin. now apply HI in Hin. }
    unfold C03.ones. rewrite fold_band_keys. apply map_ext. intros r. cbn.
    unfold spec_box_row. apply forallb_subset.
    - intros f Hin. apply in_map_iff in Hin. destruct Hin as [[f' m] [<- Hin]].
      now apply HI in Hin.
    - intros f Hf Hni. apply HC; [assumption|].
      destruct (has_key f bf) eqn:E; [|reflexivity].
      exfalso. apply Hni. now apply has_key_In.
  Qed.

  (* ---- the polygon cache -------------------------------------------------- *)
  Definition pmask (v : Z) (b : bool) : list bool :=
    map (fun r => xorb b (pin r v)) rows.

  Lemma pfilter_spec v b : pfilter rows v b = pmask v b.
  Proof.
    unfold pfilter, pmask. destruct b.
    - rewrite map_map. apply map_ext. intros r. now destruct (pin r v).
    - apply map_ext. intros r. now destruct (pin r v).
  Qed.

  Definition PolyInv (pf : list (Z * (Z * list bool))) : Prop :=
    forall id h m, In (id, (h, m)) pf ->
                   exists v b, h = hashf id v b /\ m = pmask v b.

  (* the entry is the one the current registry asks for *)
  Definition Cur (rg : registry) (e : Z * (Z * list bool)) : Prop :=
    snd e = (hashf (fst e) (fst (reg_get rg (fst e))) (snd (reg_get rg (fst e))),
             pmask (fst (reg_get rg (fst e))) (snd (reg_get rg (fst e)))).

  Lemma Cur_PolyInv rg pf : (forall e, In e pf -> Cur rg e) -> PolyInv pf.
  Proof.
    intros H id h m Hin. apply H in Hin. unfold Cur in Hin. cbn in Hin.
    injection Hin as -> ->. eauto.
  Qed.

  Lemma poly_one_spec rg pf id :
    NoDup (map fst pf) -> PolyInv pf ->
    let pf' := poly_one hashf rows rg pf id in
    NoDup (map fst pf') /\ PolyInv pf' /\
    (forall e, In e pf' -> (fst e = id /\ Cur rg e) \/ (fst e <> id /\ In e pf)) /\
    (forall k, has_key k pf' = has_key k pf || (k =? id)).
  Proof.
    intros Hnd HI. unfold poly_one.
    destruct (reg_get rg id) as [v b] eqn:Er.
    assert (forall e, In e (dict_set id (hashf id v b, pfilter rows v b) pf) ->
                      (fst e = id /\ Cur rg e) \/ (fst e <> id /\ In e pf)) as Hset.
    { intros [k [h m]] Hin. apply In_dict_set in Hin.
      destruct Hin as [[-> He]|[Hne Hin]]; [left|now right].
      split; [reflexivity|]. unfold Cur. cbn. rewrite Er. cbn.
      now rewrite He, pfilter_spec. }
    assert (PolyInv (dict_set id (hashf id v b, pfilter rows v b) pf)) as Hset_inv.
    { intros k h m Hin. apply In_dict_set in Hin.
      destruct Hin as [[-> He]|[Hne Hin]]; [|now apply HI in Hin].
      injection He as -> ->. exists v, b. now rewrite pfilter_spec. }
    destruct (lookup id pf) as [[h' m']|] eqn:El.
    - destruct (hashf id v b =? h') eqn:Eh.
      + cbn. repeat split; try assumption.
        * intros [k [h m]] Hin. destruct (Z.eq_dec k id) as [->|Hne]; [left|now right].
          split; [reflexivity|].
          rewrite (lookup_NoDup _ _ _ Hnd Hin) in El. injection El as -> ->.
          apply Z.eqb_eq in Eh. destruct (HI _ _ _ Hin) as [v' [b' [Hh Hm]]].
          rewrite Hh in Eh. apply hash_inj in Eh. destruct Eh as [-> ->].
          unfold Cur. cbn. rewrite Er. cbn. now rewrite Hh, Hm.
        * intros k. destruct (k =? id) eqn:E; [|now rewrite orb_false_r].
          apply Z.eqb_eq in E. subst k. rewrite orb_true_r.
          apply has_key_In. apply lookup_In in El. apply in_map_iff.
          now exists (id, (h', m')).
      + cbn. repeat split; try assumption.
        * now apply NoDup_dict_set.
        * intros k. apply has_key_dict_set.
    - cbn. repeat split; try assumption.
      + now apply NoDup_dict_set.
      + intros k. apply has_key_dict_set.
  Qed.

  Lemma fold_poly_spec rg ids : forall pf,
    NoDup (map fst pf) -> PolyInv pf ->
    let pf' := fold_left (poly_one hashf rows rg) ids pf in
    NoDup (map fst pf') /\ PolyInv pf' /\
    (forall e, In e pf' -> (In (fst e) ids /\ Cur rg e) \/ (~ In (fst e) ids /\ In e pf)) /\
    (forall k, has_key k pf' = has_key k pf || memZ k ids).
  Proof.
    induction ids as [|id ids IH]; intros pf Hnd HI; cbn [fold_left].
    - cbn. repeat split; try assumption.
      + intros e Hin. right. split; [intros []|assumption].
      + intros k. now rewrite orb_false_r.
    - destruct (poly_one_spec rg pf id Hnd HI) as [Hnd1 [HI1 [Hin1 Hk1]]].
      destruct (IH _ Hnd1 HI1) as [Hnd2 [HI2 [Hin2 Hk2]]].
      repeat split; try assumption.
      + intros e Hin. apply Hin2 in Hin. destruct Hin as [[Hi Hc]|[Hni Hin]].
        * left. split; [now right|assumption].
        * apply Hin1 in Hin. destruct Hin as [[He Hc]|[Hne Hin]].
          -- left. split; [now left|assumption].
          -- right. split; [|assumption]. cbn. intros [H|H]; [congruence|contradiction].
      + intros k. rewrite Hk2, Hk1. cbn [memZ existsb]. fold (memZ k ids).
        now rewrite orb_assoc.
  Qed.

  Lemma poly_update_spec rg ids fs pf0 :
    NoDup (map fst pf0) -> PolyInv pf0 ->
    let pf := fold_left (poly_one hashf rows rg) ids
                        (prune_polys vax ids rg fs pf0) in
    NoDup (map fst pf) /\ PolyInv pf /\
    fold_left band (map (fun e => snd (snd e)) pf) ones
    = map (spec_poly_row rg ids) rows.
  Proof.
    intros Hnd HI pf.
    assert (NoDup (map fst (prune_polys vax ids rg fs pf0))) as Hnd0
        by now apply NoDup_keys_filter.
    assert (PolyInv (prune_polys vax ids rg fs pf0)) as HI0.
    { intros id h m Hin. apply filter_In in Hin. destruct Hin as [Hin _].
      now apply HI in Hin. }
    destruct (fold_poly_spec rg ids _ Hnd0 HI0) as [Hnd1 [HI1 [Hin1 Hk1]]].
    fold pf in Hnd1, HI1, Hin1, Hk1.
    assert (forall e, In e pf -> In (fst e) ids /\ Cur rg e) as Hcur.
    { intros e Hin. apply Hin1 in Hin. destruct Hin as [H|[Hni Hin]]; [assumption|].
      apply filter_In in Hin. destruct Hin as [_ Hm].
      apply andb_true_iff in Hm. destruct Hm as [Hm _].
      apply memZ_In in Hm. contradiction. }
    repeat split; try assumption.
    rewrite (masks_of_keys pf (fun v => snd v)
               (fun id r => xorb (snd (reg_get rg id)) (pin r (fst (reg_get rg id))))).
    2:{ intros k [h m] Hin. apply Hcur in Hin. destruct Hin as [_ Hc].
        unfold Cur in Hc. cbn in Hc. injection Hc as _ ->. reflexivity. }
    unfold C03.ones. rewrite fold_band_keys. apply map_ext. intros r. cbn.
    unfold spec_poly_row. apply forallb_subset.
    - intros id Hin. apply in_map_iff in Hin. destruct Hin as [e [<- Hin]].
      now apply Hcur in Hin.
    - intros id Hin Hni. exfalso. apply Hni. apply has_key_In.
      rewrite Hk1. apply memZ_In in Hin. rewrite Hin. apply orb_true_r.
  Qed.

  (* ---- limit events ------------------------------------------------------- *)
  Lemma scatter_thin C a : forall k,
    scatter a (map (fun i => memZ i C) (zrange k (Z.to_nat (count_true a))))
    = thin C a k.
  Proof.
    induction a as [|[] a IH]; intros k; cbn [count_true thin]; [reflexivity| |].
    - pose proof (count_true_nonneg a) as Hc.
      replace (Z.to_nat (1 + count_true a)) with (S (Z.to_nat (count_true a))) by lia.
      cbn. f_equal. apply IH.
    - cbn. f_equal. apply IH.
  Qed.

  Lemma limit_events_spec a lim :
    0 < lim ->
    limit_events choice a lim
    = if lim <? count_true a then thin (choice (count_true a) lim) a 0 else a.
  Proof.
    intros Hl. unfold limit_events. pose proof (count_true_nonneg a) as Hm.
    destruct (lim <? count_true a) eqn:E.
    - replace (Z.min lim (count_true a)) with lim by lia.
      replace (negb (lim =? 0)) with true by lia. rewrite E. cbn [andb].
      set (idx := map _ _).
      replace (Z.to_nat (count_true a)) with (length idx)
        by (unfold idx; now rewrite map_length, zrange_length).
      rewrite band_repeat_true. unfold idx. apply scatter_thin.
    - replace (Z.min lim (count_true a)) with (count_true a) by lia.
      rewrite Z.ltb_irrefl, andb_false_r.
      replace (Z.to_nat (count_true a)) with (length (repeat true (Z.to_nat (count_true a))))
        at 1 by apply repeat_length.
      rewrite band_repeat_true. apply scatter_all_true.
  Qed.

  (* counting the chosen ranks *)
  Fixpoint cnt (p : Z -> bool) (C : list Z) : Z :=
    match C with
    | [] => 0
    | c :: C' => (if p c then 1 else 0) + cnt p C'
    end.

  Lemma cnt_split p q r C :
    (forall c, p c = q c || r c) -> (forall c, q c && r c = false) ->
    cnt p C = cnt q C + cnt r C.
  Proof.
    intros H1 H2. induction C as [|c C IH]; cbn [cnt]; [reflexivity|].
    rewrite IH, H1. specialize (H2 c). destruct (q c), (r c); cbn [orb andb] in *; try lia.
  Qed.

  Lemma cnt_ext p q C : (forall c, p c = q c) -> cnt p C = cnt q C.
  Proof. intros H. induction C as [|c C IH]; cbn [cnt]; [reflexivity|now rewrite IH, H]. Qed.

  Lemma cnt_eq_NoDup s C : NoDup C -> cnt (Z.eqb s) C = if memZ s C then 1 else 0.
  Proof.
    induction C as [|c C IH]; intros Hnd; cbn [cnt]; [reflexivity|].
    inversion Hnd as [|? ? Hni Hnd']; subst. rewrite (IH Hnd').
    cbn [memZ existsb]. fold (memZ s C).
    destruct (s =? c) eqn:E; [|reflexivity].
    apply Z.eqb_eq in E. subst c. apply memZ_false in Hni. now rewrite Hni.
  Qed.

  Lemma cnt_all p C : Forall (fun c => p c = true) C -> cnt p C = Z.of_nat (length C).
  Proof.
    induction 1 as [|c C Hc _ IH]; cbn [cnt length]; [reflexivity|].
    rewrite Hc, IH. lia.
  Qed.

  Lemma thin_count C : NoDup C -> forall q s,
    count_true (thin C q s)
    = cnt (fun c => (s <=? c) && (c <? s + count_true q)) C.
  Proof.
    intros Hnd. induction q as [|[] q IH]; intros s; cbn [thin count_true].
    - induction C as [|c C IHC]; cbn [cnt]; [reflexivity|].
      inversion Hnd; subst. rewrite <- IHC by assumption.
      replace ((s <=? c) && (c <? s + 0)) with false by lia. reflexivity.
    - pose proof (count_true_nonneg q) as Hq.
      rewrite (cnt_split _ (Z.eqb s)
                 (fun c => (s + 1 <=? c) && (c <? s + 1 + count_true q))).
      + rewrite cnt_eq_NoDup by assumption. rewrite <- IH.
        destruct (memZ s C); cbn [count_true]; lia.
      + intros c. lia.
      + intros c. lia.
    - apply IH.
  Qed.

  Lemma thin_subset C : forall q s,
    Forall2 (fun a b => a = true -> b = true) (thin C q s) q.
  Proof.
    induction q as [|[] q IH]; intros s; cbn [thin]; constructor; auto.
  Qed.

  Definition choice_spec : Prop :=
    forall m k, 0 < k < m ->
      NoDup (choice m k) /\ Z.of_nat (length (choice m k)) = k /\
      Forall (fun i => 0 <= i < m) (choice m k).

  Lemma thin_exact q k :
    choice_spec -> 0 < k < count_true q ->
    count_true (thin (choice (count_true q) k) q 0) = k.
  Proof.
    intros Hc Hk. destruct (Hc _ _ Hk) as [Hnd [Hlen Hrng]].
    rewrite thin_count by assumption. rewrite cnt_all; [exact Hlen|].
    eapply Forall_impl; [|exact Hrng]. cbn. intros c Hcr. lia.
  Qed.

  (* ---- the invariant of the filter object -------------------------------- *)
  Definition Inv (w : world) : Prop :=
    BoxInv (box_filters (flt w)) (fcol w) (old_rng (flt w)) (stale w) /\
    NoDup (map fst (poly_filters (flt w))) /\
    PolyInv (poly_filters (flt w)) /\
    (* a half-set range can be on record only for a feature that was unknown
       then: it has no box filter, and once known again it is in the dataset *)
    (forall f, half_set (old_rng (flt w)) f = true ->
               has_key f (box_filters (flt w)) = false /\
               (In f (kn w) -> In f (feats w))) /\
    (forall f, In f (feats w) -> In f (kn w)).

  Notation step := (step hashf choice rows vax HEAD).
  Notation update := (update hashf choice rows vax HEAD).
  Notation run := (run hashf choice rows vax HEAD).

  (* no caches, nothing on record: after reset and after a failed update *)
  Lemma Inv_cleared c rg a1 a2 a3 a4 mn fs fc k hv e :
    (forall f, In f fs -> In f k) ->
    Inv {| cfg := c; reg := rg;
           flt := {| box_filters := []; poly_filters := [];
                     a_all := a1; a_box := a2; a_polygon := a3; a_invalid := a4;
                     manual := mn; old_rng := [] |};
           feats := fs; fcol := fc; stale := []; kn := k; have := hv; err := e |}.
  Proof.
    intros H3. unfold Inv. cbn. split; [|split; [|split; [|split]]].
    - intros f m [].
    - constructor.
    - intros id h m [].
    - intros f Hf. discriminate Hf.
    - exact H3.
  Qed.

  Lemma lookup_dict_set_other {A} k (v : A) d k' :
    k' <> k -> lookup k' (dict_set k v d) = lookup k' d.
  Proof.
    intros Hne. unfold dict_set. destruct (has_key k d).
    - induction d as [|[k0 v0] d IH]; cbn; [reflexivity|].
      destruct (k =? k0) eqn:E; cbn.
      + apply Z.eqb_eq in E. subst k0.
        replace (k' =? k) with false by lia. apply IH.
      + destruct (k' =? k0); [reflexivity|apply IH].
    - induction d as [|[k0 v0] d IH]; cbn.
      + now replace (k' =? k) with false by lia.
      + destruct (k' =? k0); [reflexivity|apply IH].
  Qed.

  (* replacing the data of feature f marks it stale; other features keep
     their column *)
  Lemma BoxInv_replace bf fc rg st f c :
    BoxInv bf fc rg st -> BoxInv bf (dict_set f c fc) rg (f :: st).
  Proof.
    intros H g m Hin Hni.
    assert (g <> f) as Hne by (intros ->; apply Hni; now left).
    rewrite (H g m Hin) by (intros Hs; apply Hni; now right).
    unfold fmask, spec_feat, colof. now rewrite lookup_dict_set_other.
  Qed.

  Lemma has_key_filter {A} (p : Z * A -> bool) d f :
    has_key f d = false -> has_key f (filter p d) = false.
  Proof.
    intros H. destruct (has_key f (filter p d)) eqn:E; [|reflexivity].
    apply has_key_In in E. apply in_map_iff in E. destruct E as [e [He Hin]].
    apply filter_In in Hin. destruct Hin as [Hin _].
    assert (has_key f d = true) as Hk.
    { apply has_key_In. apply in_map_iff. now exists e. }
    congruence.
  Qed.

  Lemma In_addz f l g :
    In g (if memZ f l then l else l ++ [f]) <-> In g l \/ g = f.
  Proof.
    destruct (memZ f l) eqn:E.
    - apply memZ_In in E. split; [now left|]. intros [H | ->]; assumption.
    - rewrite in_app_iff. cbn. intuition.
  Qed.

  Lemma In_delz f l g :
    In g (filter (fun x => negb (x =? f)) l) <-> In g l /\ g <> f.
  Proof. rewrite filter_In. split; intros [H1 H2]; split; try assumption; lia. Qed.

  (* the half-set test of the pre-check fires iff a KNOWN feature has a range
     with exactly one key (given that `force` names known features only) *)
  Lemma raises_iff kwn fs bfo cur old force :
    (forall f, In f fs -> In f kwn) ->
    (forall f, In f force -> In f kwn) ->
    (forall f, half_set old f = true ->
               has_key f bfo = false /\ (In f kwn -> In f fs)) ->
    existsb (half_set cur)
            (feat2filter true true kwn fs (prune_box fs bfo) cur old force) = true
    <-> exists f, In f kwn /\ half_set cur f = true.
  Proof.
    intros H3 Hforce H2. rewrite existsb_exists. split.
    - intros [f [Hin Hf]]. exists f. split; [|assumption].
      apply In_feat2filter in Hin. destruct Hin as [[Hk _]|[Hin|Hin]];
        [assumption|now apply Hforce|].
      apply filter_In in Hin. apply H3. apply Hin.
    - intros [f [Hk Hf]]. exists f. split; [|assumption].
      apply In_feat2filter.
      destruct (half_set old f) eqn:Ho.
      + destruct (H2 f Ho) as [Hnk Hfs]. right. right. unfold late_keys.
        apply filter_In. split; [now apply Hfs|].
        unfold prune_box. rewrite has_key_filter by assumption. cbn.
        unfold half_set in Hf. unfold has_any_key.
        destruct (rget cur f) as [[a|] [b|]]; try discriminate; reflexivity.
      + left. split; [assumption|]. now apply half_set_changed.
  Qed.

  Lemma unknown_force_iff kwn force :
    existsb (fun f => negb (memZ f kwn)) force = true
    <-> exists f, In f force /\ ~ In f kwn.
  Proof.
    rewrite existsb_exists. split; intros [f [Hin Hf]]; exists f; split; try assumption.
    - apply negb_true_iff in Hf. now apply memZ_false.
    - apply negb_true_iff. now apply memZ_false.
  Qed.

  Definition raises (w : world) (force : list Z) : Prop :=
    (exists f, In f force /\ ~ In f (kn w))
    \/ (exists f, In f (kn w) /\ half_set (rng (cfg w)) f = true)
    \/ poly_bad vax (reg w) (have w) (polys (cfg w)) = true.

  Lemma update_correct w force :
    Inv w ->
    let w' := update w force in
    Inv w' /\
    cfg w' = cfg w /\ reg w' = reg w /\ manual (flt w') = manual (flt w) /\
    feats w' = feats w /\ fcol w' = fcol w /\ kn w' = kn w /\ have w' = have w /\
    (err w' = true <-> raises w force) /\
    (err w' = false -> stale w' = [] ->
     a_box (flt w') = spec_box rows w /\
     a_invalid (flt w') = spec_invalid rows w /\
     a_polygon (flt w') = spec_polygon rows w /\
     a_all (flt w') = spec_all choice rows w).
  Proof.
    intros [HBI [HND [HPI [H2 H3]]]].
    pose proof (unknown_force_iff (kn w) force) as Hunk.
    cbn zeta. unfold C03.update, raises.
    cbn [precheck see_removed late_feats reset_on_raise HEAD].
    destruct (existsb (fun f => negb (memZ f (kn w))) force) eqn:Eu.
    { (* ValueError: unknown feature name in force *)
      cbn [cfg reg flt err feats fcol stale kn have manual].
      split; [now apply Inv_cleared|].
      repeat (split; [reflexivity|]).
      split; [|discriminate]. split; [intros _; left; now apply Hunk|reflexivity]. }
    assert (forall f, In f force -> In f (kn w)) as Hforce.
    { intros f Hin. destruct (in_dec Z.eq_dec f (kn w)) as [Hk|Hk]; [assumption|].
      assert (false = true) as Hc by (apply Hunk; now exists f). discriminate Hc. }
    pose proof (raises_iff (kn w) (feats w) (box_filters (flt w)) (rng (cfg w))
                           (old_rng (flt w)) force H3 Hforce H2) as Hraise.
    destruct (existsb (half_set (rng (cfg w)))
                (feat2filter true true (kn w) (feats w)
                   (prune_box (feats w) (box_filters (flt w)))
                   (rng (cfg w)) (old_rng (flt w)) force)) eqn:Eh.
    { (* ValueError: a range with one key only *)
      cbn [cfg reg flt err feats fcol stale kn have manual].
      split; [now apply Inv_cleared|].
      repeat (split; [reflexivity|]).
      split; [|discriminate].
      split; [intros _; right; left; now apply Hraise|reflexivity]. }
    destruct (poly_bad vax (reg w) (have w) (polys (cfg w))) eqn:Ep.
    { (* KeyError: polygon filter without instance or on a missing feature *)
      cbn [cfg reg flt err feats fcol stale kn have manual].
      split; [now apply Inv_cleared|].
      repeat (split; [reflexivity|]).
      split; [|discriminate]. split; [intros _; right; now right|reflexivity]. }
    cbn [cfg reg flt err feats fcol stale kn have box_filters poly_filters old_rng
         a_all a_box a_polygon a_invalid manual].
    destruct (box_update_inv (kn w) (feats w) (fcol w) _ (rng (cfg w)) _ _ force H3 HBI)
      as [HBI' HBC'].
    destruct (poly_update_spec (reg w) (polys (cfg w)) (feats w) _ HND HPI)
      as [HND' [HPI' Hpoly]].
    assert (forall f, In f (kn w) -> half_set (rng (cfg w)) f = false) as HOP'.
    { intros f Hk. destruct (half_set (rng (cfg w)) f) eqn:E; [|reflexivity].
      assert (false = true) as Hc by (apply Hraise; now exists f).
      discriminate Hc. }
    split.
    { unfold Inv. cbn [flt box_filters poly_filters old_rng fcol stale kn feats].
      split; [intros f m Hin Hst; now apply (HBI' f m Hin)|].
      split; [exact HND'|]. split; [exact HPI'|]. split; [|exact H3].
      intros f Hf.
      assert (~ In f (kn w)) as Hnk.
      { intros Hk. rewrite (HOP' f Hk) in Hf. discriminate Hf. }
      split; [|intros Hk; contradiction].
      match goal with |- has_key f ?bf = false =>
        destruct (has_key f bf) eqn:E; [|reflexivity] end.
      exfalso. apply has_key_In in E. apply in_map_iff in E.
      destruct E as [[f' m] [Hf' Hin]]. cbn in Hf'. subst f'.
      apply HBI' in Hin. destruct Hin as [Hfs _]. apply Hnk. now apply H3. }
    repeat (split; [reflexivity|]).
    split.
    { split; [discriminate|]. intros [[f [Hf1 Hf2]]|[[f [Hk Hf]]|Hp]].
      - exfalso. apply Hf2. now apply Hforce.
      - now rewrite (HOP' f Hk) in Hf.
      - discriminate Hp. }
    intros _ Hst.
    match type of HBI' with
    | forall f m, In (f, m) ?bf -> _ =>
        assert (fold_left band (map snd bf) ones
                = map (spec_box_row (feats w) (fcol w) (rng (cfg w))) rows) as Hbox
    end.
    { apply box_array_spec; [|exact HBC'].
      intros f m Hin. destruct (HBI' f m Hin) as [Hf Hm]. split; [assumption|].
      apply Hm. rewrite Hst. intros []. }
    split; [exact Hbox|]. split; [apply invalid_arr_spec|]. split; [exact Hpoly|].
    unfold spec_all. destruct (enable (cfg w)); [|reflexivity].
    rewrite Hbox, Hpoly, invalid_arr_spec, !band_map.
    fold (spec_qual rows w).
    destruct (0 <? limit (cfg w)) eqn:El; [|reflexivity].
    rewrite limit_events_spec by lia. reflexivity.
  Qed.

  Lemma step_Inv w o : Inv w -> Inv (step w o).
  Proof.
    intros H. destruct o; try exact H.
    - (* AddFeat *)
      destruct H as [HBI [HND [HPI [H2 H3]]]]. unfold Inv. cbn.
      split; [exact HBI|]. split; [exact HND|]. split; [exact HPI|]. split.
      + intros g Hg. destruct (H2 g Hg) as [Hk Hi]. split; [assumption|].
        rewrite !In_addz. intros [Hin| ->]; [left; now apply Hi|now right].
      + intros g. rewrite !In_addz. intros [Hin| ->]; [left; now apply H3|now right].
    - (* DelFeat *)
      destruct H as [HBI [HND [HPI [H2 H3]]]]. unfold Inv. cbn.
      split; [exact HBI|]. split; [exact HND|]. split; [exact HPI|]. split.
      + intros g Hg. destruct (H2 g Hg) as [Hk Hi]. split; [assumption|].
        rewrite !In_delz. intros [Hin Hne]. split; [now apply Hi|assumption].
      + intros g. rewrite !In_delz. intros [Hin Hne]. split; [now apply H3|assumption].
    - (* ReplaceTemp *)
      destruct H as [HBI [HND [HPI [H2 H3]]]]. unfold Inv. cbn.
      split; [now apply BoxInv_replace|]. split; [exact HND|]. split; [exact HPI|]. split.
      + intros g Hg. destruct (H2 g Hg) as [Hk Hi]. split; [assumption|].
        rewrite !In_addz. intros [Hin| ->]; [left; now apply Hi|now right].
      + intros g. rewrite !In_addz. intros [Hin| ->]; [left; now apply H3|now right].
    - (* Reset *)
      destruct H as [_ [_ [_ [_ H3]]]]. now apply Inv_cleared.
    - apply (update_correct w force H).
  Qed.

  Lemma run_Inv ops : forall w, Inv w -> Inv (run w ops).
  Proof.
    induction ops as [|o ops IH]; intros w H; cbn; [assumption|].
    apply IH. now apply step_Inv.
  Qed.

  Lemma Inv_init rg0 fs0 kn0 :
    (forall f, In f fs0 -> In f kn0) -> Inv (init_world rows rg0 fs0 kn0).
  Proof. intros H. now apply Inv_cleared. Qed.

  Lemma history rg0 fs0 kn0 ops force :
    (forall f, In f fs0 -> In f kn0) ->
    let w := run (init_world rows rg0 fs0 kn0) ops in
    let w' := update w force in
    (err w' = true <-> raises w force) /\
    (err w' = false -> stale w' = [] ->
     a_all (flt w') = spec_all choice rows w /\
     a_box (flt w') = spec_box rows w /\
     a_polygon (flt w') = spec_polygon rows w /\
     a_invalid (flt w') = spec_invalid rows w).
  Proof.
    intros H0. cbn zeta.
    assert (Inv (run (init_world rows rg0 fs0 kn0) ops)) as H
        by (apply run_Inv; now apply Inv_init).
    destruct (update_correct _ force H) as [_ [_ [_ [_ [_ [_ [_ [_ [He Hok]]]]]]]]].
    split; [exact He|]. intros Hne Hst.
    destruct (Hok Hne Hst) as [Hb [Hi [Hp Ha]]]. auto.
  Qed.

  Lemma history_ok rg0 fs0 kn0 ops force :
    (forall f, In f fs0 -> In f kn0) ->
    let w := run (init_world rows rg0 fs0 kn0) ops in
    let w' := update w force in
    err w' = false -> stale w' = [] ->
    a_all (flt w') = spec_all choice rows w /\
    a_box (flt w') = spec_box rows w /\
    a_polygon (flt w') = spec_polygon rows w /\
    a_invalid (flt w') = spec_invalid rows w.
  Proof. intros H0. exact (proj2 (history rg0 fs0 kn0 ops force H0)). Qed.

  Lemma history_raises rg0 fs0 kn0 ops force :
    (forall f, In f fs0 -> In f kn0) ->
    let w := run (init_world rows rg0 fs0 kn0) ops in
    err (update w force) = true <->
    (exists f, In f force /\ ~ In f (kn w))
    \/ (exists f, In f (kn w) /\ half_set (rng (cfg w)) f = true)
    \/ poly_bad vax (reg w) (have w) (polys (cfg w)) = true.
  Proof. intros H0. exact (proj1 (history rg0 fs0 kn0 ops force H0)). Qed.

  (* histories that never replace the data of a feature are never stale *)
  Lemma update_stale_nil w force : stale w = [] -> stale (update w force) = [].
  Proof.
    intros Hs. unfold C03.update.
    cbn [precheck see_removed late_feats reset_on_raise HEAD].
    destruct (existsb (fun f => negb (memZ f (kn w))) force); [reflexivity|].
    destruct (existsb _ _); [reflexivity|].
    destruct (poly_bad _ _ _ _); [reflexivity|]. cbn [stale]. now rewrite Hs.
  Qed.

  Lemma step_stale_nil w o :
    stale w = [] -> (match o with ReplaceTemp _ _ => False | _ => True end) ->
    stale (step w o) = [].
  Proof.
    intros Hs Ho. destruct o; try exact Hs; try contradiction; try reflexivity.
    now apply update_stale_nil.
  Qed.

  Lemma run_stale_nil ops : forall w,
    stale w = [] -> no_replace ops = true -> stale (run w ops) = [].
  Proof.
    induction ops as [|o ops IH]; intros w Hs Hn; cbn; [assumption|].
    apply IH.
    - apply step_stale_nil; [assumption|]. destruct o; try exact I. discriminate Hn.
    - destruct o; try exact Hn. discriminate Hn.
  Qed.

  Lemma history_no_replace rg0 fs0 kn0 ops force :
    (forall f, In f fs0 -> In f kn0) ->
    no_replace ops = true ->
    let w := run (init_world rows rg0 fs0 kn0) ops in
    let w' := update w force in
    err w' = false ->
    a_all (flt w') = spec_all choice rows w /\
    a_box (flt w') = spec_box rows w /\
    a_polygon (flt w') = spec_polygon rows w /\
    a_invalid (flt w') = spec_invalid rows w.
  Proof.
    cbn zeta. intros H0 Hn He. apply history_ok; [assumption|assumption|].
    apply update_stale_nil. now apply run_stale_nil.
  Qed.

  (* forcing the replaced feature makes it fresh: the documented remedy *)
  Lemma forced_not_stale w force :
    (forall f, In f (stale w) -> In f force) ->
    stale (update w force) = [].
  Proof.
    intros Hf. unfold C03.update.
    cbn [precheck see_removed late_feats reset_on_raise HEAD].
    destruct (existsb (fun f => negb (memZ f (kn w))) force); [reflexivity|].
    destruct (existsb _ _); [reflexivity|].
    destruct (poly_bad _ _ _ _); [reflexivity|]. cbn [stale].
    induction (stale w) as [|f st IH]; cbn; [reflexivity|].
    assert (In f (feat2filter true true (kn w) (feats w)
                   (prune_box (feats w) (box_filters (flt w)))
                   (rng (cfg w)) (old_rng (flt w)) force)) as Hin.
    { apply In_feat2filter. right. left. apply Hf. now left. }
    apply memZ_In in Hin. rewrite Hin. cbn. apply IH.
    intros g Hg. apply Hf. now right.
  Qed.

  (* limit events: exactly min(limit, #qualifying) events remain, all of them
     qualifying *)
  Lemma limit_exact w :
    choice_spec -> enable (cfg w) = true -> 0 < limit (cfg w) ->
    count_true (spec_all choice rows w)
    = Z.min (limit (cfg w)) (count_true (spec_qual rows w)) /\
    Forall2 (fun a q => a = true -> q = true)
            (spec_all choice rows w) (spec_qual rows w).
  Proof.
    intros Hc He Hl. unfold spec_all. rewrite He.
    replace (0 <? limit (cfg w)) with true by lia. cbn [andb].
    destruct (limit (cfg w) <? count_true (spec_qual rows w)) eqn:E.
    - split; [|apply thin_subset]. rewrite thin_exact by (assumption || lia). lia.
    - split; [lia|]. clear E. induction (spec_qual rows w); constructor; auto.
  Qed.

  Lemma disabled_all w :
    enable (cfg w) = false -> spec_all choice rows w = ones.
  Proof. intros H. unfold spec_all. now rewrite H. Qed.

  Lemma no_limit_all w :
    enable (cfg w) = true -> limit (cfg w) <= 0 ->
    spec_all choice rows w = spec_qual rows w.
  Proof.
    intros He Hl. unfold spec_all. rewrite He.
    replace (0 <? limit (cfg w)) with false by lia. reflexivity.
  Qed.

  (* the selection is a function of the settings only *)
  Lemma spec_all_settings w1 w2 :
    cfg w1 = cfg w2 -> reg w1 = reg w2 -> manual (flt w1) = manual (flt w2) ->
    feats w1 = feats w2 -> fcol w1 = fcol w2 ->
    spec_all choice rows w1 = spec_all choice rows w2.
  Proof.
    intros Hc Hr Hm Hf Hd. unfold spec_all, spec_qual. now rewrite Hc, Hr, Hm, Hf, Hd.
  Qed.

  Lemma history_reproducible rg1 fs1 kn1 ops1 force1 rg2 fs2 kn2 ops2 force2 :
    (forall f, In f fs1 -> In f kn1) -> (forall f, In f fs2 -> In f kn2) ->
    let w1 := run (init_world rows rg1 fs1 kn1) ops1 in
    let w2 := run (init_world rows rg2 fs2 kn2) ops2 in
    cfg w1 = cfg w2 -> reg w1 = reg w2 -> manual (flt w1) = manual (flt w2) ->
    feats w1 = feats w2 -> fcol w1 = fcol w2 ->
    err (update w1 force1) = false -> err (update w2 force2) = false ->
    stale (update w1 force1) = [] -> stale (update w2 force2) = [] ->
    a_all (flt (update w1 force1)) = a_all (flt (update w2 force2)).
  Proof.
    cbn zeta. intros H1 H2 Hc Hr Hm Hf Hd He1 He2 Hs1 Hs2.
    destruct (history_ok rg1 fs1 kn1 ops1 force1 H1 He1 Hs1) as [-> _].
    destruct (history_ok rg2 fs2 kn2 ops2 force2 H2 He2 Hs2) as [-> _].
    now apply spec_all_settings.
  Qed.

  Lemma history_limit rg0 fs0 kn0 ops force :
    (forall f, In f fs0 -> In f kn0) ->
    choice_spec ->
    let w := run (init_world rows rg0 fs0 kn0) ops in
    let w' := update w force in
    err w' = false -> stale w' = [] ->
    enable (cfg w) = true -> 0 < limit (cfg w) ->
    count_true (a_all (flt w'))
    = Z.min (limit (cfg w)) (count_true (spec_qual rows w)) /\
    Forall2 (fun a q => a = true -> q = true)
            (a_all (flt w')) (spec_qual rows w).
  Proof.
    cbn zeta. intros H0 Hc Hne Hst He Hl.
    destruct (history_ok rg0 fs0 kn0 ops force H0 Hne Hst) as [-> _].
    now apply limit_exact.
  Qed.

  Lemma history_disabled rg0 fs0 kn0 ops force :
    let w := run (init_world rows rg0 fs0 kn0) ops in
    err (update w force) = false ->
    enable (cfg w) = false -> a_all (flt (update w force)) = ones.
  Proof.
    cbn zeta. intros Hne He. unfold C03.update in *.
    cbn [precheck see_removed late_feats reset_on_raise HEAD] in *.
    destruct (existsb (fun f => negb (memZ f (kn _))) force); [discriminate|].
    destruct (existsb _ _); [discriminate|].
    destruct (poly_bad _ _ _ _); cbn [err flt a_all] in *; [discriminate|].
    now rewrite He.
  Qed.

  Lemma history_no_limit rg0 fs0 kn0 ops force :
    (forall f, In f fs0 -> In f kn0) ->
    let w := run (init_world rows rg0 fs0 kn0) ops in
    err (update w force) = false -> stale (update w force) = [] ->
    enable (cfg w) = true -> limit (cfg w) <= 0 ->
    a_all (flt (update w force)) = spec_qual rows w.
  Proof.
    cbn zeta. intros H0 Hne Hst He Hl.
    destruct (history_ok rg0 fs0 kn0 ops force H0 Hne Hst) as [-> _].
    now apply no_limit_all.
  Qed.
End Proofs.

(* a range is inactive when min equals max, when a key is missing, and for a
   feature without range keys *)
Lemma spec_feat_inactive fc rg f r :
  (forall lo hi, rget rg f = (Some lo, Some hi) -> feq lo hi = true) ->
  spec_feat fc rg f r = true.
Proof.
  intros H. unfold spec_feat. destruct (rget rg f) as [[lo|] [hi|]]; try reflexivity.
  unfold fne. now rewrite (H lo hi eq_refl).
Qed.

Lemma spec_feat_active fc rg f r lo hi :
  rget rg f = (Some lo, Some hi) -> feq lo hi = false ->
  spec_feat fc rg f r = in_range lo hi (val r (colof fc f)).
Proof. intros H E. unfold spec_feat, fne. now rewrite H, E. Qed.

(* ---- what the specification says about one range (property text) -------- *)
Lemma in_range_nan lo hi : in_range lo hi FNaN = false.
Proof.
  unfold in_range. destruct (fgt lo hi); now rewrite fle_nan_r, ?andb_false_r.
Qed.

Lemma in_range_swap lo hi x :
  fisnan lo = false -> fisnan hi = false ->
  in_range lo hi x = in_range hi lo x.
Proof.
  unfold in_range, fgt. intros Hl Hh.
  destruct lo, hi, x; cbn in *; try discriminate; try reflexivity;
    repeat match goal with
           | |- context [if ?c then _ else _] => destruct c eqn:?
           end; cbn; lia.
Qed.

Lemma in_range_inclusive lo hi :
  fle lo hi = true -> in_range lo hi lo = true /\ in_range lo hi hi = true.
Proof.
  unfold in_range, fgt. intros H.
  destruct lo, hi; cbn in *; try discriminate; auto;
    repeat match goal with
           | |- context [if ?c then _ else _] => destruct c eqn:?
           end; cbn; split; lia.
Qed.

(* ---- the code before the repair: the history theorem is false ----------- *)
Definition refute_rows : list row := [ {| vals := [Fin 8]; pins := [] |} ].
Definition refute_ops : list op :=
  [SetMin 0 (Fin 2); SetMax 0 (Fin 6); Apply []; DelMin 0; DelMax 0].

(* the code before 1ad19c0, between 1ad19c0 and 2db14c2, and before the
   late-feature repair *)
Definition V0 : variant :=
  {| see_removed := false; precheck := false; late_feats := false; reset_on_raise := false |}.
Definition V1 : variant :=
  {| see_removed := true; precheck := false; late_feats := false; reset_on_raise := false |}.
Definition V2 : variant :=
  {| see_removed := true; precheck := true; late_feats := false; reset_on_raise := false |}.
Definition V3 : variant :=
  {| see_removed := true; precheck := true; late_feats := true; reset_on_raise := false |}.

Lemma unrepaired_refuted :
  forall hashf choice,
    let w := run hashf choice refute_rows [] V0
                 (init_world refute_rows [] [0] [0; 1]) refute_ops in
    let w' := update hashf choice refute_rows [] V0 w [] in
    err w' = false /\ a_all (flt w') <> spec_all choice refute_rows w.
Proof. intros hashf choice. vm_compute. split; [reflexivity|discriminate]. Qed.

(* the same history on the repaired code *)
Example repaired_history :
  forall hashf choice,
    let w := run hashf choice refute_rows [] HEAD
                 (init_world refute_rows [] [0] [0; 1]) refute_ops in
    a_all (flt (update hashf choice refute_rows [] HEAD w [])) = [true].
Proof. intros hashf choice. vm_compute. reflexivity. Qed.

(* ---- non-vacuity --------------------------------------------------------- *)
Lemma mk_hash_inj id v b v' b' : mk_hash id v b = mk_hash id v' b' -> v = v' /\ b = b'.
Proof. unfold mk_hash. destruct b, b'; intros H; split; try lia; try reflexivity; exfalso; lia. Qed.

(* a choice function that satisfies choice_spec: the first k ranks *)
Definition first_k (m k : Z) : list Z := zrange 0 (Z.to_nat k).

Lemma zrange_In from n x : In x (zrange from n) <-> from <= x < from + Z.of_nat n.
Proof.
  revert from. induction n as [|n IH]; intros from; cbn [zrange In].
  - lia.
  - rewrite IH. lia.
Qed.

Lemma zrange_NoDup from n : NoDup (zrange from n).
Proof.
  revert from. induction n as [|n IH]; intros from; cbn; constructor.
  - rewrite zrange_In. lia.
  - apply IH.
Qed.

Lemma first_k_spec : choice_spec first_k.
Proof.
  intros m k Hk. unfold first_k. split; [apply zrange_NoDup|]. split.
  - rewrite zrange_length. lia.
  - apply Forall_forall. intros x Hx. apply zrange_In in Hx. lia.
Qed.

Definition ex_rows : list row :=
  [ {| vals := [Fin 2; Fin 8];  pins := [true] |};
    {| vals := [Fin 4; FNaN];   pins := [true] |};
    {| vals := [Fin 6; Fin 16]; pins := [false] |};
    {| vals := [FNaN;  Fin 24]; pins := [true] |};
    {| vals := [Fin 6; PInf];   pins := [true] |};
    {| vals := [Fin 4; Fin 8];  pins := [true] |};
    {| vals := [Fin 5; Fin 0];  pins := [true] |};
    {| vals := [Fin 5; NInf];   pins := [true] |} ].

Definition ex_ops : list op :=
  [ SetMin 0 (Fin 6); SetMax 0 (Fin 4); Apply []; AddPoly 7;
    SetMin 1 (Fin 0); Apply [] (* raises: "1 max" is missing *); SetMax 1 (Fin 0);
    Apply [1]; InvertPoly 7; EditManual 5 false; Apply []; InvertPoly 7;
    SetLimit 2; DelMin 1; DelMax 1; SetMax 1 PInf; SetMin 1 NInf ].

(* a history whose final application selects a proper non-empty subset, with
   a reversed range, NaN, a tie with a bound, a polygon inverted twice, a
   manual exclusion and an active limit *)
Example ex_history_values :
  let w := run mk_hash first_k ex_rows [] HEAD (init_world ex_rows [(7, (0, false))] [0; 1] [0; 1]) ex_ops in
  (enable (cfg w), limit (cfg w), spec_qual ex_rows w,
   err (update mk_hash first_k ex_rows [] HEAD w []),
   a_all (flt (update mk_hash first_k ex_rows [] HEAD w [])))
  = (true, 2, [false; false; false; false; true; false; true; true], false,
     [false; false; false; false; true; false; true; false]).
Proof. vm_compute. reflexivity. Qed.

(* exception safety: an application that raised (half-set range) in the middle
   of the history leaves nothing stale behind *)
Definition exc_rows : list row :=
  [ {| vals := [Fin 8;  Fin 1]; pins := [] |}; {| vals := [Fin 16; Fin 2]; pins := [] |};
    {| vals := [Fin 24; Fin 4]; pins := [] |}; {| vals := [Fin 32; Fin 6]; pins := [] |} ].
Definition exc_ops : list op :=
  [ SetMin 0 (Fin 8); SetMax 0 (Fin 16); Apply [];
    SetMin 0 (Fin 24); SetMax 0 (Fin 32); SetMin 1 (Fin 0); Apply [];
    SetMin 0 (Fin 8); SetMax 0 (Fin 16); DelMin 1 ].

Example exception_safe_history :
  forall hashf choice,
    let w1 := run hashf choice exc_rows [] HEAD (init_world exc_rows [] [0; 1] [0; 1])
                  (firstn 7 exc_ops) in
    let w := run hashf choice exc_rows [] HEAD (init_world exc_rows [] [0; 1] [0; 1]) exc_ops in
    let w' := update hashf choice exc_rows [] HEAD w [] in
    err w1 = true /\ err w' = false /\ a_all (flt w') = [true; true; false; false]
    /\ a_all (flt w') = spec_all choice exc_rows w.
Proof. intros hashf choice. vm_compute. auto. Qed.

(* the code before 2db14c2 (pairing check inside the loop): the application
   in the middle raises after the box filter of feature 0 was recomputed for
   [3, 4]; restoring [1, 2] is not noticed *)
Lemma sequential_raise_refuted :
  forall hashf choice,
    let w := run hashf choice exc_rows [] V1 (init_world exc_rows [] [0; 1] [0; 1]) exc_ops in
    let w' := update hashf choice exc_rows [] V1 w [] in
    err w' = false /\ a_all (flt w') <> spec_all choice exc_rows w.
Proof. intros hashf choice. vm_compute. split; [reflexivity|discriminate]. Qed.

(* the code without the late-feature repair: a range is configured and applied
   while its feature (number 1) is not yet part of the dataset; once the
   feature exists the range is still not applied *)
Definition late_ops : list op :=
  [ SetMin 1 (Fin 2); SetMax 1 (Fin 4); Apply []; AddFeat 1 ].

Lemma late_feature_refuted :
  forall hashf choice,
    let w := run hashf choice exc_rows [] V2 (init_world exc_rows [] [0] [0; 1]) late_ops in
    let w' := update hashf choice exc_rows [] V2 w [] in
    err w' = false /\ a_all (flt w') <> spec_all choice exc_rows w.
Proof. intros hashf choice. vm_compute. split; [reflexivity|discriminate]. Qed.

Example late_feature_history :
  forall hashf choice,
    let w := run hashf choice exc_rows [] HEAD (init_world exc_rows [] [0] [0; 1])
                 (late_ops ++ [Apply []; DelFeat 1; Apply []; AddFeat 1]) in
    let w' := update hashf choice exc_rows [] HEAD w [] in
    err w' = false /\ a_all (flt w') = [false; true; true; false]
    /\ a_all (flt w') = spec_all choice exc_rows w.
Proof. intros hashf choice. vm_compute. auto. Qed.

(* data replacement (set_temporary_feature on an existing temporary feature):
   rows carry a second column (number 2) for feature 1 *)
Definition repl_rows : list row :=
  [ {| vals := [Fin 8;  Fin 0;  Fin 8];  pins := [] |};
    {| vals := [Fin 16; Fin 8;  Fin 8];  pins := [] |};
    {| vals := [Fin 24; Fin 16; Fin 40]; pins := [] |};
    {| vals := [Fin 32; Fin 24; Fin 40]; pins := [] |} ].
Definition repl_ops : list op :=
  [ AddFeat 1; SetMin 1 (Fin 8); SetMax 1 (Fin 16); Apply []; ReplaceTemp 1 2 ].

(* with force=[1] the mask follows the new data; the guard [stale = []] holds *)
Example replaced_data_forced :
  forall hashf choice,
    let w := run hashf choice repl_rows [] HEAD (init_world repl_rows [] [0] [0; 1]) repl_ops in
    let w' := update hashf choice repl_rows [] HEAD w [1] in
    err w' = false /\ stale w' = [] /\ a_all (flt w') = [true; true; false; false]
    /\ a_all (flt w') = spec_all choice repl_rows w.
Proof. intros hashf choice. vm_compute. auto. Qed.

(* without force the box cache (no data hash) keeps the mask of the old data:
   [stale] is not empty and the selection differs from the specification.
   Replacing feature data is not an operation of the property's quantifier. *)
Lemma replaced_data_unforced_stale :
  forall hashf choice,
    let w := run hashf choice repl_rows [] HEAD (init_world repl_rows [] [0] [0; 1]) repl_ops in
    let w' := update hashf choice repl_rows [] HEAD w [] in
    err w' = false /\ stale w' = [1] /\ a_all (flt w') <> spec_all choice repl_rows w.
Proof. intros hashf choice. vm_compute. repeat split; try reflexivity. discriminate. Qed.

(* an unknown feature name in `force` raises *)
Example unknown_force_raises :
  forall hashf choice,
    err (update hashf choice repl_rows [] HEAD (init_world repl_rows [] [0] [0; 1]) [5]) = true.
Proof. intros hashf choice. vm_compute. reflexivity. Qed.

(* a limit beyond any pool size selects all qualifying events *)
Example huge_limit :
  forall hashf choice,
    let w := run hashf choice repl_rows [] HEAD (init_world repl_rows [] [0] [0; 1])
                 [SetMin 0 (Fin 8); SetMax 0 (Fin 16); SetLimit 4294967296] in
    let w' := update hashf choice repl_rows [] HEAD w [] in
    err w' = false /\ a_all (flt w') = [true; true; false; false].
Proof. intros hashf choice. vm_compute. auto. Qed.

(* the code before fixes_proposed/C03-failed-update-resets-caches.diff: a
   polygon filter id without instance (777) makes the application raise
   KeyError after the box filter of feature 0 was recomputed for [3, 4];
   the id is removed and [1, 2] restored: the [3, 4] mask stays *)
Definition keyerr_ops : list op :=
  [ SetMin 0 (Fin 8); SetMax 0 (Fin 16); Apply [];
    SetMin 0 (Fin 24); SetMax 0 (Fin 32); AddPoly 777; Apply [];
    RmPoly 777; SetMin 0 (Fin 8); SetMax 0 (Fin 16) ].

Lemma polygon_keyerror_refuted :
  forall hashf choice,
    let w1 := run hashf choice exc_rows [] V3 (init_world exc_rows [] [0; 1] [0; 1])
                  (firstn 7 keyerr_ops) in
    let w := run hashf choice exc_rows [] V3 (init_world exc_rows [] [0; 1] [0; 1])
                 keyerr_ops in
    let w' := update hashf choice exc_rows [] V3 w [] in
    err w1 = true /\ err w' = false /\ a_all (flt w') <> spec_all choice exc_rows w.
Proof. intros hashf choice. vm_compute. repeat split; try reflexivity. discriminate. Qed.

Example polygon_keyerror_history :
  forall hashf choice,
    let w1 := run hashf choice exc_rows [] HEAD (init_world exc_rows [] [0; 1] [0; 1])
                  (firstn 7 keyerr_ops) in
    let w := run hashf choice exc_rows [] HEAD (init_world exc_rows [] [0; 1] [0; 1])
                 keyerr_ops in
    let w' := update hashf choice exc_rows [] HEAD w [] in
    err w1 = true /\ err w' = false /\ a_all (flt w') = [true; true; false; false]
    /\ a_all (flt w') = spec_all choice exc_rows w.
Proof. intros hashf choice. vm_compute. auto. Qed.

(* a polygon on a feature the dataset does not have (vertex set 0 uses
   features 0 and 5) raises; a half-set range on a deregistered temporary
   feature does not *)
Example polygon_missing_axis_raises :
  forall hashf choice,
    let w := run hashf choice exc_rows [(0, [0; 5])] HEAD
                 (init_world exc_rows [(3, (0, false))] [0; 1] [0; 1; 5]) [AddPoly 3] in
    err (update hashf choice exc_rows [(0, [0; 5])] HEAD w []) = true.
Proof. intros hashf choice. vm_compute. reflexivity. Qed.

Example half_set_on_deregistered_does_not_raise :
  forall hashf choice,
    let w := run hashf choice exc_rows [] HEAD (init_world exc_rows [] [0] [0; 1])
                 [AddFeat 1; SetMin 1 (Fin 2); SetMax 1 (Fin 4); Apply []; DelFeat 1;
                  DelMin 1] in
    let w' := update hashf choice exc_rows [] HEAD w [] in
    err w' = false /\ a_all (flt w') = spec_all choice exc_rows w.
Proof. intros hashf choice. vm_compute. auto. Qed.
