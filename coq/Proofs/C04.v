(* Proofs about Model/C04.v (hierarchy children). *)
From Coq Require Import ZArith List Bool Lia ZifyBool ZifyNat.
From Verif Require Import Model.C04.
Import ListNotations.
Open Scope Z_scope.

(* ======================================================================== *)
(* 1. select / where / index maps                                           *)
(* ======================================================================== *)
Lemma select_nil_r {A} (m : list bool) : select m (@nil A) = [].
Proof. destruct m as [|[] m]; reflexivity. Qed.

Lemma select_length {A B} (m : list bool) (xs : list A) (ys : list B) :
  length xs = length ys -> length (select m xs) = length (select m ys).
Proof.
  revert xs ys; induction m as [|b m IH]; intros xs ys H; [reflexivity|].
  destruct xs as [|x xs], ys as [|y ys]; simpl in *; try discriminate;
    [reflexivity|].
  destruct b; simpl; [f_equal|]; apply IH; lia.
Qed.

Lemma select_length_count {A} (m : list bool) (xs : list A) :
  length xs = length m -> length (select m xs) = count_true m.
Proof. intros H; unfold count_true; apply select_length; exact H. Qed.

Lemma select_map {A B} (g : A -> B) (m : list bool) (xs : list A) :
  select m (map g xs) = map g (select m xs).
Proof.
  revert xs; induction m as [|b m IH]; intros [|x xs]; simpl; try reflexivity.
  destruct b; simpl; now rewrite IH.
Qed.

Lemma select_In {A} (m : list bool) (xs : list A) (x : A) :
  In x (select m xs) -> In x xs.
Proof.
  revert xs; induction m as [|b m IH]; intros [|y xs] H; simpl in *;
    try contradiction.
  destruct b; simpl in H.
  - destruct H as [H|H]; [now left|right; now apply IH].
  - right; now apply IH.
Qed.

Lemma iota_length s n : length (iota s n) = n.
Proof. revert s; induction n as [|n IH]; intros s; simpl; [|rewrite IH]; reflexivity. Qed.

Lemma iota_map_succ s n : iota (s + 1) n = map (fun i => i + 1) (iota s n).
Proof.
  revert s; induction n as [|n IH]; intros s; simpl; [reflexivity|].
  now rewrite IH.
Qed.

Lemma iota_In s n x : In x (iota s n) <-> s <= x < s + Z.of_nat n.
Proof.
  revert s; induction n as [|n IH]; intros s; simpl.
  - split; [contradiction|lia].
  - rewrite IH. lia.
Qed.

(* xs[m] read through the index list np.where(m)[0] *)
Lemma select_as_where {A} (d : A) (m : list bool) (xs : list A) :
  (length m <= length xs)%nat ->
  select m xs = map (fun i => nth (Z.to_nat i) xs d) (where_ m).
Proof.
  unfold where_.
  revert xs; induction m as [|b m IH]; intros xs H; [reflexivity|].
  destruct xs as [|x xs]; [simpl in H; lia|].
  simpl in H.
  cbn [length iota select].
  replace (0 + 1) with 1 by lia.
  assert (Hs : map (fun i => nth (Z.to_nat i) (x :: xs) d)
                   (select m (iota 1 (length m)))
               = select m xs).
  { rewrite (IH xs) by lia.
    rewrite (iota_map_succ 0), select_map, map_map.
    apply map_ext_in; intros i Hi.
    apply select_In, iota_In in Hi.
    replace (Z.to_nat (i + 1)) with (S (Z.to_nat i)) by lia. reflexivity. }
  destruct b; cbn [map]; rewrite Hs; reflexivity.
Qed.

Lemma where_length m : length (where_ m) = count_true m.
Proof.
  unfold where_. apply select_length_count. apply iota_length.
Qed.

Lemma where_In m i : In i (where_ m) -> 0 <= i < Z.of_nat (length m).
Proof.
  unfold where_; intros H. apply select_In, iota_In in H. lia.
Qed.

Lemma take_idx_all (idx : list Z) :
  take_idx idx (iota 0 (length idx)) = Some idx.
Proof.
  (* generalised over a prefix already consumed *)
  assert (G : forall pre suf,
             take_idx (pre ++ suf) (iota (Z.of_nat (length pre)) (length suf))
             = Some suf).
  { intros pre suf; revert pre; induction suf as [|v suf IH]; intros pre;
      [reflexivity|].
    cbn [length iota take_idx].
    rewrite Nat2Z.id, nth_error_app2 by lia.
    replace (length pre - length pre)%nat with 0%nat by lia.
    cbn [nth_error].
    replace (pre ++ v :: suf) with ((pre ++ [v]) ++ suf)
      by (now rewrite <- app_assoc).
    replace (Z.of_nat (length pre) + 1) with (Z.of_nat (length (pre ++ [v])))
      by (rewrite app_length; simpl; lia).
    rewrite IH.
    destruct (0 <=? Z.of_nat (length pre)) eqn:E; [reflexivity|lia]. }
  exact (G [] idx).
Qed.

(* map_indices_child2parent of all child indices = np.where(parent mask) *)
Lemma c2p_all (p : level) :
  c2p p (iota 0 (count_true (f_all (l_filt p)))) = Some (where_ (f_all (l_filt p))).
Proof.
  unfold c2p. rewrite <- where_length. apply take_idx_all.
Qed.

(* ======================================================================== *)
(* 2. A refreshed chain: every child is the filtered view of its parent     *)
(* ======================================================================== *)
Definition view_of (c p : level) : Prop :=
  l_len c = Z.of_nat (count_true (f_all (l_filt p)))
  /\ l_data c = map (option_map (select (f_all (l_filt p)))) (l_data p).

(* youngest first *)
Fixpoint view_ok (ls : list level) : Prop :=
  match ls with
  | c :: ps => match ps with
               | p :: _ => view_of c p /\ view_ok ps
               | [] => True
               end
  | [] => True
  end.

Lemma filter_update_data l : l_data (filter_update l) = l_data l.
Proof. reflexivity. Qed.
Lemma filter_update_len l : l_len (filter_update l) = l_len l.
Proof. reflexivity. Qed.

Lemma child_finish_view c p : view_of (child_finish c p) p.
Proof. split; reflexivity. Qed.

Lemma new_child_view p : view_of (new_child p) p.
Proof. split; reflexivity. Qed.

Lemma refresh_up_cons2 c p ps :
  refresh_up (c :: p :: ps) =
  match refresh_up (p :: ps) with
  | q :: qs => child_finish (set_filt c (retrieve (l_filt c))) q :: q :: qs
  | [] => [set_filt c (retrieve (l_filt c))]
  end.
Proof. reflexivity. Qed.

Lemma refresh_up_length ls : length (refresh_up ls) = length ls.
Proof.
  induction ls as [|c ps IH]; [reflexivity|].
  destruct ps as [|p ps']; [reflexivity|].
  rewrite refresh_up_cons2.
  remember (refresh_up (p :: ps')) as R eqn:E.
  destruct R as [|q qs].
  - simpl in IH. discriminate.
  - simpl in *. lia.
Qed.

Theorem refresh_view : forall ls, view_ok (refresh_up ls).
Proof.
  induction ls as [|c ps IH]; [exact I|].
  destruct ps as [|p ps']; [exact I|].
  rewrite refresh_up_cons2.
  remember (refresh_up (p :: ps')) as R eqn:E.
  destruct R as [|q qs]; [exact I|].
  split; [apply child_finish_view | exact IH].
Qed.

(* ---- caches do not matter for filters, lengths and refresh-time values -- *)
Definition same_core (a b : level) : Prop :=
  l_cfg a = l_cfg b /\ l_filt a = l_filt b /\ l_len a = l_len b
  /\ l_data a = l_data b.

Lemma same_core_refl a : same_core a a.
Proof. repeat split. Qed.

Lemma same_core_set_cache a c : same_core a (set_cache a c).
Proof. repeat split. Qed.

Lemma core_refl ls : Forall2 same_core ls ls.
Proof. induction ls; constructor; [apply same_core_refl|assumption]. Qed.

Lemma core_trans ls1 : forall ls2 ls3,
  Forall2 same_core ls1 ls2 -> Forall2 same_core ls2 ls3 ->
  Forall2 same_core ls1 ls3.
Proof.
  induction ls1 as [|a ls1 IH]; intros ls2 ls3 H1 H2; inversion H1; subst;
    inversion H2; subst; constructor.
  - destruct H3 as [A1 [A2 [A3 A4]]]. destruct H4 as [B1 [B2 [B3 B4]]].
    repeat split; congruence.
  - eapply IH; eassumption.
Qed.

Lemma propagate_core : forall ls acc, Forall2 same_core ls (propagate acc ls).
Proof.
  induction ls as [|l ps IH]; intros acc; [constructor|].
  cbn [propagate]. constructor; [apply same_core_set_cache|apply IH].
Qed.

Lemma read_core : forall ls s, Forall2 same_core ls (snd (read ls s)).
Proof.
  induction ls as [|c ps IH]; intros s; [constructor|].
  destruct ps as [|p ps'].
  - cbn. constructor; [apply same_core_refl|constructor].
  - change (read (c :: p :: ps') s) with
      (match nth s (l_cache c) None with
       | Some d => (Some d, c :: p :: ps')
       | None =>
           let '(v, ps1) := read (p :: ps') s in
           match v, p :: ps' with
           | Some pd, p0 :: _ =>
               let d := select (f_all (l_filt p0)) pd in
               (Some d, set_cache c (set_nth s (Some d) (l_cache c)) :: ps1)
           | _, _ => (None, c :: ps1)
           end
       end).
    destruct (nth s (l_cache c) None); [apply core_refl|].
    pose proof (IH s) as IH'.
    destruct (read (p :: ps') s) as [v ps1]. cbn [snd] in IH'.
    destruct v; cbn [snd]; constructor; try assumption;
      [apply same_core_set_cache|apply same_core_refl].
Qed.

Lemma core_app xs xs' ys ys' :
  Forall2 same_core xs xs' -> Forall2 same_core ys ys' ->
  Forall2 same_core (xs ++ ys) (xs' ++ ys').
Proof. apply Forall2_app. Qed.

Lemma read_at_core ls pos s : Forall2 same_core ls (snd (read_at ls pos s)).
Proof.
  unfold read_at. pose proof (read_core (skipn pos ls) s) as H.
  destruct (read (skipn pos ls) s) as [v suf]. cbn [snd] in *.
  rewrite <- (firstn_skipn pos ls) at 1.
  apply core_app; [apply core_refl|exact H].
Qed.

Lemma read_slots_core : forall k ls pos s,
  Forall2 same_core ls (snd (read_slots ls pos s k)).
Proof.
  induction k as [|k IH]; intros ls pos s; [apply core_refl|].
  cbn [read_slots]. pose proof (read_at_core ls pos s) as H1.
  destruct (read_at ls pos s) as [v ls1]. cbn [snd] in H1.
  pose proof (IH ls1 pos (S s)) as H2.
  destruct (read_slots ls1 pos (S s) k) as [out ls2]. cbn [snd] in *.
  eapply core_trans; eassumption.
Qed.

Lemma observe_core img : forall k ls,
  Forall2 same_core ls (snd (observe img ls k)).
Proof.
  induction k as [|k IH]; intros ls; [apply core_refl|].
  cbn [observe]. pose proof (read_slots_core NSLOT ls k 0) as H1.
  destruct (read_slots ls k 0 NSLOT) as [cols ls1]. cbn [snd] in H1.
  pose proof (IH ls1) as H2.
  destruct (observe img ls1 k) as [out2 ls2]. cbn [snd] in *.
  eapply core_trans; eassumption.
Qed.

Lemma view_ok_core : forall ls ls',
  Forall2 same_core ls ls' -> view_ok ls -> view_ok ls'.
Proof.
  induction ls as [|c ps IH]; intros ls' H Hv; inversion H as [|? c' ? ps1 Hc Hps];
    subst; [exact I|].
  destruct ps as [|p ps']; inversion Hps as [|? p' ? ps2 Hp Hps']; subst;
    [exact I|].
  destruct Hv as [[V1 V2] Hv]. split; [|now apply IH].
  destruct Hc as [_ [C2 [C3 C4]]]. destruct Hp as [_ [P2 [P3 P4]]].
  unfold view_of. now rewrite <- C3, <- C4, <- P2, <- P4.
Qed.

Lemma refresh_core ls : Forall2 same_core (refresh_up ls) (refresh ls).
Proof. apply propagate_core. Qed.

(* what the three modes of operation 3 do to everything but the caches *)
Lemma step3_a4 st b c d :
  s_levels (fst (step st (3, 4, b, c, d)))
  = upd_level (s_levels st) (pos_of (s_levels st) b) reset_level.
Proof. reflexivity. Qed.

Lemma step3_a5 st b c d :
  s_levels (fst (step st (3, 5, b, c, d)))
  = upd_level (s_levels st) (pos_of (s_levels st) b)
              (del_range (Z.to_nat (c mod 5))).
Proof. reflexivity. Qed.

Lemma step3_core st a b c d :
  (a =? 4) = false -> (a =? 5) = false ->
  Forall2 same_core
          (if (a =? 0) || (a =? 1) then refresh_up (s_levels st)
           else s_levels st)
          (s_levels (fst (step st (3, a, b, c, d)))).
Proof.
  intros A4 A5. unfold step. cbn [Z.eqb Pos.eqb].
  destruct (a =? 0) eqn:E0.
  { cbn [orb].
    pose proof (observe_core (s_img st) (length (s_levels st))
                             (refresh (s_levels st))) as H.
    destruct (observe (s_img st) (refresh (s_levels st))
                      (length (s_levels st))) as [out ls'].
    cbn [fst snd s_levels] in *.
    eapply core_trans; [apply refresh_core|exact H]. }
  destruct (a =? 1) eqn:E1.
  { cbn [orb fst s_levels]. apply refresh_core. }
  cbn [orb]. destruct (a =? 2).
  - pose proof (read_at_core (s_levels st) (pos_of (s_levels st) b)
                             (Z.to_nat (c mod 5))) as H.
    destruct (read_at (s_levels st) (pos_of (s_levels st) b)
                      (Z.to_nat (c mod 5))) as [v ls'].
    exact H.
  - rewrite A4, A5. apply core_refl.
Qed.

Theorem grow_view : forall ls, view_ok (grow ls).
Proof.
  intros ls; unfold grow.
  pose proof (refresh_view ls) as H.
  destruct (refresh_up ls) as [|p ps]; [exact I|].
  eapply view_ok_core; [apply propagate_core|].
  split; [apply new_child_view | exact H].
Qed.

(* the observable statement: after rejuvenate of the youngest member, at any
   depth, the feature columns of every child are those of its parent
   restricted to the parent's filter, and len(child) is the number of
   selected events -- whatever happened before (any state [st]) *)
Theorem rejuvenate_child_is_view :
  forall st : state,
    view_ok (s_levels (fst (step st (3, 0, 0, 0, 0))))
    /\ view_ok (s_levels (fst (step st (3, 1, 0, 0, 0)))).
Proof.
  intros st; split.
  - eapply view_ok_core; [apply (step3_core st 0 0 0 0 eq_refl eq_refl)|]. apply refresh_view.
  - eapply view_ok_core; [apply (step3_core st 1 0 0 0 eq_refl eq_refl)|]. apply refresh_view.
Qed.

(* composed over the depth: the columns of the youngest are the root's
   columns restricted successively by every ancestor's filter *)
Fixpoint compose_select {A} (anc : list level) (xs : list A) : list A :=
  match anc with
  | [] => xs
  | p :: anc' => select (f_all (l_filt p)) (compose_select anc' xs)
  end.

Lemma option_map_compose {A B C} (g : B -> C) (h : A -> B) (o : option A) :
  option_map g (option_map h o) = option_map (fun x => g (h x)) o.
Proof. destruct o; reflexivity. Qed.

Lemma last_cons {A} (x d : A) (l : list A) : last (x :: l) d = last l x.
Proof.
  revert x d; induction l as [|y l IH]; intros x d; [reflexivity|].
  change (last (x :: y :: l) d) with (last (y :: l) d).
  rewrite (IH y d). symmetry. apply IH.
Qed.

Theorem view_composes_to_root :
  forall anc c,
    view_ok (c :: anc) ->
    l_data c = map (option_map (compose_select anc)) (l_data (last anc c)).
Proof.
  induction anc as [|p anc' IH]; intros c Hv.
  - simpl. rewrite <- (map_id (l_data c)) at 1. apply map_ext.
    intros [x|]; reflexivity.
  - destruct Hv as [[_ Hd] Hv].
    rewrite Hd, (IH p Hv), last_cons, map_map.
    apply map_ext. intros o. rewrite option_map_compose. reflexivity.
Qed.

(* ======================================================================== *)
(* 3. One hierarchy filter through its life: manual exclusions in root ids   *)
(* ======================================================================== *)
Lemma memz_In x l : memz x l = true <-> In x l.
Proof.
  unfold memz. rewrite existsb_exists. split.
  - intros [y [Hy E]]. apply Z.eqb_eq in E. now subst.
  - intros H. exists x. split; [exact H|apply Z.eqb_refl].
Qed.

Lemma insert_uniq_In x y l : In y (insert_uniq x l) <-> y = x \/ In y l.
Proof.
  induction l as [|z l IH]; simpl.
  - intuition.
  - destruct (x <? z) eqn:E1; [simpl; intuition|].
    destruct (x =? z) eqn:E2.
    + apply Z.eqb_eq in E2; subst. simpl. intuition.
    + simpl. rewrite IH. intuition.
Qed.

Lemma sort_uniq_In y l : In y (sort_uniq l) <-> In y l.
Proof.
  induction l as [|x l IH]; simpl; [reflexivity|].
  rewrite insert_uniq_In, IH. intuition.
Qed.

Lemma all_true_nth m : all_true m = true ->
  forall j, nth j m true = true.
Proof.
  unfold all_true; intros H j.
  destruct (Nat.lt_ge_cases j (length m)) as [Hj|Hj].
  - rewrite forallb_forall in H. apply H. now apply nth_In.
  - now rewrite nth_overflow.
Qed.

(* membership in x[~manual] *)
Lemma select_negb_In (man : list bool) (rids : list Z) r :
  In r (select (map negb man) rids) <->
  exists j, (j < length man)%nat /\ (j < length rids)%nat
            /\ nth j man true = false /\ nth j rids (-1) = r.
Proof.
  revert rids; induction man as [|b man IH]; intros rids.
  - simpl. split; [contradiction|]. intros [j [H _]]. simpl in H. lia.
  - destruct rids as [|x rids].
    + simpl. split; [contradiction|]. intros [j [_ [H _]]]. simpl in H; lia.
    + cbn [map select].
      assert (Hrec : In r (select (map negb man) rids) <->
                     exists j, (S j < length (b :: man))%nat
                               /\ (S j < length (x :: rids))%nat
                               /\ nth (S j) (b :: man) true = false
                               /\ nth (S j) (x :: rids) (-1) = r).
      { rewrite IH. split; intros [j [H1 [H2 [H3 H4]]]]; exists j; simpl in *;
          repeat split; try lia; assumption. }
      destruct b; cbn [negb].
      * rewrite Hrec. split.
        -- intros [j H]. exists (S j). exact H.
        -- intros [[|j] [H1 [H2 [H3 H4]]]]; [simpl in H3; discriminate|].
           exists j. repeat split; assumption.
      * cbn [In]. rewrite Hrec. split.
        -- intros [H|[j H]]; [exists 0%nat; simpl; repeat split; try lia; assumption|].
           exists (S j). exact H.
        -- intros [[|j] [H1 [H2 [H3 H4]]]]; [left; exact H4|].
           right. exists j. repeat split; assumption.
Qed.

(* the three fields of a filter that carry the manual exclusions *)
Definition same_manual (f g : filt) : Prop :=
  f_manual g = f_manual f /\ f_mri g = f_mri f /\ f_rids g = f_rids f.

(* what one refresh does to the filter of a child: retrieve the root ids;
   then either keep the filter (parent unchanged) or create a new one over
   the new events [rids'] and re-apply the retrieved ids *)
Definition refreshed (f g : filt) : Prop :=
  same_manual (retrieve f) g
  \/ exists rids',
       f_rids g = rids' /\ NoDup rids'
       /\ f_mri g = f_mri (retrieve (retrieve f))
       /\ f_manual g = map (fun r => negb (memz r (f_mri g))) rids'.

(* the user writes filter.manual[i] = v *)
Definition edited (i : nat) (v : bool) (f g : filt) : Prop :=
  (i < length (f_manual f))%nat
  /\ f_manual g = set_nth i v (f_manual f)
  /\ f_mri g = f_mri f /\ f_rids g = f_rids f.

(* J: every event of the set E (root ids) is excluded: in filter.manual when
   it is visible, in the stored root ids when it is hidden *)
Definition keeps (E : Z -> Prop) (f : filt) : Prop :=
  length (f_manual f) = length (f_rids f)
  /\ NoDup (f_rids f)
  /\ (forall j, (j < length (f_rids f))%nat -> E (nth j (f_rids f) (-1)) ->
                nth j (f_manual f) true = false)
  /\ (forall r, E r -> ~ In r (f_rids f) -> In r (f_mri f)).

(* K: nothing outside of the set V is excluded or stored *)
Definition only (V : Z -> Prop) (f : filt) : Prop :=
  length (f_manual f) = length (f_rids f)
  /\ (forall j, (j < length (f_rids f))%nat ->
                nth j (f_manual f) true = false -> V (nth j (f_rids f) (-1)))
  /\ (forall r, In r (f_mri f) -> V r).

Lemma retrieve_rids f : f_rids (retrieve f) = f_rids f.
Proof. unfold retrieve; destruct (all_true (f_manual f)); reflexivity. Qed.
Lemma retrieve_manual f : f_manual (retrieve f) = f_manual f.
Proof. unfold retrieve; destruct (all_true (f_manual f)); reflexivity. Qed.

Lemma retrieve_mri_In f r :
  In r (f_mri (retrieve f)) <->
  if all_true (f_manual f) then In r (f_mri f)
  else In r (select (map negb (f_manual f)) (f_rids f))
       \/ (In r (f_mri f) /\ ~ In r (f_rids f)).
Proof.
  unfold retrieve. destruct (all_true (f_manual f)); [reflexivity|].
  cbn [f_mri]. rewrite sort_uniq_In, in_app_iff, filter_In.
  rewrite negb_true_iff, <- not_true_iff_false, memz_In. reflexivity.
Qed.

(* after retrieve_manual_indices every event of E is in the stored ids *)
Lemma keeps_retrieve_all E f :
  keeps E f -> forall r, E r -> In r (f_mri (retrieve f)).
Proof.
  intros [Hlen [Hnd [J1 J2]]] r Hr.
  rewrite retrieve_mri_In.
  destruct (all_true (f_manual f)) eqn:Hall.
  - apply J2; [exact Hr|]. intros Hin.
    destruct (In_nth _ _ (-1) Hin) as [j [Hj Hn]].
    pose proof (J1 j Hj) as H. rewrite Hn in H. specialize (H Hr).
    rewrite (all_true_nth _ Hall j) in H. discriminate.
  - destruct (in_dec Z.eq_dec r (f_rids f)) as [Hin|Hnin].
    + left. destruct (In_nth _ _ (-1) Hin) as [j [Hj Hn]].
      apply select_negb_In. exists j. repeat split; try lia; try assumption.
      apply J1; [exact Hj|now rewrite Hn].
    + right. split; [now apply J2|exact Hnin].
Qed.

Lemma keeps_retrieve E f : keeps E f -> keeps E (retrieve f).
Proof.
  intros HJ. pose proof (keeps_retrieve_all E f HJ) as Hall.
  destruct HJ as [Hlen [Hnd [J1 J2]]].
  unfold keeps. rewrite retrieve_rids, retrieve_manual.
  repeat split; [exact Hlen|exact Hnd|exact J1|].
  intros r Hr _. now apply Hall.
Qed.

Lemma keeps_same E f g : same_manual f g -> keeps E f -> keeps E g.
Proof.
  intros [H1 [H2 H3]] HJ. unfold keeps. rewrite H1, H2, H3. exact HJ.
Qed.

Theorem keeps_refreshed E f g : refreshed f g -> keeps E f -> keeps E g.
Proof.
  intros [Hs|[rids' [Hr [Hnd' [Hm Hman]]]]] HJ.
  - eapply keeps_same; [exact Hs|]. now apply keeps_retrieve.
  - assert (Hall : forall r, E r -> In r (f_mri g)).
    { intros r HEr. rewrite Hm.
      apply (keeps_retrieve_all E (retrieve f)); [|exact HEr].
      now apply keeps_retrieve. }
    unfold keeps. rewrite Hman, Hr, map_length.
    repeat split; [exact Hnd'| |].
    + intros j Hj HE.
      rewrite (nth_indep _ true (negb (memz (-1) (f_mri g))))
        by (rewrite map_length; exact Hj).
      rewrite (map_nth (fun r => negb (memz r (f_mri g)))).
      apply negb_false_iff, memz_In, Hall, HE.
    + intros r HEr _. now apply Hall.
Qed.

Lemma nth_set_nth_eq {A} (l : list A) i v d :
  (i < length l)%nat -> nth i (set_nth i v l) d = v.
Proof.
  revert i; induction l as [|x l IH]; intros [|i] H; simpl in *; try lia;
    [reflexivity|]. apply IH; lia.
Qed.

Lemma nth_set_nth_neq {A} (l : list A) i j v d :
  i <> j -> nth j (set_nth i v l) d = nth j l d.
Proof.
  revert i j; induction l as [|x l IH]; intros [|i] [|j] H; simpl;
    try reflexivity; try congruence.
  apply IH; congruence.
Qed.

Lemma set_nth_length {A} (l : list A) i v : length (set_nth i v l) = length l.
Proof.
  revert i; induction l as [|x l IH]; intros [|i]; simpl; try reflexivity.
  now rewrite IH.
Qed.

(* filter.manual[i] = False adds the event at position i to the set *)
Theorem keeps_exclude E f g i :
  edited i false f g -> keeps E f ->
  keeps (fun r => E r \/ r = nth i (f_rids f) (-1)) g.
Proof.
  intros [Hi [Hman [Hm Hr]]] [Hlen [Hnd [J1 J2]]].
  unfold keeps. rewrite Hman, Hm, Hr, set_nth_length.
  repeat split; [exact Hlen|exact Hnd| |].
  - intros j Hj HE.
    destruct (Nat.eq_dec i j) as [->|Hne]; [apply nth_set_nth_eq; lia|].
    rewrite nth_set_nth_neq by exact Hne.
    destruct HE as [HE|Heq]; [now apply J1|].
    exfalso. apply Hne. symmetry.
    apply (proj1 (NoDup_nth (f_rids f) (-1)) Hnd); [exact Hj|lia|exact Heq].
  - intros r [HE|Heq] Hnin; [now apply J2|].
    exfalso. apply Hnin. subst r. apply nth_In. lia.
Qed.

(* filter.manual[i] = True removes it; everything else stays excluded *)
Theorem keeps_include E f g i :
  edited i true f g -> keeps E f ->
  keeps (fun r => E r /\ r <> nth i (f_rids f) (-1)) g.
Proof.
  intros [Hi [Hman [Hm Hr]]] [Hlen [Hnd [J1 J2]]].
  unfold keeps. rewrite Hman, Hm, Hr, set_nth_length.
  repeat split; [exact Hlen|exact Hnd| |].
  - intros j Hj [HE Hne].
    destruct (Nat.eq_dec i j) as [->|Hij]; [now elim Hne|].
    rewrite nth_set_nth_neq by exact Hij. now apply J1.
  - intros r [HE _] Hnin. now apply J2.
Qed.

(* anything that leaves manual / stored ids / root ids alone *)
Theorem keeps_untouched E f g : same_manual f g -> keeps E f -> keeps E g.
Proof. exact (keeps_same E f g). Qed.

(* ---- the converse: nothing else gets excluded ---------------------------- *)
Lemma only_retrieve V f : only V f -> only V (retrieve f).
Proof.
  intros [Hlen [K1 K2]]. unfold only.
  rewrite retrieve_rids, retrieve_manual.
  repeat split; [exact Hlen|exact K1|].
  intros r Hin. rewrite retrieve_mri_In in Hin.
  destruct (all_true (f_manual f)); [now apply K2|].
  destruct Hin as [Hin|[Hin _]]; [|now apply K2].
  apply select_negb_In in Hin. destruct Hin as [j [_ [Hj [Hf Hn]]]].
  subst r. now apply K1.
Qed.

Lemma only_same V f g : same_manual f g -> only V f -> only V g.
Proof.
  intros [H1 [H2 H3]] HK. unfold only. rewrite H1, H2, H3. exact HK.
Qed.

Theorem only_refreshed V f g : refreshed f g -> only V f -> only V g.
Proof.
  intros [Hs|[rids' [Hr [Hnd' [Hm Hman]]]]] HK.
  - eapply only_same; [exact Hs|]. now apply only_retrieve.
  - assert (Hsub : forall r, In r (f_mri g) -> V r).
    { intros r Hin. rewrite Hm in Hin.
      destruct (only_retrieve V _ (only_retrieve V f HK)) as [_ [_ K2]].
      now apply K2. }
    unfold only. rewrite Hman, Hr, map_length.
    repeat split; [|exact Hsub].
    intros j Hj Hf.
    rewrite (nth_indep _ true (negb (memz (-1) (f_mri g)))) in Hf
      by (rewrite map_length; exact Hj).
    rewrite (map_nth (fun r => negb (memz r (f_mri g)))) in Hf.
    apply negb_false_iff, memz_In in Hf. now apply Hsub.
Qed.

Theorem only_edit V f g i v :
  edited i v f g -> only V f ->
  only (fun r => V r \/ (v = false /\ r = nth i (f_rids f) (-1))) g.
Proof.
  intros [Hi [Hman [Hm Hr]]] [Hlen [K1 K2]].
  unfold only. rewrite Hman, Hm, Hr, set_nth_length.
  repeat split; [exact Hlen| |].
  - intros j Hj Hf.
    destruct (Nat.eq_dec i j) as [->|Hne].
    + rewrite nth_set_nth_eq in Hf by lia. subst v. right. now split.
    + rewrite nth_set_nth_neq in Hf by exact Hne. left. now apply K1.
  - intros r Hin. left. now apply K2.
Qed.

(* ======================================================================== *)
(* 4. The chain through a whole history                                      *)
(* ======================================================================== *)
Lemma keeps_ext (E E' : Z -> Prop) f :
  (forall r, E' r -> E r) -> keeps E f -> keeps E' f.
Proof.
  intros H [Hlen [Hnd [J1 J2]]]. repeat split; try assumption.
  - intros j Hj HE. apply J1; [exact Hj|now apply H].
  - intros r HE Hn. apply J2; [now apply H|exact Hn].
Qed.

Lemma only_weaken (V V' : Z -> Prop) f :
  (forall r, V r -> V' r) -> only V f -> only V' f.
Proof.
  intros H [Hlen [K1 K2]]. repeat split; try assumption.
  - intros j Hj Hf. apply H. now apply K1.
  - intros r Hin. apply H. now apply K2.
Qed.

(* the stored root ids are the parent's selection hashed at creation *)
Definition hash_inv (f : filt) : Prop :=
  f_rids f = select (fst (f_phash f)) (snd (f_phash f)).

Definition finv (g : ghost) (f : filt) : Prop :=
  keeps (fun r => In r (g_excl g)) f
  /\ only (fun r => In r (g_ever g)) f
  /\ hash_inv f.

Definition linv (g : ghost) (l : level) : Prop := finv g (l_filt l).

Lemma finv_same g f f' :
  same_manual f f' -> f_phash f' = f_phash f -> finv g f -> finv g f'.
Proof.
  intros Hs Hp [HJ [HK HH]]. split; [|split].
  - apply (keeps_same _ f f' Hs HJ).
  - apply (only_same _ f f' Hs HK).
  - destruct Hs as [_ [_ Hr]]. unfold hash_inv in *. now rewrite Hr, Hp.
Qed.

Lemma linv_core ls : forall ls' gs,
  Forall2 same_core ls ls' -> Forall2 linv gs ls -> Forall2 linv gs ls'.
Proof.
  induction ls as [|l ls IH]; intros ls' gs H Hg; inversion H; subst;
    inversion Hg; subst; constructor.
  - destruct H2 as [_ [F _]]. unfold linv in *. now rewrite <- F.
  - now apply IH.
Qed.

Lemma linv_filter_update g l : linv g l -> linv g (filter_update l).
Proof.
  unfold linv. apply finv_same; [repeat split|reflexivity].
Qed.

Lemma select_NoDup {A} (m : list bool) (xs : list A) :
  NoDup xs -> NoDup (select m xs).
Proof.
  revert xs; induction m as [|b m IH]; intros [|x xs] H; simpl;
    try constructor.
  inversion H as [|? ? Hx Hxs]; subst.
  destruct b; [constructor|]; try now apply IH.
  intros Hin. apply Hx. now apply select_In in Hin.
Qed.

Lemma list_eqb_eq {A} (eqb : A -> A -> bool) :
  (forall x y, eqb x y = true -> x = y) ->
  forall a b, list_eqb eqb a b = true -> a = b.
Proof.
  intros Heq; induction a as [|x a IH]; intros [|y b] H; simpl in H;
    try discriminate; [reflexivity|].
  apply andb_true_iff in H. destruct H as [H1 H2].
  f_equal; [now apply Heq|now apply IH].
Qed.

Lemma hash_eqb_eq a b : hash_eqb a b = true -> a = b.
Proof.
  destruct a as [a1 a2], b as [b1 b2]. unfold hash_eqb; simpl.
  intros H. apply andb_true_iff in H. destruct H as [H1 H2].
  f_equal.
  - apply (list_eqb_eq Bool.eqb); [|exact H1].
    intros x y Hxy. now apply eqb_prop.
  - apply (list_eqb_eq Z.eqb); [|exact H2].
    intros x y Hxy. now apply Z.eqb_eq.
Qed.

Lemma retrieve_phash f : f_phash (retrieve f) = f_phash f.
Proof. unfold retrieve; destruct (all_true (f_manual f)); reflexivity. Qed.

(* the filter of a child after its refresh, in terms of section 3 *)
Lemma child_finish_filter c p :
  let f := l_filt c in
  let g := l_filt (child_finish (set_filt c (retrieve f)) p) in
  (same_manual (retrieve f) g /\ f_phash g = f_phash f
   /\ f_phash f = parent_hash p)
  \/ (f_rids g = select (f_all (l_filt p)) (f_rids (l_filt p))
      /\ f_mri g = f_mri (retrieve (retrieve f))
      /\ f_manual g = map (fun r => negb (memz r (f_mri g))) (f_rids g)
      /\ f_phash g = parent_hash p).
Proof.
  intros f g. subst g. unfold child_finish. cbn [l_filt set_filt l_cfg l_len l_data].
  rewrite retrieve_phash.
  destruct (hash_eqb (parent_hash p) (f_phash f)) eqn:E.
  - left. apply hash_eqb_eq in E. repeat split; cbn; try reflexivity.
    + apply retrieve_phash.
    + now symmetry.
  - right. repeat split; reflexivity.
Qed.

Lemma child_finish_inv g c p :
  linv g c -> NoDup (f_rids (l_filt p)) ->
  linv g (child_finish (set_filt c (retrieve (l_filt c))) p).
Proof.
  unfold linv. intros [HJ [HK HH]] Hnd.
  destruct (child_finish_filter c p) as [[Hs [Hp Hq]]|[Hr [Hm [Hman Hp]]]].
  - apply (finv_same g (retrieve (l_filt c))); [exact Hs| |].
    + now rewrite retrieve_phash.
    + split; [|split].
      * now apply keeps_retrieve.
      * now apply only_retrieve.
      * unfold hash_inv. now rewrite retrieve_rids, retrieve_phash.
  - set (gf := l_filt (child_finish (set_filt c (retrieve (l_filt c))) p)) in *.
    assert (R : refreshed (l_filt c) gf).
    { right. exists (f_rids gf). repeat split.
      - rewrite Hr. now apply select_NoDup.
      - exact Hm.
      - exact Hman. }
    split; [|split].
    + apply (keeps_refreshed _ _ _ R HJ).
    + apply (only_refreshed _ _ _ R HK).
    + unfold hash_inv. rewrite Hp. exact Hr.
Qed.

Lemma linv_NoDup g l : linv g l -> NoDup (f_rids (l_filt l)).
Proof. intros [[_ [H _]] _]. exact H. Qed.

Theorem refresh_up_inv :
  forall ls gs, Forall2 linv gs ls -> Forall2 linv gs (refresh_up ls).
Proof.
  induction ls as [|c ps IH]; intros gs H; [exact H|].
  inversion H as [|g c' gs' ps'' Hg Hrest]; subst.
  destruct ps as [|p ps'].
  - inversion Hrest; subst. constructor; [|constructor].
    now apply linv_filter_update.
  - rewrite refresh_up_cons2.
    pose proof (IH gs' Hrest) as IH'.
    remember (refresh_up (p :: ps')) as R eqn:E.
    destruct R as [|q qs].
    + inversion IH'; subst. inversion Hrest.
    + constructor; [|exact IH'].
      inversion IH' as [|gq q' gqs qs' Hq _]; subst.
      apply child_finish_inv; [exact Hg|].
      eapply linv_NoDup; exact Hq.
Qed.

Lemma nth_repeat {A} (x d : A) n j : (j < n)%nat -> nth j (repeat x n) d = x.
Proof.
  revert j; induction n as [|n IH]; intros [|j] H; simpl; try lia;
    [reflexivity|]. apply IH; lia.
Qed.

Lemma map_const_true (l : list Z) :
  map (fun r => negb (memz r [])) l = repeat true (length l).
Proof.
  induction l as [|x l IH]; [reflexivity|].
  cbn [map length repeat]. f_equal. exact IH.
Qed.

Lemma new_child_inv p :
  NoDup (f_rids (l_filt p)) -> linv (mkghost [] []) (new_child p).
Proof.
  intros Hnd. apply linv_filter_update. unfold linv, finv; cbn.
  set (rids := select (f_all (l_filt p)) (f_rids (l_filt p))).
  repeat split; cbn.
  - now rewrite map_length.
  - now apply select_NoDup.
  - intros j Hj [].
  - intros r [].
  - now rewrite map_length.
  - intros j Hj Hf. rewrite map_const_true, nth_repeat in Hf by exact Hj.
    discriminate.
  - intros r [].
Qed.

Theorem grow_inv ls gs :
  Forall2 linv gs ls -> ls <> [] ->
  Forall2 linv (mkghost [] [] :: gs) (grow ls).
Proof.
  intros H Hne. unfold grow.
  pose proof (refresh_up_inv ls gs H) as H'.
  pose proof (refresh_up_length ls) as Hl.
  destruct (refresh_up ls) as [|p ps].
  - destruct ls; [congruence|simpl in Hl; discriminate].
  - eapply linv_core; [apply propagate_core|].
    constructor; [|exact H'].
    inversion H'; subst. apply new_child_inv. eapply linv_NoDup; eassumption.
Qed.

(* ---- the local edits ------------------------------------------------------ *)
Lemma Forall2_set_nth {A B} (R : A -> B -> Prop) xs ys pos x y :
  Forall2 R xs ys -> R x y -> Forall2 R (set_nth pos x xs) (set_nth pos y ys).
Proof.
  intros H; revert pos; induction H as [|a b xs ys Hab H IH]; intros pos Hxy.
  - destruct pos; constructor.
  - destruct pos; simpl; constructor; auto.
Qed.

Lemma Forall2_nth_error {A B} (R : A -> B -> Prop) xs ys pos y :
  Forall2 R xs ys -> nth_error ys pos = Some y ->
  exists x, nth_error xs pos = Some x /\ R x y.
Proof.
  intros H; revert pos; induction H as [|a b xs ys Hab H IH]; intros pos Hy.
  - destruct pos; discriminate.
  - destruct pos; simpl in *.
    + injection Hy as <-. now exists a.
    + now apply IH.
Qed.

Lemma set_nth_same {A} (l : list A) pos x :
  nth_error l pos = Some x -> set_nth pos x l = l.
Proof.
  revert pos; induction l as [|y l IH]; intros [|pos] H; simpl in *;
    try discriminate; [now injection H as ->|].
  now rewrite IH.
Qed.

(* an edit of a level that leaves the manual part of its filter alone *)
Lemma upd_level_inv gs ls pos (h : level -> level) :
  (forall g l, linv g l -> linv g (h l)) ->
  Forall2 linv gs ls -> Forall2 linv gs (upd_level ls pos h).
Proof.
  intros Hh H. unfold upd_level.
  destruct (nth_error ls pos) as [l|] eqn:E; [|exact H].
  destruct (Forall2_nth_error _ _ _ _ _ H E) as [g [Eg Hg]].
  rewrite <- (set_nth_same gs pos g Eg).
  apply Forall2_set_nth; [exact H|now apply Hh].
Qed.

Lemma set_manual_inv g l i v :
  linv g l -> linv (spec_manual l i v g) (set_manual i v l).
Proof.
  unfold linv, spec_manual, set_manual.
  set (f := l_filt l). set (n := Z.of_nat (length (f_manual f))).
  intros [HJ [HK HH]].
  destruct (n =? 0) eqn:En; [split; [|split]; assumption|].
  assert (Hn : 0 < n) by lia.
  set (idx := Z.to_nat (i mod n)).
  assert (Hidx : (idx < length (f_manual f))%nat).
  { subst idx n. pose proof (Z.mod_pos_bound i _ Hn). lia. }
  cbn [l_filt set_filt].
  set (f' := mkfilt (f_box f) (f_old f) (set_nth idx v (f_manual f)) (f_all f)
                    (f_mri f) (f_rids f) (f_phash f)).
  assert (Hed : edited idx v f f') by (repeat split; assumption).
  set (r0 := nth idx (f_rids f) (-1)).
  destruct v.
  - split; [|split].
    + apply (keeps_ext _ _ f' (fun r => proj1 (filter_In _ r (g_excl g)))) .
      apply (keeps_ext (fun r => In r (g_excl g) /\ r <> r0)).
      * intros r [Hin Hneq]. split; [exact Hin|].
        apply negb_true_iff in Hneq. apply Z.eqb_neq in Hneq. exact Hneq.
      * apply (keeps_include _ f f' idx Hed HJ).
    + cbn [g_ever].
      apply (only_weaken (fun r => In r (g_ever g) \/ (true = false /\ r = r0))).
      * intros r [H|[H _]]; [exact H|discriminate].
      * apply (only_edit _ f f' idx true Hed HK).
    + exact HH.
  - split; [|split].
    + cbn [g_excl].
      apply (keeps_ext (fun r => In r (g_excl g) \/ r = r0)).
      * intros r [H|H]; [right; now symmetry|now left].
      * apply (keeps_exclude _ f f' idx Hed HJ).
    + cbn [g_ever].
      apply (only_weaken (fun r => In r (g_ever g) \/ (false = false /\ r = r0))).
      * intros r [H|[_ H]]; [now right|left; now symmetry].
      * apply (only_edit _ f f' idx false Hed HK).
    + exact HH.
Qed.

Lemma set_root_data_inv gs ls slot d :
  Forall2 linv gs ls -> Forall2 linv gs (set_root_data ls slot d).
Proof.
  intros H; induction H as [|g l gs ls Hg H IH]; [constructor|].
  destruct ls as [|l' ls'].
  - inversion H; subst. constructor; [exact Hg|constructor].
  - change (set_root_data (l :: l' :: ls') slot d)
      with (l :: set_root_data (l' :: ls') slot d).
    constructor; assumption.
Qed.

Lemma Forall2_firstn_skipn {A B} (R : A -> B -> Prop) xs ys n :
  Forall2 R xs ys ->
  Forall2 R (firstn n xs) (firstn n ys) /\ Forall2 R (skipn n xs) (skipn n ys).
Proof.
  intros H; revert n; induction H as [|a b xs ys Hab H IH]; intros [|n];
    simpl; try (split; constructor; assumption).
  destruct (IH n) as [H1 H2]. split; [constructor|]; assumption.
Qed.

Theorem set_temp_inv gs ls pos slot seed :
  Forall2 linv gs ls -> Forall2 linv gs (fst (set_temp ls pos slot seed)).
Proof.
  intros H. unfold set_temp.
  destruct (skipn pos ls) as [|l anc] eqn:E; [exact H|].
  destruct (c2r anc (iota 0 (Z.to_nat (l_len l)))) as [rids|]; [|exact H].
  set (ls1 := set_root_data ls slot _).
  assert (H1 : Forall2 linv gs ls1) by now apply set_root_data_inv.
  destruct anc; [exact H1|].
  cbn [fst].
  destruct (Forall2_firstn_skipn _ _ _ pos H1) as [Ha Hb].
  rewrite <- (firstn_skipn pos gs).
  apply Forall2_app; [exact Ha|].
  eapply linv_core; [apply refresh_core|]. now apply refresh_up_inv.
Qed.

Lemma reset_level_inv g l : linv g l -> linv (mkghost [] []) (reset_level l).
Proof.
  intros [[Hlen [Hnd _]] [_ HH]]. unfold linv, finv, reset_level.
  cbn [l_filt]. split; [|split].
  - unfold keeps. cbn [f_manual f_rids f_mri g_excl].
    rewrite repeat_length. repeat split; try assumption.
    + intros j Hj [].
    + intros r [].
  - unfold only. cbn [f_manual f_rids f_mri g_ever].
    rewrite repeat_length. repeat split; try assumption.
    + intros j Hj Hf. rewrite nth_repeat in Hf by lia. discriminate.
    + intros r [].
  - exact HH.
Qed.

Theorem step_inv st gs op :
  Forall2 linv gs (s_levels st) ->
  Forall2 linv (spec_step st gs op) (s_levels (fst (step st op))).
Proof.
  intros H. destruct op as [[[[tag a] b] c] d].
  destruct (Z.eqb_spec tag 3) as [->|N3].
  { destruct (Z.eqb_spec a 4) as [->|N4].
    { rewrite step3_a4. unfold spec_step, upd_level.
      cbn [Z.eqb Pos.eqb andb].
      destruct (nth_error (s_levels st) (pos_of (s_levels st) b)) as [l|] eqn:El;
        [|exact H].
      destruct (Forall2_nth_error _ _ _ _ _ H El) as [g [Eg Hg]].
      apply Forall2_set_nth; [exact H|]. eapply reset_level_inv; exact Hg. }
    assert (Hs : spec_step st gs (3, a, b, c, d) = gs).
    { unfold spec_step. cbn [Z.eqb Pos.eqb andb].
      destruct (Z.eqb_spec a 4); [contradiction|reflexivity]. }
    rewrite Hs.
    destruct (Z.eqb_spec a 5) as [->|N5].
    { rewrite step3_a5. apply upd_level_inv; [|exact H].
      intros g l Hl. exact Hl. }
    eapply linv_core;
      [apply step3_core; [now apply Z.eqb_neq|now apply Z.eqb_neq]|].
    destruct ((a =? 0) || (a =? 1)); [now apply refresh_up_inv|exact H]. }
  unfold step, spec_step.
  destruct (Z.eqb_spec tag 0) as [->|N0].
  { cbn [Z.eqb Pos.eqb fst s_levels].
    apply upd_level_inv; [|exact H]. intros g l Hl. exact Hl. }
  destruct (Z.eqb_spec tag 1) as [->|N1].
  { cbn [Z.eqb Pos.eqb fst s_levels]. unfold upd_level.
    destruct (nth_error (s_levels st) (pos_of (s_levels st) a)) as [l|] eqn:El;
      [|exact H].
    destruct (Forall2_nth_error _ _ _ _ _ H El) as [g [Eg Hg]].
    rewrite Eg. apply Forall2_set_nth; [exact H|].
    now apply set_manual_inv. }
  destruct (Z.eqb_spec tag 2) as [->|N2].
  { cbn [Z.eqb Pos.eqb].
    pose proof (set_temp_inv gs (s_levels st) (pos_of (s_levels st) a)
                             (3 + Z.to_nat (b mod 2)) c H) as Ht.
    destruct (set_temp (s_levels st) (pos_of (s_levels st) a)
                       (3 + Z.to_nat (b mod 2)) c) as [ls' e].
    exact Ht. }
  destruct (Z.eqb_spec tag 3) as [E3|_]; [now elim N3|].
  destruct (Z.eqb_spec tag 4) as [->|N4].
  { cbn [Z.eqb Pos.eqb fst s_levels].
    apply upd_level_inv; [|exact H]. intros g l Hl. exact Hl. }
  destruct (Z.eqb_spec tag 5) as [->|N5].
  { cbn [Z.eqb Pos.eqb fst s_levels].
    apply upd_level_inv; [|exact H]. intros g l Hl. exact Hl. }
  destruct (Z.eqb_spec tag 6) as [->|N6].
  { cbn [Z.eqb Pos.eqb fst].
    destruct (s_levels st) as [|l0 ls0] eqn:Els.
    - destruct (Nat.leb (length (@nil level)) MAXDEPTH); cbn [s_levels];
        rewrite ?Els; exact H.
    - destruct (Nat.leb (length (l0 :: ls0)) MAXDEPTH); cbn [s_levels].
      + apply grow_inv; [exact H|discriminate].
      + rewrite Els. exact H. }
  cbn [fst]. exact H.
Qed.

Lemma iota_NoDup s n : NoDup (iota s n).
Proof.
  revert s; induction n as [|n IH]; intros s; simpl; constructor.
  - rewrite iota_In. lia.
  - apply IH.
Qed.

Lemma select_repeat_true {A} (xs : list A) :
  select (repeat true (length xs)) xs = xs.
Proof. induction xs as [|x xs IH]; simpl; [|rewrite IH]; reflexivity. Qed.

Lemma init_inv n cols :
  Forall2 linv [mkghost [] []] (s_levels (init n cols)).
Proof.
  constructor; [|constructor].
  unfold linv, finv, init_root; cbn.
  repeat split; cbn.
  - now rewrite repeat_length, iota_length.
  - apply iota_NoDup.
  - intros j Hj [].
  - intros r [].
  - now rewrite repeat_length, iota_length.
  - intros j Hj Hf. rewrite iota_length in Hj.
    rewrite nth_repeat in Hf by exact Hj. discriminate.
  - intros r [].
  - unfold hash_inv; cbn.
    rewrite <- (iota_length 0 n) at 2. now rewrite select_repeat_true.
Qed.

Theorem run_inv ops : forall st gs st' gs',
  Forall2 linv gs (s_levels st) ->
  spec_run st gs ops = (st', gs') ->
  Forall2 linv gs' (s_levels st').
Proof.
  induction ops as [|o ops IH]; intros st gs st' gs' H Hr; simpl in Hr.
  - injection Hr as <- <-. exact H.
  - eapply IH; [|exact Hr]. now apply step_inv.
Qed.

(* For every root dataset and every history of operations: at every level,
   every event the user has excluded there and not re-included (root ids,
   tracked by spec_run) is excluded in filter.manual whenever it is among
   the level's events, and is kept in the stored root ids while it is
   hidden; and no event the user never excluded there is excluded. *)
Theorem history_manual_exclusions :
  forall n cols ops st gs k l g,
    spec_run (init n cols) [mkghost [] []] ops = (st, gs) ->
    nth_error (s_levels st) k = Some l -> nth_error gs k = Some g ->
    let f := l_filt l in
    (forall j, (j < length (f_rids f))%nat ->
               In (nth j (f_rids f) (-1)) (g_excl g) ->
               nth j (f_manual f) true = false)
    /\ (forall r, In r (g_excl g) -> ~ In r (f_rids f) -> In r (f_mri f))
    /\ (forall j, (j < length (f_rids f))%nat ->
                  nth j (f_manual f) true = false ->
                  In (nth j (f_rids f) (-1)) (g_ever g))
    /\ length (f_manual f) = length (f_rids f).
Proof.
  intros n cols ops st gs k l g Hr Hl Hg f.
  pose proof (run_inv ops _ _ _ _ (init_inv n cols) Hr) as H.
  destruct (Forall2_nth_error _ _ _ _ _ H Hl) as [g' [Eg [HJ [HK _]]]].
  rewrite Hg in Eg. injection Eg as <-.
  destruct HJ as [Hlen [_ [J1 J2]]]. destruct HK as [_ [K1 _]].
  repeat split; assumption.
Qed.

(* what the stored root ids mean: after a refresh the ids of a child are the
   parent's ids restricted to the parent's filter, i.e. the root indices of
   the child's events *)
Fixpoint rids_ok (ls : list level) : Prop :=
  match ls with
  | c :: ps => match ps with
               | p :: _ => f_rids (l_filt c)
                           = select (f_all (l_filt p)) (f_rids (l_filt p))
                           /\ rids_ok ps
               | [] => True
               end
  | [] => True
  end.

Theorem refresh_rids :
  forall ls gs, Forall2 linv gs ls -> rids_ok (refresh_up ls).
Proof.
  induction ls as [|c ps IH]; intros gs H; [exact I|].
  inversion H as [|g c' gs' ps'' Hg Hrest]; subst.
  destruct ps as [|p ps']; [exact I|].
  rewrite refresh_up_cons2.
  pose proof (IH gs' Hrest) as IH'.
  remember (refresh_up (p :: ps')) as R eqn:E.
  destruct R as [|q qs]; [exact I|].
  split; [|exact IH'].
  destruct (child_finish_filter c q) as [[[_ [_ Hr]] [Hp Hq]]|[Hr _]].
  - rewrite Hr, retrieve_rids.
    destruct Hg as [_ [_ HH]]. unfold hash_inv in HH.
    rewrite HH, Hq. reflexivity.
  - exact Hr.
Qed.

Lemma rids_ok_core : forall ls ls',
  Forall2 same_core ls ls' -> rids_ok ls -> rids_ok ls'.
Proof.
  induction ls as [|c ps IH]; intros ls' H Hv; inversion H as [|? c' ? ps1 Hc Hps];
    subst; [exact I|].
  destruct ps as [|p ps']; inversion Hps as [|? p' ? ps2 Hp Hps']; subst;
    [exact I|].
  destruct Hv as [V Hv]. split; [|now apply IH].
  destruct Hc as [_ [C2 _]]. destruct Hp as [_ [P2 _]].
  now rewrite <- C2, <- P2.
Qed.

Theorem history_rids_after_rejuvenate :
  forall n cols ops st gs,
    spec_run (init n cols) [mkghost [] []] ops = (st, gs) ->
    rids_ok (s_levels (fst (step st (3, 1, 0, 0, 0)))).
Proof.
  intros n cols ops st gs Hr.
  eapply rids_ok_core; [apply (step3_core st 1 0 0 0 eq_refl eq_refl)|].
  eapply refresh_rids. eapply run_inv; [apply init_inv|exact Hr].
Qed.

(* ======================================================================== *)
(* 5. Non-vacuity: concrete histories that meet the hypotheses              *)
(* ======================================================================== *)
Definition ex_cols : list col :=
  [ map (fun i => (0, i)) (iota 0 8);
    map (fun i => (0, 20 - i)) (iota 0 8);
    map (fun i => (0, 3)) (iota 0 8) ].

(* root, two children; root range on column 0 = [0,4]; exclusion of the event
   at position 2 of the grandchild (root event 2); refresh; the root range
   moves to [3,7] (event 2 hidden); refresh; back to [0,4]; refresh *)
Definition ex_ops1 : list (Z * Z * Z * Z * Z) :=
  [ (6,0,0,0,0); (6,0,0,0,0); (0,0,0,0,4); (3,0,0,0,0); (1,2,2,0,0);
    (3,0,0,0,0) ].
Definition ex_ops2 := ex_ops1 ++ [ (0,0,0,3,7); (3,0,0,0,0) ].
Definition ex_ops3 := ex_ops2 ++ [ (0,0,0,0,4); (3,0,0,0,0) ].

Definition ex_youngest (ops : list (Z * Z * Z * Z * Z)) :=
  let '(st, gs) := spec_run (init 8 ex_cols) [mkghost [] []] ops in
  match s_levels st, gs with
  | l :: _, g :: _ => (f_rids (l_filt l), f_manual (l_filt l),
                       f_mri (l_filt l), g_excl g, l_len l)
  | _, _ => ([], [], [], [], 0)
  end.

(* visible and excluded; hidden but remembered; back and excluded again *)
Example ex_history_1 :
  ex_youngest ex_ops1 = ([0;1;2;3;4], [true;true;false;true;true], [2], [2], 5).
Proof. vm_compute. reflexivity. Qed.
Example ex_history_2 :
  ex_youngest ex_ops2 = ([3;4;5;6;7], [true;true;true;true;true], [2], [2], 5).
Proof. vm_compute. reflexivity. Qed.
Example ex_history_3 :
  ex_youngest ex_ops3 = ([0;1;2;3;4], [true;true;false;true;true], [2], [2], 5).
Proof. vm_compute. reflexivity. Qed.

(* the chain after ex_ops2 is a non-trivial instance of view_ok: the
   youngest has 5 of the root's 8 events and the columns of events 3..7 *)
Example ex_view :
  let st := fst (run (init 8 ex_cols) ex_ops2) in
  map l_len (s_levels st) = [5; 5; 8]
  /\ nth 0 (l_data (hd (init_root 0 []) (s_levels st))) None
     = Some [(0,3); (0,4); (0,5); (0,6); (0,7)].
Proof. vm_compute. split; reflexivity. Qed.

(* a filter, its refresh over other events, and a set E it keeps *)
Definition ex_f : filt :=
  mkfilt [] None [true; false; true] [true; true; true] [9] [4; 5; 6]
         ([true; true; true], [4; 5; 6]).
Definition ex_g : filt :=
  mkfilt [] None [false; true] [true; true] [5; 9] [5; 7] ([], []).

Example ex_refreshed : refreshed ex_f ex_g.
Proof.
  right. exists [5; 7]. repeat split.
  repeat constructor; simpl; intuition discriminate.
Qed.

Example ex_keeps : keeps (fun r => r = 5 \/ r = 9) ex_f.
Proof.
  repeat split.
  - repeat constructor; simpl; intuition discriminate.
  - intros [|[|[|j]]] Hj [H|H]; simpl in *; try lia; try discriminate;
      reflexivity.
  - intros r [ -> | -> ] Hn; simpl in *; [exfalso; apply Hn; auto|auto].
Qed.

Example ex_edited :
  edited 0 false ex_f
         (mkfilt [] None [false; false; true] [true; true; true] [9] [4; 5; 6]
                 ([true; true; true], [4; 5; 6])).
Proof. repeat split. simpl. lia. Qed.

Example ex_only : only (fun r => r = 5 \/ r = 9) ex_f.
Proof.
  repeat split.
  - intros [|[|[|j]]] Hj Hf; simpl in *; try discriminate; try lia; now left.
  - intros r [ <- | [] ]. now right.
Qed.

Example ex_select_where :
  select [true; false; true; true] [10; 11; 12; 13]
  = map (fun i => nth (Z.to_nat i) [10; 11; 12; 13] 0)
        (where_ [true; false; true; true]).
Proof. reflexivity. Qed.

(* ======================================================================== *)
(* 6. mapper.py composed over the depth; the non-scalar features            *)
(* ======================================================================== *)
Lemma take_idx_select idx m is js :
  take_idx idx is = Some js ->
  take_idx idx (select m is) = Some (select m js).
Proof.
  revert m js; induction is as [|i is IH]; intros m js H.
  - simpl in H. injection H as <-. now rewrite !select_nil_r.
  - cbn [take_idx] in H.
    destruct (nth_error idx (Z.to_nat i)) as [v|] eqn:Ev; [|discriminate].
    destruct (take_idx idx is) as [r|] eqn:Er; [|discriminate].
    destruct (0 <=? i) eqn:Ei; [|discriminate].
    injection H as <-.
    destruct m as [|b m]; [reflexivity|].
    destruct b; cbn [select].
    + cbn [take_idx]. rewrite Ev, (IH m r eq_refl), Ei. reflexivity.
    + now apply IH.
Qed.

Lemma c2r_select anc : forall m is js,
  c2r anc is = Some js -> c2r anc (select m is) = Some (select m js).
Proof.
  induction anc as [|p anc IH]; intros m is js H.
  - simpl in *. now injection H as <-.
  - cbn [c2r] in *. unfold c2p in *.
    destruct (take_idx (where_ (f_all (l_filt p))) is) as [ks|] eqn:E;
      [|discriminate].
    rewrite (take_idx_select _ m _ _ E). now apply IH.
Qed.

(* map_indices_child2root of all events of a child: the parent's root
   indices restricted to the parent's filter *)
Theorem c2r_child :
  forall (p : level) (anc : list level) (Rp : list Z),
    c2r anc (iota 0 (length (f_all (l_filt p)))) = Some Rp ->
    c2r (p :: anc) (iota 0 (count_true (f_all (l_filt p))))
    = Some (select (f_all (l_filt p)) Rp).
Proof.
  intros p anc Rp H. cbn [c2r]. rewrite c2p_all.
  unfold where_. now apply c2r_select.
Qed.

(* hence the image column of a child (ChildNDArray, read event by event
   through the index maps up to the root) is the parent's image column
   restricted to the parent's filter; mask, contour and trace are read by
   the same code *)
Theorem image_child_is_view :
  forall (img : list Z) (c p : level) (anc : list level) (Rp : list Z),
    view_of c p ->
    l_len p = Z.of_nat (length (f_all (l_filt p))) ->
    c2r anc (iota 0 (length (f_all (l_filt p)))) = Some Rp ->
    image_ids img (p :: anc) (l_len c)
    = select (f_all (l_filt p)) (image_ids img anc (l_len p)).
Proof.
  intros img c p anc Rp [Hlen _] Hp H. unfold image_ids.
  rewrite Hlen, Hp, !Nat2Z.id, H, (c2r_child p anc Rp H).
  now rewrite select_map.
Qed.

Example ex_image_view :
  let st := fst (run (init 8 ex_cols) ex_ops2) in
  match s_levels st with
  | c :: p :: anc =>
      l_len p = Z.of_nat (length (f_all (l_filt p)))
      /\ c2r anc (iota 0 (length (f_all (l_filt p)))) = Some [3;4;5;6;7]
      /\ image_ids (s_img st) (p :: anc) (l_len c) = [6;7;8;9;10]
  | _ => False
  end.
Proof. vm_compute. repeat split; reflexivity. Qed.

(* index maps down and up again: parent2child after child2parent is the
   identity on increasing child indices (np.isin + np.where) *)
Lemma select_mem_sub (w v : list Z) : forall s,
  (forall x, In x v -> memz x w = true) ->
  select (map (fun i => memz i w) v) (iota s (length v)) = iota s (length v).
Proof.
  induction v as [|x v IH]; intros s Hall; [reflexivity|].
  cbn [map length iota select].
  rewrite (Hall x (or_introl eq_refl)). f_equal.
  apply IH. intros y Hy. apply Hall. now right.
Qed.

Lemma where_map_mem_self (w : list Z) :
  where_ (map (fun i => memz i w) w) = iota 0 (length w).
Proof.
  unfold where_. rewrite map_length. apply select_mem_sub.
  intros x Hx. now apply memz_In.
Qed.

Theorem p2c_c2p_all (p : level) :
  option_map (p2c p) (c2p p (iota 0 (count_true (f_all (l_filt p)))))
  = Some (iota 0 (count_true (f_all (l_filt p)))).
Proof.
  rewrite c2p_all. cbn [option_map]. unfold p2c.
  rewrite where_map_mem_self. now rewrite where_length.
Qed.

(* ======================================================================== *)
(* 7. Sizes stay consistent through a history; the non-scalar view           *)
(* ======================================================================== *)
Definition col_len (n : nat) (o : option col) : Prop :=
  match o with Some d => length d = n | None => True end.
Definition box_len (n : nat) (o : option (list bool)) : Prop :=
  match o with Some m => length m = n | None => True end.

Definition lwf (l : level) : Prop :=
  let f := l_filt l in
  let n := length (f_manual f) in
  length (f_all f) = n /\ l_len l = Z.of_nat n /\ length (f_rids f) = n
  /\ Forall (col_len n) (l_data l) /\ Forall (box_len n) (f_box f)
  /\ hash_inv f.

Lemma zip_and_length a b n :
  length a = n -> length b = n -> length (zip_and a b) = n.
Proof.
  revert b n; induction a as [|x a IH]; intros [|y b] n Ha Hb; simpl in *;
    try lia. destruct n; [discriminate|]. f_equal. apply IH; lia.
Qed.

Lemma and_boxes_length n box :
  Forall (box_len n) box -> length (and_boxes n box) = n.
Proof.
  induction 1 as [|o box Ho _ IH]; simpl; [apply repeat_length|].
  destruct o as [m|]; [|exact IH]. now apply zip_and_length.
Qed.

Lemma and_valid_length n data :
  Forall (col_len n) data -> length (and_valid n data) = n.
Proof.
  induction 1 as [|o data Ho _ IH]; simpl; [apply repeat_length|].
  destruct o as [d|]; [|exact IH].
  apply zip_and_length; [now rewrite map_length|exact IH].
Qed.

Lemma update_box_len c old n data : forall box s,
  Forall (col_len n) data -> Forall (box_len n) box ->
  Forall (box_len n) (update_box c old n data box s).
Proof.
  intros box s Hd; revert box s; induction Hd as [|d data Hd0 Hd IH];
    intros box s Hb.
  - destruct box; exact Hb.
  - destruct box as [|b box]; [exact Hb|].
    inversion Hb as [|? ? Hb0 Hb']; subst. cbn [update_box].
    constructor; [|now apply IH].
    destruct (key_changed c old s || match b with None => true | Some _ => false end);
      [|exact Hb0].
    destruct d as [dcol|]; [|exact Hb0].
    destruct (nth s (c_rng c) None) as [[lo hi]|];
      [|destruct (key_changed c old s); [apply repeat_length|exact Hb0]].
    unfold box_len, box_of. destruct (lo =? hi).
    + apply repeat_length.
    + now rewrite map_length.
Qed.

Lemma filter_update_wf l : lwf l -> lwf (filter_update l).
Proof.
  intros [Ha [Hl [Hr [Hd [Hb Hh]]]]]. unfold lwf, filter_update.
  cbn [l_filt set_filt f_manual f_all f_rids f_box l_len l_data f_phash].
  set (n := length (f_manual (l_filt l))) in *.
  assert (Hb' : Forall (box_len n)
                       (update_box (l_cfg l) (f_old (l_filt l)) n (l_data l)
                                   (f_box (l_filt l)) 0))
    by now apply update_box_len.
  repeat split; try assumption.
  destruct (c_enable (l_cfg l)); [|apply repeat_length].
  apply zip_and_length; [|reflexivity].
  apply zip_and_length; [now apply and_boxes_length|].
  destruct (c_rminv (l_cfg l)); [now apply and_valid_length|apply repeat_length].
Qed.

Lemma select_data_len pall (data : list (option col)) n :
  length pall = n -> Forall (col_len n) data ->
  Forall (col_len (count_true pall)) (map (option_map (select pall)) data).
Proof.
  intros Hp H; induction H as [|o data Ho _ IH]; simpl; constructor;
    [|exact IH].
  destruct o as [d|]; [|exact I]. simpl in *.
  apply select_length_count. lia.
Qed.

Lemma Forall_repeat {A} (P : A -> Prop) x n : P x -> Forall P (repeat x n).
Proof. intros H; induction n; simpl; constructor; assumption. Qed.

Lemma child_finish_wf c p :
  lwf c -> lwf p -> lwf (child_finish (set_filt c (retrieve (l_filt c))) p).
Proof.
  intros [Ha [Hl [Hr [Hd [Hb Hh]]]]] [Pa [Pl [Pr [Pd [Pb Ph]]]]].
  unfold child_finish. apply filter_update_wf.
  cbn [l_filt set_filt l_cfg l_len l_data].
  rewrite retrieve_phash.
  set (pall := f_all (l_filt p)) in *.
  assert (Hcnt : length (select pall (f_rids (l_filt p))) = count_true pall)
    by (apply select_length_count; lia).
  assert (Hdata : Forall (col_len (count_true pall))
                         (map (option_map (select pall)) (l_data p)))
    by (eapply select_data_len; [exact Pa|exact Pd]).
  destruct (hash_eqb (parent_hash p) (f_phash (l_filt c))) eqn:E.
  - apply hash_eqb_eq in E.
    assert (Hn : length (f_manual (l_filt c)) = count_true pall).
    { rewrite <- Hr, Hh, <- E. exact Hcnt. }
    unfold lwf. cbn [l_filt l_len l_data].
    rewrite retrieve_manual, retrieve_rids.
    assert (Hall : f_all (retrieve (l_filt c)) = f_all (l_filt c))
      by (unfold retrieve; destruct (all_true _); reflexivity).
    assert (Hbox : f_box (retrieve (l_filt c)) = f_box (l_filt c))
      by (unfold retrieve; destruct (all_true _); reflexivity).
    rewrite Hall, Hbox, Hn in *.
    repeat split; try assumption. unfold hash_inv.
    now rewrite retrieve_rids, retrieve_phash.
  - unfold lwf, mk_filter.
    cbn [l_filt l_len l_data f_manual f_all f_rids f_box f_phash].
    fold pall. rewrite map_length, repeat_length, Hcnt.
    repeat split; try assumption; try reflexivity.
    apply Forall_repeat. exact I.
Qed.

Theorem refresh_up_wf : forall ls, Forall lwf ls -> Forall lwf (refresh_up ls).
Proof.
  induction ls as [|c ps IH]; intros H; [exact H|].
  inversion H as [|? ? Hc Hps]; subst.
  destruct ps as [|p ps'].
  - constructor; [now apply filter_update_wf|constructor].
  - rewrite refresh_up_cons2. pose proof (IH Hps) as IH'.
    remember (refresh_up (p :: ps')) as R eqn:E.
    destruct R as [|q qs].
    + pose proof (refresh_up_length (p :: ps')) as Hl.
      rewrite <- E in Hl. discriminate.
    + inversion IH'; subst. constructor; [|exact IH'].
      now apply child_finish_wf.
Qed.

Lemma new_child_wf p : lwf p -> lwf (new_child p).
Proof.
  intros [Pa [Pl [Pr [Pd [Pb Ph]]]]]. unfold new_child.
  apply filter_update_wf. unfold lwf, mk_filter.
  cbn [l_filt l_len l_data f_manual f_all f_rids f_box f_phash].
  set (pall := f_all (l_filt p)) in *.
  assert (Hcnt : length (select pall (f_rids (l_filt p))) = count_true pall)
    by (apply select_length_count; lia).
  rewrite map_length, repeat_length, Hcnt.
  repeat split; try reflexivity.
  - eapply select_data_len; [exact Pa|exact Pd].
  - apply Forall_repeat. exact I.
Qed.

Lemma lwf_core ls : forall ls',
  Forall2 same_core ls ls' -> Forall lwf ls -> Forall lwf ls'.
Proof.
  induction ls as [|l ls IH]; intros ls' H Hw; inversion H; subst;
    inversion Hw; subst; constructor.
  - destruct H2 as [_ [F [L D]]]. unfold lwf in *. now rewrite <- F, <- L, <- D.
  - now apply IH.
Qed.

Lemma grow_wf ls : Forall lwf ls -> Forall lwf (grow ls).
Proof.
  intros H. unfold grow. pose proof (refresh_up_wf ls H) as H'.
  destruct (refresh_up ls) as [|p ps]; [constructor|].
  eapply lwf_core; [apply propagate_core|].
  inversion H'; subst. constructor; [now apply new_child_wf|exact H'].
Qed.

Lemma Forall_set_nth {A} (P : A -> Prop) l pos x :
  Forall P l -> P x -> Forall P (set_nth pos x l).
Proof.
  intros H; revert pos; induction H as [|y l Hy H IH]; intros [|pos] Hx;
    simpl; constructor; auto.
Qed.

Lemma upd_level_wf ls pos (h : level -> level) :
  (forall l, lwf l -> lwf (h l)) -> Forall lwf ls ->
  Forall lwf (upd_level ls pos h).
Proof.
  intros Hh H. unfold upd_level.
  destruct (nth_error ls pos) as [l|] eqn:E; [|exact H].
  apply Forall_set_nth; [exact H|]. apply Hh.
  rewrite Forall_forall in H. apply H. eapply nth_error_In; exact E.
Qed.

Lemma set_manual_wf i v l : lwf l -> lwf (set_manual i v l).
Proof.
  intros H. unfold set_manual.
  destruct (Z.of_nat (length (f_manual (l_filt l))) =? 0); [exact H|].
  destruct H as [Ha [Hl [Hr [Hd [Hb Hh]]]]]. unfold lwf.
  cbn [l_filt set_filt l_len l_data f_manual f_all f_rids f_box f_phash].
  rewrite set_nth_length. repeat split; assumption.
Qed.

Lemma scatter_length base ids data :
  length (scatter base ids data) = length base.
Proof.
  revert base data; induction ids as [|i ids IH]; intros base [|v data];
    simpl; try reflexivity. now rewrite IH, set_nth_length.
Qed.

Lemma set_root_data_wf ls slot d :
  Forall lwf ls ->
  (forall l0, length d = length (f_manual (l_filt (last ls l0)))) ->
  Forall lwf (set_root_data ls slot d).
Proof.
  intros H Hd. induction H as [|l ls Hl H IH]; [constructor|].
  destruct ls as [|l' ls'].
  - constructor; [|constructor].
    destruct Hl as [Ha [Hn [Hr [Hdat [Hb Hh]]]]]. unfold lwf.
    cbn [l_filt set_data l_len l_data]. repeat split; try assumption.
    apply Forall_set_nth; [exact Hdat|]. exact (Hd l).
  - change (set_root_data (l :: l' :: ls') slot d)
      with (l :: set_root_data (l' :: ls') slot d).
    constructor; [exact Hl|]. apply IH. exact Hd.
Qed.

Lemma last_indep {A} (l : list A) a b : l <> [] -> last l a = last l b.
Proof.
  induction l as [|x l IH]; intros H; [congruence|].
  destruct l as [|y l]; [reflexivity|].
  change (last (y :: l) a = last (y :: l) b). apply IH. discriminate.
Qed.

Lemma last_In {A} (l : list A) a : l <> [] -> In (last l a) l.
Proof.
  induction l as [|x l IH]; intros H; [congruence|].
  destruct l as [|y l]; [now left|].
  right. change (In (last (y :: l) a) (y :: l)). apply IH. discriminate.
Qed.

Theorem set_temp_wf ls pos slot seed :
  Forall lwf ls -> Forall lwf (fst (set_temp ls pos slot seed)).
Proof.
  intros H. unfold set_temp.
  destruct (skipn pos ls) as [|l anc] eqn:E; [exact H|].
  destruct (c2r anc (iota 0 (Z.to_nat (l_len l)))) as [rids|]; [|exact H].
  assert (Hne : ls <> []) by (intros ->; now rewrite skipn_nil in E).
  set (full := scatter _ rids _).
  assert (H1 : Forall lwf (set_root_data ls slot full)).
  { apply set_root_data_wf; [exact H|]. intros l0.
    unfold full. rewrite scatter_length, repeat_length.
    rewrite (last_indep ls l0 l Hne).
    assert (Hr : lwf (last ls l)).
    { rewrite Forall_forall in H. apply H. now apply last_In. }
    destruct Hr as [_ [Hl _]]. rewrite Hl. apply Nat2Z.id. }
  destruct anc; [exact H1|]. cbn [fst].
  rewrite <- (firstn_skipn pos (set_root_data ls slot full)) in H1.
  apply Forall_app in H1. destruct H1 as [Ha Hb].
  apply Forall_app. split; [exact Ha|].
  eapply lwf_core; [apply refresh_core|]. now apply refresh_up_wf.
Qed.

Lemma set_cfg_wf l c : lwf l -> lwf (set_cfg l c).
Proof. intros H; exact H. Qed.

Theorem step_wf st op :
  Forall lwf (s_levels st) -> Forall lwf (s_levels (fst (step st op))).
Proof.
  intros H. destruct op as [[[[tag a] b] c] d].
  destruct (Z.eqb_spec tag 3) as [->|N3].
  { destruct (Z.eqb_spec a 4) as [->|N4].
    { rewrite step3_a4. apply upd_level_wf; [|exact H].
      intros l [Ha [Hl [Hr [Hd [Hb Hh]]]]]. unfold lwf, reset_level.
      cbn [l_filt l_len l_data f_manual f_all f_rids f_box f_phash].
      rewrite !repeat_length. repeat split; try assumption.
      apply Forall_repeat. exact I. }
    destruct (Z.eqb_spec a 5) as [->|N5].
    { rewrite step3_a5. apply upd_level_wf; [|exact H]. intros l Hl; exact Hl. }
    eapply lwf_core;
      [apply step3_core; [now apply Z.eqb_neq|now apply Z.eqb_neq]|].
    destruct ((a =? 0) || (a =? 1)); [now apply refresh_up_wf|exact H]. }
  unfold step.
  destruct (tag =? 0).
  { cbn [fst s_levels]. apply upd_level_wf; [|exact H]. intros l Hl; exact Hl. }
  destruct (tag =? 1).
  { cbn [fst s_levels]. apply upd_level_wf; [|exact H].
    intros l Hl. now apply set_manual_wf. }
  destruct (tag =? 2).
  { pose proof (set_temp_wf (s_levels st) (pos_of (s_levels st) a)
                            (3 + Z.to_nat (b mod 2)) c H) as Ht.
    destruct (set_temp (s_levels st) (pos_of (s_levels st) a)
                       (3 + Z.to_nat (b mod 2)) c) as [ls' e].
    exact Ht. }
  destruct (Z.eqb_spec tag 3) as [E3|_]; [now elim N3|].
  destruct (tag =? 4).
  { cbn [fst s_levels]. apply upd_level_wf; [|exact H]. intros l Hl; exact Hl. }
  destruct (tag =? 5).
  { cbn [fst s_levels]. apply upd_level_wf; [|exact H]. intros l Hl; exact Hl. }
  destruct (tag =? 6).
  { cbn [fst]. destruct (Nat.leb (length (s_levels st)) MAXDEPTH);
      cbn [s_levels]; [now apply grow_wf|exact H]. }
  exact H.
Qed.

Lemma init_wf n cols :
  Forall (fun d : col => length d = n) (firstn 3 cols) ->
  Forall lwf (s_levels (init n cols)).
Proof.
  intros Hc. constructor; [|constructor].
  unfold lwf, init_root.
  cbn [l_filt l_len l_data f_manual f_all f_rids f_box f_phash].
  rewrite !repeat_length, iota_length.
  repeat split; try reflexivity.
  - apply Forall_app. split.
    + induction Hc as [|d ds Hd _ IH]; simpl; constructor; assumption.
    + repeat constructor.
  - apply Forall_repeat. exact I.
  - unfold hash_inv; cbn.
    rewrite <- (iota_length 0 n) at 2. now rewrite select_repeat_true.
Qed.

Theorem run_wf ops : forall st,
  Forall lwf (s_levels st) -> Forall lwf (s_levels (fst (run st ops))).
Proof.
  induction ops as [|o ops IH]; intros st H; [exact H|].
  cbn [run]. pose proof (step_wf st o H) as H1.
  destruct (step st o) as [st1 out1]. cbn [fst] in H1.
  pose proof (IH st1 H1) as H2.
  destruct (run st1 ops) as [st2 out2]. exact H2.
Qed.

(* the image column along a whole refreshed chain *)
Fixpoint img_ok (img : list Z) (ls : list level) : Prop :=
  match ls with
  | c :: ps => match ps with
               | p :: anc =>
                   image_ids img (p :: anc) (l_len c)
                   = select (f_all (l_filt p)) (image_ids img anc (l_len p))
                   /\ img_ok img ps
               | [] => True
               end
  | [] => True
  end.

Lemma chain_c2r : forall ls,
  Forall lwf ls -> view_ok ls ->
  match ls with
  | p :: anc => exists R, c2r anc (iota 0 (length (f_all (l_filt p)))) = Some R
  | [] => True
  end.
Proof.
  induction ls as [|p anc IH]; intros Hw Hv; [exact I|].
  destruct anc as [|q anc']; [now eexists|].
  inversion Hw as [|? ? Hp Hw']; subst.
  destruct Hv as [[Hlen _] Hv].
  destruct (IH Hw' Hv) as [R HR].
  exists (select (f_all (l_filt q)) R).
  destruct Hp as [Ha [Hl _]].
  assert (Hn : length (f_all (l_filt p)) = count_true (f_all (l_filt q))) by lia.
  rewrite Hn. now apply c2r_child.
Qed.

Theorem img_ok_chain img : forall ls,
  Forall lwf ls -> view_ok ls -> img_ok img ls.
Proof.
  induction ls as [|c ps IH]; intros Hw Hv; [exact I|].
  destruct ps as [|p anc]; [exact I|].
  inversion Hw as [|? ? Hc Hw']; subst.
  destruct Hv as [Hcp Hv].
  split; [|now apply IH].
  destruct (chain_c2r (p :: anc) Hw' Hv) as [R HR].
  inversion Hw' as [|? ? Hp _]; subst. destruct Hp as [Ha [Hl _]].
  eapply image_child_is_view; [exact Hcp|lia|exact HR].
Qed.

(* For every root dataset whose columns have one value per event and every
   history: after rejuvenate of the youngest member the image column (read
   through mapper.py) of every child is that of its parent restricted to
   the parent's filter, and all filter arrays have one entry per event. *)
Theorem history_nonscalar_view :
  forall n cols ops,
    Forall (fun d : col => length d = n) (firstn 3 cols) ->
    let st := fst (step (fst (run (init n cols) ops)) (3, 0, 0, 0, 0)) in
    img_ok (s_img st) (s_levels st) /\ Forall lwf (s_levels st).
Proof.
  intros n cols ops Hc st.
  assert (Hw : Forall lwf (s_levels st)).
  { apply step_wf, run_wf, init_wf, Hc. }
  split; [|exact Hw].
  apply img_ok_chain; [exact Hw|]. apply rejuvenate_child_is_view.
Qed.

(* ======================================================================== *)
(* 8. The stored ids are root indices; a child's events are exactly the     *)
(*    root events selected by all ancestor masks                            *)
(* ======================================================================== *)
Definition in_range (n : nat) (l : level) : Prop :=
  forall r, In r (f_rids (l_filt l)) -> 0 <= r < Z.of_nat n.

(* the last element (the root dataset) works with the ids 0..n-1 *)
Fixpoint root_ok (n : nat) (ls : list level) : Prop :=
  match ls with
  | [] => True
  | l :: ps => match ps with
               | [] => f_rids (l_filt l) = iota 0 n
               | _ :: _ => root_ok n ps
               end
  end.

Definition ids_ok (n : nat) (ls : list level) : Prop :=
  Forall (in_range n) ls /\ root_ok n ls.

Lemma child_finish_rids c p :
  let g := l_filt (child_finish (set_filt c (retrieve (l_filt c))) p) in
  f_rids g = f_rids (l_filt c)
  \/ f_rids g = select (f_all (l_filt p)) (f_rids (l_filt p)).
Proof.
  destruct (child_finish_filter c p) as [[[_ [_ Hr]] _]|[Hr _]].
  - left. cbv zeta. rewrite Hr. apply retrieve_rids.
  - right. exact Hr.
Qed.

Lemma refresh_up_ids n : forall ls, ids_ok n ls -> ids_ok n (refresh_up ls).
Proof.
  induction ls as [|c ps IH]; intros [Hr Ho]; [split; assumption|].
  inversion Hr as [|? ? Hc Hps]; subst.
  destruct ps as [|p ps'].
  - split; [constructor; [exact Hc|constructor]|exact Ho].
  - rewrite refresh_up_cons2.
    destruct (IH (conj Hps Ho)) as [IHr IHo].
    remember (refresh_up (p :: ps')) as R eqn:E.
    destruct R as [|q qs].
    + pose proof (refresh_up_length (p :: ps')) as Hl.
      rewrite <- E in Hl. discriminate.
    + split; [|exact IHo].
      constructor; [|exact IHr].
      inversion IHr as [|? ? Hq _]; subst.
      intros r Hin. unfold in_range in *.
      destruct (child_finish_rids c q) as [H|H]; cbv zeta in H;
        rewrite H in Hin.
      * now apply Hc.
      * apply Hq. now apply select_In in Hin.
Qed.

Lemma root_ok_set_nth n ls pos l l' :
  nth_error ls pos = Some l ->
  f_rids (l_filt l') = f_rids (l_filt l) ->
  root_ok n ls -> root_ok n (set_nth pos l' ls).
Proof.
  revert pos; induction ls as [|x ls IH]; intros pos E Hr Ho;
    [destruct pos; discriminate|].
  destruct pos as [|pos]; simpl in E.
  - injection E as ->. destruct ls; simpl in *; [congruence|exact Ho].
  - destruct ls as [|y ls']; [destruct pos; discriminate|].
    change (root_ok n (x :: set_nth pos l' (y :: ls'))).
    assert (Hs : root_ok n (set_nth pos l' (y :: ls'))) by (apply IH; assumption).
    destruct pos; simpl in *; exact Hs.
Qed.

Lemma upd_level_ids n ls pos (h : level -> level) :
  (forall l, f_rids (l_filt (h l)) = f_rids (l_filt l)) ->
  ids_ok n ls -> ids_ok n (upd_level ls pos h).
Proof.
  intros Hh [Hr Ho]. unfold upd_level.
  destruct (nth_error ls pos) as [l|] eqn:E; [|split; assumption].
  split.
  - apply Forall_set_nth; [exact Hr|].
    unfold in_range. rewrite Hh.
    rewrite Forall_forall in Hr. apply Hr. eapply nth_error_In; exact E.
  - eapply root_ok_set_nth; [exact E|apply Hh|exact Ho].
Qed.

Lemma set_manual_rids i v l :
  f_rids (l_filt (set_manual i v l)) = f_rids (l_filt l).
Proof.
  unfold set_manual.
  destruct (Z.of_nat (length (f_manual (l_filt l))) =? 0); reflexivity.
Qed.

Lemma set_root_data_ids n ls slot d :
  ids_ok n ls -> ids_ok n (set_root_data ls slot d).
Proof.
  intros [Hr Ho]. induction Hr as [|l ls Hl Hr IH]; [split; [constructor|exact I]|].
  destruct ls as [|l' ls'].
  - split; [constructor; [exact Hl|constructor]|exact Ho].
  - change (set_root_data (l :: l' :: ls') slot d)
      with (l :: set_root_data (l' :: ls') slot d).
    destruct (IH Ho) as [IHr IHo].
    split; [constructor; assumption|].
    destruct (set_root_data (l' :: ls') slot d) eqn:E.
    + destruct ls'; discriminate.
    + exact IHo.
Qed.

Lemma root_ok_app n xs ys : ys <> [] -> (root_ok n (xs ++ ys) <-> root_ok n ys).
Proof.
  intros Hy. induction xs as [|x xs IH]; [reflexivity|].
  simpl. destruct (xs ++ ys) eqn:E.
  - destruct xs; simpl in E; [congruence|discriminate].
  - exact IH.
Qed.

Lemma root_ok_core n : forall ls ls',
  Forall2 same_core ls ls' -> root_ok n ls -> root_ok n ls'.
Proof.
  induction ls as [|c ps IH]; intros ls' H Hv; inversion H as [|? c' ? ps1 Hc Hps];
    subst; [exact I|].
  destruct ps as [|p ps']; inversion Hps as [|? p' ? ps2 Hp Hps']; subst.
  - destruct Hc as [_ [C2 _]]. simpl in *. now rewrite <- C2.
  - apply (IH (p' :: ps2)); [exact Hps|exact Hv].
Qed.

Lemma ids_ok_core n ls ls' :
  Forall2 same_core ls ls' -> ids_ok n ls -> ids_ok n ls'.
Proof.
  intros H [Hr Ho]. split; [|eapply root_ok_core; eassumption].
  clear Ho. induction H as [|a b ls ls' Hab H IH]; [constructor|].
  inversion Hr; subst. constructor; [|now apply IH].
  destruct Hab as [_ [F _]]. unfold in_range in *. now rewrite <- F.
Qed.

Lemma refresh_length ls : length (refresh ls) = length ls.
Proof.
  rewrite <- (refresh_up_length ls). symmetry.
  generalize (refresh_core ls). generalize (refresh_up ls) (refresh ls).
  induction 1; simpl; congruence.
Qed.

Lemma set_temp_ids n ls pos slot seed :
  ids_ok n ls -> ids_ok n (fst (set_temp ls pos slot seed)).
Proof.
  intros H. unfold set_temp.
  destruct (skipn pos ls) as [|l anc] eqn:E; [exact H|].
  destruct (c2r anc (iota 0 (Z.to_nat (l_len l)))) as [rids|]; [|exact H].
  set (ls1 := set_root_data ls slot _).
  assert (H1 : ids_ok n ls1) by now apply set_root_data_ids.
  destruct anc as [|a anc']; [exact H1|]. cbn [fst].
  assert (Hlen : length ls1 = length ls).
  { unfold ls1. clear. generalize (scatter (repeat (1, 0)
       (Z.to_nat (l_len (last ls l)))) rids
       (map (tval seed) (iota 0 (Z.to_nat (l_len l))))) as d.
    intros d. induction ls as [|x ls IH]; [reflexivity|].
    destruct ls as [|y ls']; [reflexivity|].
    change (set_root_data (x :: y :: ls') slot d)
      with (x :: set_root_data (y :: ls') slot d).
    simpl. simpl in IH. now rewrite IH. }
  assert (Hne : skipn pos ls1 <> []).
  { intros Hn. apply (f_equal (@length level)) in Hn, E.
    rewrite skipn_length in Hn, E. simpl in Hn, E. lia. }
  destruct H1 as [Hr Ho].
  rewrite <- (firstn_skipn pos ls1) in Hr, Ho.
  apply Forall_app in Hr. destruct Hr as [Ha Hb].
  apply (root_ok_app n _ _ Hne) in Ho.
  destruct (ids_ok_core n _ _ (refresh_core _)
                        (refresh_up_ids n _ (conj Hb Ho))) as [Hb' Ho'].
  split; [apply Forall_app; now split|].
  apply root_ok_app; [|exact Ho'].
  intros Hn. apply (f_equal (@length level)) in Hn.
  rewrite refresh_length in Hn. destruct (skipn pos ls1); [congruence|discriminate].
Qed.

Lemma grow_ids n ls : ids_ok n ls -> ids_ok n (grow ls).
Proof.
  intros H. unfold grow. destruct (refresh_up_ids n ls H) as [Hr Ho].
  destruct (refresh_up ls) as [|p ps]; [split; [constructor|exact I]|].
  eapply ids_ok_core; [apply propagate_core|].
  split; [|exact Ho].
  constructor; [|exact Hr].
  inversion Hr as [|? ? Hp _]; subst.
  intros r Hin. apply Hp. cbn in Hin. now apply select_In in Hin.
Qed.

Theorem step_ids n st op :
  ids_ok n (s_levels st) -> ids_ok n (s_levels (fst (step st op))).
Proof.
  intros H. destruct op as [[[[tag a] b] c] d].
  destruct (Z.eqb_spec tag 3) as [->|N3].
  { destruct (Z.eqb_spec a 4) as [->|N4].
    { rewrite step3_a4. apply upd_level_ids; [reflexivity|exact H]. }
    destruct (Z.eqb_spec a 5) as [->|N5].
    { rewrite step3_a5. apply upd_level_ids; [reflexivity|exact H]. }
    eapply ids_ok_core;
      [apply step3_core; [now apply Z.eqb_neq|now apply Z.eqb_neq]|].
    destruct ((a =? 0) || (a =? 1)); [now apply refresh_up_ids|exact H]. }
  unfold step.
  destruct (tag =? 0).
  { cbn [fst s_levels]. apply upd_level_ids; [reflexivity|exact H]. }
  destruct (tag =? 1).
  { cbn [fst s_levels]. apply upd_level_ids; [|exact H].
    intros l. apply set_manual_rids. }
  destruct (tag =? 2).
  { pose proof (set_temp_ids n (s_levels st) (pos_of (s_levels st) a)
                             (3 + Z.to_nat (b mod 2)) c H) as Ht.
    destruct (set_temp (s_levels st) (pos_of (s_levels st) a)
                       (3 + Z.to_nat (b mod 2)) c) as [ls' e].
    exact Ht. }
  destruct (Z.eqb_spec tag 3) as [E3|_]; [now elim N3|].
  destruct (tag =? 4).
  { cbn [fst s_levels]. apply upd_level_ids; [reflexivity|exact H]. }
  destruct (tag =? 5).
  { cbn [fst s_levels]. apply upd_level_ids; [reflexivity|exact H]. }
  destruct (tag =? 6).
  { cbn [fst]. destruct (Nat.leb (length (s_levels st)) MAXDEPTH);
      cbn [s_levels]; [now apply grow_ids|exact H]. }
  exact H.
Qed.

Lemma init_ids n cols : ids_ok n (s_levels (init n cols)).
Proof.
  split; [|reflexivity].
  constructor; [|constructor]. intros r Hin. cbn in Hin.
  apply iota_In in Hin. lia.
Qed.

Theorem run_ids n ops : forall st,
  ids_ok n (s_levels st) -> ids_ok n (s_levels (fst (run st ops))).
Proof.
  induction ops as [|o ops IH]; intros st H; [exact H|].
  cbn [run]. pose proof (step_ids n st o H) as H1.
  destruct (step st o) as [st1 out1]. cbn [fst] in H1.
  pose proof (IH st1 H1) as H2.
  destruct (run st1 ops) as [st2 out2]. exact H2.
Qed.

Lemma spec_run_fst ops : forall st gs,
  fst (spec_run st gs ops) = fst (run st ops).
Proof.
  induction ops as [|o ops IH]; intros st gs; [reflexivity|].
  cbn [spec_run run]. rewrite IH.
  destruct (step st o) as [st1 o1]. cbn [fst].
  destruct (run st1 ops). reflexivity.
Qed.

(* suffixes of a chain *)
Lemma rids_ok_tail c ps : rids_ok (c :: ps) -> rids_ok ps.
Proof. destruct ps; [intros; exact I|intros [_ H]; exact H]. Qed.
Lemma view_ok_tail c ps : view_ok (c :: ps) -> view_ok ps.
Proof. destruct ps; [intros; exact I|intros [_ H]; exact H]. Qed.
Lemma root_ok_tail n c p ps : root_ok n (c :: p :: ps) -> root_ok n (p :: ps).
Proof. intros H; exact H. Qed.

Lemma rids_compose n : forall anc c,
  rids_ok (c :: anc) -> root_ok n (c :: anc) ->
  f_rids (l_filt c) = compose_select anc (iota 0 n).
Proof.
  induction anc as [|p anc IH]; intros c Hr Ho; [exact Ho|].
  destruct Hr as [Hc Hr]. rewrite Hc. cbn [compose_select]. f_equal.
  apply IH; [exact Hr|exact Ho].
Qed.

Lemma skipn_suffix_props n k : forall ls c anc,
  skipn k ls = c :: anc ->
  rids_ok ls -> view_ok ls -> root_ok n ls ->
  rids_ok (c :: anc) /\ view_ok (c :: anc) /\ root_ok n (c :: anc).
Proof.
  induction k as [|k IH]; intros ls c anc E Hr Hv Ho.
  - simpl in E. subst. repeat split; assumption.
  - destruct ls as [|x ls]; [discriminate|]. simpl in E.
    destruct ls as [|y ls']; [destruct k; discriminate|].
    apply (IH (y :: ls') c anc E).
    + eapply rids_ok_tail; exact Hr.
    + eapply view_ok_tail; exact Hv.
    + exact Ho.
Qed.

(* For every root dataset and every history: after rejuvenate of the
   youngest member, every member [c] of the chain (with ancestors [anc],
   nearest first) consists of exactly the root events selected by the masks
   of all its ancestors: its stored root ids are 0..n-1 restricted
   successively by the ancestors' filters (without duplicates, all < n),
   and its columns are the root's columns restricted the same way. *)
Theorem child_events_are_root_selection :
  forall n cols ops k c anc,
    let st := fst (step (fst (run (init n cols) ops)) (3, 0, 0, 0, 0)) in
    skipn k (s_levels st) = c :: anc ->
    f_rids (l_filt c) = compose_select anc (iota 0 n)
    /\ l_data c = map (option_map (compose_select anc)) (l_data (last anc c))
    /\ NoDup (f_rids (l_filt c))
    /\ (forall r, In r (f_rids (l_filt c)) -> 0 <= r < Z.of_nat n).
Proof.
  intros n cols ops k c anc st E.
  set (st0 := fst (run (init n cols) ops)) in *.
  assert (Hinv : Forall2 linv (snd (spec_run (init n cols) [mkghost [] []] ops))
                         (s_levels st0)).
  { unfold st0. rewrite <- (spec_run_fst ops _ [mkghost [] []]).
    destruct (spec_run (init n cols) [mkghost [] []] ops) as [s g] eqn:Es.
    eapply run_inv; [apply init_inv|exact Es]. }
  assert (Hids : ids_ok n (s_levels st)).
  { apply step_ids, run_ids, init_ids. }
  assert (Hr : rids_ok (s_levels st)).
  { eapply rids_ok_core; [apply (step3_core st0 0 0 0 0 eq_refl eq_refl)|].
    eapply refresh_rids; exact Hinv. }
  assert (Hv : view_ok (s_levels st))
    by apply (proj1 (rejuvenate_child_is_view st0)).
  destruct Hids as [Hrange Ho].
  destruct (skipn_suffix_props n k _ c anc E Hr Hv Ho) as [Hr' [Hv' Ho']].
  assert (Hin : In c (s_levels st)).
  { rewrite <- (firstn_skipn k (s_levels st)), E. apply in_or_app. right. now left. }
  split; [|split; [|split]].
  - now apply (rids_compose n).
  - now apply view_composes_to_root.
  - pose proof (linv_core _ _ _ (step3_core st0 0 0 0 0 eq_refl eq_refl)
                          (refresh_up_inv _ _ Hinv)) as Hinv'.
    fold st in Hinv'.
    destruct (In_nth_error _ _ Hin) as [j Hj].
    destruct (Forall2_nth_error _ _ _ _ _ Hinv' Hj) as [g [_ Hg]].
    eapply linv_NoDup; exact Hg.
  - rewrite Forall_forall in Hrange. exact (Hrange c Hin).
Qed.

(* ---- set_temporary_feature: when does the index map raise? -------------- *)
Lemma take_idx_iota idx : forall m,
  take_idx idx (iota 0 m) =
  if Nat.leb m (length idx) then Some (firstn m idx) else None.
Proof.
  assert (G : forall suf pre m,
    take_idx (pre ++ suf) (iota (Z.of_nat (length pre)) m) =
    if Nat.leb m (length suf) then Some (firstn m suf) else None).
  { induction suf as [|v suf IH]; intros pre m.
    - destruct m; [reflexivity|]. cbn [iota take_idx length Nat.leb].
      rewrite Nat2Z.id, app_nil_r.
      rewrite (proj2 (nth_error_None pre (length pre))) by lia. reflexivity.
    - destruct m; [reflexivity|]. cbn [iota take_idx length Nat.leb firstn].
      rewrite Nat2Z.id, nth_error_app2 by lia.
      replace (length pre - length pre)%nat with 0%nat by lia.
      cbn [nth_error].
      replace (pre ++ v :: suf) with ((pre ++ [v]) ++ suf)
        by (now rewrite <- app_assoc).
      replace (Z.of_nat (length pre) + 1) with (Z.of_nat (length (pre ++ [v])))
        by (rewrite app_length; simpl; lia).
      rewrite IH. destruct (Nat.leb m (length suf)); [|reflexivity].
      destruct (0 <=? Z.of_nat (length pre)) eqn:E; [reflexivity|lia]. }
  intros m. exact (G idx [] m).
Qed.

(* map_indices_child2parent of the indices 0..m-1 raises IndexError exactly
   when m exceeds the number of events the parent's filter selects *)
Theorem c2p_error_iff (p : level) (m : nat) :
  c2p p (iota 0 m) = None <-> (count_true (f_all (l_filt p)) < m)%nat.
Proof.
  unfold c2p. rewrite take_idx_iota, where_length.
  destruct (Nat.leb m (count_true (f_all (l_filt p)))) eqn:E.
  - apply Nat.leb_le in E. split; [discriminate|lia].
  - apply Nat.leb_gt in E. split; [intros _; exact E|reflexivity].
Qed.

(* on a chain whose members are views of their parents (i.e. refreshed in
   order) set_temporary_feature never raises *)
Theorem set_temp_no_error ls pos slot seed :
  Forall lwf ls -> view_ok (skipn pos ls) ->
  snd (set_temp ls pos slot seed) = 0.
Proof.
  intros Hw Hv. unfold set_temp.
  destruct (skipn pos ls) as [|l anc] eqn:E; [reflexivity|].
  assert (Hw' : Forall lwf (l :: anc)).
  { rewrite <- E. rewrite <- (firstn_skipn pos ls) in Hw.
    apply Forall_app in Hw. exact (proj2 Hw). }
  assert (Hc : exists R, c2r anc (iota 0 (Z.to_nat (l_len l))) = Some R).
  { destruct anc as [|p anc']; [now eexists|].
    inversion Hw' as [|? ? _ Hw'']; subst.
    destruct Hv as [[Hlen _] Hv].
    destruct (chain_c2r (p :: anc') Hw'' Hv) as [R HR].
    rewrite Hlen, Nat2Z.id. exists (select (f_all (l_filt p)) R).
    exact (c2r_child p anc' R HR). }
  destruct Hc as [R HR]. rewrite HR.
  destruct anc; reflexivity.
Qed.

(* ======================================================================== *)
(* 9. Sibling children: two branches below shared ancestors                  *)
(* ======================================================================== *)
Lemma sib_step_chain_a s a b c d :
  let s' := fst (sib_step s (3, a, b, c, d)) in
  sb_a s' ++ sb_anc s'
  = s_levels (fst (step (mkstate (sb_a s ++ sb_anc s) (sb_img s)) (3, a, b, c, d))).
Proof.
  cbv zeta. unfold sib_step.
  change (3 / 10) with 0. change (3 mod 10) with 3.
  cbn [Z.eqb Pos.eqb].
  destruct (step (mkstate (sb_a s ++ sb_anc s) (sb_img s)) (3, a, b, c, d))
    as [st' out].
  cbn [fst sb_a sb_anc s_levels]. apply firstn_skipn.
Qed.

Lemma sib_step_chain_b s a b c d :
  let s' := fst (sib_step s (13, a, b, c, d)) in
  sb_b s' ++ sb_anc s'
  = s_levels (fst (step (mkstate (sb_b s ++ sb_anc s) (sb_img s)) (3, a, b, c, d))).
Proof.
  cbv zeta. unfold sib_step.
  change (13 / 10) with 1. change (13 mod 10) with 3.
  cbn [Z.eqb Pos.eqb].
  destruct (step (mkstate (sb_b s ++ sb_anc s) (sb_img s)) (3, a, b, c, d))
    as [st' out].
  cbn [fst sb_b sb_anc s_levels]. apply firstn_skipn.
Qed.

Theorem sib_rejuvenate_view (s : sib) :
  (let s' := fst (sib_step s (3, 1, 0, 0, 0)) in
   view_ok (sb_a s' ++ sb_anc s'))
  /\ (let s' := fst (sib_step s (13, 1, 0, 0, 0)) in
      view_ok (sb_b s' ++ sb_anc s')).
Proof.
  split; cbv zeta.
  - rewrite (sib_step_chain_a s 1 0 0 0).
    apply (proj2 (rejuvenate_child_is_view _)).
  - rewrite (sib_step_chain_b s 1 0 0 0).
    apply (proj2 (rejuvenate_child_is_view _)).
Qed.

Lemma Forall2_app_split {A B} (R : A -> B -> Prop) xs : forall xs' ys ys',
  length xs = length xs' ->
  Forall2 R (xs ++ ys) (xs' ++ ys') -> Forall2 R xs xs' /\ Forall2 R ys ys'.
Proof.
  induction xs as [|x xs IH]; intros [|x' xs'] ys ys' Hl H; simpl in *;
    try discriminate.
  - split; [constructor|exact H].
  - inversion H; subst. destruct (IH xs' ys ys') as [H1 H2]; [lia|assumption|].
    split; [constructor|]; assumption.
Qed.

Definition sib_inv (s : sib) : Prop :=
  Forall2 linv (sb_ga s ++ sb_ganc s) (sb_a s ++ sb_anc s)
  /\ Forall2 linv (sb_gb s ++ sb_ganc s) (sb_b s ++ sb_anc s)
  /\ length (sb_ga s) = length (sb_a s)
  /\ length (sb_gb s) = length (sb_b s).

Lemma Forall2_length' {A B} (R : A -> B -> Prop) xs ys :
  Forall2 R xs ys -> length xs = length ys.
Proof. induction 1; simpl; congruence. Qed.

Theorem sib_step_inv s op : sib_inv s -> sib_inv (fst (sib_step s op)).
Proof.
  intros [HA [HB [La Lb]]]. destruct op as [[[[tag a] b] c] d].
  unfold sib_step.
  destruct (tag mod 10 =? 7).
  { destruct (sb_b s) as [|x xs] eqn:Eb; cbn [fst]; [|repeat split; try rewrite Eb; assumption].
    destruct (sb_gb s); [|discriminate].
    unfold sib_inv; cbn. repeat split; assumption. }
  destruct (Forall2_app_split _ _ _ _ _ La HA) as [HA1 HA2].
  destruct (Forall2_app_split _ _ _ _ _ Lb HB) as [HB1 HB2].
  destruct (tag / 10 =? 0).
  - pose proof (step_inv (mkstate (sb_a s ++ sb_anc s) (sb_img s))
                         (sb_ga s ++ sb_ganc s) (tag mod 10, a, b, c, d) HA) as H.
    destruct (step (mkstate (sb_a s ++ sb_anc s) (sb_img s))
                   (tag mod 10, a, b, c, d)) as [st' out]. cbn [fst] in *.
    set (k := (length (s_levels st') - length (sb_anc s))%nat).
    destruct (Forall2_firstn_skipn _ _ _ k H) as [H1 H2].
    unfold sib_inv; cbn [sb_a sb_b sb_anc sb_ga sb_gb sb_ganc].
    repeat split.
    + rewrite !firstn_skipn. exact H.
    + apply Forall2_app; assumption.
    + eapply Forall2_length'; exact H1.
    + exact Lb.
  - pose proof (step_inv (mkstate (sb_b s ++ sb_anc s) (sb_img s))
                         (sb_gb s ++ sb_ganc s) (tag mod 10, a, b, c, d) HB) as H.
    destruct (step (mkstate (sb_b s ++ sb_anc s) (sb_img s))
                   (tag mod 10, a, b, c, d)) as [st' out]. cbn [fst] in *.
    set (k := (length (s_levels st') - length (sb_anc s))%nat).
    destruct (Forall2_firstn_skipn _ _ _ k H) as [H1 H2].
    unfold sib_inv; cbn [sb_a sb_b sb_anc sb_ga sb_gb sb_ganc].
    repeat split.
    + apply Forall2_app; assumption.
    + rewrite !firstn_skipn. exact H.
    + exact La.
    + eapply Forall2_length'; exact H1.
Qed.

Lemma sib_init_inv n cols : sib_inv (sib_init n cols).
Proof.
  unfold sib_inv, sib_init; cbn [sb_a sb_b sb_anc sb_ga sb_gb sb_ganc app].
  repeat split; try reflexivity; apply (init_inv n cols).
Qed.

(* For every root dataset and every history on two branches below shared
   ancestors (operations and refreshes through either branch in any order):
   on both chains the manual exclusions keep their meaning in root ids
   (every level satisfies [linv] for its tracked intent). *)
Theorem sib_history_inv n cols ops :
  sib_inv (fst (sib_run (sib_init n cols) ops)).
Proof.
  assert (G : forall s, sib_inv s -> sib_inv (fst (sib_run s ops))).
  { induction ops as [|o ops IH]; intros s H; [exact H|].
    cbn [sib_run]. pose proof (sib_step_inv s o H) as H1.
    destruct (sib_step s o) as [s1 o1]. cbn [fst] in H1.
    pose proof (IH s1 H1) as H2. destruct (sib_run s1 ops). exact H2. }
  apply G, sib_init_inv.
Qed.

Example ex_sib :
  let s := fst (sib_run (sib_init 8 ex_cols)
                  [ (6,0,0,0,0); (7,0,0,0,0); (6,0,0,0,0); (16,0,0,0,0);
                    (1,2,1,0,0); (11,2,3,0,0); (0,0,0,2,6); (3,0,0,0,0);
                    (13,0,0,0,0) ]) in
  (map (fun l => f_manual (l_filt l)) (sb_a s),
   map (fun l => f_manual (l_filt l)) (sb_b s),
   map (fun l => f_rids (l_filt l)) (sb_b s),
   map g_excl (sb_ga s), map g_excl (sb_gb s))
  = ([[true; true; true; true; true]], [[true; false; true; true; true]],
     [[2; 3; 4; 5; 6]], [[1]], [[3]]).
Proof. vm_compute. reflexivity. Qed.


(* ======================================================================== *)
(* 10. The lazy feature caches (`_events`, ChildScalar._array)              *)
(* ======================================================================== *)
(* [l_cache] is filled by reads at arbitrary moments and emptied only by
   apply_filter.  A chain is coherent when every cached array of a child is
   the value the feature had at the child's refresh and every child is a
   view of its parent: then a read at any level, cached or not, returns the
   parent's read restricted to the parent's filter. *)
Definition cache_ok (l : level) : Prop :=
  forall s d, nth s (l_cache l) None = Some d -> nth s (l_data l) None = Some d.

Fixpoint coh (ls : list level) : Prop :=
  match ls with
  | c :: ps => match ps with
               | p :: _ => cache_ok c /\ view_of c p /\ coh ps
               | [] => True
               end
  | [] => True
  end.

Lemma nth_repeat_none {A} s n : nth s (repeat (@None A) n) None = None.
Proof.
  revert s; induction n as [|n IH]; intros [|s]; simpl; try reflexivity. apply IH.
Qed.

Lemma fill_reads_ok reads rminv : forall data cache,
  (forall s d, nth s cache None = Some d -> nth s data None = Some d) ->
  forall s d, nth s (fill_reads reads rminv data cache) None = Some d ->
              nth s data None = Some d.
Proof.
  revert reads. intros reads data; revert reads.
  induction data as [|x data IH]; intros reads cache H s d Hn.
  - destruct cache; simpl in Hn; now apply H.
  - destruct cache as [|y cache]; [simpl in Hn; now apply H|].
    cbn [fill_reads] in Hn. destruct s as [|s].
    + simpl in *. destruct x as [xd|]; [|now apply (H 0%nat)].
      destruct (rminv || hd false reads); [exact Hn|now apply (H 0%nat)].
    + simpl in *. apply (IH (tl reads) cache); [|exact Hn].
      intros s' d' Hs'. exact (H (S s') d' Hs').
Qed.

Lemma fill_acc_ok acc : forall data cache,
  (forall s d, nth s cache None = Some d -> nth s data None = Some d) ->
  forall s d, nth s (fill_acc acc data cache) None = Some d ->
              nth s data None = Some d.
Proof.
  intros data; revert acc.
  induction data as [|x data IH]; intros acc cache H s d Hn.
  - destruct cache; simpl in Hn; now apply H.
  - destruct cache as [|y cache]; [simpl in Hn; now apply H|].
    cbn [fill_acc] in Hn. destruct s as [|s].
    + simpl in *. destruct y as [yd|]; [now apply (H 0%nat)|].
      destruct (hd false acc); [exact Hn|discriminate].
    + simpl in *. apply (IH (tl acc) cache); [|exact Hn].
      intros s' d' Hs'. exact (H (S s') d' Hs').
Qed.

(* apply_filter empties the cache; what Filter.update reads afterwards is
   what the refresh computed *)
Lemma filter_update_cache_ok l : cache_ok l -> cache_ok (filter_update l).
Proof.
  intros H s d Hn. unfold filter_update in Hn.
  cbn [l_cache l_data set_filt set_cache] in *.
  eapply fill_reads_ok; [exact H|exact Hn].
Qed.

Lemma child_finish_cache_ok c p : cache_ok (child_finish c p).
Proof.
  unfold child_finish. apply filter_update_cache_ok.
  intros s d Hn. cbn [l_cache] in Hn. now rewrite nth_repeat_none in Hn.
Qed.

Lemma new_child_cache_ok p : cache_ok (new_child p).
Proof.
  unfold new_child. apply filter_update_cache_ok.
  intros s d Hn. cbn [l_cache] in Hn. now rewrite nth_repeat_none in Hn.
Qed.

Lemma refresh_up_coh : forall ls, coh (refresh_up ls).
Proof.
  induction ls as [|c ps IH]; [exact I|].
  destruct ps as [|p ps']; [exact I|].
  rewrite refresh_up_cons2.
  remember (refresh_up (p :: ps')) as R eqn:E.
  destruct R as [|q qs]; [exact I|].
  split; [apply child_finish_cache_ok|].
  split; [apply child_finish_view|exact IH].
Qed.

Lemma propagate_coh : forall ls acc, coh ls -> coh (propagate acc ls).
Proof.
  induction ls as [|c ps IH]; intros acc H; [exact I|].
  destruct ps as [|p ps']; [exact I|].
  destruct H as [Hc [Hv H]].
  cbn [propagate]. cbn [propagate] in IH.
  split; [|split].
  - intros s d Hn. cbn [l_cache l_data set_cache] in *.
    eapply fill_acc_ok; [exact Hc|exact Hn].
  - exact Hv.
  - apply (IH _ H).
Qed.

Theorem refresh_coh ls : coh (refresh ls).
Proof. apply propagate_coh, refresh_up_coh. Qed.

Lemma read_cons2 c p ps s :
  read (c :: p :: ps) s =
  match nth s (l_cache c) None with
  | Some d => (Some d, c :: p :: ps)
  | None =>
      let '(v, ps1) := read (p :: ps) s in
      match v with
      | Some pd =>
          let d := select (f_all (l_filt p)) pd in
          (Some d, set_cache c (set_nth s (Some d) (l_cache c)) :: ps1)
      | None => (None, c :: ps1)
      end
  end.
Proof.
  change (read (c :: p :: ps) s) with
      (match nth s (l_cache c) None with
       | Some d => (Some d, c :: p :: ps)
       | None =>
           let '(v, ps1) := read (p :: ps) s in
           match v, p :: ps with
           | Some pd, p0 :: _ =>
               let d := select (f_all (l_filt p0)) pd in
               (Some d, set_cache c (set_nth s (Some d) (l_cache c)) :: ps1)
           | _, _ => (None, c :: ps1)
           end
       end).
  destruct (nth s (l_cache c) None); [reflexivity|].
  destruct (read (p :: ps) s) as [[v|] ps1]; reflexivity.
Qed.

Lemma view_nth c p s :
  view_of c p ->
  nth s (l_data c) None
  = option_map (select (f_all (l_filt p))) (nth s (l_data p) None).
Proof.
  intros [_ Hd]. rewrite Hd.
  change (@None col) with (option_map (@select fval (f_all (l_filt p))) None) at 1.
  apply (map_nth (option_map (@select fval (f_all (l_filt p))))).
Qed.

Lemma nth_set_nth_some {A} (l : list (option A)) i j v d :
  nth j (set_nth i (Some v) l) None = Some d ->
  (i = j /\ v = d) \/ nth j l None = Some d.
Proof.
  revert i j; induction l as [|x l IH]; intros [|i] [|j] H; simpl in *;
    try discriminate; auto.
  - injection H as <-. now left.
  - destruct (IH i j H) as [[-> E]|E]; auto.
Qed.

(* on a coherent chain a read returns the refresh-time value, whatever is
   or is not cached, and leaves the chain coherent *)
Theorem read_coh : forall ls s,
  coh ls ->
  match ls with
  | c :: _ => fst (read ls s) = nth s (l_data c) None
  | [] => True
  end /\ coh (snd (read ls s)).
Proof.
  induction ls as [|c ps IH]; intros s H; [split; exact I|].
  destruct ps as [|p ps'].
  - split; [reflexivity|exact I].
  - destruct H as [Hc [Hv H]].
    destruct (IH s H) as [IHv IHc].
    rewrite read_cons2.
    destruct (nth s (l_cache c) None) as [d|] eqn:En.
    + split; [cbn [fst]; symmetry; now apply Hc|].
      cbn [snd]. split; [exact Hc|split; assumption].
    + pose proof (read_core (p :: ps') s) as Hcore.
      destruct (read (p :: ps') s) as [v ps1] eqn:Er. cbn [fst snd] in *.
      inversion Hcore as [|p0 p1 ps0 ps1' Hp Hrest E1 E2]. clear Hcore.
      rewrite <- E2 in IHc.
      destruct Hp as [_ [PF [PL PD]]].
      assert (Hv1 : forall c', l_len c' = l_len c -> l_data c' = l_data c ->
                               view_of c' p1).
      { intros c' L D. destruct Hv as [V1 V2]. unfold view_of.
        now rewrite L, D, <- PF, <- PD. }
      rewrite (view_nth c p s Hv), <- IHv.
      destruct v as [pd|]; cbn [fst snd option_map].
      * split; [reflexivity|].
        split; [|split; [now apply Hv1|exact IHc]].
        intros s' d' Hn. cbn [l_cache l_data set_cache] in *.
        destruct (nth_set_nth_some _ _ _ _ _ Hn) as [[Es Ed]|Hn'];
          [|now apply Hc].
        subst s' d'. rewrite (view_nth c p s Hv), <- IHv. reflexivity.
      * split; [reflexivity|].
        split; [exact Hc|split; [now apply Hv1|exact IHc]].
Qed.

(* every suffix of a coherent chain is coherent *)
Lemma coh_skipn k : forall ls, coh ls -> coh (skipn k ls).
Proof.
  induction k as [|k IH]; intros ls H; [exact H|].
  destruct ls as [|c ps]; [exact I|]. simpl. apply IH.
  destruct ps; [exact I|]. destruct H as [_ [_ H]]. exact H.
Qed.

(* For every state (i.e. after any history) and right after rejuvenate of
   the youngest member: a read of any scalar feature on any member [c] with
   parent [p] -- through whatever the caches hold -- returns the parent's
   read restricted to the parent's filter, and any further reads keep that
   true (the chain stays coherent). *)
Theorem read_after_rejuvenate_is_view :
  forall (st : state) k c p anc s,
    let ls := s_levels (fst (step st (3, 1, 0, 0, 0))) in
    skipn k ls = c :: p :: anc ->
    fst (read (c :: p :: anc) s)
    = option_map (select (f_all (l_filt p))) (fst (read (p :: anc) s))
    /\ coh (snd (read (c :: p :: anc) s)).
Proof.
  intros st k c p anc s ls E.
  assert (Hc : coh ls) by (unfold ls; cbn; apply refresh_coh).
  pose proof (coh_skipn k ls Hc) as Hk. rewrite E in Hk.
  destruct (read_coh (c :: p :: anc) s Hk) as [V C].
  split; [|exact C].
  destruct Hk as [_ [Hv Hp]].
  destruct (read_coh (p :: anc) s Hp) as [Vp _].
  rewrite V, Vp. now apply view_nth.
Qed.

(* without the emptying of the cache this is false: a chain whose youngest
   member holds an old array is not coherent and reads it back *)
Example ex_stale_read :
  let ops := [ (6,0,0,0,0); (2,0,0,5,0); (3,1,0,0,0); (3,2,1,3,0);
               (2,0,0,9,0) ] in
  let st := fst (run (init 6 ex_cols) ops) in
  fst (read (s_levels st) 3) <> fst (read (s_levels (fst (step st (3,1,0,0,0)))) 3).
Proof. vm_compute. discriminate. Qed.


(* Documentation, not a property theorem (definitional: the model has no
   dtypes; the requested dtype reaches the output only): a read with an
   explicit dtype leaves the same state as a plain read.  The tie to the code
   is the harness' comparison of value and dtype of later plain reads. *)
Theorem cast_read_same_state st b c d :
  fst (step st (3, 2, b, c, d)) = fst (step st (3, 2, b, c, 0)).
Proof.
  unfold step. cbn [Z.eqb Pos.eqb].
  destruct (read_at (s_levels st) (pos_of (s_levels st) b) (Z.to_nat (c mod 5)))
    as [v ls']. reflexivity.
Qed.
