(* Proofs about Model/C04.v (hierarchy children). *)
From Coq Require Import ZArith List Bool Lia ZifyBool ZifyNat.
From Verif Require Import Model.C04.
Import ListNotations.
Open Scope Z_scope.

(* ======================================================================== *)
(* 1. select / where / index maps                                           *)
(* ======================================================================== *)
Lemma select_nil_r {A} (m : list bool) : select m (@nil A) = [].
Proof. destruct m as [|[] m]; reflexivity. Qed.

Lemma select_length {A B} (m : list bool) (xs : list A) (ys : list B) :
  length xs = length ys -> length (select m xs) = length (select m ys).
Proof.
  revert xs ys; induction m as [|b m IH]; intros xs ys H; [reflexivity|].
  destruct xs as [|x xs], ys as [|y ys]; simpl in *; try discriminate;
    [reflexivity|].
  destruct b; simpl; [f_equal|]; apply IH; lia.
Qed.

Lemma select_length_count {A} (m : list bool) (xs : list A) :
  length xs = length m -> length (select m xs) = count_true m.
Proof. intros H; unfold count_true; apply select_length; exact H. Qed.

Lemma select_map {A B} (g : A -> B) (m : list bool) (xs : list A) :
  select m (map g xs) = map g (select m xs).
Proof.
  revert xs; induction m as [|b m IH]; intros [|x xs]; simpl; try reflexivity.
  destruct b; simpl; now rewrite IH.
Qed.

Lemma select_In {A} (m : list bool) (xs : list A) (x : A) :
  In x (select m xs) -> In x xs.
Proof.
  revert xs; induction m as [|b m IH]; intros [|y xs] H; simpl in *;
    try contradiction.
  destruct b; simpl in H.
  - destruct H as [H|H]; [now left|right; now apply IH].
  - right; now apply IH.
Qed.

Lemma iota_length s n : length (iota s n) = n.
Proof. revert s; induction n as [|n IH]; intros s; simpl; [|rewrite IH]; reflexivity. Qed.

Lemma iota_map_succ s n : iota (s + 1) n = map (fun i => i + 1) (iota s n).
Proof.
  revert s; induction n as [|n IH]; intros s; simpl; [reflexivity|].
  now rewrite IH.
Qed.

Lemma iota_In s n x : In x (iota s n) <-> s <= x < s + Z.of_nat n.
Proof.
  revert s; induction n as [|n IH]; intros s; simpl.
  - split; [contradiction|lia].
  - rewrite IH. lia.
Qed.

(* xs[m] read through the index list np.where(m)[0] *)
Lemma select_as_where {A} (d : A) (m : list bool) (xs : list A) :
  (length m <= length xs)%nat ->
  select m xs = map (fun i => nth (Z.to_nat i) xs d) (where_ m).
Proof.
  unfold where_.
  revert xs; induction m as [|b m IH]; intros xs H; [reflexivity|].
  destruct xs as [|x xs]; [simpl in H; lia|].
  simpl in H.
  cbn [length iota select].
  replace (0 + 1) with 1 by lia.
  assert (Hs : map (fun i => nth (Z.to_nat i) (x :: xs) d)
                   (select m (iota 1 (length m)))
               = select m xs).
  { rewrite (IH xs) by lia.
    rewrite (iota_map_succ 0), select_map, map_map.
    apply map_ext_in; intros i Hi.
    apply select_In, iota_In in Hi.
    replace (Z.to_nat (i + 1)) with (S (Z.to_nat i)) by lia. reflexivity. }
  destruct b; cbn [map]; rewrite Hs; reflexivity.
Qed.

Lemma where_length m : length (where_ m) = count_true m.
Proof.
  unfold where_. apply select_length_count. apply iota_length.
Qed.

Lemma where_In m i : In i (where_ m) -> 0 <= i < Z.of_nat (length m).
Proof.
  unfold where_; intros H. apply select_In, iota_In in H. lia.
Qed.

Lemma take_idx_all (idx : list Z) :
  take_idx idx (iota 0 (length idx)) = Some idx.
Proof.
  (* generalised over a prefix already consumed *)
  assert (G : forall pre suf,
             take_idx (pre ++ suf) (iota (Z.of_nat (length pre)) (length suf))
             = Some suf).
  { intros pre suf; revert pre; induction suf as [|v suf IH]; intros pre;
      [reflexivity|].
    cbn [length iota take_idx].
    rewrite Nat2Z.id, nth_error_app2 by lia.
    replace (length pre - length pre)%nat with 0%nat by lia.
    cbn [nth_error].
    replace (pre ++ v :: suf) with ((pre ++ [v]) ++ suf)
      by (now rewrite <- app_assoc).
    replace (Z.of_nat (length pre) + 1) with (Z.of_nat (length (pre ++ [v])))
      by (rewrite app_length; simpl; lia).
    rewrite IH.
    destruct (0 <=? Z.of_nat (length pre)) eqn:E; [reflexivity|lia]. }
  exact (G [] idx).
Qed.

(* map_indices_child2parent of all child indices = np.where(parent mask) *)
Lemma c2p_all (p : level) :
  c2p p (iota 0 (count_true (f_all (l_filt p)))) = Some (where_ (f_all (l_filt p))).
Proof.
  unfold c2p. rewrite <- where_length. apply take_idx_all.
Qed.

(* ======================================================================== *)
(* 2. A refreshed chain: every child is the filtered view of its parent     *)
(* ======================================================================== *)
Definition view_of (c p : level) : Prop :=
  l_len c = Z.of_nat (count_true (f_all (l_filt p)))
  /\ l_data c = map (option_map (select (f_all (l_filt p)))) (l_data p).

(* youngest first *)
Fixpoint view_ok (ls : list level) : Prop :=
  match ls with
  | c :: ps => match ps with
               | p :: _ => view_of c p /\ view_ok ps
               | [] => True
               end
  | [] => True
  end.

Lemma filter_update_data l : l_data (filter_update l) = l_data l.
Proof. reflexivity. Qed.
Lemma filter_update_len l : l_len (filter_update l) = l_len l.
Proof. reflexivity. Qed.

Lemma child_finish_view c p : view_of (child_finish c p) p.
Proof. split; reflexivity. Qed.

Lemma new_child_view p : view_of (new_child p) p.
Proof. split; reflexivity. Qed.

Lemma refresh_up_cons2 c p ps :
  refresh_up (c :: p :: ps) =
  match refresh_up (p :: ps) with
  | q :: qs => child_finish (set_filt c (retrieve (l_filt c))) q :: q :: qs
  | [] => [set_filt c (retrieve (l_filt c))]
  end.
Proof. reflexivity. Qed.

Lemma refresh_up_length ls : length (refresh_up ls) = length ls.
Proof.
  induction ls as [|c ps IH]; [reflexivity|].
  destruct ps as [|p ps']; [reflexivity|].
  rewrite refresh_up_cons2.
  remember (refresh_up (p :: ps')) as R eqn:E.
  destruct R as [|q qs].
  - simpl in IH. discriminate.
  - simpl in *. lia.
Qed.

Theorem refresh_view : forall ls, view_ok (refresh_up ls).
Proof.
  induction ls as [|c ps IH]; [exact I|].
  destruct ps as [|p ps']; [exact I|].
  rewrite refresh_up_cons2.
  remember (refresh_up (p :: ps')) as R eqn:E.
  destruct R as [|q qs]; [exact I|].
  split; [apply child_finish_view | exact IH].
Qed.

Theorem grow_view : forall ls, view_ok (grow ls).
Proof.
  intros ls; unfold grow.
  pose proof (refresh_view ls) as H.
  destruct (refresh_up ls) as [|p ps]; [exact I|].
  split; [apply new_child_view | exact H].
Qed.

(* the observable statement: after rejuvenate of the youngest member, at any
   depth, the feature columns of every child are those of its parent
   restricted to the parent's filter, and len(child) is the number of
   selected events -- whatever happened before (any state [st]) *)
Theorem rejuvenate_child_is_view :
  forall st : state,
    view_ok (s_levels (fst (step st (3, 0, 0, 0, 0)))).
Proof. intros st; cbn. apply refresh_view. Qed.

(* composed over the depth: the columns of the youngest are the root's
   columns restricted successively by every ancestor's filter *)
Fixpoint compose_select {A} (anc : list level) (xs : list A) : list A :=
  match anc with
  | [] => xs
  | p :: anc' => select (f_all (l_filt p)) (compose_select anc' xs)
  end.

Lemma option_map_compose {A B C} (g : B -> C) (h : A -> B) (o : option A) :
  option_map g (option_map h o) = option_map (fun x => g (h x)) o.
Proof. destruct o; reflexivity. Qed.

Lemma last_cons {A} (x d : A) (l : list A) : last (x :: l) d = last l x.
Proof.
  revert x d; induction l as [|y l IH]; intros x d; [reflexivity|].
  change (last (x :: y :: l) d) with (last (y :: l) d).
  rewrite (IH y d). symmetry. apply IH.
Qed.

Theorem view_composes_to_root :
  forall anc c,
    view_ok (c :: anc) ->
    l_data c = map (option_map (compose_select anc)) (l_data (last anc c)).
Proof.
  induction anc as [|p anc' IH]; intros c Hv.
  - simpl. rewrite <- (map_id (l_data c)) at 1. apply map_ext.
    intros [x|]; reflexivity.
  - destruct Hv as [[_ Hd] Hv].
    rewrite Hd, (IH p Hv), last_cons, map_map.
    apply map_ext. intros o. rewrite option_map_compose. reflexivity.
Qed.

(* ======================================================================== *)
(* 3. One hierarchy filter through its life: manual exclusions in root ids   *)
(* ======================================================================== *)
Lemma memz_In x l : memz x l = true <-> In x l.
Proof.
  unfold memz. rewrite existsb_exists. split.
  - intros [y [Hy E]]. apply Z.eqb_eq in E. now subst.
  - intros H. exists x. split; [exact H|apply Z.eqb_refl].
Qed.

Lemma insert_uniq_In x y l : In y (insert_uniq x l) <-> y = x \/ In y l.
Proof.
  induction l as [|z l IH]; simpl.
  - intuition.
  - destruct (x <? z) eqn:E1; [simpl; intuition|].
    destruct (x =? z) eqn:E2.
    + apply Z.eqb_eq in E2; subst. simpl. intuition.
    + simpl. rewrite IH. intuition.
Qed.

Lemma sort_uniq_In y l : In y (sort_uniq l) <-> In y l.
Proof.
  induction l as [|x l IH]; simpl; [reflexivity|].
  rewrite insert_uniq_In, IH. intuition.
Qed.

Lemma all_true_nth m : all_true m = true ->
  forall j, nth j m true = true.
Proof.
  unfold all_true; intros H j.
  destruct (Nat.lt_ge_cases j (length m)) as [Hj|Hj].
  - rewrite forallb_forall in H. apply H. now apply nth_In.
  - now rewrite nth_overflow.
Qed.

(* membership in x[~manual] *)
Lemma select_negb_In (man : list bool) (rids : list Z) r :
  In r (select (map negb man) rids) <->
  exists j, (j < length man)%nat /\ (j < length rids)%nat
            /\ nth j man true = false /\ nth j rids (-1) = r.
Proof.
  revert rids; induction man as [|b man IH]; intros rids.
  - simpl. split; [contradiction|]. intros [j [H _]]. simpl in H. lia.
  - destruct rids as [|x rids].
    + simpl. split; [contradiction|]. intros [j [_ [H _]]]. simpl in H; lia.
    + cbn [map select].
      assert (Hrec : In r (select (map negb man) rids) <->
                     exists j, (S j < length (b :: man))%nat
                               /\ (S j < length (x :: rids))%nat
                               /\ nth (S j) (b :: man) true = false
                               /\ nth (S j) (x :: rids) (-1) = r).
      { rewrite IH. split; intros [j [H1 [H2 [H3 H4]]]]; exists j; simpl in *;
          repeat split; try lia; assumption. }
      destruct b; cbn [negb].
      * rewrite Hrec. split.
        -- intros [j H]. exists (S j). exact H.
        -- intros [[|j] [H1 [H2 [H3 H4]]]]; [simpl in H3; discriminate|].
           exists j. repeat split; assumption.
      * cbn [In]. rewrite Hrec. split.
        -- intros [H|[j H]]; [exists 0%nat; simpl; repeat split; try lia; assumption|].
           exists (S j). exact H.
        -- intros [[|j] [H1 [H2 [H3 H4]]]]; [left; exact H4|].
           right. exists j. repeat split; assumption.
Qed.

(* the three fields of a filter that carry the manual exclusions *)
Definition same_manual (f g : filt) : Prop :=
  f_manual g = f_manual f /\ f_mri g = f_mri f /\ f_rids g = f_rids f.

(* what one refresh does to the filter of a child: retrieve the root ids;
   then either keep the filter (parent unchanged) or create a new one over
   the new events [rids'] and re-apply the retrieved ids *)
Definition refreshed (f g : filt) : Prop :=
  same_manual (retrieve f) g
  \/ exists rids',
       f_rids g = rids' /\ NoDup rids'
       /\ f_mri g = f_mri (retrieve (retrieve f))
       /\ f_manual g = map (fun r => negb (memz r (f_mri g))) rids'.

(* the user writes filter.manual[i] = v *)
Definition edited (i : nat) (v : bool) (f g : filt) : Prop :=
  (i < length (f_manual f))%nat
  /\ f_manual g = set_nth i v (f_manual f)
  /\ f_mri g = f_mri f /\ f_rids g = f_rids f.

(* J: every event of the set E (root ids) is excluded: in filter.manual when
   it is visible, in the stored root ids when it is hidden *)
Definition keeps (E : Z -> Prop) (f : filt) : Prop :=
  length (f_manual f) = length (f_rids f)
  /\ NoDup (f_rids f)
  /\ (forall j, (j < length (f_rids f))%nat -> E (nth j (f_rids f) (-1)) ->
                nth j (f_manual f) true = false)
  /\ (forall r, E r -> ~ In r (f_rids f) -> In r (f_mri f)).

(* K: nothing outside of the set V is excluded or stored *)
Definition only (V : Z -> Prop) (f : filt) : Prop :=
  length (f_manual f) = length (f_rids f)
  /\ (forall j, (j < length (f_rids f))%nat ->
                nth j (f_manual f) true = false -> V (nth j (f_rids f) (-1)))
  /\ (forall r, In r (f_mri f) -> V r).

Lemma retrieve_rids f : f_rids (retrieve f) = f_rids f.
Proof. unfold retrieve; destruct (all_true (f_manual f)); reflexivity. Qed.
Lemma retrieve_manual f : f_manual (retrieve f) = f_manual f.
Proof. unfold retrieve; destruct (all_true (f_manual f)); reflexivity. Qed.

Lemma retrieve_mri_In f r :
  In r (f_mri (retrieve f)) <->
  if all_true (f_manual f) then In r (f_mri f)
  else In r (select (map negb (f_manual f)) (f_rids f))
       \/ (In r (f_mri f) /\ ~ In r (f_rids f)).
Proof.
  unfold retrieve. destruct (all_true (f_manual f)); [reflexivity|].
  cbn [f_mri]. rewrite sort_uniq_In, in_app_iff, filter_In.
  rewrite negb_true_iff, <- not_true_iff_false, memz_In. reflexivity.
Qed.

(* after retrieve_manual_indices every event of E is in the stored ids *)
Lemma keeps_retrieve_all E f :
  keeps E f -> forall r, E r -> In r (f_mri (retrieve f)).
Proof.
  intros [Hlen [Hnd [J1 J2]]] r Hr.
  rewrite retrieve_mri_In.
  destruct (all_true (f_manual f)) eqn:Hall.
  - apply J2; [exact Hr|]. intros Hin.
    destruct (In_nth _ _ (-1) Hin) as [j [Hj Hn]].
    pose proof (J1 j Hj) as H. rewrite Hn in H. specialize (H Hr).
    rewrite (all_true_nth _ Hall j) in H. discriminate.
  - destruct (in_dec Z.eq_dec r (f_rids f)) as [Hin|Hnin].
    + left. destruct (In_nth _ _ (-1) Hin) as [j [Hj Hn]].
      apply select_negb_In. exists j. repeat split; try lia; try assumption.
      apply J1; [exact Hj|now rewrite Hn].
    + right. split; [now apply J2|exact Hnin].
Qed.

Lemma keeps_retrieve E f : keeps E f -> keeps E (retrieve f).
Proof.
  intros HJ. pose proof (keeps_retrieve_all E f HJ) as Hall.
  destruct HJ as [Hlen [Hnd [J1 J2]]].
  unfold keeps. rewrite retrieve_rids, retrieve_manual.
  repeat split; [exact Hlen|exact Hnd|exact J1|].
  intros r Hr _. now apply Hall.
Qed.

Lemma keeps_same E f g : same_manual f g -> keeps E f -> keeps E g.
Proof.
  intros [H1 [H2 H3]] HJ. unfold keeps. rewrite H1, H2, H3. exact HJ.
Qed.

Theorem keeps_refreshed E f g : refreshed f g -> keeps E f -> keeps E g.
Proof.
  intros [Hs|[rids' [Hr [Hnd' [Hm Hman]]]]] HJ.
  - eapply keeps_same; [exact Hs|]. now apply keeps_retrieve.
  - assert (Hall : forall r, E r -> In r (f_mri g)).
    { intros r HEr. rewrite Hm.
      apply (keeps_retrieve_all E (retrieve f)); [|exact HEr].
      now apply keeps_retrieve. }
    unfold keeps. rewrite Hman, Hr, map_length.
    repeat split; [exact Hnd'| |].
    + intros j Hj HE.
      rewrite (nth_indep _ true (negb (memz (-1) (f_mri g))))
        by (rewrite map_length; exact Hj).
      rewrite (map_nth (fun r => negb (memz r (f_mri g)))).
      apply negb_false_iff, memz_In, Hall, HE.
    + intros r HEr _. now apply Hall.
Qed.

Lemma nth_set_nth_eq {A} (l : list A) i v d :
  (i < length l)%nat -> nth i (set_nth i v l) d = v.
Proof.
  revert i; induction l as [|x l IH]; intros [|i] H; simpl in *; try lia;
    [reflexivity|]. apply IH; lia.
Qed.

Lemma nth_set_nth_neq {A} (l : list A) i j v d :
  i <> j -> nth j (set_nth i v l) d = nth j l d.
Proof.
  revert i j; induction l as [|x l IH]; intros [|i] [|j] H; simpl;
    try reflexivity; try congruence.
  apply IH; congruence.
Qed.

Lemma set_nth_length {A} (l : list A) i v : length (set_nth i v l) = length l.
Proof.
  revert i; induction l as [|x l IH]; intros [|i]; simpl; try reflexivity.
  now rewrite IH.
Qed.

(* filter.manual[i] = False adds the event at position i to the set *)
Theorem keeps_exclude E f g i :
  edited i false f g -> keeps E f ->
  keeps (fun r => E r \/ r = nth i (f_rids f) (-1)) g.
Proof.
  intros [Hi [Hman [Hm Hr]]] [Hlen [Hnd [J1 J2]]].
  unfold keeps. rewrite Hman, Hm, Hr, set_nth_length.
  repeat split; [exact Hlen|exact Hnd| |].
  - intros j Hj HE.
    destruct (Nat.eq_dec i j) as [->|Hne]; [apply nth_set_nth_eq; lia|].
    rewrite nth_set_nth_neq by exact Hne.
    destruct HE as [HE|Heq]; [now apply J1|].
    exfalso. apply Hne. symmetry.
    apply (proj1 (NoDup_nth (f_rids f) (-1)) Hnd); [exact Hj|lia|exact Heq].
  - intros r [HE|Heq] Hnin; [now apply J2|].
    exfalso. apply Hnin. subst r. apply nth_In. lia.
Qed.

(* filter.manual[i] = True removes it; everything else stays excluded *)
Theorem keeps_include E f g i :
  edited i true f g -> keeps E f ->
  keeps (fun r => E r /\ r <> nth i (f_rids f) (-1)) g.
Proof.
  intros [Hi [Hman [Hm Hr]]] [Hlen [Hnd [J1 J2]]].
  unfold keeps. rewrite Hman, Hm, Hr, set_nth_length.
  repeat split; [exact Hlen|exact Hnd| |].
  - intros j Hj [HE Hne].
    destruct (Nat.eq_dec i j) as [->|Hij]; [now elim Hne|].
    rewrite nth_set_nth_neq by exact Hij. now apply J1.
  - intros r [HE _] Hnin. now apply J2.
Qed.

(* anything that leaves manual / stored ids / root ids alone *)
Theorem keeps_untouched E f g : same_manual f g -> keeps E f -> keeps E g.
Proof. exact (keeps_same E f g). Qed.

(* ---- the converse: nothing else gets excluded ---------------------------- *)
Lemma only_retrieve V f : only V f -> only V (retrieve f).
Proof.
  intros [Hlen [K1 K2]]. unfold only.
  rewrite retrieve_rids, retrieve_manual.
  repeat split; [exact Hlen|exact K1|].
  intros r Hin. rewrite retrieve_mri_In in Hin.
  destruct (all_true (f_manual f)); [now apply K2|].
  destruct Hin as [Hin|[Hin _]]; [|now apply K2].
  apply select_negb_In in Hin. destruct Hin as [j [_ [Hj [Hf Hn]]]].
  subst r. now apply K1.
Qed.

Lemma only_same V f g : same_manual f g -> only V f -> only V g.
Proof.
  intros [H1 [H2 H3]] HK. unfold only. rewrite H1, H2, H3. exact HK.
Qed.

Theorem only_refreshed V f g : refreshed f g -> only V f -> only V g.
Proof.
  intros [Hs|[rids' [Hr [Hnd' [Hm Hman]]]]] HK.
  - eapply only_same; [exact Hs|]. now apply only_retrieve.
  - assert (Hsub : forall r, In r (f_mri g) -> V r).
    { intros r Hin. rewrite Hm in Hin.
      destruct (only_retrieve V _ (only_retrieve V f HK)) as [_ [_ K2]].
      now apply K2. }
    unfold only. rewrite Hman, Hr, map_length.
    repeat split; [|exact Hsub].
    intros j Hj Hf.
    rewrite (nth_indep _ true (negb (memz (-1) (f_mri g)))) in Hf
      by (rewrite map_length; exact Hj).
    rewrite (map_nth (fun r => negb (memz r (f_mri g)))) in Hf.
    apply negb_false_iff, memz_In in Hf. now apply Hsub.
Qed.

Theorem only_edit V f g i v :
  edited i v f g -> only V f ->
  only (fun r => V r \/ (v = false /\ r = nth i (f_rids f) (-1))) g.
Proof.
  intros [Hi [Hman [Hm Hr]]] [Hlen [K1 K2]].
  unfold only. rewrite Hman, Hm, Hr, set_nth_length.
  repeat split; [exact Hlen| |].
  - intros j Hj Hf.
    destruct (Nat.eq_dec i j) as [->|Hne].
    + rewrite nth_set_nth_eq in Hf by lia. subst v. right. now split.
    + rewrite nth_set_nth_neq in Hf by exact Hne. left. now apply K1.
  - intros r Hin. left. now apply K2.
Qed.
